import Fabio.Props.C01
import Fabio.Props.C14
import Fabio.Lemmas.C01Compose
import Fabio.Model.C01Compose
/-!
C01, phase 2 — composition of the per-property models.

The parameter `cmds : Instance → List Str` of the C01 model (`routecmd.build`) is instantiated with C14's model of
the repaired `build`; the parameter `build : Str → Option T` of the `watchBackend` step machine is instantiated
with `loadTable` (`route.Parse` of `Model/Parse.lean` followed by `route.NewTable` of `Model/Route.lean`).

* `svcText_eq_config`            — what `Watch` sends (`watchOnce keyPair …`, joined by newlines) is C14's `config` of
                                   the instances that pass the health rule and the join.
* `svcText_loads`                — that text always loads (C14 `no_poisoning`), for every registry.
* `routed_iff`                   — an advertising catalog instance is among them iff it is `Eligible`
                                   (has a service check, `HealthyAt` over the unfiltered checks).
* `table_sound`                  — every target of the service table is what some routing tag of some *eligible*
                                   instance asks for (no hypothesis on expressibility: hostile registrations included).
* `table_complete`               — every expressible routing tag of an eligible instance has its target
                                   (whatever the other registrations look like: an inexpressible one costs only itself).
* `table_iff_healthy`            — the headline: target under (host, path) ⇔ some eligible instance offers it.
* `inexpressible_contributes_nothing` — a registration none of whose routing tags is expressible emits no command.
* `operator_on_top`, `operator_on_top_loads` — `loadTable (svc ++ "\n" ++ man)` = the operator's parsed commands applied,
                                   in order, by the specification machine to the service table.
* `quiescent_composed`, `quiescent_iff_healthy` — `quiescent_table` with `build := loadTable`.
* `unhealthy_absent_after_composed` — `unhealthy_absent_after` with `build := loadTable`.

Registry well-formedness (`WellFormed`, explicit hypotheses — what a Consul registry provides):
`byName`  the catalog answer for a name holds entries of that name;
`tags`    the health checks of an instance carry the instance's tags (`ServiceTags`);
(Until round 4 a third hypothesis `trimmed` — no white space in front of the prefix of a routing tag — was needed:
`routecmd.build` trims a tag before it tests the prefix, `checksWithTagPrefix` did not, so for a tag like
`" urlprefix-foo.com/x"` the filter dropped the instance's checks although `build` would emit its route. Running that
excluded point on the real code showed the property failing — defect D27, repaired in `/repo`; the model's
`hasTagPrefix` trims and the hypothesis is gone.)
-/
namespace Fabio.Props.C01Compose
open Fabio Fabio.Model.C01 Fabio.Model.C01Compose Fabio.Props.C01 Fabio.Lemmas.C01Compose
open Fabio.Model.Route (Env RouteDef Table Target Err hasPrefix)
open Fabio.Model.C05Spec (abs key newTarget isDup specApply specRun specEmpty Spec)
open Fabio.Model.C14 (Reg Cfg Intent intents routeTags build wantDef expressibleB denotes commands named)
open Fabio.Model.Parse (parse loadTable ParseFloat LoadErr trimSpace)
open Fabio.Lemmas.C14 (core)

section
variable (env : Env) (pf : ParseFloat) (cfg : Cfg) (st : List Str) (strict : Bool)
variable (checks : List Check) (catalog : Str → List Instance)

/-- (`cfg` is kept as a parameter although no field mentions it since the `trimmed` hypothesis was discharged in
round 4: the statements of the theorems below and of `Props/System.lean` keep their shape) -/
structure WellFormed (cfg : Cfg) (checks : List Check) (catalog : Str → List Instance) : Prop where
  byName : ∀ name, ∀ i ∈ catalog name, i.serviceName = name
  tags : ∀ c ∈ checks, ∀ name, ∀ i ∈ catalog name, c.node = i.node → c.serviceID = i.serviceID → c.tags = i.tags

/-- a catalog instance that the English rule admits: it is registered under its name, has a service check
(carrying its service name) and is healthy under the configured rule, evaluated on the unfiltered checks -/
def Eligible (i : Instance) : Prop :=
  i.serviceName ≠ [] ∧ i ∈ catalog i.serviceName ∧
  (∃ c ∈ checks, c.serviceName = i.serviceName ∧ c.node = i.node ∧ c.serviceID = i.serviceID ∧
    isServiceCheck c = true) ∧
  HealthyAt checks st strict i.node i.serviceID

/-- the identity `addTarget` uses for a target: service, URL, fixed weight, tags -/
def SameTarget (a b : Target) : Prop :=
  a.service = b.service ∧ a.url = b.url ∧ a.fixedWeight = b.fixedWeight ∧ a.tags = b.tags

/-- instance `i` advertises (host `h`, path `p`) with target `x`: one of its routing tags means a `route add`
whose source is (h, p) and whose target is `x` (service, URL, fixed weight, tags) -/
def Offers (i : Instance) (h p : Str) (x : Target) : Prop :=
  ∃ it ∈ intents cfg (regOf i), ∃ d u, wantDef pf it = some d ∧ env.normURL d.dst = some u ∧
    key d.src = (h, p) ∧ SameTarget x (newTarget d u)

/-! ### the service text is C14's `config` of the routed instances -/

theorem mem_routed (i : Instance) :
    i ∈ routed cfg st strict checks catalog ↔
      ∃ name, i ∈ joined keyPair (passingOf cfg st strict checks) catalog name := by
  unfold routed
  rw [List.mem_flatMap]
  constructor
  · rintro ⟨name, _, h⟩; exact ⟨name, h⟩
  · rintro ⟨name, h⟩
    refine ⟨name, ?_, h⟩
    obtain ⟨_, _, c, hc, hn, _⟩ := (joined_iff keyPair instance_key_injective _ catalog name i).1 h
    exact (mem_serviceNames _ name).2 ⟨c, hc, hn⟩

theorem routed_named (hn : ∀ name, ∀ i ∈ catalog name, i.serviceName = name) :
    ∀ i ∈ routed cfg st strict checks catalog, i.serviceName ≠ [] := by
  intro i hi
  obtain ⟨name, h⟩ := (mem_routed cfg st strict checks catalog i).1 hi
  obtain ⟨hne, hcat, _⟩ := (joined_iff keyPair instance_key_injective _ catalog name i).1 h
  rw [hn name i hcat]; exact hne

theorem svcText_eq_config (hn : ∀ name, ∀ i ∈ catalog name, i.serviceName = name) :
    svcText env pf cfg st strict checks catalog =
      Fabio.Model.C14.config env pf cfg ((routed cfg st strict checks catalog).map regOf) := by
  unfold svcText svcLines watchOnce makeConfigLines Fabio.Model.C14.config Fabio.Model.C14.configText commands
  rw [joinLines_eq, sortDesc_eq]
  have hnamed : named ((routed cfg st strict checks catalog).map regOf) =
      (routed cfg st strict checks catalog).map regOf := by
    unfold named
    rw [List.filter_eq_self]
    intro r hr
    obtain ⟨i, hi, rfl⟩ := List.mem_map.1 hr
    have := routed_named cfg st strict checks catalog hn i hi
    cases hs : i.serviceName with
    | nil => exact absurd hs this
    | cons a b => simp [regOf, hs]
  rw [hnamed, List.flatMap_map]
  unfold routed
  rw [List.flatMap_assoc]
  rfl

/-- the text `Watch` sends always loads — for every registry, hostile registrations included -/
theorem svcText_loads (hn : ∀ name, ∀ i ∈ catalog name, i.serviceName = name) :
    ∃ t, loadTable env pf (svcText env pf cfg st strict checks catalog) = .ok t := by
  rw [svcText_eq_config env pf cfg st strict checks catalog hn]
  obtain ⟨t, ht, _⟩ := Fabio.Props.C14.no_poisoning env pf cfg ((routed cfg st strict checks catalog).map regOf)
  exact ⟨t, ht⟩

/-! ### which instances are routed -/

/-- an instance with a routing tag is "tagged" in the sense the prefix filter needs: all its checks carry a
tag with the prefix -/
theorem tagged_of_intent (wf : WellFormed cfg checks catalog) (name : Str) (i : Instance) (hi : i ∈ catalog name)
    (it : Intent) (hit : it ∈ intents cfg (regOf i)) :
    ∀ c ∈ checks, c.node = i.node → c.serviceID = i.serviceID → hasTagPrefix cfg.pfx c = true := by
  obtain ⟨_, _, tag, htag, _⟩ := Fabio.Props.C14.intent_of_registration hit
  unfold routeTags at htag
  obtain ⟨hmem, hpre⟩ := List.mem_filter.1 htag
  obtain ⟨t, ht, rfl⟩ := List.mem_map.1 hmem
  have hraw : cfg.pfx.isPrefixOf (trimSpace t) = true := hpre
  intro c hc h1 h2
  unfold hasTagPrefix
  rw [wf.tags c hc name i hi h1 h2, List.any_eq_true]
  exact ⟨t, ht, hraw⟩

/-- **which instances reach `routecmd.build`**: an advertising catalog instance is routed iff it is eligible -/
theorem routed_iff (wf : WellFormed cfg checks catalog) (i : Instance)
    (it : Intent) (hit : it ∈ intents cfg (regOf i)) :
    i ∈ routed cfg st strict checks catalog ↔ Eligible st strict checks catalog i := by
  rw [mem_routed]
  constructor
  · rintro ⟨name, h⟩
    have hcat := ((joined_iff keyPair instance_key_injective _ catalog name i).1 h).2.1
    have hT := tagged_of_intent cfg checks catalog wf name i hcat it hit
    have hname := wf.byName name i hcat
    obtain ⟨h1, h2, h3, h4⟩ := (instance_routed_iff cfg.pfx checks st strict catalog name i hT).1 h
    subst hname
    exact ⟨h1, h2, h3, h4⟩
  · rintro ⟨h1, h2, h3, h4⟩
    have hT := tagged_of_intent cfg checks catalog wf _ i h2 it hit
    exact ⟨i.serviceName, (instance_routed_iff cfg.pfx checks st strict catalog _ i hT).2 ⟨h1, h2, h3, h4⟩⟩

/-! ### the service table -/

theorem isDup_iff (ts : List Target) (x : Target) : isDup ts x = true ↔ ∃ y ∈ ts, SameTarget y x := by
  unfold isDup SameTarget
  simp [List.any_eq_true, and_assoc]

theorem sameTarget_of_core {a b : Target} (h : core a = core b) : SameTarget a b := by
  unfold core at h
  injection h with h1 h2 h3 h4 h5 h6
  exact ⟨h1, h4, h5, h2⟩

/-- **soundness of the service table** (no hypothesis on expressibility — holds with hostile registrations in the
catalog): every target of the table built from the service text is what a routing tag of an *eligible* instance
asks for — source (host, path), service, URL, fixed weight, tags and options. -/
theorem table_sound (wf : WellFormed cfg checks catalog) (t : Table)
    (hload : loadTable env pf (svcText env pf cfg st strict checks catalog) = .ok t) :
    ∀ h p y, y ∈ abs t h p →
      ∃ i, Eligible st strict checks catalog i ∧
        ∃ it ∈ intents cfg (regOf i), ∃ d u, wantDef pf it = some d ∧ env.normURL d.dst = some u ∧
          key d.src = (h, p) ∧ core y = core (newTarget d u) := by
  rw [svcText_eq_config env pf cfg st strict checks catalog wf.byName] at hload
  obtain ⟨t', ht', _, hasked⟩ :=
    Fabio.Props.C14.no_poisoning env pf cfg ((routed cfg st strict checks catalog).map regOf)
  rw [ht'] at hload
  cases hload
  intro h p y hy
  obtain ⟨r, hr, it, hit, d, u, hw, hu, hk, hc⟩ := hasked h p y hy
  unfold named at hr
  obtain ⟨i, hi, rfl⟩ := List.mem_map.1 (List.mem_filter.1 hr).1
  exact ⟨i, (routed_iff cfg st strict checks catalog wf i it hit).1 hi, it, hit, d, u, hw, hu, hk, hc⟩

/-- **completeness of the service table**: every expressible routing tag of an eligible instance has its target
in the table. Only *this* tag has to be expressible: whatever else is registered — inexpressible tags of the
same instance, hostile registrations — costs this route nothing. -/
theorem table_complete (wf : WellFormed cfg checks catalog) (t : Table)
    (hload : loadTable env pf (svcText env pf cfg st strict checks catalog) = .ok t)
    (i : Instance) (he : Eligible st strict checks catalog i)
    (it : Intent) (hit : it ∈ intents cfg (regOf i)) (hx : expressibleB env pf it = true) :
    ∃ d u, wantDef pf it = some d ∧ env.normURL d.dst = some u ∧
      ∃ y ∈ abs t (key d.src).1 (key d.src).2, SameTarget y (newTarget d u) := by
  rw [svcText_eq_config env pf cfg st strict checks catalog wf.byName] at hload
  obtain ⟨t', ht', hpres, _⟩ :=
    Fabio.Props.C14.no_poisoning env pf cfg ((routed cfg st strict checks catalog).map regOf)
  rw [ht'] at hload
  cases hload
  have hi := (routed_iff cfg st strict checks catalog wf i it hit).2 he
  have hr : regOf i ∈ named ((routed cfg st strict checks catalog).map regOf) := by
    unfold named
    refine List.mem_filter.2 ⟨List.mem_map.2 ⟨i, hi, rfl⟩, ?_⟩
    have := he.1
    cases hs : i.serviceName with
    | nil => exact absurd hs this
    | cons a b => simp [regOf, hs]
  obtain ⟨d, u, hw, hu, hd⟩ := hpres (regOf i) hr it hit hx
  exact ⟨d, u, hw, hu, (isDup_iff _ _).1 hd⟩

/-- **table_iff_healthy** (DESIGN §7 C01). For a well-formed registry whose routing tags are all expressible
in the command language (C14's decidable `expressibleB`), the table built from the service text has a target
under (host `h`, path `p`) — identified as `addTarget` identifies targets: service, URL, fixed weight, tags —
if and only if some catalog instance advertises that prefix with that target and is eligible: registered,
with a service check, and `HealthyAt` under the configured rule. -/
theorem table_iff_healthy (wf : WellFormed cfg checks catalog) (t : Table)
    (hload : loadTable env pf (svcText env pf cfg st strict checks catalog) = .ok t)
    (hexp : ∀ name, ∀ i ∈ catalog name, ∀ it ∈ intents cfg (regOf i), expressibleB env pf it = true)
    (h p : Str) (x : Target) :
    (∃ y ∈ abs t h p, SameTarget y x) ↔
      ∃ i, Eligible st strict checks catalog i ∧ Offers env pf cfg i h p x := by
  constructor
  · rintro ⟨y, hy, hyx⟩
    obtain ⟨i, he, it, hit, d, u, hw, hu, hk, hc⟩ :=
      table_sound env pf cfg st strict checks catalog wf t hload h p y hy
    have hyn := sameTarget_of_core hc
    refine ⟨i, he, it, hit, d, u, hw, hu, hk, ?_⟩
    exact ⟨hyx.1.symm.trans hyn.1, hyx.2.1.symm.trans hyn.2.1, hyx.2.2.1.symm.trans hyn.2.2.1,
      hyx.2.2.2.symm.trans hyn.2.2.2⟩
  · rintro ⟨i, he, it, hit, d, u, hw, hu, hk, hxn⟩
    obtain ⟨d', u', hw', hu', y, hy, hyn⟩ :=
      table_complete env pf cfg st strict checks catalog wf t hload i he it hit
        (hexp _ i he.2.1 it hit)
    rw [hw] at hw'
    cases hw'
    rw [hu] at hu'
    cases hu'
    rw [hk] at hy
    exact ⟨y, hy, hyn.1.trans hxn.1.symm, hyn.2.1.trans hxn.2.1.symm, hyn.2.2.1.trans hxn.2.2.1.symm,
      hyn.2.2.2.trans hxn.2.2.2.symm⟩

/-- what happens to an inexpressible registration: if none of its routing tags passes `build`'s validation it
emits no command at all, so the text is the text of the other routed instances (C14
`inexpressible_dropped_alone`); by `table_complete` the routes of the others are unaffected. -/
theorem inexpressible_contributes_nothing (i : Instance) (pre post : List Instance)
    (h : ∀ it ∈ intents cfg (regOf i), denotes env pf (Fabio.Model.C14.render it) it = false) :
    cmdsOf env pf cfg i = [] ∧
    Fabio.Model.C14.config env pf cfg ((pre ++ i :: post).map regOf) =
      Fabio.Model.C14.config env pf cfg ((pre ++ post).map regOf) := by
  constructor
  · unfold cmdsOf build
    rw [List.filter_eq_nil_iff.2 (fun it hit => by simp [h it hit])]
    rfl
  · unfold Fabio.Model.C14.config
    rw [List.map_append, List.map_cons, List.map_append,
      Fabio.Props.C14.inexpressible_dropped_alone (pre.map regOf) (post.map regOf) h]

/-! ### failing catalog lookups -/

/-- **fault_never_admits_unhealthy.** In a round in which arbitrary catalog lookups fail, every command of the
text the monitor emits is a command `routecmd.build` produces for an instance that is `Eligible` — registered,
with a service check, `HealthyAt` — in the registry state that text was built from. A failing lookup can only
remove a service's commands (`fault_only_removes`), never keep or add one for an instance that is unhealthy in the
observed state. -/
theorem fault_never_admits_unhealthy (wf : WellFormed cfg checks catalog) (fails : Str → Bool) (l : Str)
    (h : l ∈ svcLinesF env pf cfg st strict checks catalog fails) :
    ∃ i, Eligible st strict checks catalog i ∧ l ∈ cmdsOf env pf cfg i ∧
      l ∈ svcLines env pf cfg st strict checks catalog := by
  have hall := fault_only_removes fails keyPair (cmdsOf env pf cfg) cfg.pfx st strict checks catalog l h
  obtain ⟨name, i, _, hj, hl⟩ :=
    fault_lines_from_joined fails keyPair (cmdsOf env pf cfg) cfg.pfx st strict checks catalog l h
  obtain ⟨it, hit, _, _⟩ := Fabio.Props.C14.mem_build.1 hl
  have hi : i ∈ routed cfg st strict checks catalog := (mem_routed cfg st strict checks catalog i).2 ⟨name, hj⟩
  exact ⟨i, (routed_iff cfg st strict checks catalog wf i it hit).1 hi, hl, hall⟩

/-- … for every history: a history of rounds is a list of (registry state, failing lookups); `ServiceMonitor`
keeps no state between rounds (fact `service_monitor_stateless`), so each emitted text depends on its own round
only, and in every round of every history the statement above holds. -/
theorem fault_never_admits_unhealthy_history
    (rounds : List (List Check × (Str → List Instance) × (Str → Bool)))
    (hwf : ∀ r ∈ rounds, WellFormed cfg r.1 r.2.1) :
    ∀ r ∈ rounds, ∀ l ∈ svcLinesF env pf cfg st strict r.1 r.2.1 r.2.2,
      ∃ i, Eligible st strict r.1 r.2.1 i ∧ l ∈ cmdsOf env pf cfg i :=
  fun r hr l hl =>
    let ⟨i, he, hc, _⟩ := fault_never_admits_unhealthy env pf cfg st strict r.1 r.2.1 (hwf r hr) r.2.2 l hl
    ⟨i, he, hc⟩

/-! ### operator commands on top -/

theorem loadTable_ok_iff (s : Str) (t : Table) :
    loadTable env pf s = .ok t ↔ ∃ ds, parse pf s = .ok ds ∧ Fabio.Model.Route.newTable env ds = .ok t := by
  unfold loadTable
  cases parse pf s with
  | error e => simp
  | ok ds =>
    simp only
    cases hn : Fabio.Model.Route.newTable env ds with
    | error e => simp [hn]
    | ok t' => simp [hn]

/-- the specification machine run on `dS ++ dM` is `dM` run on the result of `dS` -/
theorem abs_newTable_append (dS dM : List RouteDef) (tS : Table)
    (hnS : Fabio.Model.Route.newTable env dS = .ok tS) :
    (Fabio.Model.Route.newTable env (dS ++ dM)).map abs = dM.foldlM (specApply env) (abs tS) := by
  have r1 := Fabio.Lemmas.C05Main.refines_spec (env := env) dS
  have r2 := Fabio.Lemmas.C05Main.refines_spec (env := env) (dS ++ dM)
  rw [hnS] at r1
  unfold specRun at r1 r2
  rw [List.foldlM_append, ← r1] at r2
  rw [r2]
  rfl

/-- The table loaded from `svc ++ "\n" ++ man` is the table of `svc` with the operator's parsed commands applied on
top, in order — stated on what a table routes, `abs : (host, path) ↦ targets`, with the specification machine of
C05 (`specApply`; `Props/C05.refines_spec`). Direction "loads ⇒": the manual text parses and its commands apply. -/
theorem operator_on_top (S M : Str) (tS t : Table) (hS : loadTable env pf S = .ok tS)
    (h : loadTable env pf (concatCfg S M) = .ok t) :
    ∃ dsM, parse pf M = .ok dsM ∧ dsM.foldlM (specApply env) (abs tS) = .ok (abs t) := by
  obtain ⟨dS, hpS, hnS⟩ := (loadTable_ok_iff env pf S tS).1 hS
  obtain ⟨ds, hp, hn⟩ := (loadTable_ok_iff env pf _ t).1 h
  obtain ⟨da, dM, h1, h2, rfl⟩ := (parse_concat_iff pf S M ds).1 hp
  rw [hpS] at h1
  cases h1
  refine ⟨dM, h2, ?_⟩
  rw [← abs_newTable_append env dS dM tS hnS, hn]
  rfl

/-- Direction "⇐ loads": if the manual text parses and its commands apply to the service table, the combined
text loads and routes exactly what the commands leave. -/
theorem operator_on_top_loads (S M : Str) (tS : Table) (hS : loadTable env pf S = .ok tS)
    (dsM : List RouteDef) (S' : Spec) (hM : parse pf M = .ok dsM)
    (hf : dsM.foldlM (specApply env) (abs tS) = .ok S') :
    ∃ t, loadTable env pf (concatCfg S M) = .ok t ∧ abs t = S' := by
  obtain ⟨dS, hpS, hnS⟩ := (loadTable_ok_iff env pf S tS).1 hS
  have hp := (parse_concat_iff pf S M (dS ++ dsM)).2 ⟨dS, dsM, hpS, hM, rfl⟩
  have hr := abs_newTable_append env dS dsM tS hnS
  rw [hf] at hr
  cases hn : Fabio.Model.Route.newTable env (dS ++ dsM) with
  | error e => rw [hn] at hr; cases hr
  | ok t' =>
    rw [hn] at hr
    simp only [Except.map, Except.ok.injEq] at hr
    exact ⟨t', (loadTable_ok_iff env pf _ t').2 ⟨_, hp, hn⟩, hr⟩

/-! ### the step machine with `build := loadTable` -/

theorem loadOpt_some (s : Str) (t : Table) : loadOpt env pf s = some t ↔ loadTable env pf s = .ok t := by
  unfold loadOpt
  cases loadTable env pf s <;> simp [Except.toOption]

/-- **Quiescence, composed.** Whatever happened before (any finite interleaving of service and manual events,
texts that failed to load included): once the last service event carries the text of registry state R and the
last manual event carries `M`, and `M` parses to commands that apply to the service table of R, the active table
routes exactly what those commands leave of the service table. -/
theorem quiescent_composed
    (es : List Event) (M : Str) (tS : Table) (dsM : List RouteDef) (S' : Spec) (hne : es ≠ [])
    (hsvc : (lastSvc es).getD [] = svcText env pf cfg st strict checks catalog)
    (hman : (lastMan es).getD [] = M)
    (hS : loadTable env pf (svcText env pf cfg st strict checks catalog) = .ok tS)
    (hM : parse pf M = .ok dsM) (hf : dsM.foldlM (specApply env) (abs tS) = .ok S') :
    abs (run (loadOpt env pf) (init ([] : Table)) es).active = S' := by
  obtain ⟨t, ht, habs⟩ := operator_on_top_loads env pf _ M tS hS dsM S' hM hf
  have := quiescent_table (loadOpt env pf) (init ([] : Table)) es _ M t (init_inv _ _) hne hsvc hman
    ((loadOpt_some env pf _ t).2 ht)
  rw [this]
  exact habs

/-- … in particular, with no operator commands (an empty manual text, or comments only), the active table has a
target iff an eligible instance offers it: "once the registry's view stops changing the active routing table has a
target for an instance and prefix iff the instance advertises the prefix and is healthy". -/
theorem quiescent_iff_healthy (wf : WellFormed cfg checks catalog)
    (hexp : ∀ name, ∀ i ∈ catalog name, ∀ it ∈ intents cfg (regOf i), expressibleB env pf it = true)
    (es : List Event) (M : Str) (hne : es ≠ [])
    (hsvc : (lastSvc es).getD [] = svcText env pf cfg st strict checks catalog)
    (hman : (lastMan es).getD [] = M) (hM : parse pf M = .ok [])
    (h p : Str) (x : Target) :
    (∃ y ∈ abs (run (loadOpt env pf) (init ([] : Table)) es).active h p, SameTarget y x) ↔
      ∃ i, Eligible st strict checks catalog i ∧ Offers env pf cfg i h p x := by
  obtain ⟨tS, hS⟩ := svcText_loads env pf cfg st strict checks catalog wf.byName
  have := quiescent_composed env pf cfg st strict checks catalog es M tS [] (abs tS) hne hsvc hman hS hM rfl
  rw [this]
  exact table_iff_healthy env pf cfg st strict checks catalog wf tS hS hexp h p x

/-- **An instance that has become unhealthy is absent from every table installed after that state was
observed, composed.** Every table installed by an iteration at or after the one that consumed the service text of
registry state R, up to the next service event, is: the operator's commands (of the manual text current at that
iteration) applied on top of the service table of R — and the service table of R has targets only for eligible
(healthy) instances. So an instance that is unhealthy in R contributes no target; whatever the table holds beyond
the healthy instances' routes was put there by an operator command. -/
theorem unhealthy_absent_after_composed (wf : WellFormed cfg checks catalog)
    (s0 : State Table) (before later : List Event) (e : Event) (t : Table)
    (hlater : lastSvc (before ++ [Event.svc (svcText env pf cfg st strict checks catalog)] ++ later ++ [e]) =
      some (svcText env pf cfg st strict checks catalog))
    (hinst : (stepOut (loadOpt env pf) (run (loadOpt env pf) s0
      (before ++ [Event.svc (svcText env pf cfg st strict checks catalog)] ++ later)) e).2 = some t) :
    ∃ tS, loadTable env pf (svcText env pf cfg st strict checks catalog) = .ok tS ∧
      (∃ dsM : List RouteDef, dsM.foldlM (specApply env) (abs tS) = .ok (abs t)) ∧
      (∀ h p y, y ∈ abs tS h p → ∃ i, Eligible st strict checks catalog i ∧
        ∃ it ∈ intents cfg (regOf i), ∃ d u, wantDef pf it = some d ∧ env.normURL d.dst = some u ∧
          key d.src = (h, p) ∧ core y = core (newTarget d u)) := by
  obtain ⟨tS, hS⟩ := svcText_loads env pf cfg st strict checks catalog wf.byName
  refine ⟨tS, hS, ?_, table_sound env pf cfg st strict checks catalog wf tS hS⟩
  apply unhealthy_absent_after (loadOpt env pf)
    (fun t => ∃ dsM : List RouteDef, dsM.foldlM (specApply env) (abs tS) = .ok (abs t)) s0 before later e
    (svcText env pf cfg st strict checks catalog) t ?_ hlater hinst
  intro M t' hb
  obtain ⟨dsM, _, hf⟩ := operator_on_top env pf _ M tS t' hS ((loadOpt_some env pf _ t').1 hb)
  exact ⟨dsM, hf⟩

end

/-! ### non-vacuity: a concrete two-node registry -/

open Fabio.Props.C14 (envW pfW cfgW)

def ck (node id sid name status : String) (tags : List String) : Check :=
  { node := node.toList, checkID := id.toList, serviceID := sid.toList, serviceName := name.toList,
    status := status.toList, tags := tags.map String.toList }

def inst (node sid name addr : String) (port : Nat) (tags : List String) : Instance :=
  { node := node.toList, serviceID := sid.toList, serviceName := name.toList, address := addr.toList,
    port := port, tags := tags.map String.toList }

/-- two nodes; `web` runs on both, the instance on `n2` has a critical check; `n2`'s agent is alive -/
def checksW : List Check :=
  [ck "n1" "serfHealth" "" "" "passing" [],
   ck "n1" "service:web-1" "web-1" "web" "passing" ["urlprefix-foo.com/", "v1"],
   ck "n2" "serfHealth" "" "" "passing" [],
   ck "n2" "service:web-2" "web-2" "web" "critical" ["urlprefix-foo.com/", "v1"]]

def instsW : List Instance :=
  [inst "n1" "web-1" "web" "10.0.0.1" 8000 ["urlprefix-foo.com/", "v1"],
   inst "n2" "web-2" "web" "10.0.0.2" 8000 ["urlprefix-foo.com/", "v1"]]

def catalogW (name : Str) : List Instance := instsW.filter (fun i => i.serviceName == name)

def stW : List Str := ["passing".toList]

theorem catalogW_sub (name : Str) (i : Instance) (h : i ∈ catalogW name) : i ∈ instsW ∧ i.serviceName = name := by
  unfold catalogW at h
  obtain ⟨h1, h2⟩ := List.mem_filter.1 h
  exact ⟨h1, by simpa using h2⟩

/-- the hypotheses of the composition theorems hold of the example registry -/
theorem wellFormedW : WellFormed cfgW checksW catalogW where
  byName := fun name i h => (catalogW_sub name i h).2
  tags := by
    have h : ∀ c ∈ checksW, ∀ i ∈ instsW, c.node = i.node → c.serviceID = i.serviceID → c.tags = i.tags := by decide
    intro c hc name i hi
    exact h c hc i (catalogW_sub name i hi).1

example : ∀ i ∈ instsW, ∀ it ∈ intents cfgW (regOf i), expressibleB envW pfW it = true := by decide

/-- only the healthy instance is routed, and the text `Watch` sends is its one command -/
example : routed cfgW stW false checksW catalogW = [inst "n1" "web-1" "web" "10.0.0.1" 8000 ["urlprefix-foo.com/", "v1"]] := by
  decide

example : svcText envW pfW cfgW stW false checksW catalogW =
    "route add web foo.com/ http://10.0.0.1:8000/ tags \"v1\"".toList := by decide

/-- a failing lookup of `web` removes the service's command; a failing lookup of another name changes nothing -/
example : svcLinesF envW pfW cfgW stW false checksW catalogW (fun n => n == "web".toList) = [] ∧
    svcLinesF envW pfW cfgW stW false checksW catalogW (fun n => n == "db".toList) =
      svcLines envW pfW cfgW stW false checksW catalogW := by decide

/-- the table built from it has exactly that target under (foo.com, /) -/
example : (loadTable envW pfW (svcText envW pfW cfgW stW false checksW catalogW)).toOption.map
      (fun t => (abs t "foo.com".toList "/".toList).map (fun y => (y.service, y.url))) =
    some [("web".toList, "http://10.0.0.1:8000/".toList)] := by decide

/-- an operator command on top: `route del web` in the manual text removes the service's route -/
example : (loadTable envW pfW (concatCfg (svcText envW pfW cfgW stW false checksW catalogW) "route del web".toList)).toOption.map
      (fun t => (abs t "foo.com".toList "/".toList).length) = some 0 := by decide

/-- the step machine on a history with a stale service text, a manual text that does not parse, and then the
texts of the final state -/
example : ((run (loadOpt envW pfW) (init ([] : Table))
      [.svc "route add old /old http://1.1.1.1:1/".toList, .man "rubbish".toList,
       .svc (svcText envW pfW cfgW stW false checksW catalogW), .man []]).active.map
        (fun kv => (kv.1, kv.2.map (fun r => (r.path, r.targets.map (·.url)))))) =
    [("foo.com".toList, [("/".toList, ["http://10.0.0.1:8000/".toList])])] := by decide

end Fabio.Props.C01Compose
