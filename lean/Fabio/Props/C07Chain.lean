import Fabio.Lemmas.C07Chain
import Fabio.Props.C17
/-!
C07, second sentence, over the handler chain `ServeHTTP` builds (`Fabio.Model.C07Chain`): for every reply of the
upstream (any informational responses, any status, any header lines, any chunking of the body), every request
header block, every configured content-type expression, sniffer, compressor and pool content:

* the status the client sees is the upstream's, with or without the gzip handler (`status_is_upstreams`);
* without the gzip handler the reply is shown as it is (`reply_without_gzip_handler`);
* with it, the layer compresses exactly when `gzipEngages` (`gzip_engages`), and when it does not the client sees
  status, header lines (plus the handler's `Vary` line) and bytes of the upstream (`passes_unless_engaged`);
* in particular a reply whose first Content-Encoding line names a coding — any value — is never touched
  (`encoded_reply_untouched_partial`; the excluded point — an empty Content-Encoding line in front of the real one — is
  the witness `encoded_reply_lost_first_line_empty`: the code compresses on top and relabels);
* when it does compress, the bytes decode to the upstream's, the label is `gzip`, there is no stale
  Content-Length and every other line is the upstream's (`engaged_reply_decodes`, round-trip law of the compressor
  as a hypothesis).

The gzip layer is C17's model (`C17.serve`) and the statements are corollaries of C17's theorems on the call
sequence the reverse proxy produces (`Reply.script`), so nothing is modelled twice.

No-route page: after any sequence of deliveries by the registry the page served is the last one delivered, the
empty page included (`page_is_last_delivered`).
-/
namespace Fabio.Props.C07Chain
open Fabio.Model Fabio.Model.C07Chain Fabio.Lemmas.C07Chain

variable {Z : Type}

/-! ### the sentences -/

/-- **reply_without_gzip_handler.** `proxy.gzip.contenttype` not configured: status, header lines and bytes are
the upstream's. -/
theorem reply_without_gzip_handler (head dfl : Bool) (req : Hdr) (pool : List Z) (r : Reply) :
    respond (none : Option (C17.Cfg Z)) head dfl req pool r =
      { status := r.status, hdr := r.headersOn [], body := r.chunks.flatten } := rfl

/-- **gzip_engages.** The gzip layer compresses the replayed reply exactly when `gzipEngages` says so. -/
theorem gzip_engages (C : C17.Cfg Z) (head dfl : Bool) (req : Hdr) (pool : List Z) (r : Reply) (hw : r.wellFormed) :
    (C17.serve C head dfl req [] pool r.script).compressed = gzipEngages C.typeOk head req r := by
  rw [Fabio.Props.C17.compress_iff_shouldCompress]
  unfold C17.shouldCompress gzipEngages
  rw [show C17.hadd [] C17.hVary C17.hAcceptEncoding = varyHdr from rfl, script_decision C false varyHdr r hw]
  simp [Bool.and_assoc]

/-- **compressed_only_for_accepting_client.** "… body bytes unchanged", the one licensed exception made precise: whenever
the gzip layer compresses a reply, the client's `Accept-Encoding` value makes gzip acceptable in the specification's
own reading of RFC 9110 §12.5.3 (`C07Spec.gzipAcceptable`: some element names `gzip` with a weight that is not one of
the RFC's zero literals; a wildcard counts only when `gzip` is not named at all) — the predicate the driver evaluates
on the real proxy's replies. For every request header block, reply, expression, compressor and pool. In particular
a client that refuses gzip explicitly (`gzip;q=0`) never gets a gzip-coded reply, whatever else the list carries. -/
theorem compressed_only_for_accepting_client (C : C17.Cfg Z) (head dfl : Bool) (req : Hdr) (pool : List Z) (r : Reply)
    (hw : r.wellFormed) (hc : (C17.serve C head dfl req [] pool r.script).compressed = true) :
    C07Spec.gzipAcceptable (C17.hget req C17.hAcceptEncoding) = true := by
  rw [gzip_engages C head dfl req pool r hw] at hc
  unfold gzipEngages at hc
  simp only [Bool.and_eq_true] at hc
  have ha : C17.acceptsGzip req = true := hc.1.1.1.1
  unfold C17.acceptsGzip at ha
  split at ha
  · cases ha
  · exact acceptsL_acceptableL _ ha

/-- **passes_unless_engaged.** Whenever the layer does not compress — the client does not accept gzip, HEAD, a
status without body, a content type the expression does not match, or a reply that is already encoded — the
client is shown the upstream's status, the upstream's header lines behind the handler's `Vary` line, and the
upstream's bytes. -/
theorem passes_unless_engaged (C : C17.Cfg Z) (head dfl : Bool) (req : Hdr) (pool : List Z) (r : Reply)
    (hw : r.wellFormed) (hne : gzipEngages C.typeOk head req r = false) :
    respond (some C) head dfl req pool r = r.asIs varyHdr := by
  have hc : (C17.serve C head dfl req [] pool r.script).compressed = false := by
    rw [gzip_engages C head dfl req pool r hw]; exact hne
  unfold respond
  simp only
  rw [Fabio.Props.C17.otherwise_identical C head dfl req [] pool r.script hc]
  exact bare_replay C _ varyHdr r hw

/-- the refusal spelled out: `gzip` named with weight zero only (and nowhere with another weight) ⇒ never compressed -/
theorem refused_client_gets_upstream_bytes (C : C17.Cfg Z) (head dfl : Bool) (req : Hdr) (pool : List Z) (r : Reply)
    (hw : r.wellFormed) (href : C07Spec.gzipAcceptable (C17.hget req C17.hAcceptEncoding) = false) :
    respond (some C) head dfl req pool r = r.asIs varyHdr := by
  apply passes_unless_engaged C head dfl req pool r hw
  cases he : gzipEngages C.typeOk head req r with
  | false => rfl
  | true =>
    have := compressed_only_for_accepting_client C head dfl req pool r hw (by rw [gzip_engages C head dfl req pool r hw]; exact he)
    rw [this] at href; cases href

/- The full statement — "a reply that carries a Content-Encoding of its own (some Content-Encoding line is
non-empty) goes through as it is" — does NOT hold for the code: `isCompressable` asks `header.Get`, i.e. the FIRST
line only.

  theorem encoded_reply_untouched (C) (head dfl) (req) (pool) (r) (hw : r.wellFormed)
      (henc : ∃ v ∈ (C17.hraw (r.headersOn varyHdr) C17.hContentEncoding).getD [], v ≠ "") :
      respond (some C) head dfl req pool r = r.asIs varyHdr

Proved below with the forced hypothesis (the first line is non-empty); the excluded point is the witness
`encoded_reply_lost_first_line_empty`, replayed on the real code from the built-in corpus of `c07.body` (recorded
finding `content-encoding-first-line-empty`). -/

/-- **encoded_reply_untouched_partial.** A reply whose (first) Content-Encoding line names a coding — `br`,
`deflate`, `identity`, `gzip`, anything non-empty — goes through as it is: for every configured expression, every
request (whatever it accepts), every status. -/
theorem encoded_reply_untouched_partial (C : C17.Cfg Z) (head dfl : Bool) (req : Hdr) (pool : List Z) (r : Reply)
    (hw : r.wellFormed) (henc : C17.hget (r.headersOn varyHdr) C17.hContentEncoding ≠ "") :
    respond (some C) head dfl req pool r = r.asIs varyHdr := by
  apply passes_unless_engaged C head dfl req pool r hw
  unfold gzipEngages
  have : (C17.hget (r.headersOn varyHdr) C17.hContentEncoding == "") = false := by simpa using henc
  simp [this]

/-- **status_is_upstreams.** With or without the gzip handler, compressed or not, the status the client sees is
the upstream's final status. -/
theorem status_is_upstreams (gz : Option (C17.Cfg Z)) (head dfl : Bool) (req : Hdr) (pool : List Z) (r : Reply)
    (hw : r.wellFormed) : (respond gz head dfl req pool r).status = r.status := by
  cases gz with
  | none => rfl
  | some C =>
    unfold respond
    simp only
    rw [Fabio.Props.C17.status_preserved]
    unfold C17.serveBare
    simp only
    rw [show C17.hadd [] C17.hVary C17.hAcceptEncoding = varyHdr from rfl, bare_replay C _ varyHdr r hw]
    rfl

/-- **engaged_reply_decodes.** When the layer compresses: the status is the upstream's, the label is
`Content-Encoding: gzip`, there is no Content-Length, every other header line is the upstream's (behind `Vary`),
and — given the compressor's round-trip law — the bytes decode to exactly the upstream's. -/
theorem engaged_reply_decodes (C : C17.Cfg Z) (hrt : C.comp.RoundTrip) (head dfl : Bool) (req : Hdr) (pool : List Z)
    (r : Reply) (hw : r.wellFormed) (he : gzipEngages C.typeOk head req r = true) :
    (respond (some C) head dfl req pool r).status = r.status ∧
    C17.hget (respond (some C) head dfl req pool r).hdr C17.hContentEncoding = C17.encGzip ∧
    C17.hhasRaw (respond (some C) head dfl req pool r).hdr C17.hContentLength = false ∧
    (∀ k, k ≠ C17.hContentLength → k ≠ C17.hContentEncoding →
      C17.hraw (respond (some C) head dfl req pool r).hdr k = C17.hraw (r.headersOn varyHdr) k) ∧
    C.comp.decode (respond (some C) head dfl req pool r).body = some r.chunks.flatten := by
  have hc : (C17.serve C head dfl req [] pool r.script).compressed = true := by
    rw [gzip_engages C head dfl req pool r hw]; exact he
  obtain ⟨h, c, hd, hs, hce, hcl, hrest, hdec⟩ :=
    Fabio.Props.C17.when_compressed C hrt head dfl req [] pool r.script hc
  rw [show C17.hadd [] C17.hVary C17.hAcceptEncoding = varyHdr from rfl, script_decision C false varyHdr r hw] at hd
  simp only [Option.some.injEq, Prod.mk.injEq] at hd
  obtain ⟨rfl, rfl⟩ := hd
  rw [writesOf_script] at hdec
  exact ⟨hs, hce, hcl, hrest, hdec⟩

/-! ### the no-route page -/

theorem watchStep_get (s : Store) (v : String) : (watchStep s v).get = v := by
  unfold watchStep
  split
  · next h => exact h.symm
  · rfl

/-- **page_is_last_delivered.** After any sequence of deliveries the page `GetHTML` returns is the last one
delivered (the initial one when nothing was delivered): the watcher's "unchanged, skip" test loses nothing, and an
empty page replaces a non-empty one like any other. -/
theorem page_is_last_delivered (s : Store) (vs : List String) :
    (watch s vs).get = vs.getLast?.getD s.get := by
  induction vs generalizing s with
  | nil => rfl
  | cons v vs ih =>
    show (watch (watchStep s v) vs).get = _
    rw [ih, watchStep_get, List.getLast?_cons]
    rfl

/-- `SetHTML` stores what it is given, `""` too -/
theorem set_then_get (s : Store) (h : String) : (s.set h).get = h := rfl

/-! ### non-vacuity -/

/-- a toy compressor (identity coding) and a `^text/` expression: enough to run the chain -/
def demoCfg : C17.Cfg Unit :=
  { typeOk := fun s => "text/".toList.isPrefixOf s.toList, sniff := fun _ => "application/octet-stream",
    comp := { reset := id, write := fun z b => (z, b), close := fun z => (z, []), decode := some }, fresh := () }

def demoReq : Hdr := [("Accept-Encoding", ["br, gzip"])]

/-- `103` then `200`, `text/plain`, brotli-encoded by the upstream, two chunks -/
def demoEncoded : Reply :=
  { interim := [103], status := 200, hdr := [("Content-Type", "text/plain"), ("Content-Encoding", "br"), ("X-A", "1")],
    chunks := [[1, 2], [3]] }

def demoPlain : Reply := { demoEncoded with hdr := [("Content-Type", "text/plain"), ("Content-Length", "3"), ("X-A", "1")] }

example : demoEncoded.wellFormed ∧ demoPlain.wellFormed := by decide

/-- the encoded reply: hypotheses of `encoded_reply_untouched` hold, and the client sees `br` and the three bytes -/
example : C17.hget (demoEncoded.headersOn varyHdr) C17.hContentEncoding ≠ "" ∧
    gzipEngages demoCfg.typeOk false demoReq demoEncoded = false ∧
    respond (some demoCfg) false true demoReq [] demoEncoded =
      { status := 200, body := [1, 2, 3],
        hdr := [("Vary", ["Accept-Encoding"]), ("Content-Type", ["text/plain"]), ("Content-Encoding", ["br"]), ("X-A", ["1"])] } := by
  decide +kernel

/-- the same reply without a coding of its own is compressed: label `gzip`, no Content-Length -/
example : gzipEngages demoCfg.typeOk false demoReq demoPlain = true ∧
    (respond (some demoCfg) false true demoReq [] demoPlain).hdr =
      [("Vary", ["Accept-Encoding"]), ("Content-Type", ["text/plain"]), ("X-A", ["1"]), ("Content-Encoding", ["gzip"])] := by
  decide +kernel

/-- non-vacuity of `compressed_only_for_accepting_client` / `refused_client_gets_upstream_bytes`: the walk of the code
and the specification's reading on lists where they could part — a wildcard in front of a refusal, a refusal in front
of a wildcard, a second `q`, `ParseFloat` zeros outside the RFC grammar (not compressing is always allowed) -/
example : C07Spec.gzipAcceptable "br, gzip" = true ∧ C07Spec.gzipAcceptable "*, gzip;q=0" = false ∧
    C07Spec.gzipAcceptable "gzip;q=0, *" = false ∧ C07Spec.gzipAcceptable "*;q=0.1" = true ∧
    C07Spec.gzipAcceptable "GZIP;q=0, gzip ; x=1; q=0.5" = true ∧ C07Spec.gzipAcceptable "gzip;q=1;q=0" = true ∧
    C07Spec.gzipAcceptable "identity" = false ∧ C07Spec.gzipAcceptable "" = false ∧
    C17.acceptsGzip [("Accept-Encoding", ["*, gzip;q=0"])] = false ∧ C17.acceptsGzip [("Accept-Encoding", ["gzip;q=0e0"])] = false ∧
    C07Spec.gzipAcceptable "gzip;q=0e0" = true ∧
    (respond (some demoCfg) false true [("Accept-Encoding", ["*, gzip;q=0"])] [] demoPlain).body = [1, 2, 3] := by
  decide +kernel

/-- **encoded_reply_lost_first_line_empty** (negation witness for the hypothesis of
`encoded_reply_untouched_partial`): `Content-Encoding:` (empty) followed by `Content-Encoding: br` — the layer
engages, and the client is shown the single label `gzip`: the upstream's `br` is gone. -/
theorem encoded_reply_lost_first_line_empty :
    let r : Reply := { demoEncoded with hdr := [("Content-Type", "text/plain"), ("Content-Encoding", ""), ("Content-Encoding", "br")] }
    r.wellFormed ∧ (∃ v ∈ (C17.hraw (r.headersOn varyHdr) C17.hContentEncoding).getD [], v ≠ "") ∧
    gzipEngages demoCfg.typeOk false demoReq r = true ∧
    respond (some demoCfg) false true demoReq [] r ≠ r.asIs varyHdr ∧
    C17.hraw (respond (some demoCfg) false true demoReq [] r).hdr C17.hContentEncoding = some ["gzip"] := by
  decide +kernel

/-- not for a HEAD request, a client that refuses gzip, or a 304 -/
example : gzipEngages demoCfg.typeOk true demoReq demoPlain = false ∧
    gzipEngages demoCfg.typeOk false [("Accept-Encoding", ["gzip;q=0"])] demoPlain = false ∧
    gzipEngages demoCfg.typeOk false demoReq { demoPlain with status := 304 } = false := by decide +kernel

example : demoCfg.comp.RoundTrip := by
  intro z chunks
  show some _ = some _
  congr 1
  induction chunks with
  | nil => rfl
  | cons b bs ih =>
    simp only [C17.Comp.feed, demoCfg, id, List.flatten_cons, List.append_nil] at ih ⊢
    rw [ih]

/-- the watcher: a page, the same page again, then the operator removes it -/
example : (watch {} ["<h1>no route</h1>", "<h1>no route</h1>", ""]).get = "" ∧
    (watch {} ["a", "b"]).get = "b" ∧ (watch { html := "x" } []).get = "x" := by decide

end Fabio.Props.C07Chain
