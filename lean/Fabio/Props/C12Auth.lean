import Fabio.Model.C12Parse
import Fabio.Model.C12Auth
import Fabio.Lemmas.C12Auth
import Fabio.Props.C12
import Fabio.Props.C12Serve
/-!
C12, round 4 — the request as the gate sees it: the credentials are what `Request.BasicAuth` reads out of the first
`Authorization` line (scheme word, base64, first colon), the forwarded addresses are all `X-Forwarded-For` lines of
the same request, and the sentences of the property are stated end to end over `serveReq`: option *texts* of the
looked-up target, peer text, header list → what is attempted towards which upstream.

All statements hold for every `Parsers`, every scheme table, every lookup sequence, every request.
-/
namespace Fabio.Props.C12Auth
open Fabio Fabio.Model.C12 Fabio.Lemmas.C12

/-! ### base64 and `Request.BasicAuth` -/

/-- `DecodeString(EncodeToString(b)) = b` for every byte string (any length, any padding case). -/
theorem b64_roundtrip (bs : List Nat) (h : ∀ b ∈ bs, b < 256) : b64DecodeString (b64Enc bs) = some bs :=
  b64DecodeString_b64Enc bs h

/-- What a conforming client sends for a pair — `Basic ` + base64 of `user:password`, the user name without a colon,
the password whatever it is (empty, with colons) — is read back by `BasicAuth` as exactly that pair. -/
theorem basic_header_roundtrip (u p : List Char) (hu : ∀ c ∈ u, c ≠ ':') (hb : ∀ c ∈ u ++ ':' :: p, c.toNat < 256) :
    parseBasicAuth (basicHeader u p) = some (u, p) := by
  have hbytes : ∀ b ∈ charsToBytes (u ++ ':' :: p), b < 256 := by
    intro b hb'
    simp only [charsToBytes, List.mem_map] at hb'
    obtain ⟨c, hc, rfl⟩ := hb'
    exact hb c hc
  have hlen : ¬ (basicHeader u p).length < 6 := by simp [basicHeader]
  have htake : (basicHeader u p).take 6 = "Basic ".toList := by simp [basicHeader]
  have hdrop : (basicHeader u p).drop 6 = b64Enc (charsToBytes (u ++ ':' :: p)) := by simp [basicHeader]
  have hlow : lowerL "Basic ".toList = ['b', 'a', 's', 'i', 'c', ' '] := by decide
  simp only [parseBasicAuth, hlen, htake, hdrop, hlow, ↓reduceIte, ne_eq, not_true_eq_false,
    b64DecodeString_b64Enc _ hbytes, bytesToChars_charsToBytes]
  exact cut_append ':' u p hu

/-- Conversely, a pair read out of a header is determined by the header: the decoded payload is `user:password`
with the *first* colon as separator — there is exactly one reading. -/
theorem parseBasicAuth_sound (a u p : List Char) (h : parseBasicAuth a = some (u, p)) :
    6 ≤ a.length ∧ lowerL (a.take 6) = "basic ".toList ∧
    ∃ bs, b64DecodeString (a.drop 6) = some bs ∧ bytesToChars bs = u ++ ':' :: p ∧ ∀ c ∈ u, c ≠ ':' := by
  unfold parseBasicAuth at h
  split at h
  · cases h
  · rename_i hl
    split at h
    · cases h
    · rename_i hp
      cases hd : b64DecodeString (a.drop 6) with
      | none => simp [hd] at h
      | some bs =>
        simp only [hd] at h
        obtain ⟨h1, h2⟩ := cut_some ':' _ u p h
        refine ⟨by omega, ?_, bs, rfl, h1, h2⟩
        simpa using hp

/-- No `Authorization` line, or one that is not a Basic header (other scheme word, broken base64, payload without
colon): no credentials. -/
theorem no_header_no_credentials (r : Req) (h : headerValues hAuthorization r.headers = []) : basicAuthOf r = none := by
  simp [basicAuthOf, headerGet, h]

/-! ### The decision reads the first `Authorization` line and nothing else -/

/-- Two requests with the same first `Authorization` line are judged alike by every route: the method (`OPTIONS`,
`CONNECT`, …), every other header (`Origin`, `Access-Control-Request-Method`, `Upgrade`, `X-Forwarded-For`, further
`Authorization` lines, …) and their order have no influence. -/
theorem auth_reads_only_authorization (scheme : List Char) (schemes : List (List Char × List (List Char × List Char)))
    (r r' : Req) (h : headerGet hAuthorization r.headers = headerGet hAuthorization r'.headers) :
    authorizedReq scheme schemes r = authorizedReq scheme schemes r' := by
  simp [authorizedReq, basicAuthOf, h]

/-- A request is authorized only if the route names no scheme, or names a registered scheme and the request's first
`Authorization` line is a Basic header whose pair the scheme's htpasswd file stores. In particular an unknown scheme
rejects everything and so do missing credentials. -/
theorem accepted_needs_stored_pair (scheme : List Char) (schemes : List (List Char × List (List Char × List Char)))
    (r : Req) (h : authorizedReq scheme schemes r = true) :
    scheme = [] ∨ ∃ file u p, schemes.lookup scheme = some file ∧
      parseBasicAuth (headerGet hAuthorization r.headers) = some (u, p) ∧ file.lookup u = some p := by
  by_cases hs : scheme = []
  · exact Or.inl hs
  · right
    cases hk : schemes.lookup scheme with
    | none => rw [authorizedReq, Props.C12.unknown_scheme_rejects scheme schemes _ hs hk] at h; cases h
    | some file =>
      rw [authorizedReq, Props.C12.known_scheme_decides scheme schemes _ file hs hk] at h
      obtain ⟨u, p, hc, hf⟩ := Props.C12.basic_requires_matching_secret file _ h
      refine ⟨file, u, p, rfl, ?_, hf⟩
      simp only [basicAuthOf] at hc
      split at hc
      · cases hc
      · exact hc

/-- … and the gate is not stricter than that: the header a conforming client builds from a stored pair is accepted,
whatever else the request carries. -/
theorem stored_pair_accepted (scheme : List Char) (schemes : List (List Char × List (List Char × List Char)))
    (file : List (List Char × List Char)) (u p : List Char) (r : Req)
    (hk : schemes.lookup scheme = some file) (hf : file.lookup u = some p)
    (hu : ∀ c ∈ u, c ≠ ':') (hb : ∀ c ∈ u ++ ':' :: p, c.toNat < 256)
    (hh : headerGet hAuthorization r.headers = basicHeader u p) :
    authorizedReq scheme schemes r = true := by
  by_cases hs : scheme = []
  · subst hs; simp [authorizedReq, authorized]
  · rw [authorizedReq, Props.C12.known_scheme_decides scheme schemes _ file hs hk]
    have hne : (basicHeader u p).isEmpty = false := by simp [basicHeader]
    simp [basicAuthOf, hh, hne, basic_header_roundtrip u p hu hb, basicVerdict, hf]

/-! ### The property's first sentence, end to end -/

/-- "A request is forwarded to an upstream only if the route's access rules admit the peer address and every address
listed in X-Forwarded-For and the route's authentication scheme accepts the credentials": a connection to upstream
`u` is attempted for a request only if the lookup found a target whose upstream is `u`, and for that target — its
rule map either empty or: the peer text splits, its host is an address that passes the rules, and so does every
element of every `X-Forwarded-For` line of the request that is an address and not textually the peer host —, the
target names no scheme or a registered one whose file stores the pair in the request's `Authorization` line, and the
route has no redirect answer. -/
theorem forwarded_only_if (P : Parsers) (schemes : List (List Char × List (List Char × List Char)))
    (lk : Nat → Option TargetM) (alive : Nat → Bool) (remote : List Char) (r : Req) (u : Nat)
    (h : (serveReq P schemes lk alive remote r).attempted = some u) :
    ∃ t, lk 0 = some t ∧ t.up = u ∧
      (t.rules.isEmpty = true ∨
        ∃ host ip, P.splitHostPort remote = some host ∧ P.parseIP (stripZone host) = some ip ∧
          denyByIP t.rules (some ip) = false ∧
          ∀ line ∈ headerValues hXFF r.headers, ∀ x ∈ splitOn ',' line, trimSpace x ≠ host →
            ∀ ip', P.parseIP (stripZone (trimSpace x)) = some ip' → denyByIP t.rules (some ip') = false) ∧
      (t.scheme = [] ∨ ∃ file us pw, schemes.lookup t.scheme = some file ∧
        parseBasicAuth (headerGet hAuthorization r.headers) = some (us, pw) ∧ file.lookup us = some pw) ∧
      t.redirect = 0 := by
  obtain ⟨t, hl, hu, hd, ha, hr⟩ := Props.C12Serve.attempted_is_checked_http P lk alive remote _ _ u h
  refine ⟨t, hl, hu, ?_, accepted_needs_stored_pair t.scheme schemes r ha, hr⟩
  cases he : t.rules.isEmpty with
  | true => exact Or.inl rfl
  | false =>
    right
    obtain ⟨host, ip, hs, hp, hdeny⟩ := Props.C12.http_admitted_peer_checked P t.rules remote _ he hd
    exact ⟨host, ip, hs, hp, hdeny, Props.C12.xff_every_element_checked P t.rules remote host _ he hs hd⟩

/-- The same with the target built by `addTarget` from the option *texts* of the route command: the options parsed
(a rule that cannot be parsed never widens access — such a target is forwarded for nobody), an `allow=` list admits
only addresses inside one of its blocks, with a `deny=` list alone the addresses are outside all of its blocks. -/
theorem forwarded_only_if_options (P : Parsers) (schemes : List (List Char × List (List Char × List Char)))
    (o : Opts) (up : Nat) (lk : Nat → Option TargetM) (alive : Nat → Bool) (remote : List Char) (r : Req) (u : Nat)
    (hl : lk 0 = some (addTarget P o up))
    (h : (serveReq P schemes lk alive remote r).attempted = some u) :
    u = up ∧ (processAccessRules P o.allow o.deny).2 = none ∧ redirectCode o.redirect = 0 ∧
    (o.auth = [] ∨ ∃ file us pw, schemes.lookup o.auth = some file ∧
        parseBasicAuth (headerGet hAuthorization r.headers) = some (us, pw) ∧ file.lookup us = some pw) ∧
    ∀ rules, rules = (processAccessRules P o.allow o.deny).1 → rules.isEmpty = false →
      ∃ host ip, P.splitHostPort remote = some host ∧ P.parseIP (stripZone host) = some ip ∧
        (∀ bs, rules.allow = some bs → ∃ b ∈ bs, b.contains ip = true) ∧
        (∀ bs, rules.allow = none → rules.deny = some bs → ∀ b ∈ bs, b.contains ip = false) ∧
        ∀ line ∈ headerValues hXFF r.headers, ∀ x ∈ splitOn ',' line, trimSpace x ≠ host →
          ∀ ip', P.parseIP (stripZone (trimSpace x)) = some ip' →
            (∀ bs, rules.allow = some bs → ∃ b ∈ bs, b.contains ip' = true) ∧
            (∀ bs, rules.allow = none → rules.deny = some bs → ∀ b ∈ bs, b.contains ip' = false) := by
  obtain ⟨t, hl', hu, hrules, hauth, hred⟩ := forwarded_only_if P schemes lk alive remote r u h
  rw [hl] at hl'
  cases hl'
  have herr : (processAccessRules P o.allow o.deny).2 = none := by
    cases he : (processAccessRules P o.allow o.deny).2 with
    | none => rfl
    | some e =>
      have := (Props.C12Serve.malformed_target_serves_nobody P o up e he).2 lk alive remote
        (headerValues hXFF r.headers) (fun t => authorizedReq t.scheme schemes r) hl
      simp only [serveReq] at h
      rw [this] at h
      cases h
  refine ⟨hu.symm, herr, hred, hauth, ?_⟩
  intro rules hrdef hne
  have hrt : (addTarget P o up).rules = rules := by rw [hrdef]; rfl
  rw [hrt] at hrules
  rcases hrules with he | ⟨host, ip, hs, hp, hd, hx⟩
  · rw [he] at hne; cases hne
  · have judge : ∀ a : IP, denyByIP rules (some a) = false →
        (∀ bs, rules.allow = some bs → ∃ b ∈ bs, b.contains a = true) ∧
        (∀ bs, rules.allow = none → rules.deny = some bs → ∀ b ∈ bs, b.contains a = false) := by
      intro a ha
      constructor
      · intro bs hbs
        exact Props.C12.allow_admits_only_inside rules bs a hbs ha
      · intro bs hna hbs b hb
        cases hc : b.contains a with
        | false => rfl
        | true =>
          have := Props.C12.deny_rejects_inside rules bs a b hna hbs hb hc
          rw [this] at ha; cases ha
    refine ⟨host, ip, hs, hp, (judge ip hd).1, (judge ip hd).2, ?_⟩
    intro line hline x hxm hne' ip' hp'
    exact judge ip' (hx line hline x hxm hne' ip' hp')

/-- "… otherwise the client gets 403 or 401 and no upstream is contacted": with a target found, a request the
rules deny is answered `forbidden`, one the rules admit but the scheme does not accept `unauthorized`; in both cases
nothing is attempted. -/
theorem otherwise_403_or_401 (P : Parsers) (schemes : List (List Char × List (List Char × List Char)))
    (lk : Nat → Option TargetM) (alive : Nat → Bool) (remote : List Char) (r : Req) (t : TargetM)
    (hl : lk 0 = some t) :
    (accessDeniedHTTP P t.rules remote (headerValues hXFF r.headers) = true →
      serveReq P schemes lk alive remote r = .forbidden) ∧
    (accessDeniedHTTP P t.rules remote (headerValues hXFF r.headers) = false →
      authorizedReq t.scheme schemes r = false → serveReq P schemes lk alive remote r = .unauthorized) ∧
    (serveReq P schemes lk alive remote r = .forbidden ∨ serveReq P schemes lk alive remote r = .unauthorized →
      (serveReq P schemes lk alive remote r).attempted = none) := by
  refine ⟨?_, ?_, ?_⟩
  · intro hd; simp [serveReq, serveHTTP, hl, hd]
  · intro hd ha; simp [serveReq, serveHTTP, hl, hd, ha]
  · intro h; rcases h with h | h <;> rw [h] <;> rfl

/-- An address anywhere in the forwarded chain counts — on whichever header line and at whichever position, however
long the chain: if some element of some `X-Forwarded-For` line is an address the rules deny (and is not textually the
peer host), the request is answered `forbidden`. -/
theorem denied_forwarded_address_refuses (P : Parsers) (schemes : List (List Char × List (List Char × List Char)))
    (lk : Nat → Option TargetM) (alive : Nat → Bool) (remote : List Char) (r : Req) (t : TargetM)
    (hl : lk 0 = some t) (host : List Char) (hs : P.splitHostPort remote = some host)
    (line x : List Char) (hline : line ∈ headerValues hXFF r.headers) (hx : x ∈ splitOn ',' line)
    (hne : trimSpace x ≠ host) (ip : IP) (hp : P.parseIP (stripZone (trimSpace x)) = some ip)
    (hd : denyByIP t.rules (some ip) = true) :
    serveReq P schemes lk alive remote r = .forbidden := by
  have he : t.rules.isEmpty = false := by
    cases he : t.rules.isEmpty with
    | false => rfl
    | true => simp [denyByIP, he] at hd
  cases hden : accessDeniedHTTP P t.rules remote (headerValues hXFF r.headers) with
  | true => simp [serveReq, serveHTTP, hl, hden]
  | false =>
    have := Props.C12.xff_every_element_checked P t.rules remote host _ he hs hden line hline x hx hne ip hp
    rw [this] at hd; cases hd

/-! ### The shape of the source -/

/-- The model's `accessDeniedHTTP` (every element of every line) is the code as written (join the lines with commas,
skip the loop when the joined text is empty, split at commas) — for every parser that does not read the empty text
as an address. -/
theorem accessDeniedHTTP_eq_lit (P : Parsers) (hP : P.parseIP [] = none) (r : Rules) (remote : List Char)
    (xff : List (List Char)) : accessDeniedHTTP P r remote xff = accessDeniedHTTPLit P r remote xff := by
  unfold accessDeniedHTTP accessDeniedHTTPLit
  split
  · rfl
  · cases hs : P.splitHostPort remote with
    | none => rfl
    | some host =>
      simp only
      split
      · rfl
      · cases xff with
        | nil => simp [joinComma, xffElems, xffDenied]
        | cons l ls =>
          by_cases hj : joinComma (l :: ls) = []
          · have hall := joinComma_nil_iff (l :: ls) hj
            have : ∀ x ∈ xffElems (l :: ls), x = [] := by
              intro x hx
              simp only [xffElems, List.mem_flatMap] at hx
              obtain ⟨line, hl, hx⟩ := hx
              rw [hall line hl] at hx
              simpa [splitOn] using hx
            simp [hj, xffDenied_all_empty P r host _ hP this]
          · have hne : (joinComma (l :: ls)).isEmpty = false := by
              cases hh : joinComma (l :: ls) with
              | nil => exact absurd hh hj
              | cons _ _ => rfl
            simp only [hne, Bool.false_eq_true, ↓reduceIte, xffElems, splitOn_joinComma]

/-! ### Non-vacuity -/
section examples
open Parse
set_option maxRecDepth 20000

example : b64Enc (charsToBytes "alice:secret".toList) = "YWxpY2U6c2VjcmV0".toList := by decide
example : parseBasicAuth "Basic YWxpY2U6c2VjcmV0".toList = some ("alice".toList, "secret".toList) := by decide
example : parseBasicAuth "bAsIc YWxpY2U6c2VjcmV0".toList = some ("alice".toList, "secret".toList) := by decide
-- one byte / two bytes in the last quantum, trailing bits not zero, CR LF inside
example : parseBasicAuth "Basic YTo=".toList = some ("a".toList, []) := by decide
example : parseBasicAuth "Basic YTp=".toList = some ("a".toList, []) := by decide
example : parseBasicAuth "Basic YT\r\npi".toList = some ("a".toList, "b".toList) := by decide
example : parseBasicAuth "Basic OmE6Yg==".toList = some ([], "a:b".toList) := by decide
-- refused: no padding, padding too early, garbage behind the padding, two blanks, other scheme word, no colon
example : parseBasicAuth "Basic YTo".toList = none := by decide
example : parseBasicAuth "Basic Y=o=".toList = none := by decide
example : parseBasicAuth "Basic YTo=YTo=".toList = none := by decide
example : parseBasicAuth "Basic  YTo=".toList = none := by decide
example : parseBasicAuth "Bearer YTo=".toList = none := by decide
example : parseBasicAuth "Basic YWxpY2U=".toList = none := by decide
example : parseBasicAuth "Basic".toList = none := by decide

private def schemes1 : List (List Char × List (List Char × List Char)) :=
  [("basic".toList, [("alice".toList, "secret".toList)])]
private def pre : Req :=
  ⟨"OPTIONS".toList, [("Origin".toList, "http://x".toList), ("Access-Control-Request-Method".toList, "PUT".toList)]⟩
private def good : Req := { headers := [(hAuthorization, "Basic YWxpY2U6c2VjcmV0".toList)] }
private def t1 : TargetM := addTarget goParsers { allow := "ip:127.0.0.0/8".toList, auth := "basic".toList } 0

-- a CORS preflight without credentials is a request without credentials
example : authorizedReq "basic".toList schemes1 pre = false := by decide
example : authorizedReq "nope".toList schemes1 good = false := by decide
example : serveReq goParsers schemes1 (fun _ => some t1) (fun _ => true) "127.0.0.1:9".toList good = .served 0 := by decide
example : serveReq goParsers schemes1 (fun _ => some t1) (fun _ => true) "127.0.0.1:9".toList pre = .unauthorized := by decide
-- the second Authorization line does not count, the seventeenth forwarded address does
example : authorizedReq "basic".toList schemes1
    { headers := [(hAuthorization, "Basic eDp5".toList), (hAuthorization, "Basic YWxpY2U6c2VjcmV0".toList)] } = false := by decide
example : serveReq goParsers schemes1 (fun _ => some t1) (fun _ => true) "127.0.0.1:9".toList
    { headers := (hXFF, (String.intercalate "," (List.replicate 16 "127.0.0.2") ++ ",9.9.9.9").toList) :: good.headers }
    = .forbidden := by decide
example : goParsers.parseIP [] = none := by decide
example : accessDeniedHTTPLit goParsers t1.rules "127.0.0.1:9".toList ["127.0.0.2".toList, [], " 9.9.9.9,".toList] = true := by decide
example : accessDeniedHTTPLit goParsers t1.rules "127.0.0.1:9".toList [[], []] = false := by decide
example : canonKey "x-forwarded-for".toList = hXFF := by decide
example : canonKey "AUTHORIZATION".toList = hAuthorization := by decide
example : canonKey "a b".toList = "a b".toList := by decide
end examples

end Fabio.Props.C12Auth
