import Fabio.Model.C12Parse
import Fabio.Model.C12Htpasswd
import Fabio.Lemmas.C12Auth
import Fabio.Props.C12Auth
/-!
C12, round 4 — "the route's authentication scheme accepts the credentials", down to the text of the htpasswd file:
which line of the file decides, what a plain-text line accepts, and that nothing but a matching line of the file
opens a route that names a scheme. For every `H` (what the library's hash parsers make of a hashed encoding).
-/
namespace Fabio.Props.C12Htpasswd
open Fabio Fabio.Model.C12 Fabio.Lemmas.C12

/-! ### The map: the last line of a user is his entry -/

/-- A later line for the same user replaces the earlier ones: the entry of `u` is the last accepted line for `u`,
whatever stands before it. -/
theorem last_line_wins (pre post : List (List Char × (List Char → Bool))) (u : List Char) (m : List Char → Bool)
    (hpost : ∀ e ∈ post, e.1 ≠ u) : htLookup (pre ++ (u, m) :: post) u = some m := by
  unfold htLookup
  have hnone : post.reverse.find? (fun e => e.1 == u) = none := by
    rw [List.find?_eq_none]
    intro e he
    have := hpost e (by simpa using he)
    simpa using this
  simp [List.reverse_append, List.find?_append, hnone]

/-- An accepted attempt was accepted by the matcher of some accepted line of that user. -/
theorem htMatch_sound (es : List (List Char × (List Char → Bool))) (u pw : List Char) (h : htMatch es u pw = true) :
    ∃ m, (u, m) ∈ es ∧ m pw = true := by
  unfold htMatch htLookup at h
  cases hf : es.reverse.find? (fun e => e.1 == u) with
  | none => simp [hf] at h
  | some e =>
    simp only [hf, Option.map_some] at h
    have hmem := List.mem_of_find?_eq_some hf
    have hkey := List.find?_some hf
    refine ⟨e.2, ?_, h⟩
    have : e.1 = u := by simpa using hkey
    rw [← this]
    simpa using hmem

/-- A user without an accepted line is refused, whatever the password. -/
theorem unknown_user_refused (es : List (List Char × (List Char → Bool))) (u pw : List Char)
    (h : ∀ e ∈ es, e.1 ≠ u) : htMatch es u pw = false := by
  cases hm : htMatch es u pw with
  | false => rfl
  | true =>
    obtain ⟨m, hmem, _⟩ := htMatch_sound es u pw hm
    exact absurd rfl (h (u, m) hmem)

/-! ### Lines -/

/-- A line that yields an entry is, after trimming, `user:encoding` with the FIRST colon as separator. -/
theorem entry_line_shape (raw u e : List Char) (h : parseHtLine raw = .entry u e) :
    trimSpace raw = u ++ ':' :: e ∧ ∀ c ∈ u, c ≠ ':' := by
  unfold parseHtLine at h
  simp only at h
  split at h
  · cases h
  · cases hc : cut ':' (trimSpace raw) with
    | none => simp [hc] at h
    | some up =>
      obtain ⟨u', e'⟩ := up
      simp only [hc, HtLine.entry.injEq] at h
      obtain ⟨rfl, rfl⟩ := h
      exact cut_some ':' _ _ _ hc

/-- What a plain-text line accepts: its text, or its text without a leading `{PLAIN}`. -/
theorem plain_line_accepts (enc pw : List Char) (h : plainMatches enc pw = true) :
    enc = pw ∨ enc = "{PLAIN}".toList ++ pw := by
  unfold plainMatches at h
  simp only [Bool.or_eq_true, beq_iff_eq] at h
  rcases h with h | h
  · exact Or.inl h.symm
  · exact Or.inr h.symm

/-! ### The scheme over the file text -/

/-- Credentials are accepted only if the file has a line `user:encoding` (after trimming, first colon) for exactly
that user whose matcher accepts the password — for a plain-text line: the encoding is the password, or `{PLAIN}`
followed by it. Blank lines, lines without colon and lines whose hashed encoding the library rejects accept nobody. -/
theorem accepted_needs_matching_line (H : List Char → Option (List Char → Bool)) (text u p : List Char)
    (h : fileVerdict H text (some (u, p)) = true) :
    ∃ raw ∈ splitOn '\n' text, ∃ e, trimSpace raw = u ++ ':' :: e ∧ (∀ c ∈ u, c ≠ ':') ∧
      ∃ m, matcherOf H e = some m ∧ m p = true ∧ (isHashed e = false → e = p ∨ e = "{PLAIN}".toList ++ p) := by
  simp only [fileVerdict] at h
  obtain ⟨m, hmem, hm⟩ := htMatch_sound _ u p h
  simp only [htEntries, List.mem_filterMap] at hmem
  obtain ⟨raw, hraw, hline⟩ := hmem
  cases hp : parseHtLine raw with
  | blank => simp [hp] at hline
  | bad => simp [hp] at hline
  | entry u' e =>
    simp only [hp, Option.map_eq_some_iff, Prod.mk.injEq] at hline
    obtain ⟨m', hm', rfl, rfl⟩ := hline
    obtain ⟨hshape, hcolon⟩ := entry_line_shape raw u' e hp
    refine ⟨raw, hraw, e, hshape, hcolon, m', hm', hm, ?_⟩
    intro hplain
    simp only [matcherOf, hplain, Bool.false_eq_true, ↓reduceIte, Option.some.injEq] at hm'
    subst hm'
    exact plain_line_accepts e p hm

/-- No credentials, an empty file (the refresh clears the credentials when the file disappears): nobody passes. -/
theorem no_file_no_access (H : List Char → Option (List Char → Bool)) (c : Option (List Char × List Char)) :
    fileVerdict H [] c = false ∧ ∀ text, fileVerdict H text none = false := by
  constructor
  · cases c with
    | none => rfl
    | some up => simp [fileVerdict, htEntries, splitOn, parseHtLine, trimSpace, htMatch, htLookup]
  · intro text; rfl

/-- The whole authentication sentence over texts: a request passes a route that names a scheme only if the scheme is
registered and the file of the scheme holds a line for the user of the request's first `Authorization` line whose
matcher accepts the password of that line. -/
theorem authorized_needs_line (H : List Char → Option (List Char → Bool)) (scheme : List Char)
    (schemes : List (List Char × List Char)) (r : Req) (h : authorizedFile H scheme schemes r = true) :
    scheme = [] ∨ ∃ text u p, schemes.lookup scheme = some text ∧
      parseBasicAuth (headerGet hAuthorization r.headers) = some (u, p) ∧
      ∃ raw ∈ splitOn '\n' text, ∃ e, trimSpace raw = u ++ ':' :: e ∧
        ∃ m, matcherOf H e = some m ∧ m p = true ∧ (isHashed e = false → e = p ∨ e = "{PLAIN}".toList ++ p) := by
  by_cases hs : scheme = []
  · exact Or.inl hs
  · right
    cases hk : schemes.lookup scheme with
    | none => rw [authorizedFile, Props.C12.unknown_scheme_rejects scheme schemes _ hs hk] at h; cases h
    | some text =>
      rw [authorizedFile, Props.C12.known_scheme_decides scheme schemes _ text hs hk] at h
      cases hc : basicAuthOf r with
      | none => simp [hc, fileVerdict] at h
      | some up =>
        obtain ⟨u, p⟩ := up
        rw [hc] at h
        obtain ⟨raw, hraw, e, hshape, _, m, hm, hmp, hpl⟩ := accepted_needs_matching_line H text u p h
        refine ⟨text, u, p, rfl, ?_, raw, hraw, e, hshape, m, hm, hmp, hpl⟩
        simp only [basicAuthOf] at hc
        split at hc
        · cases hc
        · exact hc

/-- … and a connection to an upstream is attempted only for such a request (and one the rules admit: the access half
is `forwarded_only_if`). -/
theorem forwarded_needs_line (P : Parsers) (H : List Char → Option (List Char → Bool))
    (schemes : List (List Char × List Char)) (lk : Nat → Option TargetM) (alive : Nat → Bool) (remote : List Char)
    (r : Req) (u : Nat) (h : (serveReqFile P H schemes lk alive remote r).attempted = some u) :
    ∃ t, lk 0 = some t ∧ t.up = u ∧ accessDeniedHTTP P t.rules remote (headerValues hXFF r.headers) = false ∧
      (t.scheme = [] ∨ ∃ text us pw, schemes.lookup t.scheme = some text ∧
        parseBasicAuth (headerGet hAuthorization r.headers) = some (us, pw) ∧
        ∃ raw ∈ splitOn '\n' text, ∃ e, trimSpace raw = us ++ ':' :: e ∧
          ∃ m, matcherOf H e = some m ∧ m pw = true ∧ (isHashed e = false → e = pw ∨ e = "{PLAIN}".toList ++ pw)) := by
  obtain ⟨t, hl, hu, hd, ha, _⟩ := Props.C12Serve.attempted_is_checked_http P lk alive remote _ _ u h
  exact ⟨t, hl, hu, hd, authorized_needs_line H t.scheme schemes r ha⟩

/-! ### Histories -/

/-- Over histories of attempts and reloads of the file *text* on one scheme instance: the verdict on an attempt is
`fileVerdict` of the text in force — valid logins, failures, repeats and reloads before it do not matter. -/
theorem file_history_irrelevant (H : List Char → Option (List Char → Bool)) (t1 t2 : List Char) (h1 h2 : List AuthOpF)
    (c : Option (List Char × List Char)) (hf : fileAfterF t1 h1 = fileAfterF t2 h2) :
    (runAuthF H t1 (h1 ++ [.attempt c])).getLast? = (runAuthF H t2 (h2 ++ [.attempt c])).getLast? ∧
    (runAuthF H t1 (h1 ++ [.attempt c])).getLast? = some (fileVerdict H (fileAfterF t1 h1) c) := by
  rw [runAuthF_append_attempt, runAuthF_append_attempt, hf]
  simp

/-! ### Non-vacuity -/
section examples
set_option maxRecDepth 20000

private def noHash : List Char → Option (List Char → Bool) := fun _ => none
private def file1 : List Char := "alice:secret\n\n  bob:hunter2 \r\nnocolon\nalice:changed\ncarol:{PLAIN}pa55\nx:{SHA}!!\n:empty\ndave:a:b".toList

example : (htEntries noHash file1).map (·.1) = ["alice", "bob", "alice", "carol", "", "dave"].map String.toList := by decide
-- the second line of alice replaced the first
example : fileVerdict noHash file1 (some ("alice".toList, "changed".toList)) = true := by decide
example : fileVerdict noHash file1 (some ("alice".toList, "secret".toList)) = false := by decide
-- trimmed line, CR at the end
example : fileVerdict noHash file1 (some ("bob".toList, "hunter2".toList)) = true := by decide
-- nginx's {PLAIN}: both spellings of the password pass
example : fileVerdict noHash file1 (some ("carol".toList, "pa55".toList)) = true := by decide
example : fileVerdict noHash file1 (some ("carol".toList, "{PLAIN}pa55".toList)) = true := by decide
-- a hashed line the library rejects accepts nobody, the line without colon is no user
example : fileVerdict noHash file1 (some ("x".toList, "{SHA}!!".toList)) = false := by decide
example : fileVerdict noHash file1 (some ("nocolon".toList, [])) = false := by decide
-- empty user name, password with a colon
example : fileVerdict noHash file1 (some ([], "empty".toList)) = true := by decide
example : fileVerdict noHash file1 (some ("dave".toList, "a:b".toList)) = true := by decide
example : fileVerdict noHash (renderSecrets [("a".toList, "bc".toList), ("ab".toList, "c".toList)]) (some ("ab".toList, "c".toList)) = true := by decide
example : authorizedFile noHash "basic".toList [("basic".toList, file1)]
    { headers := [(hAuthorization, basicHeader "alice".toList "changed".toList)] } = true := by decide
example : authorizedFile noHash "basic".toList [("basic".toList, file1)]
    { headers := [(hAuthorization, basicHeader "alice".toList "secret".toList)] } = false := by decide
example : runAuthF noHash "a:bc\n".toList [.attempt (some ("a".toList, "bc".toList)), .attempt (some ("ab".toList, "c".toList)),
    .reload "a:bc\na:x\n".toList, .attempt (some ("a".toList, "bc".toList)), .reload [], .attempt (some ("a".toList, "x".toList))]
    = [true, false, false, false] := by decide
end examples

end Fabio.Props.C12Htpasswd
