import Fabio.Generated.C07
import Fabio.Model.C07
import Fabio.Lemmas.C07
/-!
`escapedLen` (proxy/http_proxy.go) — the one piece of sequential byte code of C07's URL construction — is translated
from the CURRENT source on every run by `tools/factgen/xlate.go` into `Generated.C07.XEscapedLen` (state structure,
loop condition and body over the combinators of `Fabio.Xlate.Rt`). This file proves the translation equal to the
model's `dropEscaped`, for every escaped path and every count: the tie between `Model.C07.dropEscaped` and the Go
function no longer rests on sampled agreement alone (`c07.url`), what is trusted is the translator and the kernel.

Part of the change detectors (`Props/C07Pins.lean` imports it): a rewrite of `escapedLen` that keeps its behaviour
but not its shape makes these proofs fail, fires the detector and widens the streams; nothing is claimed broken by
that alone. The function is found by its ROLE in `ServeHTTP` (called with the escaped path and `len(StripPath)`), not by
name. The driver runs the translated function on every strip case of `c07.url` next to the model, whose request-target is
compared with what the upstream received: that validates the translator (string indexing, `for` with a post statement,
wrap-around arithmetic) through the real code.
-/
namespace Fabio.Props.C07Pins
open Fabio Fabio.Xlate Fabio.Generated.C07

abbrev B := List UInt8

/-- no wrap-around below 2^63 -/
theorem wrapI64_id (x : Int) (h0 : -9223372036854775808 ≤ x) (h1 : x < 9223372036854775808) : wrapI 64 x = x := by
  rw [wrapI_64]; omega

theorem idx_lt (s : B) (i : Int) (h0 : 0 ≤ i) (h1 : i < s.length) :
    idx s i = .ok (s[i.toNat]'(by omega)) := by
  unfold idx idxN
  have : i.toNat < s.length := by omega
  simp [h0, List.getElem?_eq_getElem this]

open XEscapedLen in
/-- the loop of `escapedLen`, from any state and with enough fuel: it leaves `s` alone and stops at an index `i'`
such that what is left of `s` behind `i'` is what the model's `dropEscaped` leaves of what was behind `i` -/
theorem loop0_spec (s : B) (hs : (s.length : Int) + 3 < 9223372036854775808) :
    ∀ (fuel : Nat) (n i : Int), 0 ≤ i → n < 9223372036854775808 → (s.drop i.toNat).length < fuel →
      ∃ n' i', loopN loop0Cond loop0Body fuel { p0 := s, p1 := n, l0 := i } = .next { p0 := s, p1 := n', l0 := i' } ∧
        0 ≤ i' ∧ s.drop i'.toNat = Model.C07.dropEscaped n.toNat (s.drop i.toNat) := by
  intro fuel
  induction fuel with
  | zero => intro n i _ _ h; omega
  | succ k ih =>
    intro n i hi hn hf
    by_cases hn0 : n ≤ 0
    · refine ⟨n, i, ?_, hi, ?_⟩
      · have : decide (0 < n) = false := by simp; omega
        simp [loopN, loop0Cond, this]
      · have : n.toNat = 0 := by omega
        rw [this]; rfl
    · by_cases hil : (s.length : Int) ≤ i
      · refine ⟨n, i, ?_, hi, ?_⟩
        · have : decide (i < (s.length : Int)) = false := by simp; omega
          simp [loopN, loop0Cond, len, this]
        · have : s.drop i.toNat = [] := List.drop_eq_nil_of_le (by omega)
          rw [this]
          cases n.toNat <;> rfl
      · have hlt : i < (s.length : Int) := by omega
        have hnat : i.toNat < s.length := by omega
        have hcond : loop0Cond { p0 := s, p1 := n, l0 := i } = .ok true := by
          have h1 : decide (0 < n) = true := by simp; omega
          have h2 : decide (i < (s.length : Int)) = true := by simp; omega
          simp [loop0Cond, len, h1, h2]
        have hdrop : s.drop i.toNat = s[i.toNat] :: s.drop (i.toNat + 1) := List.drop_eq_getElem_cons hnat
        have hsucc : n.toNat = (n - 1).toNat + 1 := by omega
        have hw1 : wrapI 64 (n - 1) = n - 1 := wrapI64_id _ (by omega) (by omega)
        by_cases hc : s[i.toNat] = Model.C07.PCT
        · -- an escape: three bytes
          have hw3 : wrapI 64 (i + 3) = i + 3 := wrapI64_id _ (by omega) (by omega)
          have hbody : loop0Body { p0 := s, p1 := n, l0 := i } = .next { p0 := s, p1 := n - 1, l0 := i + 3 } := by
            have hc' : (s[i.toNat] == (37 : UInt8)) = true := by rw [hc]; rfl
            simp [loop0Body, seq, ifS, assign, idx_lt s i hi hlt, hc', hw3, hw1]
          have hlen : (s.drop (i + 3).toNat).length < k := by
            have : (i + 3).toNat = i.toNat + 3 := by omega
            rw [this]; simp only [List.length_drop] at hf ⊢; omega
          obtain ⟨n', i', hrun, hi', hd⟩ := ih (n - 1) (i + 3) (by omega) (by omega) hlen
          refine ⟨n', i', ?_, hi', ?_⟩
          · simp only [loopN, hcond, hbody]; exact hrun
          · rw [hd, hdrop, hsucc]
            have : (i + 3).toNat = i.toNat + 1 + 2 := by omega
            simp [Model.C07.dropEscaped, hc, this, List.drop_drop]
        · have hw3 : wrapI 64 (i + 1) = i + 1 := wrapI64_id _ (by omega) (by omega)
          have hbody : loop0Body { p0 := s, p1 := n, l0 := i } = .next { p0 := s, p1 := n - 1, l0 := i + 1 } := by
            have hc' : (s[i.toNat] == (37 : UInt8)) = false := by
              cases h : s[i.toNat] == (37 : UInt8) with
              | false => rfl
              | true => exact absurd (beq_iff_eq.mp h) hc
            simp [loop0Body, seq, ifS, assign, idx_lt s i hi hlt, hc', hw3, hw1]
          have hlen : (s.drop (i + 1).toNat).length < k := by
            have : (i + 1).toNat = i.toNat + 1 := by omega
            rw [this]; simp only [List.length_drop] at hf ⊢; omega
          obtain ⟨n', i', hrun, hi', hd⟩ := ih (n - 1) (i + 1) (by omega) (by omega) hlen
          refine ⟨n', i', ?_, hi', ?_⟩
          · simp only [loopN, hcond, hbody]; exact hrun
          · rw [hd, hdrop, hsucc]
            have : (i + 1).toNat = i.toNat + 1 := by omega
            simp [Model.C07.dropEscaped, hc, this]

open XEscapedLen in
/-- **xescapedLen_eq_model.** The Go function `escapedLen` of the current `proxy/http_proxy.go`, translated on this
run, against the model: for every escaped path `s` (shorter than 2^63 − 3 bytes — every Go string is) and every
`0 ≤ n < 2^63` it returns, without panic and within the fuel the translator supplies (so it terminates), an index
`r` with `0 ≤ r ≤ len(s)` such that `s[r:]` — what `ServeHTTP` keeps of the escaped path — is exactly the model's
`dropEscaped n s`. -/
theorem xescapedLen_eq_model (s : B) (n : Int) (hs : (s.length : Int) + 3 < 9223372036854775808)
    (hn : n < 9223372036854775808) :
    ∃ r st, XEscapedLen.run { p0 := s, p1 := n } = .ok (r, st) ∧ 0 ≤ r ∧ r ≤ s.length ∧
      s.drop r.toNat = Model.C07.dropEscaped n.toNat s := by
  obtain ⟨n', i', hrun, hi', hd⟩ := loop0_spec s hs (s.length + 1) n 0 (by omega) hn (by simp)
  simp only [Int.toNat_zero, List.drop_zero] at hd
  by_cases hgt : (s.length : Int) < i'
  · have hg : decide ((s.length : Int) < i') = true := by simp [hgt]
    have hr : XEscapedLen.run { p0 := s, p1 := n } = .ok ((s.length : Int), { p0 := s, p1 := n', l0 := s.length }) := by
      simp [XEscapedLen.run, Fabio.Xlate.run, body, seq, assign, loop, hrun, ifS, len, hg, ret]
    have hnil : s.drop i'.toNat = [] := List.drop_eq_nil_of_le (by omega)
    refine ⟨(s.length : Int), _, hr, Int.natCast_nonneg _, Int.le_refl _, ?_⟩
    rw [← hd, hnil]; simp
  · have hg : decide ((s.length : Int) < i') = false := by simp [hgt]
    have hr : XEscapedLen.run { p0 := s, p1 := n } = .ok (i', { p0 := s, p1 := n', l0 := i' }) := by
      simp [XEscapedLen.run, Fabio.Xlate.run, body, seq, assign, loop, hrun, ifS, len, hg, ret, skip]
    have hle : i' ≤ (s.length : Int) := by omega
    exact ⟨i', _, hr, hi', hle, hd⟩

/-- **xescapedLen_count.** What the translated `escapedLen` cuts off stands for exactly `n` decoded bytes — all of them
when the path has fewer — in the specification's own way of counting (`decodedCount`). -/
theorem xescapedLen_count (s : B) (n : Int) (hs : (s.length : Int) + 3 < 9223372036854775808)
    (hn : n < 9223372036854775808) :
    ∃ r st, XEscapedLen.run { p0 := s, p1 := n } = .ok (r, st) ∧ 0 ≤ r ∧ r ≤ s.length ∧
      Model.C07Spec.decodedCount (s.take r.toNat) = min n.toNat (Model.C07Spec.decodedCount s) := by
  obtain ⟨r, st, hrun, h0, hle, hd⟩ := xescapedLen_eq_model s n hs hn
  obtain ⟨a, ha, hc⟩ := Lemmas.C07.dropEscaped_count n.toNat s
  refine ⟨r, st, hrun, h0, hle, ?_⟩
  have : a = s.take r.toNat := by
    have h1 : s.take r.toNat ++ s.drop r.toNat = a ++ s.drop r.toNat := by
      rw [List.take_append_drop, hd]; exact ha
    exact (List.append_cancel_right h1).symm
  rw [← this]; exact hc


/-- non-vacuity: `/%73trip/a%2Fb` with `n = 6` (the length of `/strip`) on the translated code -/
example : (match XEscapedLen.run { p0 := "/%73trip/a%2Fb".toUTF8.toList, p1 := 6 } with
    | .ok (r, _) => decide (r = 8) | _ => false) = true := by decide +kernel

end Fabio.Props.C07Pins
