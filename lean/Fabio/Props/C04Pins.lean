import Fabio.Generated.C04
import Fabio.Model.C04
import Fabio.Props.C04Xlate
/-!
CHANGE DETECTORS for C04 (`"pins_module"` in checks/C04.json): the shape of sequential, deterministic code whose
input/output behaviour the correspondence streams compare with the model on every run — `weighTargets` (weights:
`c04.weights`/`c04.hostile`, float64 model bit for bit; slots and ring: exact ring agreement), `addTarget` /
`setWeight` (`c04.weights`: re-announced instances, spreading, `spreadExact`), `rrPicker` / `rndPicker` / the
lookup shortcuts (`c04.rr`, `c04.rnd` incl. sweeps), the non-finite checks (`c04.hostile`), and `contains`
(translated, `Props/C04Xlate.lean`, imported here). When one of these stops building nothing is claimed broken —
the streams run at five times the budget with a second seed and decide; a behaviour-preserving rewrite of this
code ends with exit 0. Until round 4 these statements were obligations (`C04Facts.lean`); every archived seeded
change they caught is also caught by a stream with a failing input.

The facts are EVENTS in role names (`tools/factgen/c04.go`): constants inlined, switches as if-chains, calls
to unexported helpers followed, every local named by the role it plays (`t` an element of `Targets`, `n` the
slot count, `used` the ring length, `ring` the slice made with it, `sum`/`nf`/`max` the sum, number and
maximum of the positive requested weights, `unit`/`norm` the two divisors, `dyn` the dynamic share, `s` a slot
record, `next`/`step` the cursor and stride, `recv` the receiver, `p0, p1, …` parameters of a top-level
function, `c0` a closure parameter), an event = `[innermost guarding condition] statement`.
-/
namespace Fabio.Props.C04Pins
open Fabio Fabio.Generated.C04

/-- substring test that the kernel can evaluate -/
def hasSubL (pat : List Char) : List Char → Bool
  | [] => pat.isEmpty
  | c :: cs => pat.isPrefixOf (c :: cs) || hasSubL pat cs
def hasSub (pat s : String) : Bool := hasSubL pat.toList s.toList
/-- number of events that contain `pat` -/
def count (pat : String) (evs : List String) : Nat := (evs.filter (hasSub pat)).length

/-- `const maxSlots = 1e4` — the constant the slot count is computed with — is the model's `maxSlots`. -/
theorem maxSlots_pinned : Generated.C04.maxSlots = Model.C04.maxSlots := by decide +kernel

/-- Every test on a requested weight in `weighTargets` is `FixedWeight > 0` (a weight ≤ 0 is "dynamic"). -/
theorem fixed_tests_are_gt_zero :
    fixedWeightTests ≠ [] ∧ fixedWeightTests.all (· == "FixedWeight > 0") = true := by decide +kernel

/-- the slot rule: truncated product, at least one slot for a positive weight, the ring has Σn slots,
entries without slots are skipped -/
theorem slot_rule :
    weighEvents.contains "n := int(float64(C) * t.Weight)" = true ∧
    weighEvents.contains "[n == 0 && t.Weight > 0] n = 1" = true ∧
    count "] n = " weighEvents = 1 ∧
    weighEvents.contains "slots[i].n = n" = true ∧
    weighEvents.contains "used := 0" = true ∧
    weighEvents.contains "used += n" = true ∧
    count "used +=" weighEvents = 1 ∧ count "used =" weighEvents = 0 ∧
    weighEvents.contains "ring := make([]*Target, used)" = true ∧
    weighEvents.contains "[s.n <= 0] continue" = true := by decide +kernel

/-- the fill: entries in the order `sort.Sort` leaves them (ascending slot count), start at 0 with stride
used/n, `n` times: scan to the next nil slot, store the target, advance by the stride; the result is the ring -/
theorem fill_rule :
    (weighEvents.filter (· == "call sort.Sort(slots)")).length = 1 ∧
    slotsLess = "return recv[p0].n < recv[p1].n" ∧
    weighEvents.contains "range slots" = true ∧
    weighEvents.contains "next, step := 0, used/s.n" = true ∧
    weighEvents.contains "for k in 0..s.n" = true ∧
    weighEvents.contains "[while ring[next] != nil] next = (next + 1) % used" = true ∧
    weighEvents.contains "ring[next] = recv.Targets[s.i]" = true ∧
    weighEvents.contains "slots[i].i = i" = true ∧
    weighEvents.contains "next = (next + step) % used" = true ∧
    weighEvents.contains "recv.wTargets = ring" = true := by decide +kernel

/-- without a fixed weight: equal weights, the ring is the target list itself, nothing else happens -/
theorem bypass_rule :
    weighEvents.contains "[nf == 0] eq := 1.0 / float64(len(recv.Targets))" = true ∧
    weighEvents.contains "[nf == 0] t.Weight = eq" = true ∧
    weighEvents.contains "[nf == 0] recv.wTargets = recv.Targets" = true ∧
    weighEvents.contains "[nf == 0] return" = true := by decide +kernel

/-- the normalisation: count/sum of the positive requested weights, when to scale, the dynamic share and its
clamp, the two assignments of the effective weight and nothing else that stores a weight (as repaired for
D02: division by the sum, an overflowing sum is taken relative to the largest weight) -/
theorem normalisation_rule :
    weighEvents.contains "[t.FixedWeight > 0] nf++" = true ∧
    weighEvents.contains "[t.FixedWeight > 0] sum += t.FixedWeight" = true ∧
    weighEvents.contains "[sum > 1 || (nf == len(recv.Targets) && sum < 1)] norm = sum" = true ∧
    weighEvents.contains "norm := 1.0" = true ∧ weighEvents.contains "unit := 1.0" = true ∧
    weighEvents.contains "[math.IsInf(sum, 1)] unit, sum = max, 0" = true ∧
    weighEvents.contains "[t.FixedWeight > 0] sum += t.FixedWeight / unit" = true ∧
    weighEvents.contains "dyn := (1 - sum) / float64(len(recv.Targets)-nf)" = true ∧
    weighEvents.contains "[dyn < 0] dyn = 0" = true ∧
    weighEvents.contains "[t.FixedWeight > 0] t.Weight = t.FixedWeight / unit / norm" = true ∧
    weighEvents.contains "[!(t.FixedWeight > 0)] t.Weight = dyn" = true ∧
    count "t.Weight = " weighEvents = 3 ∧
    count "norm = " weighEvents = 1 ∧ count "unit = " weighEvents = 0 ∧ count "dyn = " weighEvents = 1 := by
  decide +kernel

/-- `addTarget` clamps a negative weight; `setWeight` counts the matching targets with a first pass, spreads
the share over them with a second pass and re-weighs the route -/
theorem entry_rules :
    addTargetEvents = ["[fw < 0] fw = 0"] ∧
    setWeightEvents.contains "cnt := loop(0)" = true ∧
    setWeightEvents.contains "each := p1 / float64(cnt)" = true ∧
    setWeightEvents.contains "call loop(each)" = true ∧
    setWeightEvents.contains "[in loop] t.FixedWeight = c0" = true ∧
    count "return" setWeightEvents = 1 ∧
    setWeightEvents.contains "[cnt > 0] recv.wTargets = ring" = true := by decide +kernel

/-- `rrPicker` indexes `wTargets` modulo its length and advances the cursor by one; `rndPicker` indexes it
with `randIntn(len)` -/
theorem picker_rules :
    rrModulus = ["uint64(len(p0.wTargets))"] ∧ rrIndexed = ["p0.wTargets"] ∧ rrAdds = ["&p0.total, 1"] ∧
    rndEvents = ["return p0.wTargets[randIntn(len(p0.wTargets))]"] := by decide +kernel

/-- `Table.lookup`: no target → nil, one target → that target, else the picker -/
theorem lookup_rules :
    lookupShortcuts.any (·.endsWith "n := len(r.Targets)") = true ∧
    lookupShortcuts.contains "[n == 0] res0 = nil" = true ∧
    lookupShortcuts.contains "[n == 1] tgt = r.Targets[0]" = true ∧
    lookupShortcuts.contains "[!(n == 1)] tgt = p2(r)" = true := by decide +kernel

/-- D02 repaired: both entrances refuse a weight that is not finite, right after the empty-prefix/target
checks (the order the model `applyDefW` reproduces) -/
theorem nonfinite_checks :
    addRouteChecks.take 3 = ["p0.Src == \"\" => return errors.New(\"route: prefix must not be empty\")",
      "p0.Dst == \"\" => return errors.New(\"route: target must not be empty\")",
      "!(!(math.IsNaN(p0.Weight)) && !(math.IsInf(p0.Weight, 0))) => return errors.New(\"route: invalid weight\")"] ∧
    weighRouteChecks.take 2 = ["p0.Src == \"\" => return errors.New(\"route: prefix must not be empty\")",
      "!(!(math.IsNaN(p0.Weight)) && !(math.IsInf(p0.Weight, 0))) => return errors.New(\"route: invalid weight\")"] := by
  decide +kernel

end Fabio.Props.C04Pins
