import Fabio.Model.C15Listen
/-!
C15 — "a configuration that is accepted can be run", for listeners: an entry of `proxy.addr` / `ui.addr` that
`parseListen` accepts carries a protocol that `main.startServers` has a `case` for (its `default:` branch ends
the process with "Invalid protocol"), and an address.  `handled` is the list of case literals of that switch; the
inclusion `acceptedProtos ⊆ handled` is an obligation over the regenerated facts (`C15Facts.listen_protos_handled`).
-/
namespace Fabio.Props.C15Listen
open Fabio Fabio.Model.C15

theorem get_mem (m : Map) (k v : Str) (h : m.get k = some v) : (k, v) ∈ m := by
  induction m with
  | nil => simp [Map.get, List.lookup] at h
  | cons kv t ih =>
    obtain ⟨k', v'⟩ := kv
    simp only [Map.get, List.lookup] at h
    by_cases e : k = k'
    · subst e; simp at h; subst h; simp
    · have : (k == k') = false := by simpa using e
      rw [this] at h
      exact List.mem_cons_of_mem _ (ih h)

/-- **The protocol of an accepted listener is one of the nine accepted names, spelled exactly** — whatever the
other keys are, whatever the external parsers answer, in whichever order the keys come. -/
theorem accepted_listener_proto (E : ListenEnv) (cfg : Map) (l : LListen) (h : parseListenM E cfg = .ok l) :
    l.proto ∈ acceptedProtos := by
  unfold parseListenM at h
  split at h
  · cases h
  split at h
  · cases h
  · rename_i hnone
    have hall : ∀ kv ∈ cfg, keyBad E kv.1 kv.2 = false := by
      intro kv hkv
      have := List.find?_eq_none.mp hnone kv hkv
      simpa using this
    split at h
    · cases h
    · split at h
      · cases h
      · split at h
        · cases h
        · injection h with h
          subst h
          show protoOf cfg ∈ acceptedProtos
          unfold protoOf
          cases hp : cfg.get "proto".toList with
          | some v =>
            have hb := hall ("proto".toList, v) (get_mem cfg _ v hp)
            have hk : ("proto".toList : Str) ≠ [] ∧ ("proto".toList : Str) ≠ "addr".toList := by decide
            simp only [keyBad, hk.1, hk.2, or_self, if_false, if_true, Bool.not_eq_false'] at hb
            simpa using hb
          | none =>
            simp only
            split <;> decide

/-- an accepted listener has an address -/
theorem accepted_listener_addr (E : ListenEnv) (cfg : Map) (l : LListen) (h : parseListenM E cfg = .ok l) :
    l.addr ≠ [] := by
  unfold parseListenM at h
  split at h
  · cases h
  split at h
  · cases h
  · split at h
    · cases h
    · rename_i hne
      split at h
      · cases h
      · split at h
        · cases h
        · injection h with h
          subst h
          exact hne

/-- `https` and `grpcs` listeners that were accepted have a certificate source -/
theorem accepted_tls_listener_has_cs (E : ListenEnv) (cfg : Map) (l : LListen) (h : parseListenM E cfg = .ok l)
    (hp : l.proto = "https".toList ∨ l.proto = "grpcs".toList) : l.cs ≠ [] := by
  unfold parseListenM at h
  split at h
  · cases h
  split at h
  · cases h
  · split at h
    · cases h
    · split at h
      · cases h
      · split at h
        · cases h
        · rename_i hn
          injection h with h
          subst h
          intro hc
          exact hn ⟨hc, hp⟩

/-- **The address of an accepted listener does not depend on the order in which the keys are visited**: at most
one of the two address keys is present (with both, Go's map iteration order used to decide — D15-3). -/
theorem accepted_listener_addr_unambiguous (E : ListenEnv) (cfg : Map) (l : LListen)
    (h : parseListenM E cfg = .ok l) : (addrKeys cfg).length ≤ 1 := by
  unfold parseListenM at h
  split at h
  · cases h
  · omega

/-- **An accepted listener can be started**: if every accepted protocol name has a case in `startServers`
(`acceptedProtos ⊆ handled`, an obligation over the regenerated facts), the switch never reaches its fatal
default for a listener that `load` let through. -/
theorem accepted_listener_startable (E : ListenEnv) (handled : List Str)
    (hsub : ∀ p ∈ acceptedProtos, p ∈ handled) (cfg : Map) (l : LListen) (h : parseListenM E cfg = .ok l) :
    startable handled l = true := by
  simp only [startable, List.contains_eq_mem, decide_eq_true_eq]
  exact hsub _ (accepted_listener_proto E cfg l h)

/-- … and so can every listener of an accepted `proxy.addr` -/
theorem accepted_listeners_startable (E : ListenEnv) (handled : List Str)
    (hsub : ∀ p ∈ acceptedProtos, p ∈ handled) (ms : List Map) (ls : List LListen)
    (h : parseListenersM E ms = .ok ls) : ∀ l ∈ ls, startable handled l = true ∧ l.addr ≠ [] := by
  induction ms generalizing ls with
  | nil => simp only [parseListenersM] at h; cases h; intro l hl; cases hl
  | cons m t ih =>
    simp only [parseListenersM] at h
    split at h
    · cases h
    · rename_i l0 hl0
      split at h
      · cases h
      · rename_i ls0 hls0
        cases h
        intro l hl
        simp only [List.mem_cons] at hl
        rcases hl with rfl | hl
        · exact ⟨accepted_listener_startable E handled hsub m _ hl0, accepted_listener_addr E m _ hl0⟩
        · exact ih ls0 hls0 l hl

/-! ### composed with `load` -/

/-- an accepted configuration passed `extra`, and carries the resolved values it was computed from -/
theorem validate_extra (unq : Str → Option Str) (atoi : Str → Int) (extra : List Resolved → Option Err)
    (vals : List Resolved) (cfg : Cfg) (h : validate unq atoi extra vals = .ok (.ok cfg)) :
    extra vals = none ∧ cfg.values = vals := by
  unfold validate at h
  repeat' (split at h)
  all_goals first
    | (cases h; done)
    | (injection h with h; injection h with h; subst h; exact ⟨by assumption, rfl⟩)

/-- **An accepted configuration can be run, as far as its listeners go** (end to end: command line after
tokenisation, environment block, prefixes, properties → `load` with the listener rules of `parseListen` in place →
`main.startServers`): if `load` accepts, then `cfg.Listen` and `cfg.UI.Listen` are well-defined, every proxy
listener has an address and a protocol that `startServers` has a case for, and so has the UI listener when
`ui.addr` is not empty.  `handled` = the case literals of the switch in `main.go` (regenerated;
`C15Facts.listen_protos_handled` is `hsub`). -/
theorem accepted_config_listeners_startable (unq : Str → Option Str) (atoi : Str → Int) (X : ListenExt)
    (rest : List Resolved → Option Err) (flags : List (Str × Str)) (s : Sources) (handled : List Str)
    (hsub : ∀ p ∈ acceptedProtos, p ∈ handled) (cfg : Cfg)
    (h : loadModel unq atoi (listenExtra unq X rest) flags s = .ok (.ok cfg)) :
    ∃ ls ui, listenersOf unq X cfg.values = .ok (ls, ui) ∧
      (∀ l ∈ ls, startable handled l = true ∧ l.addr ≠ []) ∧
      (∀ l, ui = some l → startable handled l = true ∧ l.addr ≠ []) := by
  unfold loadModel at h
  split at h
  · cases h
  · obtain ⟨hex, hv⟩ := validate_extra _ _ _ _ _ h
    rw [hv]
    generalize cfg_vals : (flags.map _) = vals at hex
    unfold listenExtra at hex
    cases hl : listenersOf unq X vals with
    | error e => rw [hl] at hex; cases hex
    | ok r =>
      obtain ⟨ls, ui⟩ := r
      refine ⟨ls, ui, rfl, ?_, ?_⟩
      · unfold listenersOf at hl
        simp only at hl
        split at hl
        · cases hl
        · split at hl
          · split at hl
            · cases hl
            · rename_i ls' hls
              injection hl with hl
              injection hl with h1 h2
              subst h1
              exact accepted_listeners_startable _ handled hsub _ _ hls
          · cases hl
      · intro l hui
        unfold listenersOf at hl
        simp only at hl
        split at hl
        · cases hl
        · rename_i u hu
          have hu' : u = ui := by
            split at hl
            · split at hl
              · cases hl
              · injection hl with hl; injection hl with h1 h2
            · cases hl
          subst hu'
          subst hui
          split at hu
          · cases hu
          · split at hu
            · rename_i m _
              cases hm : parseListenM (listenEnvOf unq X vals) m with
              | error e => rw [hm] at hu; cases hu
              | ok l' =>
                rw [hm] at hu
                simp only [Except.map] at hu
                injection hu with hu
                injection hu with hu
                subst hu
                exact ⟨accepted_listener_startable _ handled hsub m _ hm, accepted_listener_addr _ m _ hm⟩
            · cases hu

/-- the inclusion is needed: with a switch that lacks a case, an accepted listener reaches the fatal default -/
theorem missing_case_not_startable :
    startable ["http".toList, "https".toList] { addr := ":1".toList, proto := "grpc".toList, cs := [] } = false := by
  decide

/-! ### Non-vacuity -/
section Examples
deriving instance DecidableEq for Except
def envEx : ListenEnv :=
  { addrOf := fun a => some a, fieldOK := fun _ v => v = "1s".toList, csNames := ["mycs".toList] }

example : parseListenM envEx [([], ":1234".toList)] = .ok { addr := ":1234".toList, proto := "http".toList, cs := [] } := by decide
example : parseListenM envEx [([], ":1".toList), ("cs".toList, "mycs".toList)] =
    .ok { addr := ":1".toList, proto := "https".toList, cs := "mycs".toList } := by decide
/-- the order of `cs` and `proto` does not matter -/
example : parseListenM envEx [("cs".toList, "mycs".toList), ([], ":1".toList), ("proto".toList, "tcp".toList)] =
    parseListenM envEx [("proto".toList, "tcp".toList), ("cs".toList, "mycs".toList), ([], ":1".toList)] := by decide
/-- protocol names are case-sensitive and not trimmed: what `startServers` could not start is rejected -/
example : parseListenM envEx [([], ":1".toList), ("proto".toList, "HTTP".toList)] = .error (.field "proto".toList) := by decide
example : parseListenM envEx [([], ":1".toList), ("proto".toList, "http ".toList)] = .error (.field "proto".toList) := by decide
example : parseListenM envEx [([], ":1".toList), ("proto".toList, "https".toList)] = .error .protoNeedsCs := by decide
example : parseListenM envEx [([], ":1".toList), ("proto".toList, "grpc".toList), ("cs".toList, "mycs".toList)] =
    .error .csNeedsTLSProto := by decide
example : parseListenM envEx [("proto".toList, "tcp".toList)] = .error .needAddr := by decide
example : parseListenM envEx [([], ":1".toList), ("addr".toList, ":2".toList)] = .error .twoAddrs := by decide
example : parseListenM envEx [([], ":1".toList), ("rt".toList, "x".toList)] = .error (.field "rt".toList) := by decide
/-- through `load`: a default configuration with two proxy listeners and a certificate source is accepted, its
listeners are what `listenersOf` says; one upper-case protocol name makes `load` reject the configuration -/
def extEx : ListenExt := { addrOf := fun a => some a, fieldOK := fun _ v => v = "1s".toList }
def flagsEx : List (Str × Str) :=
  [("proxy.strategy".toList, "rnd".toList), ("proxy.matcher".toList, "prefix".toList),
   ("ui.access".toList, "rw".toList), ("ui.addr".toList, ":9998".toList), ("proxy.addr".toList, ":9999".toList),
   ("proxy.cs".toList, []), ("glob.cache.size".toList, "1000".toList)]
def atoiEx (s : Str) : Int := (atoiDec s).getD 0
example : ((loadModel unquote atoiEx (listenExtra unquote extEx (fun _ => none)) flagsEx
    { cmd := [("proxy.addr".toList, ":1;cs=a,:2;proto=grpc".toList), ("proxy.cs".toList, "cs=a;type=file".toList)],
      environ := [], prefixes := [], props := none }).map (·.map (fun c => listenersOf unquote extEx c.values)))
    = .ok (.ok (.ok ([{ addr := ":1".toList, proto := "https".toList, cs := "a".toList },
                      { addr := ":2".toList, proto := "grpc".toList, cs := [] }],
                     some { addr := ":9998".toList, proto := "http".toList, cs := [] }))) := by rfl
example : ((loadModel unquote atoiEx (listenExtra unquote extEx (fun _ => none)) flagsEx
    { cmd := [], environ := ["fabio_proxy_addr=:1;proto=HTTP".toList], prefixes := ["FABIO_".toList, []], props := none }).map
      (·.map (fun _ => ()))) = .ok (.error (.other "listener".toList)) := by rfl

example : parseListenersM envEx [[([], ":1".toList)], [([], ":2".toList), ("proto".toList, "grpc".toList)]] =
    .ok [{ addr := ":1".toList, proto := "http".toList, cs := [] }, { addr := ":2".toList, proto := "grpc".toList, cs := [] }] := by decide
end Examples

end Fabio.Props.C15Listen
