import Fabio.Generated.C03
import Fabio.Model.C03
import Fabio.Props.C03Xlate
/-! C03 — change detectors (HOWTO "Obligations versus change detectors"): the *shape* of sequential, deterministic,
pure functions whose input/output behaviour a stream compares with the model on every run — `Routes.Less`
(c03.lookup table skeleton, c03.ipath table order), `sortHostsReverseHostPort` with `reverseHostPort` and
`lessSpecificHost` (c03.reverse, host lists of c03.lookup / c03.grpc; `lessSpecificHost` also by translation,
`Props/C03Xlate.lean`, imported here), the per-host scan `Table.lookup` (c03.lookup, c03.lookuphost, c03.ipath).
When this module stops building the check claims nothing broken: it runs every stream at five times the budget
with a second seed. A behaviour-preserving rewrite (range loop ↔ index loop, hoisted operands, a flipped final
`if`, a loop bound `i < len(r)/2` ↔ `i < j`) therefore ends with exit 0; a change of behaviour is for the streams
to expose. Until the end of round 4 these three lists stood in `C03Facts.lean` as obligations and an independent
author's refactoring (h4) raised a false alarm there. -/
namespace Fabio.Props.C03Pins
open Fabio Fabio.Model.C03 Fabio.Generated.C03

/-- `Routes.Less(i,j)` = `pathLt rt[j].Path rt[i].Path`: lower-cased paths first, then the paths -/
theorem routes_less : lessEvents =
    ["return strings.ToLower(recv[p1].Path) < strings.ToLower(recv[p0].Path) | strings.ToLower(recv[p0].Path) != strings.ToLower(recv[p1].Path)",
      "return recv[p1].Path < recv[p0].Path | strings.ToLower(recv[p0].Path) == strings.ToLower(recv[p1].Path)"] := by decide +kernel


/-- the host order: nothing to do below two hosts; `var0` maps every host to the two results of the unexported
`reverseHostPort` (its rune-swapping loop is the first two events; `revParts`); first sort: the reversed host
parts differ ⇒ `lessSpecificHost(other, this)`, else the ports differ ⇒ greater port first, else ties by the key
(`hostBefore`); second, stable: host names before patterns, where "pattern" is
`host == "" || ContainsAny(host, metacharacters)` (`isGlobPat`, `sortHosts`) -/
theorem host_order : sortHostsEvents =
    ["return p0 | len(p0) < 2",
      "store var2[var3] = var2[var4] | 1 < len(p0) & var3 < len(var2) / 2",
      "store var2[var4] = var2[var3] | 1 < len(p0) & var3 < len(var2) / 2",
      "store var0[val(p0)] = hostPort{reverseHostPort.0, reverseHostPort.1} | 1 < len(p0)",
      "freturn lessSpecificHost(var0[p0[a1]].host, var0[p0[a0]].host) | 1 < len(p0) & var0[p0[a0]].host != var0[p0[a1]].host",
      "freturn var0[p0[a1]].port < var0[p0[a0]].port | 1 < len(p0) & var0[p0[a0]].host == var0[p0[a1]].host & var0[p0[a0]].port != var0[p0[a1]].port",
      "freturn p0[a1] < p0[a0] | 1 < len(p0) & var0[p0[a0]].host == var0[p0[a1]].host & var0[p0[a0]].port == var0[p0[a1]].port",
      "call sort.Slice(p0, func) | 1 < len(p0)",
      "freturn !(\"\" == p0[a0] || strings.ContainsAny(p0[a0], \"*?[{\\\\\")) && (\"\" == p0[a1] || strings.ContainsAny(p0[a1], \"*?[{\\\\\")) | 1 < len(p0)",
      "call sort.SliceStable(p0, func) | 1 < len(p0)",
      "return p0 | 1 < len(p0)"] := by decide +kernel


/-- the per-host scan (`Table.lookup`): routes of the lower-cased host in table order; at the first route the
matcher accepts: no target ⇒ nil, one target ⇒ it, else the picker's choice; nil when no route matches
(`lookupRoutes`, `lookup`) -/
theorem scan_host : scanHostEvents =
    ["range recv[strings.ToLower(p0)]",
      "return nil | 0 == len(val(recv[strings.ToLower(p0)]).Targets) & p4(p1, val(recv[strings.ToLower(p0)]))",
      "assign var0 = val(recv[strings.ToLower(p0)]).Targets[0] | 0 != len(val(recv[strings.ToLower(p0)]).Targets) & 1 == len(val(recv[strings.ToLower(p0)]).Targets) & p4(p1, val(recv[strings.ToLower(p0)]))",
      "assign var0 = p3(val(recv[strings.ToLower(p0)])) | 0 != len(val(recv[strings.ToLower(p0)]).Targets) & 1 != len(val(recv[strings.ToLower(p0)]).Targets) & p4(p1, val(recv[strings.ToLower(p0)]))",
      "return var0 | 0 != len(val(recv[strings.ToLower(p0)]).Targets) & p4(p1, val(recv[strings.ToLower(p0)]))",
      "return nil"] := by decide +kernel



end Fabio.Props.C03Pins
