import Fabio.Model.C15Slice
/-!
C15 — list-valued options: `Set` never writes an array it did not allocate (so the package-level defaults, which
the flag variables share their arrays with, and every `Config` returned earlier are untouched by a later load),
and the value it leaves is a function of the string alone.
-/
namespace Fabio.Props.C15Slice
open Fabio Fabio.Model.C15

theorem setAt_length {α} (l : List α) (i : Nat) (x : α) : (setAt l i x).length = l.length := by
  induction l generalizing i with
  | nil => cases i <;> rfl
  | cons a t ih => cases i with
    | zero => rfl
    | succ i => simp [setAt, ih]

theorem write_length {α} (h : Store α) (a i : Nat) (x : α) : (Store.write h a i x).length = h.length := by
  induction h generalizing a with
  | nil => cases a <;> rfl
  | cons c t ih => cases a with
    | zero => rfl
    | succ a => simp [Store.write, ih]

/-- writing array `a` leaves the arrays before it alone -/
theorem write_take {α} (h : Store α) (a i n : Nat) (x : α) (hn : n ≤ a) :
    (Store.write h a i x).take n = h.take n := by
  induction h generalizing a n with
  | nil => cases a <;> rfl
  | cons c t ih =>
    cases n with
    | zero => simp
    | succ n =>
      cases a with
      | zero => omega
      | succ a => simp [Store.write, ih a n (by omega)]

theorem appendH_take {α} (zero : α) (grow : Nat → Nat) (h : Store α) (v : SliceH) (x : α) (n : Nat)
    (hh : n ≤ h.length) (hv : n ≤ v.arr) :
    (appendH zero grow h v x).1.take n = h.take n ∧ n ≤ (appendH zero grow h v x).1.length
      ∧ n ≤ (appendH zero grow h v x).2.arr := by
  unfold appendH
  split
  · exact ⟨write_take h _ _ n x hv, by rw [write_length]; exact hh, hv⟩
  · refine ⟨?_, ?_, hh⟩
    · simp [List.take_append_of_le_length hh]
    · simp; omega

theorem setLoop_take {α} (zero : α) (grow : Nat → Nat) (parse : Str → Option α) (fs : List Str) (h : Store α)
    (v : SliceH) (n : Nat) (hh : n ≤ h.length) (hv : n ≤ v.arr) :
    (setLoop zero grow parse fs h v).1.take n = h.take n := by
  induction fs generalizing h v with
  | nil => rfl
  | cons f fs ih =>
    simp only [setLoop]
    cases parse f with
    | none => rfl
    | some x =>
      obtain ⟨h1, h2, h3⟩ := appendH_take zero grow h v x n hh hv
      simp only
      rw [ih _ _ h2 h3, h1]

/--
**`Set` never writes an array that existed before the call** — for every store (in particular: the backing arrays
of `defaultConfig`'s lists and of every `Config` returned by an earlier `Load`), every string, every element
parser and every growth policy of `append`: all arrays of the store are unchanged after `Set`.  (This is what
"the value from one load does not leak into the next" rests on; it holds because `Set` starts from `[]T{}`.)
-/
theorem sliceSet_preserves_store {α} (zero : α) (grow : Nat → Nat) (parse : Str → Option α) (h : Store α) (s : Str) :
    (sliceSet zero grow parse h s).1.take h.length = h := by
  unfold sliceSet
  rw [setLoop_take zero grow parse _ h _ h.length (Nat.le_refl _) (Nat.le_refl _)]
  simp

/-- starting from the old slice truncated to length 0 instead does write the shared array: a default `[passing]`
becomes `[critical]` for every later load (seeded change m10) -/
theorem truncating_set_overwrites_default :
    let h : Store Str := [["passing".toList]]
    (sliceSetTruncating [] (fun _ => 0) some h { arr := 0, len := 1, cap := 1 } "critical".toList).1
      = [["critical".toList]] ∧
    (sliceSet [] (fun _ => 0) some h "critical".toList).1.take 1 = h := by
  decide

/-! ### the value -/

theorem setAt_take {α} (l : List α) (i : Nat) (x : α) (hi : i < l.length) :
    (setAt l i x).take (i + 1) = l.take i ++ [x] := by
  induction l generalizing i with
  | nil => simp at hi
  | cons a t ih =>
    cases i with
    | zero => simp [setAt]
    | succ i => simp [setAt, ih i (by simpa using hi)]

theorem write_get {α} (h : Store α) (a i : Nat) (x : α) (cells : List α) (ha : h[a]? = some cells) :
    (Store.write h a i x)[a]? = some (setAt cells i x) := by
  induction h generalizing a with
  | nil => simp at ha
  | cons c t ih =>
    cases a with
    | zero => simp at ha; subst ha; simp [Store.write]
    | succ a => simp at ha; simp [Store.write, ih a ha]

/-- the slice is backed by a real array of its capacity (or has no capacity at all) -/
def Backed {α} (h : Store α) (v : SliceH) : Prop :=
  v.len ≤ v.cap ∧ (v.cap = 0 ∨ ∃ cells, h[v.arr]? = some cells ∧ cells.length = v.cap)

theorem read_new {α} (h : Store α) (r rest : List α) (x : α) (c : Nat) :
    Store.read (h ++ [r ++ [x] ++ rest]) { arr := h.length, len := r.length + 1, cap := c } = r ++ [x] := by
  have : r.length + 1 = (r ++ [x]).length := by simp
  simp only [Store.read, List.getElem?_concat_length, Option.getD_some]
  rw [this, List.take_left']
  rfl

theorem appendH_read {α} (zero : α) (grow : Nat → Nat) (h : Store α) (v : SliceH) (x : α) (hb : Backed h v) :
    (appendH zero grow h v x).1.read (appendH zero grow h v x).2 = h.read v ++ [x] ∧
    Backed (appendH zero grow h v x).1 (appendH zero grow h v x).2 := by
  obtain ⟨hle, hc⟩ := hb
  unfold appendH
  split
  · rename_i hlt
    rcases hc with hc | ⟨cells, hg, hl⟩
    · omega
    · refine ⟨?_, ?_, Or.inr ⟨setAt cells v.len x, write_get h _ _ x cells hg, by rw [setAt_length]; exact hl⟩⟩
      · simp only [Store.read, write_get h _ _ x cells hg, hg, Option.getD_some]
        exact setAt_take cells v.len x (by omega)
      · show v.len + 1 ≤ v.cap; omega
  · rename_i hnlt
    have hrl : (h.read v).length = v.len := by
      rcases hc with hc | ⟨cells, hg, hl⟩
      · have : v.len = 0 := by omega
        simp [Store.read, this]
      · simp only [Store.read, hg, Option.getD_some, List.length_take]
        omega
    have hget : (h ++ [h.read v ++ [x] ++ List.replicate (grow (v.len + 1)) zero])[h.length]? =
        some (h.read v ++ [x] ++ List.replicate (grow (v.len + 1)) zero) := by simp
    refine ⟨?_, ?_, Or.inr ⟨_, hget, ?_⟩⟩
    · have := read_new h (h.read v) (List.replicate (grow (v.len + 1)) zero) x (v.len + 1 + grow (v.len + 1))
      rw [hrl] at this
      exact this
    · show v.len + 1 ≤ v.len + 1 + grow (v.len + 1); omega
    · simp [hrl]; omega

theorem setLoop_read {α} (zero : α) (grow : Nat → Nat) (parse : Str → Option α) (fs : List Str) (h : Store α)
    (v : SliceH) (hb : Backed h v) :
    (setLoop zero grow parse fs h v).1.read (setLoop zero grow parse fs h v).2.1 = h.read v ++ setValue parse fs := by
  induction fs generalizing h v with
  | nil => simp [setLoop, setValue]
  | cons f fs ih =>
    simp only [setLoop, setValue]
    cases parse f with
    | none => simp
    | some x =>
      obtain ⟨h1, h2⟩ := appendH_read zero grow h v x hb
      simp only
      rw [ih _ _ h2, h1]
      simp

/-- **The value `Set` leaves is a function of the string alone**: the parsed fields (split at commas, blanks
trimmed, empty fields skipped) up to the first that does not parse — whatever the variable held before, whatever
is in the store, however `append` grows. -/
theorem sliceSet_value {α} (zero : α) (grow : Nat → Nat) (parse : Str → Option α) (h : Store α) (s : Str) :
    (sliceSet zero grow parse h s).1.read (sliceSet zero grow parse h s).2.1 = setValue parse (listFields s) := by
  unfold sliceSet
  rw [setLoop_read zero grow parse _ h _ ⟨Nat.le_refl _, Or.inl rfl⟩]
  simp [Store.read]

/-! ### Non-vacuity -/
section Examples
example : listFields " a , b ,, c".toList = ["a".toList, "b".toList, "c".toList] := by decide
example : listFields ",".toList = [] ∧ listFields [] = [] ∧ listFields " ".toList = [] := by decide
/-- a second `Set` in the same load (`-x=a -x=b,c`) replaces the first value and leaves the first array alone -/
example :
    let r1 := sliceSet ([] : Str) (fun n => n) some [["dflt".toList]] "a".toList
    let r2 := sliceSet ([] : Str) (fun n => n) some r1.1 "b,c".toList
    r2.1.read r2.2.1 = ["b".toList, "c".toList] ∧ r2.1.read r1.2.1 = ["a".toList] ∧ r2.1.take 1 = [["dflt".toList]] := by
  decide
/-- a field that does not parse stops the loop with the earlier fields kept (what `ParseFlags` then ignores) -/
example : setValue (fun f => if f = "x".toList then none else some f) (listFields "1,x,2".toList) = ["1".toList] := by decide
end Examples

end Fabio.Props.C15Slice
