import Fabio.Props.C04
import Fabio.Props.C06
import Fabio.Lemmas.C04Compose
/-!
C04 ∘ C06 — the property's round-robin sentence end to end and under concurrency, and the share a
`route weight` command hands to the targets it matches.

* table: any table a command script (or configuration text, after parsing) builds — `newTable env defs = ok t`;
* ring: `every_route_ring` (any placement order of the unstable sort);
* concurrency: the interleaving model of `Model/C06.lean` — any number of goroutines, `ks[i]` round-robin
  picks by goroutine `i`, each pick one atomic fetch-add on the route's cursor (`rrThreadRepaired`, the form
  `/repo` has since the repair of D09), **every** schedule (also one that stops half-way), any start cursor.
  The cursor is an unbounded natural there (no uint64 wrap-around).

`K` = number of picks performed, `N` = ring length = Σ nᵢ, `nᵢ` = slots of target `i`.
-/
namespace Fabio.Props.C04Compose
open Fabio Fabio.Model.Route Fabio.Model.C04 Fabio.Lemmas.C04 Fabio.Props.C04

/-- **Round-robin share, every table, every route, every tie order, every schedule.** Target `i` receives
between `⌊K/N⌋·nᵢ` and `⌈K/N⌉·nᵢ` of the `K` picks — exactly `nᵢ` per cycle over whole cycles — where `nᵢ`
is its slot count, `|nᵢ − 10⁴·wᵢ| < 1` (and `nᵢ = 1`, `wᵢ = 1/n` exactly, when no target has a fixed weight). -/
theorem rr_share_any_schedule (env : Env) (defs : List RouteDef) (t : Table) (h : newTable env defs = .ok t) :
    ∀ kv ∈ t, ∀ r ∈ kv.2, ∀ pl : List (Int × Nat), pl.Perm (entries (slotCounts r.targets)) →
      ∃ ring, ringOf r.targets pl = .ok ring ∧ 0 < ring.length ∧
        ∀ (ks : List Nat) (s : Model.C06.State) (sch : List Nat) (i : Nat) (tg : Target),
          r.targets[i]? = some tg →
          picksDone ring ks s sch / ring.length * ring.count (some i) ≤ hitsOf ring ks s sch i ∧
          hitsOf ring ks s sch i ≤ (picksDone ring ks s sch + ring.length - 1) / ring.length * ring.count (some i) ∧
          (picksDone ring ks s sch % ring.length = 0 →
            hitsOf ring ks s sch i = picksDone ring ks s sch / ring.length * ring.count (some i)) ∧
          ring.count (some i) = (if nFixed r.targets = 0 then 1 else (slotCount tg.weight).toNat) ∧
          (nFixed r.targets ≠ 0 → |((ring.count (some i) : Nat) : Rat) - 10000 * tg.weight| < 1) ∧
          (nFixed r.targets = 0 → tg.weight = 1 / (r.targets.length : Rat)) := by
  intro kv hkv r hr pl hperm
  obtain ⟨ring, h1, h2, h3, h4⟩ := every_route_ring env defs t h kv hkv r hr pl hperm
  obtain ⟨_, hnn, _⟩ := every_route_weights env defs t h kv hkv r hr
  obtain ⟨_, ts, hts⟩ := newTable_ok env defs t h kv hkv r hr
  have hl : 0 < ring.length := List.length_pos_iff.mpr h2
  refine ⟨ring, h1, hl, fun ks s sch i tg hi => ?_⟩
  have hC := Props.C06.rr_target_share_any_schedule (slotTargets ring) (by rw [slotTargets_length]; exact hl) ks s sch i
  simp only [slotTargets_length, slotTargets_count ring h3] at hC
  obtain ⟨hlo, hhi, hex, _⟩ := hC
  obtain ⟨hc, _, _⟩ := h4 i tg hi
  have hw : 0 ≤ tg.weight := hnn tg (List.mem_of_getElem? hi)
  refine ⟨hlo, ?_, hex, hc, fun hn => ?_, fun h0 => ?_⟩
  · rcases ceil_cases (picksDone ring ks s sch) ring.length hl with ⟨hm, he⟩ | ⟨_, he⟩
    · rw [he]; exact Nat.le_of_eq (hex hm)
    · rw [he]; exact hhi
  · rw [hc]; simp only [hn, if_false]; exact toNat_slot_abs _ hw
  · rw [hts] at hi h0 ⊢
    rw [weigh_nFixed] at h0
    rw [weigh_length]
    have hil : i < ts.length := by
      by_cases hlt : i < ts.length
      · exact hlt
      · rw [List.getElem?_eq_none (by rw [weigh_length]; omega)] at hi; cases hi
    rw [weigh_getElem?, List.getElem?_eq_getElem hil] at hi
    have := Option.some.inj hi
    rw [← this]; simp [eff, h0]

/-- Under every schedule that performs at least one full cycle of picks, every target with positive weight
is picked at least once. -/
theorem positive_weight_never_starved_any_schedule (env : Env) (defs : List RouteDef) (t : Table)
    (h : newTable env defs = .ok t) :
    ∀ kv ∈ t, ∀ r ∈ kv.2, ∀ pl : List (Int × Nat), pl.Perm (entries (slotCounts r.targets)) →
      ∃ ring, ringOf r.targets pl = .ok ring ∧
        ∀ (ks : List Nat) (s : Model.C06.State) (sch : List Nat) (i : Nat) (tg : Target),
          r.targets[i]? = some tg → 0 < tg.weight → ring.length ≤ picksDone ring ks s sch →
          1 ≤ hitsOf ring ks s sch i := by
  intro kv hkv r hr pl hperm
  obtain ⟨ring, h1, hl, hS⟩ := rr_share_any_schedule env defs t h kv hkv r hr pl hperm
  obtain ⟨ring', h1', _, _, h4⟩ := every_route_ring env defs t h kv hkv r hr pl hperm
  rw [h1] at h1'; cases h1'
  refine ⟨ring, h1, fun ks s sch i tg hi hp hK => ?_⟩
  obtain ⟨hlo, _⟩ := hS ks s sch i tg hi
  have hmem := (h4 i tg hi).2.1 hp
  have hc : 1 ≤ ring.count (some i) := List.count_pos_iff.mpr hmem
  have hq : 1 ≤ picksDone ring ks s sch / ring.length := (Nat.le_div_iff_mul_le hl).mpr (by omega)
  calc 1 = 1 * 1 := rfl
    _ ≤ picksDone ring ks s sch / ring.length * ring.count (some i) := Nat.mul_le_mul hq hc
    _ ≤ _ := hlo

/-- Under every schedule a target with weight zero is never picked. -/
theorem zero_weight_never_picked_any_schedule (env : Env) (defs : List RouteDef) (t : Table)
    (h : newTable env defs = .ok t) :
    ∀ kv ∈ t, ∀ r ∈ kv.2, ∀ pl : List (Int × Nat), pl.Perm (entries (slotCounts r.targets)) →
      ∃ ring, ringOf r.targets pl = .ok ring ∧
        ∀ (ks : List Nat) (s : Model.C06.State) (sch : List Nat) (i : Nat) (tg : Target),
          r.targets[i]? = some tg → tg.weight = 0 → hitsOf ring ks s sch i = 0 := by
  intro kv hkv r hr pl hperm
  obtain ⟨ring, h1, _, hS⟩ := rr_share_any_schedule env defs t h kv hkv r hr pl hperm
  obtain ⟨ring', h1', _, _, h4⟩ := every_route_ring env defs t h kv hkv r hr pl hperm
  rw [h1] at h1'; cases h1'
  refine ⟨ring, h1, fun ks s sch i tg hi hz => ?_⟩
  obtain ⟨_, hhi, _⟩ := hS ks s sch i tg hi
  have hnot := (h4 i tg hi).2.2 hz
  have hc : ring.count (some i) = 0 := List.count_eq_zero.mpr hnot
  rw [hc, Nat.mul_zero] at hhi
  omega

/-! ## `route weight`

`route weight <svc> <src> weight w tags "…"` on a route with `k ≥ 1` matching targets and `w > 0`: the
matching targets are given the requested weight `w/k` each (`setWeight_spreads`), the sum of the requested
weights becomes `S = w + Σ (positive requested weights of the non-matching targets)`, and the matching
targets **together** receive

* `w`      when `S ≤ 1` and some target is dynamic, or `S = 1`   (honoured as given),
* `w / S`  when `S > 1`                                            (scaled down proportionally),
* `w / S`  when every target is fixed and `S < 1`                  (scaled up),

so with a dynamic target present the combined share is `w / max(1, S) = min(w, w/S) ≤ 1`. (For `w ≤ 0` the
matching targets become dynamic: `dynamic_share_equal`.) -/

theorem route_weight_share (r : Route) (service : Str) (w : Rat) (tags : List Str) (hw : 0 < w)
    (hk : (r.targets.filter (matchesWeight service tags)).length ≠ 0) :
    let m := matchesWeight service tags
    let r' := (r.setWeight service w tags).1
    let S := w + sumFixed (r.targets.filter (fun t => !m t))
    sumFixed r'.targets = S ∧
    shareOf m r'.targets =
      (if 1 < S ∨ (nFixed r'.targets = r'.targets.length ∧ S < 1) then w / S else w) := by
  intro m r' S
  have hkQ : ((r.targets.filter m).length : Rat) ≠ 0 := by exact_mod_cast hk
  have hc : 0 < w / ((r.targets.filter m).length : Rat) :=
    div_pos hw (by exact_mod_cast Nat.pos_of_ne_zero hk)
  have hr' : r'.targets = weigh (spread m (w / ((r.targets.filter m).length : Rat)) r.targets) := by
    show (r.setWeight service w tags).1.targets = _
    simp only [Route.setWeight, hk, if_false]
    rfl
  have hS : sumFixed (spread m (w / ((r.targets.filter m).length : Rat)) r.targets) = S := by
    rw [sumFixed_spread m _ hc]
    show _ = w + _
    field_simp
  have hm : OnlyServiceTags m := by
    intro t t' hs ht
    show matchesWeight service tags t = matchesWeight service tags t'
    simp [matchesWeight, hs, ht]
  refine ⟨by rw [hr', weigh_sumFixed, hS], ?_⟩
  rw [hr', shareOf_weigh_spread m _ hc r.targets hm hk, weigh_nFixed, weigh_length]
  unfold scaleOf
  rw [hS]
  have e : w / ((r.targets.filter m).length : Rat) * ((r.targets.filter m).length : Rat) = w := by
    field_simp
  rw [e]
  split
  · rw [mul_one_div]
  · rw [mul_one]

/-- Corollary: honoured as given. -/
theorem route_weight_share_honoured (r : Route) (service : Str) (w : Rat) (tags : List Str) (hw : 0 < w)
    (hk : (r.targets.filter (matchesWeight service tags)).length ≠ 0)
    (hS : w + sumFixed (r.targets.filter (fun t => !matchesWeight service tags t)) ≤ 1)
    (hd : nFixed (r.setWeight service w tags).1.targets < (r.setWeight service w tags).1.targets.length) :
    shareOf (matchesWeight service tags) (r.setWeight service w tags).1.targets = w := by
  have h := (route_weight_share r service w tags hw hk).2
  rw [h, if_neg]
  intro hc
  rcases hc with hc | ⟨hc, _⟩
  · exact absurd hS (not_le.mpr hc)
  · omega

/-- Corollary: a share that pushes the requested weights over 100 % is scaled down to `w / S`. -/
theorem route_weight_share_scaled_down (r : Route) (service : Str) (w : Rat) (tags : List Str) (hw : 0 < w)
    (hk : (r.targets.filter (matchesWeight service tags)).length ≠ 0)
    (hS : 1 < w + sumFixed (r.targets.filter (fun t => !matchesWeight service tags t))) :
    shareOf (matchesWeight service tags) (r.setWeight service w tags).1.targets =
      w / (w + sumFixed (r.targets.filter (fun t => !matchesWeight service tags t))) := by
  have h := (route_weight_share r service w tags hw hk).2
  rw [h, if_pos (Or.inl hS)]

/-! ## non-vacuity -/

def tg (svc : Char) (fw : Rat) : Target := { service := [svc], tags := [], opts := [], url := [svc], fixedWeight := fw }
def rt (ts : List Target) : Route := { host := [], path := ['/'], targets := weigh ts }

-- `route weight a / weight 3` then `route weight b / weight 1` ⇒ 75 % / 25 %
example : (((rt [tg 'a' 0, tg 'b' 0]).setWeight ['a'] 3 []).1.setWeight ['b'] 1 []).1.targets.map (·.weight) = [3/4, 1/4] := by
  decide +kernel
-- two of three targets match `weight 0.5`: 0.25 each, the dynamic one gets the other half
example : ((rt [tg 'a' 0, tg 'a' 0, tg 'b' 0]).setWeight ['a'] (1/2) []).1.targets.map (·.weight) = [1/4, 1/4, 1/2] := by
  decide +kernel
example : shareOf (matchesWeight ['a'] []) ((rt [tg 'a' 0, tg 'a' 0, tg 'b' 0]).setWeight ['a'] (1/2) []).1.targets = 1/2 := by
  decide +kernel
-- share 2 next to a fixed 0.5: S = 2.5, combined share 2/2.5 = 4/5
example : shareOf (matchesWeight ['a'] []) ((rt [tg 'a' 0, tg 'b' (1/2)]).setWeight ['a'] 2 []).1.targets = 4/5 := by
  decide +kernel
-- a table with a weighted route exists (hypothesis of the schedule theorems) and two goroutines, 3 + 4 picks,
-- interleaved, on a ring of 4 (3 slots for target 0, 1 for target 1): 7 picks from cursor 0 ⇒ 5 and 2
-- (between ⌊7/4⌋·nᵢ and ⌈7/4⌉·nᵢ: 3…6 and 1…2)
example : hitsOf [some 1, some 0, some 0, some 0] [3, 4] {} [0, 1, 1, 0, 1, 0, 1] 0 = 5 ∧
    hitsOf [some 1, some 0, some 0, some 0] [3, 4] {} [0, 1, 1, 0, 1, 0, 1] 1 = 2 ∧
    picksDone [some 1, some 0, some 0, some 0] [3, 4] {} [0, 1, 1, 0, 1, 0, 1] = 7 := by decide +kernel
example : ∃ t, newTable ⟨fun s => some s, fun _ => true⟩
    [{ cmd := .add, service := ['a'], src := ['/'], dst := ['x'], weight := 1/4 },
     { cmd := .add, service := ['b'], src := ['/'], dst := ['y'] }] = .ok t ∧ t ≠ [] := ⟨_, rfl, by decide +kernel⟩

end Fabio.Props.C04Compose
