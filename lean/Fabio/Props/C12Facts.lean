import Fabio.Generated.C12
import Fabio.Props.C12
/-! Obligations over the facts regenerated from `/repo` on every run (gate order, statuses, tags). -/
namespace Fabio.Props.C12Facts
open Fabio Fabio.Model.C12 Fabio.Generated.C12

def steps (xs : List String) : Option (List Step) := xs.mapM stepOfString

/-- `HTTPProxy.ServeHTTP`: lookup, then the access check, then authentication, then the redirect answer of a
`redirect=` route, then the first reference to anything that contacts an upstream (a dial function, the handler's `ServeHTTP`); events are callee names in visit
order with unexported helpers inlined. -/
theorem http_order_pinned : steps httpOrder = some [.lookup, .access, .auth, .redirect, .upstream] := by decide

/-- Both gates are top-level statements `if <check> { http.Error(…); return }` of the function body. -/
theorem http_gates_return : httpGatesReturn = true := by decide

/-- Hence (by `gate_before_upstream` at the regenerated order) `ServeHTTP` reaches an upstream only for a
request that found a route, passed the access rules and was authorized. -/
theorem http_gate_before_upstream (env : Env) (ss : List Step) (hs : steps httpOrder = some ss)
    (h : (runGate env ss false).2 = true) :
    env.found = true ∧ env.denied = false ∧ env.authorized = true := by
  have : ss = [.lookup, .access, .auth, .redirect, .upstream] := by
    have := http_order_pinned; rw [hs] at this; exact Option.some.inj this
  subst this
  exact Props.C12.gate_before_upstream env _ (by decide) h

/-- … and answers with the route's redirect only such a request: a denied or unauthenticated request to a
redirect route gets 403/401, not 3xx. -/
theorem http_gate_before_redirect (env : Env) (ss : List Step) (hs : steps httpOrder = some ss)
    (h : (runGate env ss false).1 = .redirected) :
    env.found = true ∧ env.denied = false ∧ env.authorized = true := by
  have : ss = [.lookup, .access, .auth, .redirect, .upstream] := by
    have := http_order_pinned; rw [hs] at this; exact Option.some.inj this
  subst this
  exact Props.C12.gate_before_redirect env _ false (by decide) h

theorem http_statuses_pinned : httpDeniedStatus = "403" ∧ httpUnauthorizedStatus = "401" := by decide

/-- The three TCP proxies: lookup, access check, then the dial; the check's body returns; the inbound
connection is closed by the leading `defer in.Close()`. -/
theorem tcp_orders_pinned :
    steps tcpOrder = some [.lookup, .access, .upstream] ∧
    steps sniOrder = some [.lookup, .access, .upstream] ∧
    steps dynOrder = some [.lookup, .access, .upstream] := by decide

theorem tcp_gates_return_and_close :
    (tcpGateReturns && sniGateReturns && dynGateReturns && tcpDeferClose && sniDeferClose && dynDeferClose) = true := by
  decide

theorem tcp_gate_before_upstream (env : Env) (ss : List Step)
    (hs : steps tcpOrder = some ss ∨ steps sniOrder = some ss ∨ steps dynOrder = some ss)
    (h : (runGate env ss false).2 = true) : env.found = true ∧ env.denied = false := by
  have : ss = [.lookup, .access, .upstream] := by
    obtain ⟨h1, h2, h3⟩ := tcp_orders_pinned
    rcases hs with hs | hs | hs
    · rw [hs] at h1; exact Option.some.inj h1
    · rw [hs] at h2; exact Option.some.inj h2
    · rw [hs] at h3; exact Option.some.inj h3
  subst this
  exact Props.C12.gate_before_upstream_tcp env _ (by decide) h

/-- `GrpcProxyInterceptor.Stream`: lookup, then the access check on the peer address (a top-level
`if … { return status.Error(codes.PermissionDenied, …) }`), then the route's auth scheme on the call's
`authorization` metadata (`Target.Authorized`; failure answers `Unauthenticated`), then the handler that runs the
director and dials (repair of D31, both halves). -/
theorem grpc_order_pinned : steps grpcOrder = some [.lookup, .access, .auth, .upstream] := by decide

theorem grpc_gate_returns : grpcGateReturns = true ∧ grpcDeniedCode = "PermissionDenied" := by decide

/-- Hence the gRPC path reaches a backend only for a call that found a route, whose peer the rules admit and
whose credentials the route's scheme accepts. -/
theorem grpc_gate_before_upstream (env : Env) (ss : List Step) (hs : steps grpcOrder = some ss)
    (h : (runGate env ss false).2 = true) :
    env.found = true ∧ env.denied = false ∧ env.authorized = true := by
  have : ss = [.lookup, .access, .auth, .upstream] := by
    have := grpc_order_pinned; rw [hs] at this; exact Option.some.inj this
  subst this
  exact Props.C12.gate_before_upstream env _ (by decide) h

/-- `AccessDeniedTCP` decides by calling `AccessDeniedAddr`, the function the gRPC interceptor uses: one
decision (the model's `accessDeniedTCP`) for TCP connections and gRPC peers. -/
theorem tcp_and_grpc_share_decision : tcpDelegatesToAddr = true := by decide

/-- Every auth scheme (a type of package `auth` with an `Authorized` method) is a struct of a string (realm) and
the htpasswd file handle, nothing else (no cache, no counters, no lock), and `Authorized` — helpers inlined —
only reads the request's credentials (`BasicAuth`), sets the challenge header (`Header`, `Set`) and asks the
file (`Match`), storing into nothing but local variables: the decision is a function of the attempt and the
file (`auth_decision_depends_only_on_attempt`). Field, parameter and type names are not pinned. -/
theorem auth_schemes_are_stateless :
    authSchemeTypes = 1 ∧ authSchemeFieldTypes = ["*htpasswd.File", "string"] ∧
    authorizedCallees = ["BasicAuth", "Header", "Match", "Set"] ∧ authorizedWrites = 0 := by decide

/-- The keys of the rule map the model calls `allow` and `deny`. -/
theorem tags_pinned : ipAllowTag = "allow:ip" ∧ ipDenyTag = "deny:ip" := by decide

/-- `Route.addTarget` processes the access options of every target it adds. -/
theorem add_target_processes_rules : addTargetProcessesRules = true := by decide

/-- Every error return of `ProcessAccessRules` is directly preceded by the installation of an allow list without
blocks (`<recv>.accessRules = map…{"allow:ip": {}}`, written inline or as a call of a helper whose body is
exactly that assignment, whatever its name) — the model's `Rules.denyAll`; repair of D16. -/
theorem process_fails_closed :
    processErrorReturns = processErrorReturnsFailClosed ∧ 0 < processErrorReturns ∧
    denyAllInstallsEmptyAllowList = true := by decide

end Fabio.Props.C12Facts
