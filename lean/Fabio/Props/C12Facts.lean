import Fabio.Generated.C12
import Fabio.Props.C12
/-! Obligations over the facts regenerated from `/repo` on every run (gate order, statuses, tags). -/
namespace Fabio.Props.C12Facts
open Fabio Fabio.Model.C12 Fabio.Generated.C12

def steps (xs : List String) : Option (List Step) := xs.mapM stepOfString

/-- `HTTPProxy.ServeHTTP`: lookup, then the access check, then authentication, then the redirect answer of a
`redirect=` route, then the first reference to anything that contacts an upstream (handler construction, dial, `h.ServeHTTP`). -/
theorem http_order_pinned : steps httpOrder = some [.lookup, .access, .auth, .redirect, .upstream] := by decide

/-- Both gates are top-level statements `if <check> { http.Error(…); return }` of the function body. -/
theorem http_gates_return : httpGatesReturn = true := by decide

/-- Hence (by `gate_before_upstream` at the regenerated order) `ServeHTTP` reaches an upstream only for a
request that found a route, passed the access rules and was authorized. -/
theorem http_gate_before_upstream (env : Env) (ss : List Step) (hs : steps httpOrder = some ss)
    (h : (runGate env ss false).2 = true) :
    env.found = true ∧ env.denied = false ∧ env.authorized = true := by
  have : ss = [.lookup, .access, .auth, .redirect, .upstream] := by
    have := http_order_pinned; rw [hs] at this; exact Option.some.inj this
  subst this
  exact Props.C12.gate_before_upstream env _ (by decide) h

/-- … and answers with the route's redirect only such a request: a denied or unauthenticated request to a
redirect route gets 403/401, not 3xx. -/
theorem http_gate_before_redirect (env : Env) (ss : List Step) (hs : steps httpOrder = some ss)
    (h : (runGate env ss false).1 = .redirected) :
    env.found = true ∧ env.denied = false ∧ env.authorized = true := by
  have : ss = [.lookup, .access, .auth, .redirect, .upstream] := by
    have := http_order_pinned; rw [hs] at this; exact Option.some.inj this
  subst this
  exact Props.C12.gate_before_redirect env _ false (by decide) h

theorem http_statuses_pinned :
    httpDeniedStatus = "http.StatusForbidden" ∧ httpUnauthorizedStatus = "http.StatusUnauthorized" := by decide

/-- The three TCP proxies: lookup, access check, then the dial; the check's body returns; the inbound
connection is closed by the leading `defer in.Close()`. -/
theorem tcp_orders_pinned :
    steps tcpOrder = some [.lookup, .access, .upstream] ∧
    steps sniOrder = some [.lookup, .access, .upstream] ∧
    steps dynOrder = some [.lookup, .access, .upstream] := by decide

theorem tcp_gates_return_and_close :
    (tcpGateReturns && sniGateReturns && dynGateReturns && tcpDeferClose && sniDeferClose && dynDeferClose) = true := by
  decide

theorem tcp_gate_before_upstream (env : Env) (ss : List Step)
    (hs : steps tcpOrder = some ss ∨ steps sniOrder = some ss ∨ steps dynOrder = some ss)
    (h : (runGate env ss false).2 = true) : env.found = true ∧ env.denied = false := by
  have : ss = [.lookup, .access, .upstream] := by
    obtain ⟨h1, h2, h3⟩ := tcp_orders_pinned
    rcases hs with hs | hs | hs
    · rw [hs] at h1; exact Option.some.inj h1
    · rw [hs] at h2; exact Option.some.inj h2
    · rw [hs] at h3; exact Option.some.inj h3
  subst this
  exact Props.C12.gate_before_upstream_tcp env _ (by decide) h

/-- `GrpcProxyInterceptor.Stream`: lookup, then the access check on the peer address (a top-level
`if … { return status.Error(codes.PermissionDenied, …) }`), then the handler that runs the director and dials.
There is no authentication step on this path (recorded finding, class `grpc-unauthorized`). -/
theorem grpc_order_pinned : steps grpcOrder = some [.lookup, .access, .upstream] := by decide

theorem grpc_gate_returns : grpcGateReturns = true ∧ grpcDeniedCode = "codes.PermissionDenied" := by decide

theorem grpc_gate_before_upstream (env : Env) (ss : List Step) (hs : steps grpcOrder = some ss)
    (h : (runGate env ss false).2 = true) : env.found = true ∧ env.denied = false := by
  have : ss = [.lookup, .access, .upstream] := by
    have := grpc_order_pinned; rw [hs] at this; exact Option.some.inj this
  subst this
  exact Props.C12.gate_before_upstream_tcp env _ (by decide) h

/-- `AccessDeniedTCP` decides by calling `AccessDeniedAddr`, the function the gRPC interceptor uses: one
decision (the model's `accessDeniedTCP`) for TCP connections and gRPC peers. -/
theorem tcp_and_grpc_share_decision : tcpDelegatesToAddr = 1 := by decide

/-- The basic scheme is the realm and the htpasswd file handle, nothing else (no cache, no counters), and
`basic.Authorized` only reads the request's credentials, sets the challenge header and asks the file: the
decision is a function of the attempt and the file (`auth_decision_depends_only_on_attempt`). -/
theorem basic_scheme_is_stateless :
    basicFields = ["realm string", "secrets *htpasswd.File"] ∧
    basicAuthorizedCalls = ["request.BasicAuth", "response.Header().Set", "response.Header", "b.secrets.Match"] ∧
    basicAuthorizedWrites = 0 := by decide

/-- The keys of the rule map the model calls `allow` and `deny`. -/
theorem tags_pinned : ipAllowTag = "allow:ip" ∧ ipDenyTag = "deny:ip" := by decide

/-- `Route.addTarget` processes the access options of every target it adds. -/
theorem add_target_processes_rules : addTargetProcessCalls = 1 := by decide

/-- Every error return of `ProcessAccessRules` is directly preceded by `t.denyAll()` (the model's
`Rules.denyAll`; repair of D16), and `denyAll` installs an allow list without blocks. -/
theorem process_fails_closed :
    processErrorReturns = processErrorReturnsFailClosed ∧ 0 < processErrorReturns ∧
    denyAllBody = "{ t.accessRules = map[string][]interface{}{ipAllowTag: {}} }" := by decide

end Fabio.Props.C12Facts
