import Fabio.Generated.C12
import Fabio.Props.C12
/-!
OBLIGATIONS over the facts regenerated from `/repo` on every run (`tools/factgen/c12.go`): statements the proof
chain needs and that a correspondence stream cannot establish by running the code — the control-flow contract of
the gates ("the gate comes before the dial / the handler / the redirect answer, on every path, and nothing is
looked up again after it"), and what holds under concurrency (the request path only reads the rule map, the auth
schemes store nothing). Each names the breaking change it is there to exclude and is stated as a relation between
events (an order, a membership, emptiness), not as equality with a spelled-out list; the literal lists, statuses,
tags and shapes of sequential code live in `C12Pins.lean` (change detectors). Core only, `decide`.
-/
namespace Fabio.Props.C12Facts
open Fabio Fabio.Model.C12 Fabio.Generated.C12

def steps (xs : List String) : Option (List Step) := xs.mapM stepOfString

/-- no target is looked up once the access check has run: the target that is dialled (redirected to, handed to the
handler) is the one the gate judged -/
def lookupOnlyBeforeGate (ss : List Step) : Bool := (ss.dropWhile (· != .access)).all (· != .lookup)

/-- the events are known steps, `gates` all come before the first upstream contact — which exists — and before the
redirect answer, and nothing is looked up after the access check -/
def gated (gates : List Step) (xs : List String) : Bool :=
  match steps xs with
  | some ss => gateOrdered gates ss && redirectOrdered gates ss && ss.contains .upstream && lookupOnlyBeforeGate ss
  | none => false

/-- `HTTPProxy.ServeHTTP` (events = callee names in visit order, unexported helpers and local closures followed at
their call sites): lookup, access check and authentication happen before the first thing that contacts an upstream
(a dial function, the handler's `ServeHTTP`) and before `http.Redirect`, and the target is not looked up again.
Excludes: the redirect answer or the reverse proxy moved ahead of a gate (seeded m6); a second lookup after the
gate whose target is used unchecked, on a path no stream provokes (retry on a timeout, on a 5xx, …). -/
theorem http_gates_precede_upstream : gated [.lookup, .access, .auth] httpOrder = true := by decide

/-- Both gates are links `if <check> { http.Error(…); return }` of a top-level if / else-if chain whose earlier links
all return. Excludes: a gate that answers but falls through, or sits behind a non-returning branch (seeded m3). -/
theorem http_gates_return : httpGatesReturn = true := by decide

/-- Hence (`gate_before_upstream` at the regenerated order) `ServeHTTP` reaches an upstream only for a request that
found a route, passed the access rules and was authorized. -/
theorem http_gate_before_upstream (env : Env) (ss : List Step) (hs : steps httpOrder = some ss)
    (h : (runGate env ss false).2 = true) :
    env.found = true ∧ env.denied = false ∧ env.authorized = true := by
  have hg := http_gates_precede_upstream
  simp only [gated, hs, Bool.and_eq_true] at hg
  exact Props.C12.gate_before_upstream env ss hg.1.1.1 h

/-- … and answers with the route's redirect only such a request: a denied or unauthenticated request to a
redirect route gets 403/401, not 3xx. -/
theorem http_gate_before_redirect (env : Env) (ss : List Step) (hs : steps httpOrder = some ss)
    (h : (runGate env ss false).1 = .redirected) :
    env.found = true ∧ env.denied = false ∧ env.authorized = true := by
  have hg := http_gates_precede_upstream
  simp only [gated, hs, Bool.and_eq_true] at hg
  exact Props.C12.gate_before_redirect env ss false hg.1.1.2 h

/-- The three TCP proxies: lookup and access check before the dial, no lookup afterwards.
Excludes: the check moved behind the dial; a replacement target fetched after a failed dial and connected to
without asking its rules (seeded m8 — a stream sees it only for the failure it provokes, a refused connection). -/
theorem tcp_gates_precede_dial :
    gated [.lookup, .access] tcpOrder = true ∧ gated [.lookup, .access] sniOrder = true ∧
    gated [.lookup, .access] dynOrder = true := by decide

/-- … and the body of the gate returns (the deferred `Close` then ends the inbound connection). -/
theorem tcp_gates_return : (tcpGateReturns && sniGateReturns && dynGateReturns) = true := by decide

theorem tcp_gate_before_upstream (env : Env) (ss : List Step)
    (hs : steps tcpOrder = some ss ∨ steps sniOrder = some ss ∨ steps dynOrder = some ss)
    (h : (runGate env ss false).2 = true) : env.found = true ∧ env.denied = false := by
  obtain ⟨h1, h2, h3⟩ := tcp_gates_precede_dial
  have hg : gateOrdered [.lookup, .access] ss = true := by
    rcases hs with hs | hs | hs
    · simp only [gated, hs, Bool.and_eq_true] at h1; exact h1.1.1.1
    · simp only [gated, hs, Bool.and_eq_true] at h2; exact h2.1.1.1
    · simp only [gated, hs, Bool.and_eq_true] at h3; exact h3.1.1.1
  exact Props.C12.gate_before_upstream_tcp env ss hg h

/-- `GrpcProxyInterceptor.Stream`: lookup, the access check on the peer address and the route's auth scheme on the
call's `authorization` metadata come before the call of the handler (the 4th parameter), which runs the director
and dials; the access gate is a top-level `if … { return status.Error(…) }` (repairs of D31). -/
theorem grpc_gates_precede_handler : gated [.lookup, .access, .auth] grpcOrder = true := by decide

theorem grpc_gate_returns : grpcGateReturns = true := by decide

/-- Hence the gRPC path reaches a backend only for a call that found a route, whose peer the rules admit and
whose credentials the route's scheme accepts. -/
theorem grpc_gate_before_upstream (env : Env) (ss : List Step) (hs : steps grpcOrder = some ss)
    (h : (runGate env ss false).2 = true) :
    env.found = true ∧ env.denied = false ∧ env.authorized = true := by
  have hg := grpc_gates_precede_handler
  simp only [gated, hs, Bool.and_eq_true] at hg
  exact Props.C12.gate_before_upstream env ss hg.1.1.1 h

/-- The request path only READS the rule map: none of `AccessDeniedHTTP`, `AccessDeniedTCP`, `AccessDeniedAddr`,
`denyByIP`, `Authorized` stores into `accessRules` or reaches, through calls inside package route, a function that
does; the stores sit behind `addTarget`, which runs before the target is published in a table. This is the
hypothesis of `first_requests_agree` (any number of requests, any interleaving: everyone gets the sequential
decision). Excludes: rules parsed on first use / a cache filled in on the request path (seeded m9) — right for every
single request, wrong only when the first requests for a fresh target overlap. -/
theorem request_path_reads_only :
    requestPathReachesRuleMapStore = [] ∧ addTargetReachesRuleMapStore = true := by decide

/-- `Authorized` of every auth scheme (helpers inlined) stores into nothing but its own local variables — no
field, no package variable, no map element, no channel, no goroutine. The decision on an attempt is a function of
the attempt and the htpasswd file (`auth_decision_depends_only_on_attempt`), also when attempts overlap.
Excludes: a cache of accepted credentials, a counter, a "last user" field (seeded m5). -/
theorem authorized_stores_nothing : 0 < authSchemeTypes ∧ authorizedWrites = 0 := by decide

/-- every event is one of the allowed ones -/
def within (allowed xs : List String) : Bool := xs.all allowed.contains

/-- Of the request, the decision functions read the peer address and the `X-Forwarded-For` lines
(`Target.AccessDeniedHTTP`, helpers and local aliases followed), hand it to the scheme (`Target.Authorized`), and the
schemes read `BasicAuth()` — the first `Authorization` line — and nothing else: not the method, not the path, no
other header. This is what entitles the model to judge a `Req` by `RemoteAddr`, `headerValues "X-Forwarded-For"` and
`headerGet "Authorization"` alone (`auth_reads_only_authorization`, `forwarded_only_if`).
Excludes: an exemption keyed on anything else a client controls — the method, `Origin`, a cookie, an "internal"
header, a path suffix (seeded m11: CORS preflight requests exempted from authentication). A stream exposes such an
exemption only if its generator happens to produce the key. -/
theorem gate_reads_only_peer_forwarded_credentials :
    within ["RemoteAddr", "Header.Values:X-Forwarded-For", "Header[]:X-Forwarded-For"] accessDeniedHTTPReads = true ∧
    within ["pass:Authorized"] targetAuthorizedReads = true ∧
    within ["BasicAuth()", "Header.Get:Authorization", "Header[]:Authorization"] schemeAuthorizedReads = true := by
  decide

end Fabio.Props.C12Facts
