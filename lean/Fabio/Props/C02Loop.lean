import Fabio.Lemmas.C02Loop
/-!
C02, round 3 — theorems about the glue of the update loop (`Model/C02Loop.lean`).

* the iteration with all its calls (`ParseAliases`, `Register`, `NewTable`, `SetTable`, `logRoutes`) REFINES the
  plain step machine `WB.step` of `Model/C02.lean` whenever it does not panic, for every glue: the history
  theorems of `Props/C02.lean` (`keeps_last_good`, `next_valid_applied`, …) are statements about the real
  iteration, not about a simplification of it (`stepO_refines_step`, `runO_refines_run`);
* it panics only if one of the four calls panics (`runO_never_panics`), the `SetTable` calls it makes are
  exactly `WB.installs` — the program of the single writer thread of the cell model (`installs_are_effects`);
* order of effects: `SetTable(t)` only after `NewTable` returned `t` for a changed text, `logRoutes` only after
  `SetTable`; when `logRoutes` panics the cell already holds the complete new table
  (`setTable_only_after_successful_build`, `effects_in_program_order`, `log_panic_after_install`);
* `Register` is called with the aliases of every changed text, also of one that `NewTable` then rejects
  (`registered_iff_text_changed`) — no influence on the table;
* the static and the file backend deliver one service update: the active table is the table of their text or
  the initial one (`source_serves_its_text`);
* completeness of the parser model: a text that parses yields exactly one definition per command line of the
  WHOLE text (`parse_complete`, `loadTable_complete`) — "the complete new table", the predicate the
  correspondence evaluates on the real `Parse` (`c02.history`, `c02.nopanic`: class `accepted-text-incomplete`).
-/
namespace Fabio.Props.C02Loop
open Fabio Fabio.Model.C02 Fabio.Model.C02Loop Fabio.Model.Parse Fabio.Model.Route Fabio.Lemmas.C02Loop

section loop
variable {T : Type}

/-- **Refinement, one iteration.** Whatever the four calls do, if the iteration returns, the locals and the
active table are those of `WB.step` with `build := g.buildOpt`. -/
theorem stepO_refines_step (g : Glue T) (st st' : WB T) (e : Ev) (h : (stepO g st e).2 = .ok st') :
    st' = WB.step g.buildOpt st e := Fabio.Lemmas.C02Loop.stepO_refines_step g st st' e h

/-- **Refinement, every history.** -/
theorem runO_refines_run (g : Glue T) (es : List Ev) : ∀ (st st' : WB T), (runO g st es).2 = .ok st' →
    st' = WB.run g.buildOpt st es := by
  induction es with
  | nil => intro st st' h; simp [runO] at h; simp [WB.run, h]
  | cons e es ih =>
    intro st st' h
    unfold runO at h
    cases hstep : stepO g st e with
    | mk effs o =>
      cases o with
      | panic w => simp [hstep] at h
      | ok st1 =>
        simp only [hstep] at h
        have h1 := stepO_refines_step g st st1 e (by rw [hstep])
        have := ih st1 st' h
        rw [this, h1]; rfl

/-- **The loop dies only if one of its four calls does.** For every history: with a glue whose calls all
return, the loop returns — and (by `runO_refines_run`) in the state of the plain step machine. -/
theorem runO_never_panics (g : Glue T) (hg : g.Total) (es : List Ev) : ∀ st : WB T,
    (runO g st es).2 = .ok (WB.run g.buildOpt st es) := by
  induction es with
  | nil => intro st; simp [runO, WB.run]
  | cons e es ih =>
    intro st
    have hp := stepO_never_panics g hg st e
    unfold runO
    cases hstep : stepO g st e with
    | mk effs o =>
      cases o with
      | panic w => simp [hstep, Outcome.isPanic] at hp
      | ok st1 =>
        have h1 := stepO_refines_step g st st1 e (by rw [hstep])
        simp only []
        rw [ih st1, h1]; rfl

/-- **The writer's program.** The `SetTable` calls the real iteration makes over a history that it survives
are exactly `WB.installs` — the list `Props/C02Compose.lean` hands to the single writer thread of the cell. -/
theorem installs_are_effects (g : Glue T) (es : List Ev) : ∀ (st st' : WB T), (runO g st es).2 = .ok st' →
    installsOf (runO g st es).1 = WB.installs g.buildOpt st es := by
  induction es with
  | nil => intro st st' _; simp [runO, installsOf, WB.installs]
  | cons e es ih =>
    intro st st' h
    unfold runO at h ⊢
    cases hstep : stepO g st e with
    | mk effs o =>
      cases o with
      | panic w => simp [hstep] at h
      | ok st1 =>
        simp only [hstep] at h ⊢
        have h1 := stepO_refines_step g st st1 e (by rw [hstep])
        have h2 := installsOf_stepO g st st1 e (by rw [hstep])
        rw [hstep] at h2
        rw [installsOf_append, ih st1 st' h, h2, h1]
        rfl

/-- **Order of effects.** One iteration performs a prefix of `Register(a); SetTable(t); logRoutes(t, last,
next)` and nothing else — in particular never two `SetTable`s, never `logRoutes` before `SetTable`. -/
theorem effects_in_program_order (g : Glue T) (st : WB T) (e : Ev) :
    (stepO g st e).1 = [] ∨ ∃ al, (stepO g st e).1 = [.register al] ∨
      ∃ t, (stepO g st e).1 = [.register al, .setTable t] ∨
           (stepO g st e).1 = [.register al, .setTable t, .logRoutes t (st.recv e).lastTable (st.recv e).nextText] := by
  by_cases hs : (st.recv e).nextText = (st.recv e).lastTable
  · have hE : (stepO g st e).1 = [] := by unfold stepO; simp [hs]
    exact Or.inl hE
  · cases ha : g.aliases (st.recv e).nextText with
    | panic w =>
      have hE : (stepO g st e).1 = [] := by unfold stepO; simp [hs, ha]
      exact Or.inl hE
    | ok al =>
      cases hr : g.register al with
      | panic w =>
        have hE : (stepO g st e).1 = [] := by unfold stepO; simp [hs, ha, hr]
        exact Or.inl hE
      | ok u =>
        cases hb : g.build (st.recv e).nextText with
        | panic w =>
          have hE : (stepO g st e).1 = [.register al] := by unfold stepO; simp [hs, ha, hr, hb]
          exact Or.inr ⟨al, Or.inl hE⟩
        | ok o =>
          cases o with
          | none =>
            have hE : (stepO g st e).1 = [.register al] := by unfold stepO; simp [hs, ha, hr, hb]
            exact Or.inr ⟨al, Or.inl hE⟩
          | some t =>
            cases hl : g.log t (st.recv e).lastTable (st.recv e).nextText with
            | panic w =>
              have hE : (stepO g st e).1 = [.register al, .setTable t] := by unfold stepO; simp [hs, ha, hr, hb, hl]
              exact Or.inr ⟨al, Or.inr ⟨t, Or.inl hE⟩⟩
            | ok u2 =>
              have hE : (stepO g st e).1 = [.register al, .setTable t, .logRoutes t (st.recv e).lastTable (st.recv e).nextText] := by
                unfold stepO; simp [hs, ha, hr, hb, hl]
              exact Or.inr ⟨al, Or.inr ⟨t, Or.inr hE⟩⟩

/-- **`SetTable` is reached only with a table `NewTable` returned for a CHANGED text** (never with a partial or
older table, never on the error path). -/
theorem setTable_only_after_successful_build (g : Glue T) (st : WB T) (e : Ev) (t : T)
    (h : Eff.setTable t ∈ (stepO g st e).1) :
    g.build (st.recv e).nextText = .ok (some t) ∧ (st.recv e).nextText ≠ (st.recv e).lastTable := by
  unfold stepO at h
  by_cases hs : (st.recv e).nextText = (st.recv e).lastTable
  · simp [hs] at h
  · simp only [hs, if_false] at h
    refine ⟨?_, hs⟩
    cases ha : g.aliases (st.recv e).nextText with
    | panic w => simp [ha] at h
    | ok al =>
      cases hr : g.register al with
      | panic w => simp [ha, hr] at h
      | ok u =>
        cases hb : g.build (st.recv e).nextText with
        | panic w => simp [ha, hr, hb] at h
        | ok o =>
          cases o with
          | none => simp [ha, hr, hb] at h
          | some t' =>
            cases hl : g.log t' (st.recv e).lastTable (st.recv e).nextText with
            | panic w => simp [ha, hr, hb, hl] at h; rw [h]
            | ok u2 => simp [ha, hr, hb, hl] at h; rw [h]

/-- **A crash in `logRoutes` comes after the swap.** If everything up to `NewTable` succeeded and `logRoutes`
panics, the iteration has already passed the complete new table to `SetTable`: lookups are answered from the
complete new table until the process is gone, never from something in between. -/
theorem log_panic_after_install (g : Glue T) (st : WB T) (e : Ev) (al : List Str) (t : T) (w : String)
    (hs : (st.recv e).nextText ≠ (st.recv e).lastTable)
    (ha : g.aliases (st.recv e).nextText = .ok al) (hr : g.register al = .ok ())
    (hb : g.build (st.recv e).nextText = .ok (some t))
    (hl : g.log t (st.recv e).lastTable (st.recv e).nextText = .panic w) :
    stepO g st e = ([.register al, .setTable t], .panic w) := by
  unfold stepO
  simp [hs, ha, hr, hb, hl]

/-- **What is registered.** With the modelled glue, `Register` is called exactly when the concatenated text
differs from the installed one, with `ParseAliases` of the CANDIDATE text — also when `NewTable` then rejects it. -/
theorem registered_iff_text_changed (pf : ParseFloat) (build : Text → Option T) (st : WB T) (e : Ev) :
    registeredOf (stepO (pureGlue pf build) st e).1 =
      if (st.recv e).nextText = (st.recv e).lastTable then [] else [registerArg pf (st.recv e).nextText] := by
  unfold stepO pureGlue
  by_cases hs : (st.recv e).nextText = (st.recv e).lastTable
  · simp [hs, registeredOf]
  · simp only [hs, if_false]
    cases build (st.recv e).nextText <;> simp [registeredOf]

theorem pureGlue_total (pf : ParseFloat) (build : Text → Option T) : (pureGlue pf build).Total :=
  ⟨fun _ => rfl, fun _ => rfl, fun _ => rfl, fun _ _ _ => rfl⟩

theorem pureGlue_buildOpt (pf : ParseFloat) (build : Text → Option T) : (pureGlue pf build).buildOpt = build := rfl

/-- **The static and the file backend.** Whatever the configured text is, after everything such a backend ever
delivers the active table is the table of `text ++ "\n"` when that builds and the initial table otherwise. -/
theorem source_serves_its_text (build : Text → Option T) (t0 : T) (src : Source) :
    (WB.run build (WB.init t0) src.events).active = (build (src.text ++ ['\n'])).getD t0 := by
  have key : ∀ s : Text, (WB.step build (WB.init t0) (.svc s)).active = (build (s ++ ['\n'])).getD t0 := by
    intro s
    have hne : ((WB.init t0).recv (.svc s)).nextText ≠ ((WB.init t0).recv (.svc s)).lastTable := by
      simp [WB.recv, WB.init, WB.nextText]
    have htx : ((WB.init t0).recv (.svc s)).nextText = s ++ ['\n'] := by simp [WB.recv, WB.init, WB.nextText]
    unfold WB.step
    rw [if_neg hne, htx]
    cases build (s ++ ['\n']) <;> rfl
  cases src <;> exact key _

end loop

/-! ## completeness of `parse`: one definition per command line of the whole text -/

/-- **No command line is dropped.** A text the parser accepts yields exactly as many definitions as the text
has command lines — over the WHOLE text, whatever its length (a line the scanner cannot take makes `parse` fail:
`ParseErr.tooLong`, repair of D29). -/
theorem parse_complete (pf : ParseFloat) (text : Str) (ds : List RouteDef) (h : parse pf text = .ok ds) :
    ds.length = commandLines text :=
  parseLines_complete pf (rawLines text) 1 ds h

/-- **The complete new table.** A table `loadTable` returns is `newTable` of a definition list with one entry
per command line of the whole text. -/
theorem loadTable_complete (env : Env) (pf : ParseFloat) (text : Str) (t : Table) (h : loadTable env pf text = .ok t) :
    ∃ ds, parse pf text = .ok ds ∧ ds.length = commandLines text ∧ newTable env ds = .ok t := by
  unfold loadTable at h
  cases hp : parse pf text with
  | error e => simp [hp] at h
  | ok ds =>
    simp only [hp] at h
    cases hn : newTable env ds with
    | error e => simp [hn] at h
    | ok t' =>
      simp only [hn] at h
      cases h
      exact ⟨ds, rfl, parse_complete pf text ds hp, hn⟩

/-! ## non-vacuity -/

section examples

def exPf : ParseFloat := fun s => if s = "0.5".toList then some (.fin (1/2)) else if s = "NaN".toList then some .nan else none

def exText : Str := "route add a /x http://a:1/ opts \"register=one\"\n# c\r\n\n  // d\nroute del a\nroute add c /z http://c:1/ weight NaN opts \"register=three\"".toList

set_option maxRecDepth 100000 in
example : commandLines exText = 3 := by decide
set_option maxRecDepth 100000 in
example : parseAliases exPf exText = some ["one".toList, "three".toList] := by decide
set_option maxRecDepth 100000 in
example : parseAliases exPf "route add a /x http://a:1/ opts \"register=one\"\ngarbage".toList = none := by decide
example : registerArg exPf "garbage".toList = [] := by decide
/-- `parse_complete` on a text that parses (three commands, a comment, a blank line, CRLF) -/
def exText2 : Str := "route add a /x http://a:1/\n# c\r\n\nroute del a\r\nroute weight a /x weight 0.5".toList
set_option maxRecDepth 100000 in
example : (parse exPf exText2).toOption.map List.length = some 3 := by decide
set_option maxRecDepth 100000 in
example : commandLines exText2 = 3 := by decide

def exBuild : Text → Option Text := fun s => if s.contains '!' then none else some s

/-- a glue whose `logRoutes` dies on texts containing `?` -/
def exGlue : Glue Text :=
  { aliases := fun s => .ok [s.take 1], register := fun _ => .ok (), build := fun s => .ok (exBuild s),
    log := fun _ _ next => if next.contains '?' then .panic "logRoutes" else .ok () }

def exEvents : List Ev := [.svc "a".toList, .man "!".toList, .man "!".toList, .svc "b".toList, .man "m".toList]

/-- five events: install; rejected text (registered all the same); the same rejected text again (NOT skipped:
the shortcut compares with the INSTALLED text, so it is parsed and registered again); still rejected; install -/
example : (runO exGlue (WB.init []) exEvents).1 =
    [.register ["a".toList], .setTable "a\n".toList, .logRoutes "a\n".toList [] "a\n".toList,
     .register ["a".toList], .register ["a".toList], .register ["b".toList],
     .register ["b".toList], .setTable "b\nm".toList, .logRoutes "b\nm".toList "a\n".toList "b\nm".toList] := by decide
example : ((runO exGlue (WB.init []) exEvents).2.map (·.active)) = .ok "b\nm".toList := by decide
example : installsOf (runO exGlue (WB.init []) exEvents).1 = WB.installs exGlue.buildOpt (WB.init []) exEvents := by decide
/-- `logRoutes` dies on the second installation: the table is already swapped -/
example : (runO exGlue (WB.init []) [.svc "a".toList, .svc "?".toList, .svc "c".toList]).1 =
    [.register ["a".toList], .setTable "a\n".toList, .logRoutes "a\n".toList [] "a\n".toList,
     .register ["?".toList], .setTable "?\n".toList] ∧
    (runO exGlue (WB.init []) [.svc "a".toList, .svc "?".toList, .svc "c".toList]).2.isPanic = true := by decide
set_option maxRecDepth 100000 in
example : registeredTrace exPf exBuild (WB.init []) [.svc "route add a /x http://a:1/ opts \"register=one\"".toList, .man "!".toList, .man "!".toList] =
    [[["one".toList]], [[]], [[]]] := by decide
example : (WB.run exBuild (WB.init "init".toList) (Source.static "x".toList).events).active = "x\n".toList := by decide
example : (WB.run exBuild (WB.init "init".toList) (Source.file "x!".toList).events).active = "init".toList := by decide

end examples

end Fabio.Props.C02Loop
