import Fabio.Generated.C20
import Fabio.Model.C20Spec
import Fabio.Props.C20Xlate
/-!
CHANGE DETECTORS for C20 (`"pins_module"` in checks/C20.json): the shape of sequential, deterministic code whose
input/output behaviour a correspondence stream compares with the model on every run. When one of these stops
building nothing is claimed broken — the streams run at the widened budget and decide. Each line names the
stream that carries the tie.
-/
namespace Fabio.Props.C20Pins
open Fabio Fabio.Model.C20
set_option maxRecDepth 8000

/-- extraction problems in the pinned code (a table or buffer the extractor no longer recognises) -/
theorem no_extraction_notes : Generated.C20.pinNotes = [] := by decide

/-- the `fields` map has exactly the names of the model's table — `c20.parse` / `c20.render` draw field names
from the real `logger.Fields` as well as from the documented list -/
theorem field_table_pinned :
    Generated.C20.fieldNames.all (fieldNames.contains ·) = true ∧
    fieldNames.all (Generated.C20.fieldNames.contains ·) = true ∧
    Generated.C20.fieldNames.length = fieldNames.length := by decide

/-- both predefined formats parse — `c20.parse` has the real constants in its corpus -/
theorem common_format_parses :
    (match parse Generated.C20.CommonFormat.toList with | .ok (.ok p) => p.length | _ => 0) = 9 := by decide
theorem combined_format_parses :
    (match parse Generated.C20.CombinedFormat.toList with | .ok (.ok p) => p.length | _ => 0) = 14 := by decide

/-- month names — `c20.render` (`$time_common`, every month) -/
theorem month_names_pinned : Generated.C20.shortMonthNames.map String.toList = shortMonthNames := by decide

/-- `atoi`: 128-byte scratch array, pads {0,2,3,4,6,9} — `c20.atoi` (pads 0…140), `c20.render` -/
theorem atoi_buffer_pinned : Generated.C20.atoiBufLen = 128 := by decide
theorem atoi_pads_pinned : Generated.C20.atoiPads = [0, 2, 3, 4, 6, 9] := by decide

/-- `i32toa`: 11-byte buffer — `c20.i32toa`, `c20.i32block`, `c20.i32sweep` -/
theorem i32toa_buffer_pinned : Generated.C20.i32toaBufLen = 11 := by decide

/-- `uint16base16` — `c20.uint16` (all 65 536 values on every run) -/
theorem uint16_digits_pinned :
    Generated.C20.digit16 = "0123456789abcdef" ∧ Generated.C20.uint16Template = "0x0000" ∧
    Generated.C20.uint16Nibbles = [(2, 3), (3, 2), (4, 1), (5, 0)] := by decide

/-- `uuid.ToString` tables — `c20.uuid` -/
theorem uuid_tables_pinned :
    Generated.C20.uuidIdx = uuidIdx ∧ Generated.C20.uuidDashes = uuidDashes ∧
    Generated.C20.halfbyte2hexchar.map Char.ofNat = halfbyte2hexchar ∧ Generated.C20.uuidBufLen = 36 := by decide

/-- D25: location-dependent `time.Time` methods only on `End.UTC()` — `c20.render` (End in zones −14h…+14h,
instants around midnight) -/
theorem time_fields_use_utc :
    Generated.C20.calendarAccessorsNotOnUTC = [] ∧
    Generated.C20.timeFieldAccessorCalls.map (·.1) =
      ["$time_common", "$time_rfc3339", "$time_rfc3339_ms", "$time_rfc3339_ns", "$time_rfc3339_us"] ∧
    Generated.C20.timeFieldAccessorCalls.all (fun p => decide (1 ≤ p.2)) = true ∧
    Generated.C20.methodsCalledOnEnd.all
      (["Sub", "UTC", "UnixNano", "Unix", "UnixMilli", "UnixMicro", "Equal", "Before", "After", "IsZero"].contains ·) = true := by
  decide

/-- `pattern.write`: one newline call, none for an empty buffer (D26, recorded finding) — `c20.render`
(corpus cases of the finding; a repaired `write` shows as a disagreement there) -/
theorem write_shape_pinned :
    Generated.C20.writeSkipsNewlineOnEmptyBuffer = true ∧ Generated.C20.writeNewlineCalls = 1 := by decide

/-- `UpstreamAddr` is the `Host` of the URL passed as `UpstreamURL`, `Request` is the handler's parameter
(explains D24's reachability; the model covers any address and a nil request) -/
theorem call_site_shape_pinned :
    Generated.C20.eventSiteUpstreamAddrIsHostOfUpstreamURL = true ∧
    Generated.C20.eventSiteRequestIsHandlerParam = true := by decide

/-- the logger's state: a mutex and a writer among three fields, one package-level `sync.Pool` — `c20.concurrent` -/
theorem logger_state_pinned :
    Generated.C20.loggerStdFieldTypes = ["io.Writer", "sync.Mutex"] ∧ Generated.C20.loggerFieldCount = 3 ∧
    Generated.C20.syncPoolVars = 1 ∧ Generated.C20.logCalls.contains "Reset" = true := by decide

/-- The only call site hands `Log` an event whose `Response` is the address of an `http.Response` literal
(in place or through a local assigned once from it): never nil — the renderers dereference it unchecked and the
model's `Event` has no "nil response" case. Its `StatusCode` and `ContentLength` are fields of the very
`ResponseWriter` that was handed to the handler (the capturing wrapper of `c20.capture`).
Was an obligation while no C20 stream ran `ServeHTTP`; `c20.serve` now does, records the event handed to
`Log` and compares status and size with what the client connection received. -/
theorem call_site_pinned :
    Generated.C20.eventSiteResponseIsLiteral = true ∧
    Generated.C20.eventSiteStatusAndSizeFromHandlerWriter = true := by decide

/-! ### the translated formatters (`Props/C20Xlate.lean`)

Every function named in `tools/factgen/c20.go` is inside the translated subset, and the definitions regenerated from
the current source equal the hand-written model for every input (proofs in `Props/C20Xlate.lean`, restated here so
that they are audited and counted with the other change detectors). Streams that carry the tie when one of them
stops building: `c20.uint16` (exhaustive), `c20.i32toa` / `c20.i32block` / `c20.i32sweep`, `c20.uuid`,
`c20.hostport`, `c20.atoi`, `c20.render`. -/

theorem xlate_everything_translated : Generated.C20.xlateNotes = [] := by decide

theorem xlate_uint16base16 (n : UInt16) :
    C20Xlate.obsX (Generated.C20.XUint16.run { p0 := n }) = .ok (Spec.hex4 n.toNat) := C20Xlate.xuint16_eq_hex4 n

theorem xlate_i32toa (n : Int) (hlo : -2^31 ≤ n) (hhi : n < 2^31) :
    C20Xlate.obsX (Generated.C20.XI32toa.run { p0 := n }) = .ok (Spec.itoa n) := C20Xlate.xi32toa_eq_decimal n hlo hhi

theorem xlate_uuid_tostring (u : List UInt8) (h : u.length = 24) :
    C20Xlate.obsX (Generated.C20.XUuid.run { p0 := u }) = .ok (Spec.uuidText u) := C20Xlate.xuuid_format u h

theorem xlate_hostport (b : List UInt8) :
    ∃ h p, C20Xlate.obsHP (Generated.C20.XHostport.run { p0 := b }) = .ok (h, p) ∧ Spec.hostportOk (C20Xlate.chars b) h p = true :=
  C20Xlate.xhostport_spec b

theorem xlate_hostport_utf8 (cs : List Char) :
    ∃ s', Generated.C20.XHostport.run { p0 := C20Xlate.utf8 cs } =
      .ok ((C20Xlate.utf8 (Spec.splitLastColon cs).1, C20Xlate.utf8 (Spec.splitLastColon cs).2), s') :=
  C20Xlate.xhostport_utf8 cs

theorem xlate_atoi (buf : List UInt8) (i : Int) (pad : Nat) (hlo : -2^63 < i) (hhi : i < 2^63) (hpad : pad ≤ 127) :
    C20Xlate.obsA (Generated.C20.XAtoi.run { p0 := buf, p1 := i, p2 := (pad : Int) }) = .ok (C20Xlate.chars buf ++ Spec.decimal i pad) :=
  C20Xlate.xatoi_eq_decimal buf i pad hlo hhi hpad

theorem xlate_atoi_total (buf : List UInt8) (i : Int) (pad : Nat) (hlo : -2^63 ≤ i) (hhi : i < 2^63) (hpad : pad ≤ 127) :
    ∃ r, C20Xlate.obsA (Generated.C20.XAtoi.run { p0 := buf, p1 := i, p2 := (pad : Int) }) = .ok r :=
  C20Xlate.xatoi_total buf i pad hlo hhi hpad

theorem xlate_lex (cs : List Char) :
    ∃ s', Generated.C20.XLex.run { p0 := C20Xlate.LX.runes cs } = .ok ((C20Xlate.LX.tyN (lex cs).1, (lex cs).2), s') :=
  C20Xlate.xlex_eq_model cs

theorem xlate_lex_progress (cs : List Char) (h : cs ≠ []) :
    ∃ t n s', Generated.C20.XLex.run { p0 := C20Xlate.LX.runes cs } = .ok ((t, n), s') ∧ 1 ≤ n ∧ n ≤ cs.length :=
  C20Xlate.xlex_progress cs h

end Fabio.Props.C20Pins
