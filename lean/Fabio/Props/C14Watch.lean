import Fabio.Props.C14
import Fabio.Lemmas.C14Watch
/-!
C14, round 4 — the property's sentences end to end: catalog → `routecmd.build` → `makeConfig`'s text →
`watchBackend` (`route.ParseAliases`, `registry.Default.Register`, `route.NewTable`, `route.SetTable`) → the active
routing table. Models: `Model/C14.lean`, `Model/C14Watch.lean` (the loop iteration), `Model/C05Glue.lean`
(`ParseAliases`), `Model/Parse.lean`, `Model/Route.lean`.

"A registration that cannot be expressed is dropped on its own and never prevents or delays route updates for other
services": after the iteration of `watchBackend` that receives the text of a catalog — whatever hostile
registrations it holds, whatever happened before — the ACTIVE table is the table of that catalog
(`watch_installs_current`, `watch_follows_history`); both readers of the command language accept the text
(`config_parses`, `config_aliases_ok`).

Scope: no manual overrides (`mancfg = ""`; an operator's `route del` may of course remove a service's routes —
property C01/C02 territory).
-/
namespace Fabio.Props.C14Watch
open Fabio Fabio.Model.Route Fabio.Model.C05Spec Fabio.Model.C14 Fabio.Model.C14Watch Fabio.Lemmas.C14
open Fabio.Lemmas.C14Watch Fabio.Props.C14
open Fabio.Model.Parse hiding render config
open Fabio.Model.C05Glue (parseAliases registerNames kRegister)

variable {env : Env} {pf : ParseFloat} {c : Cfg}

/-! ### both readers accept every text `makeConfig` produces -/

/-- **config_parses.** `route.Parse` reads the text of every catalog; every definition it reads is the definition
some routing tag of some named registration means, and a table accepts it. -/
theorem config_parses (env : Env) (pf : ParseFloat) (c : Cfg) (regs : List Reg) :
    ∃ defs, parse pf (config env pf c regs) = .ok defs ∧
      ∀ d ∈ defs, ∃ r ∈ named regs, ∃ i ∈ intents c r, wantDef pf i = some d ∧ accepted env d = true := by
  let ds : Str → List RouteDef := fun cmd => match parse pf cmd with
    | .ok l => l
    | .error _ => []
  let cmds := sortDesc (commands env pf c regs)
  have hcmd : ∀ cmd ∈ cmds, ∃ r ∈ named regs, ∃ i ∈ intents c r, ∃ d, parse pf cmd = .ok [d] ∧
      wantDef pf i = some d ∧ accepted env d = true := by
    intro cmd hc
    obtain ⟨r, hr, i, hi, hden, rfl⟩ := (other_commands_unaffected regs).1 ((mem_sortDesc _ _).1 hc)
    obtain ⟨d, hp, hw, ha⟩ := (denotes_iff env pf _ i).1 hden
    exact ⟨r, hr, i, hi, d, hp, hw, ha⟩
  refine ⟨cmds.flatMap ds, ?_, ?_⟩
  · apply parse_join
    intro cmd hc
    obtain ⟨_, _, _, _, d, hp, _, _⟩ := hcmd cmd hc
    show parse pf cmd = .ok (match parse pf cmd with | .ok l => l | .error _ => [])
    rw [hp]
  · intro d hd
    obtain ⟨cmd, hc, hdc⟩ := List.mem_flatMap.1 hd
    obtain ⟨r, hr, i, hi, d', hp, hw, ha⟩ := hcmd cmd hc
    have : ds cmd = [d'] := by
      show (match parse pf cmd with | .ok l => l | .error _ => []) = [d']
      rw [hp]
    rw [this] at hdc
    simp only [List.mem_singleton] at hdc
    subst hdc
    exact ⟨r, hr, i, hi, hw, ha⟩

/-- **config_aliases_ok.** `route.ParseAliases` — the reader `watchBackend` runs first — accepts the text the loop
builds from every catalog (`svccfg + "\n"`), and the names it hands to `registry.Default.Register` are the
`register=` options of routing tags of the catalog's named registrations: no hostile registration makes this
reader fail, none can smuggle in a name through anything but a `register=` option of its own tag. -/
theorem config_aliases_ok (env : Env) (pf : ParseFloat) (c : Cfg) (regs : List Reg) :
    ∃ names, parseAliases pf (config env pf c regs ++ ['\n']) = .ok names ∧
      registerArg pf (config env pf c regs ++ ['\n']) = names ∧
      ∀ n ∈ names, ∃ r ∈ named regs, ∃ i ∈ intents c r,
        (optsOfPairs (i.opts.map splitKV)).lookup kRegister = some n := by
  obtain ⟨defs, hp, hd⟩ := config_parses env pf c regs
  have ha : parseAliases pf (config env pf c regs ++ ['\n']) = .ok (registerNames defs) :=
    aliases_of_parse (by rw [parse_snoc_nl]; exact hp)
  refine ⟨registerNames defs, ha, ?_, ?_⟩
  · unfold registerArg; rw [ha]
  · intro n hn
    unfold registerNames at hn
    obtain ⟨d, hdm, hl⟩ := List.mem_filterMap.1 hn
    obtain ⟨r, hr, i, hi, hw, _⟩ := hd d hdm
    obtain ⟨_, _, _, _, _, ho, _⟩ := wantDef_fields hw
    exact ⟨r, hr, i, hi, by rw [← ho]; exact hl⟩

/-! ### the update reaches the active table -/

/-- what `no_poisoning` says of a table and a catalog -/
def TableOf (env : Env) (pf : ParseFloat) (c : Cfg) (regs : List Reg) (t : Table) : Prop :=
  loadTable env pf (config env pf c regs) = .ok t ∧
  (∀ r ∈ named regs, ∀ i ∈ intents c r, expressibleB env pf i = true →
    ∃ d u, wantDef pf i = some d ∧ env.normURL d.dst = some u ∧
      isDup (abs t (key d.src).1 (key d.src).2) (newTarget d u) = true) ∧
  (∀ h p x, x ∈ abs t h p →
    ∃ r ∈ named regs, ∃ i ∈ intents c r, ∃ d u, wantDef pf i = some d ∧ env.normURL d.dst = some u ∧
      key d.src = (h, p) ∧ core x = core (newTarget d u))

/-- **watch_installs_current.** Let the loop be in any state it can reach (`Inv`: the remembered text is `""` or
the text of the active table) with no manual overrides. After the iteration that receives the text of a catalog —
hostile registrations included — the ACTIVE table is the table `NewTable` builds from that text: it holds the
route of every routing tag that fits the grammar and nothing no registration asked for. The update is neither
prevented (`NewTable` accepts, `ParseAliases`' verdict is not consulted) nor delayed (this very iteration). -/
theorem watch_installs_current {s : WState} (hs : Inv env pf s) (hm : s.mancfg = []) (regs : List Reg) :
    TableOf env pf c regs (step env pf s (.svc (config env pf c regs))).table := by
  obtain ⟨t, ht, h1, h2⟩ := no_poisoning env pf c regs
  rw [step_installs hs hm ht]
  exact ⟨ht, h1, h2⟩

/-- **hostile_registration_changes_nothing.** The property's second sentence in one line: a registration none of
whose routing tags can be expressed, placed anywhere in a catalog, leaves the loop in exactly the state the catalog
without it leaves it in — same active table, same remembered text, same `Register` calls. (No hypothesis on the
state or on the manual text.) -/
theorem hostile_registration_changes_nothing (s : WState) (pre post : List Reg) {r : Reg}
    (h : ∀ i ∈ intents c r, denotes env pf (render i) i = false) :
    step env pf s (.svc (config env pf c (pre ++ r :: post))) = step env pf s (.svc (config env pf c (pre ++ post))) := by
  unfold config
  rw [inexpressible_dropped_alone pre post h]

/-- an update that was accepted is not processed twice: delivering the same text again changes nothing (this is
what lets stream `c14.watch` deliver every text twice to know that the loop has finished with it) -/
theorem step_idempotent_of_accepted (s : WState) (e : WEv)
    (h : (step env pf s e).lastTable = nextText (receive s e)) :
    step env pf (step env pf s e) e = step env pf s e := by
  have hr : receive (step env pf s e) e = step env pf s e := by
    cases e <;>
    · unfold step receive
      simp only
      split
      · rfl
      · split <;> rfl
  have hn : nextText (step env pf s e) = nextText (receive s e) := by
    cases e <;>
    · unfold step receive nextText
      simp only
      split
      · rfl
      · split <;> rfl
  have hskip : ∀ s' : WState, nextText (receive s' e) = (receive s' e).lastTable → step env pf s' e = receive s' e := by
    intro s' hs'
    unfold step
    simp only [hs', beq_self_eq_true, if_true]
  rw [hskip (step env pf s e) (by rw [hr, hn, h]), hr]

/-- the states of the loop fed with the texts of a sequence of catalogs, paired with the catalogs -/
theorem watch_follows_catalogs (cats : List (List Reg)) :
    ∀ {s : WState}, Inv env pf s → s.mancfg = [] →
      ∀ p ∈ (trace env pf s (cats.map (fun regs => WEv.svc (config env pf c regs)))).zip cats,
        TableOf env pf c p.2 p.1.table := by
  induction cats with
  | nil => intro s _ _ p hp; simp [trace] at hp
  | cons regs rest ih =>
    intro s hs hm p hp
    simp only [List.map_cons, trace, List.zip_cons_cons, List.mem_cons] at hp
    rcases hp with rfl | hp
    · exact watch_installs_current hs hm regs
    · exact ih (inv_step hs _) (by rw [step_svc_mancfg]; exact hm) p hp

/-- **watch_follows_history.** One long-lived monitor, one long-lived `watchBackend` loop, any history of
registrations, re-registrations, health changes and deregistrations: after every step the active routing table
is the table of the registrations that are current at that step. -/
theorem watch_follows_history (env : Env) (pf : ParseFloat) (c : Cfg) (steps : List (List Ev)) :
    ∀ p ∈ (trace env pf init ((historyTexts env pf c steps).map WEv.svc)).zip (catalogs [] steps),
      TableOf env pf c (current p.2) p.1.table := by
  intro p hp
  have h := watch_follows_catalogs (env := env) (pf := pf) (c := c) ((catalogs [] steps).map current)
    (inv_init env pf) rfl
  unfold historyTexts at hp
  rw [List.map_map] at hp
  simp only [List.map_map] at h
  -- pair the states with the catalogs instead of their current registrations
  have hz : ∀ (ss : List WState) (cs : List Catalog), p ∈ ss.zip cs → (p.1, current p.2) ∈ ss.zip (cs.map current) := by
    intro ss
    induction ss with
    | nil => intro cs h; simp at h
    | cons a as ih =>
      intro cs h
      cases cs with
      | nil => simp at h
      | cons b bs =>
        simp only [List.zip_cons_cons, List.mem_cons, List.map_cons] at h ⊢
        rcases h with rfl | h
        · exact .inl rfl
        · exact .inr (ih bs h)
  exact h _ (hz _ _ hp)

/-! ### non-vacuity -/

set_option maxRecDepth 8000 in
/-- the loop on a history: `victim` and `web` register next to a hostile instance (`weight=abc`), `web` registers
again with another port and an alias, the hostile instance leaves — after every step the active table routes
exactly the current well-formed services, and `Register` got the alias while `web` asked for it -/
example :
    (trace envW pfW init ((historyTexts envW pfW cfgW
      [[.register 0 victim, .register 1 (mk "web" ["urlprefix-web.example.com/"]), .register 2 (mk "svc" ["urlprefix-/x weight=abc"])],
       [.register 1 { mk "web" ["urlprefix-web.example.com/ register=web-alias"] with port := 9090 }],
       [.deregister 2, .fail 0]]).map WEv.svc)).map
      (fun s => (s.table.flatMap (fun h => h.2.flatMap (fun r => r.targets.map (fun x => (x.service, x.url)))),
                 s.registered.getLast?)) =
    [([("web".toList, "http://10.0.0.1:8080/".toList), ("victim".toList, "http://10.0.0.1:8080/".toList)], some []),
     ([("web".toList, "http://10.0.0.1:9090/".toList), ("victim".toList, "http://10.0.0.1:8080/".toList)], some ["web-alias".toList]),
     ([("web".toList, "http://10.0.0.1:9090/".toList)], some ["web-alias".toList])] := by decide

/-- hypotheses of `watch_installs_current` on a state reached after an update: the invariant holds with the
second disjunct -/
example : (let s := step envW pfW init (.svc (config envW pfW cfgW [victim]))
    !s.lastTable.isEmpty && s.mancfg.isEmpty &&
      (match loadTable envW pfW s.lastTable with
       | .ok t => t.map (fun h => (h.1, h.2.map (·.path))) == s.table.map (fun h => (h.1, h.2.map (·.path))) && !t.isEmpty
       | .error _ => false)) = true := by decide

/-- `hostile_registration_changes_nothing` on the seven hostile registrations of D19 (their hypothesis is shown in
`Props/C14.lean`): the loop remembers the same text with and without each of them -/
example : hostile.map (fun r => (step envW pfW init (.svc (config envW pfW cfgW [victim, r]))).lastTable) =
    hostile.map (fun _ => (step envW pfW init (.svc (config envW pfW cfgW [victim]))).lastTable) := by decide

/-- hypothesis of `step_idempotent_of_accepted` on an accepted update -/
example : (step envW pfW init (.svc (config envW pfW cfgW [victim, web]))).lastTable =
    nextText (receive init (.svc (config envW pfW cfgW [victim, web]))) := by decide

end Fabio.Props.C14Watch
