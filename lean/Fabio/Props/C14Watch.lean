import Fabio.Props.C14
import Fabio.Lemmas.C14Watch
/-!
C14, round 4 — the property's sentences end to end: catalog → `routecmd.build` → `makeConfig`'s text →
`watchBackend` (`route.ParseAliases`, `registry.Default.Register`, `route.NewTable`, `route.SetTable`) → the active
routing table. Models: `Model/C14.lean`, `Model/C14Watch.lean` (the loop iteration), `Model/C05Glue.lean`
(`ParseAliases`), `Model/Parse.lean`, `Model/Route.lean`.

"A registration that cannot be expressed is dropped on its own and never prevents or delays route updates for other
services": after the iteration of `watchBackend` that receives the text of a catalog — whatever hostile
registrations it holds, whatever happened before — the ACTIVE table is the table of that catalog
(`watch_installs_current`, `watch_follows_history`); both readers of the command language accept the text
(`config_parses`, `config_aliases_ok`).

Scope of the manual text: `watch_installs_current` / `watch_follows_history` are stated for `mancfg = ""`;
`watch_installs_current_with_manual` for any manual text made of `route add` commands a table accepts (plus comments
and blank lines). An operator's `route del` / `route weight` may of course remove or re-weigh a service's routes —
property C01/C02 territory.
-/
namespace Fabio.Props.C14Watch
open Fabio Fabio.Model.Route Fabio.Model.C05Spec Fabio.Model.C14 Fabio.Model.C14Watch Fabio.Lemmas.C14
open Fabio.Lemmas.C14Watch Fabio.Props.C14
open Fabio.Model.Parse hiding render config
open Fabio.Model.C05Glue (parseAliases registerNames kRegister)

variable {env : Env} {pf : ParseFloat} {c : Cfg}

/-! ### both readers accept every text `makeConfig` produces -/

/-- **config_parses.** `route.Parse` reads the text of every catalog; every definition it reads is the definition
some routing tag of some named registration means, and a table accepts it. -/
theorem config_parses (env : Env) (pf : ParseFloat) (c : Cfg) (regs : List Reg) :
    ∃ defs, parse pf (config env pf c regs) = .ok defs ∧
      ∀ d ∈ defs, ∃ r ∈ named regs, ∃ i ∈ intents c r, wantDef pf i = some d ∧ accepted env d = true := by
  let ds : Str → List RouteDef := fun cmd => match parse pf cmd with
    | .ok l => l
    | .error _ => []
  let cmds := sortDesc (commands env pf c regs)
  have hcmd : ∀ cmd ∈ cmds, ∃ r ∈ named regs, ∃ i ∈ intents c r, ∃ d, parse pf cmd = .ok [d] ∧
      wantDef pf i = some d ∧ accepted env d = true := by
    intro cmd hc
    obtain ⟨r, hr, i, hi, hden, rfl⟩ := (other_commands_unaffected regs).1 ((mem_sortDesc _ _).1 hc)
    obtain ⟨d, hp, hw, ha⟩ := (denotes_iff env pf _ i).1 hden
    exact ⟨r, hr, i, hi, d, hp, hw, ha⟩
  refine ⟨cmds.flatMap ds, ?_, ?_⟩
  · apply parse_join
    intro cmd hc
    obtain ⟨_, _, _, _, d, hp, _, _⟩ := hcmd cmd hc
    show parse pf cmd = .ok (match parse pf cmd with | .ok l => l | .error _ => [])
    rw [hp]
  · intro d hd
    obtain ⟨cmd, hc, hdc⟩ := List.mem_flatMap.1 hd
    obtain ⟨r, hr, i, hi, d', hp, hw, ha⟩ := hcmd cmd hc
    have : ds cmd = [d'] := by
      show (match parse pf cmd with | .ok l => l | .error _ => []) = [d']
      rw [hp]
    rw [this] at hdc
    simp only [List.mem_singleton] at hdc
    subst hdc
    exact ⟨r, hr, i, hi, hw, ha⟩

/-- **config_aliases_ok.** `route.ParseAliases` — the reader `watchBackend` runs first — accepts the text the loop
builds from every catalog (`svccfg + "\n"`), and the names it hands to `registry.Default.Register` are the
`register=` options of routing tags of the catalog's named registrations: no hostile registration makes this
reader fail, none can smuggle in a name through anything but a `register=` option of its own tag. -/
theorem config_aliases_ok (env : Env) (pf : ParseFloat) (c : Cfg) (regs : List Reg) :
    ∃ names, parseAliases pf (config env pf c regs ++ ['\n']) = .ok names ∧
      registerArg pf (config env pf c regs ++ ['\n']) = names ∧
      ∀ n ∈ names, ∃ r ∈ named regs, ∃ i ∈ intents c r,
        (optsOfPairs (i.opts.map splitKV)).lookup kRegister = some n := by
  obtain ⟨defs, hp, hd⟩ := config_parses env pf c regs
  have ha : parseAliases pf (config env pf c regs ++ ['\n']) = .ok (registerNames defs) :=
    aliases_of_parse (by rw [parse_snoc_nl]; exact hp)
  refine ⟨registerNames defs, ha, ?_, ?_⟩
  · unfold registerArg; rw [ha]
  · intro n hn
    unfold registerNames at hn
    obtain ⟨d, hdm, hl⟩ := List.mem_filterMap.1 hn
    obtain ⟨r, hr, i, hi, hw, _⟩ := hd d hdm
    obtain ⟨_, _, _, _, _, ho, _⟩ := wantDef_fields hw
    exact ⟨r, hr, i, hi, by rw [← ho]; exact hl⟩

/-! ### the update reaches the active table -/

/-- what `no_poisoning` says of a table and a catalog -/
def TableOf (env : Env) (pf : ParseFloat) (c : Cfg) (regs : List Reg) (t : Table) : Prop :=
  loadTable env pf (config env pf c regs) = .ok t ∧
  (∀ r ∈ named regs, ∀ i ∈ intents c r, expressibleB env pf i = true →
    ∃ d u, wantDef pf i = some d ∧ env.normURL d.dst = some u ∧
      isDup (abs t (key d.src).1 (key d.src).2) (newTarget d u) = true) ∧
  (∀ h p x, x ∈ abs t h p →
    ∃ r ∈ named regs, ∃ i ∈ intents c r, ∃ d u, wantDef pf i = some d ∧ env.normURL d.dst = some u ∧
      key d.src = (h, p) ∧ core x = core (newTarget d u))

/-- **watch_installs_current.** Let the loop be in any state it can reach (`Inv`: the remembered text is `""` or
the text of the active table) with no manual overrides. After the iteration that receives the text of a catalog —
hostile registrations included — the ACTIVE table is the table `NewTable` builds from that text: it holds the
route of every routing tag that fits the grammar and nothing no registration asked for. The update is neither
prevented (`NewTable` accepts, `ParseAliases`' verdict is not consulted) nor delayed (this very iteration). -/
theorem watch_installs_current {s : WState} (hs : Inv env pf s) (hm : s.mancfg = []) (regs : List Reg) :
    TableOf env pf c regs (step env pf s (.svc (config env pf c regs))).table := by
  obtain ⟨t, ht, h1, h2⟩ := no_poisoning env pf c regs
  rw [step_installs hs hm ht]
  exact ⟨ht, h1, h2⟩

/-- **first_update_starts_fabio.** `main` starts the listeners only after `watchBackend` has closed `first`, which it
does after its first successful `route.SetTable`. Whatever is registered when fabio starts — hostile registrations
included — the first text `makeConfig` produces gets there: fabio starts serving. (Before the repair of D19 one
instance with `weight=abc` kept a starting fabio from ever serving.) -/
theorem first_update_starts_fabio (env : Env) (pf : ParseFloat) (c : Cfg) (regs : List Reg) :
    (step env pf init (.svc (config env pf c regs))).started = true := by
  obtain ⟨t, ht, _⟩ := no_poisoning env pf c regs
  refine step_started (t := t) started_init ?_
  have : nextText (receive init (.svc (config env pf c regs))) = config env pf c regs ++ ['\n'] := by
    simp [nextText, receive, init]
  rw [this, loadTable_snoc_nl]
  exact ht

/-- … and stays so: `Started` is an invariant of the loop (`started_init`, `started_step`), and every iteration that
receives a catalog's text with no manual overrides ends with `first` closed -/
theorem update_keeps_fabio_serving {s : WState} (hs : Started s) (hm : s.mancfg = []) (regs : List Reg) :
    (step env pf s (.svc (config env pf c regs))).started = true := by
  obtain ⟨t, ht, _⟩ := no_poisoning env pf c regs
  refine step_started (t := t) hs ?_
  have : nextText (receive s (.svc (config env pf c regs))) = config env pf c regs ++ ['\n'] := by
    simp [nextText, receive, hm]
  rw [this, loadTable_snoc_nl]
  exact ht

/-- **hostile_registration_changes_nothing.** The property's second sentence in one line: a registration none of
whose routing tags can be expressed, placed anywhere in a catalog, leaves the loop in exactly the state the catalog
without it leaves it in — same active table, same remembered text, same `Register` calls. (No hypothesis on the
state or on the manual text.) -/
theorem hostile_registration_changes_nothing (s : WState) (pre post : List Reg) {r : Reg}
    (h : ∀ i ∈ intents c r, denotes env pf (render i) i = false) :
    step env pf s (.svc (config env pf c (pre ++ r :: post))) = step env pf s (.svc (config env pf c (pre ++ post))) := by
  unfold config
  rw [inexpressible_dropped_alone pre post h]

/-- an update that was accepted is not processed twice: delivering the same text again changes nothing (this is
what lets stream `c14.watch` deliver every text twice to know that the loop has finished with it) -/
theorem step_idempotent_of_accepted (s : WState) (e : WEv)
    (h : (step env pf s e).lastTable = nextText (receive s e)) :
    step env pf (step env pf s e) e = step env pf s e := by
  have hr : receive (step env pf s e) e = step env pf s e := by
    cases e <;>
    · unfold step receive
      simp only
      split
      · rfl
      · split <;> rfl
  have hn : nextText (step env pf s e) = nextText (receive s e) := by
    cases e <;>
    · unfold step receive nextText
      simp only
      split
      · rfl
      · split <;> rfl
  have hskip : ∀ s' : WState, nextText (receive s' e) = (receive s' e).lastTable → step env pf s' e = receive s' e := by
    intro s' hs'
    unfold step
    simp only [hs', beq_self_eq_true, if_true]
  rw [hskip (step env pf s e) (by rw [hr, hn, h]), hr]

/-- the states of the loop fed with the texts of a sequence of catalogs, paired with the catalogs -/
theorem watch_follows_catalogs (cats : List (List Reg)) :
    ∀ {s : WState}, Inv env pf s → s.mancfg = [] →
      ∀ p ∈ (trace env pf s (cats.map (fun regs => WEv.svc (config env pf c regs)))).zip cats,
        TableOf env pf c p.2 p.1.table := by
  induction cats with
  | nil => intro s _ _ p hp; simp [trace] at hp
  | cons regs rest ih =>
    intro s hs hm p hp
    simp only [List.map_cons, trace, List.zip_cons_cons, List.mem_cons] at hp
    rcases hp with rfl | hp
    · exact watch_installs_current hs hm regs
    · exact ih (inv_step hs _) (by rw [step_svc_mancfg]; exact hm) p hp

/-- **watch_follows_history.** One long-lived monitor, one long-lived `watchBackend` loop, any history of
registrations, re-registrations, health changes and deregistrations: after every step the active routing table
is the table of the registrations that are current at that step. -/
theorem watch_follows_history (env : Env) (pf : ParseFloat) (c : Cfg) (steps : List (List Ev)) :
    ∀ p ∈ (trace env pf init ((historyTexts env pf c steps).map WEv.svc)).zip (catalogs [] steps),
      TableOf env pf c (current p.2) p.1.table := by
  intro p hp
  have h := watch_follows_catalogs (env := env) (pf := pf) (c := c) ((catalogs [] steps).map current)
    (inv_init env pf) rfl
  unfold historyTexts at hp
  rw [List.map_map] at hp
  simp only [List.map_map] at h
  -- pair the states with the catalogs instead of their current registrations
  have hz : ∀ (ss : List WState) (cs : List Catalog), p ∈ ss.zip cs → (p.1, current p.2) ∈ ss.zip (cs.map current) := by
    intro ss
    induction ss with
    | nil => intro cs h; simp at h
    | cons a as ih =>
      intro cs h
      cases cs with
      | nil => simp at h
      | cons b bs =>
        simp only [List.zip_cons_cons, List.mem_cons, List.map_cons] at h ⊢
        rcases h with rfl | h
        · exact .inl rfl
        · exact .inr (ih bs h)
  exact h _ (hz _ _ hp)

/-! ### with the operator's manual text in force -/

/-- `route.Parse` reads `a + "\n" + b` as what it reads from `a` followed by what it reads from `b` -/
theorem parse_concat {a b : Str} {da db : List RouteDef} (ha : parse pf a = .ok da) (hb : parse pf b = .ok db) :
    parse pf (a ++ '\n' :: b) = .ok (da ++ db) := by
  unfold Fabio.Model.Parse.parse at ha hb ⊢
  rw [parseLines_rawLines] at ha hb ⊢
  rw [splitOn_append_sep]
  exact parseLines_append pf _ _ 1 1 _ _ ha hb

/-- the operator's text: `route add` commands an empty table accepts, comments, blank lines -/
def ManAdds (env : Env) (pf : ParseFloat) (man : Str) (md : List RouteDef) : Prop :=
  parse pf man = .ok md ∧ ∀ d ∈ md, d.cmd = .add ∧ accepted env d = true

/-- **watch_installs_current_with_manual.** As `watch_installs_current`, with a manual text of `route add` commands in
force: the update of the services is installed in this very iteration, every expressible routing tag of the catalog
has its target, and every target of the table was asked for by a routing tag of the catalog or by a command of the
operator's text. -/
theorem watch_installs_current_with_manual {s : WState} (hs : Inv env pf s) {man : Str} {md : List RouteDef}
    (hman : ManAdds env pf man md) (hm : s.mancfg = man) (regs : List Reg) :
    ∃ t, (step env pf s (.svc (config env pf c regs))).table = t ∧
      loadTable env pf (config env pf c regs ++ '\n' :: man) = .ok t ∧
      (∀ r ∈ named regs, ∀ i ∈ intents c r, expressibleB env pf i = true →
        ∃ d u, wantDef pf i = some d ∧ env.normURL d.dst = some u ∧
          isDup (abs t (key d.src).1 (key d.src).2) (newTarget d u) = true) ∧
      (∀ h p x, x ∈ abs t h p →
        (∃ r ∈ named regs, ∃ i ∈ intents c r, ∃ d u, wantDef pf i = some d ∧ env.normURL d.dst = some u ∧
          key d.src = (h, p) ∧ core x = core (newTarget d u)) ∨
        (∃ d ∈ md, ∃ u, env.normURL d.dst = some u ∧ key d.src = (h, p) ∧ core x = core (newTarget d u))) := by
  obtain ⟨defs, hp, hd⟩ := config_parses env pf c regs
  have hok : ∀ d ∈ defs ++ md, AddOK env d := by
    intro d hmem
    rcases List.mem_append.1 hmem with h | h
    · obtain ⟨_, _, i, _, hw, ha⟩ := hd d h
      exact (addRoute_nil_iff env d (wantDef_cmd hw)).1 ((accepted_iff env d (wantDef_cmd hw)).1 ha)
    · exact (addRoute_nil_iff env d (hman.2 d h).1).1 ((accepted_iff env d (hman.2 d h).1).1 (hman.2 d h).2)
  obtain ⟨t, ht, hE⟩ := newTable_adds (defs ++ md) hok
  have hload : loadTable env pf (config env pf c regs ++ '\n' :: man) = .ok t := by
    unfold loadTable
    rw [parse_concat hp hman.1]
    simp only [ht]
  have hnext : nextText (receive s (.svc (config env pf c regs))) = config env pf c regs ++ '\n' :: man := by
    simp [nextText, receive, hm]
  have htab : (step env pf s (.svc (config env pf c regs))).table = t := by
    unfold step
    simp only
    split
    · next heq =>
      have heq : nextText (receive s (.svc (config env pf c regs))) = s.lastTable := by simpa [receive] using heq
      rcases hs with h0 | h1
      · exact absurd (heq.trans h0) (nextText_ne_nil _)
      · rw [← heq, hnext, hload] at h1
        injection h1 with h1
        exact h1.symm
    · rw [hnext, hload]
  refine ⟨t, htab, hload, ?_, ?_⟩
  · intro r hr i hi he
    have hx := expressible_of_B he
    obtain ⟨d, hdd⟩ := hx.wantDef_some
    -- the command of `i` is in the text, so its definition is among `defs`
    have hmem : render i ∈ sortDesc (commands env pf c regs) :=
      (mem_sortDesc _ _).2 ((other_commands_unaffected regs).2 ⟨r, hr, i, hi, denotes_of_expressible hx, rfl⟩)
    have hpar : parse pf (config env pf c regs) =
        .ok ((sortDesc (commands env pf c regs)).flatMap (fun cmd => match parse pf cmd with | .ok l => l | .error _ => [])) := by
      apply parse_join
      intro cmd hc
      obtain ⟨r', _, i', _, hden, rfl⟩ := (other_commands_unaffected regs).1 ((mem_sortDesc _ _).1 hc)
      obtain ⟨d', hp', _, _⟩ := (denotes_iff env pf _ i').1 hden
      rw [hp']
    have hdefs : defs = (sortDesc (commands env pf c regs)).flatMap (fun cmd => match parse pf cmd with | .ok l => l | .error _ => []) := by
      rw [hp] at hpar
      injection hpar
    have hdin : d ∈ defs := by
      rw [hdefs]
      refine List.mem_flatMap.2 ⟨render i, hmem, ?_⟩
      rw [hx.parse hdd]; simp
    obtain ⟨u, hu, hpres⟩ := hE.present d (List.mem_append_left _ hdin)
    exact ⟨d, u, hdd, hu, hpres⟩
  · intro h p x hx
    obtain ⟨d, hdm, u, hu, hk, hc⟩ := hE.asked h p x hx
    rcases List.mem_append.1 hdm with hdd | hdd
    · obtain ⟨r, hr, i, hi, hw, _⟩ := hd d hdd
      exact .inl ⟨r, hr, i, hi, d, u, hw, hu, hk, hc⟩
    · exact .inr ⟨d, hdd, u, hu, hk, hc⟩

/-! ### non-vacuity -/

set_option maxRecDepth 8000 in
/-- the loop on a history: `victim` and `web` register next to a hostile instance (`weight=abc`), `web` registers
again with another port and an alias, the hostile instance leaves — after every step the active table routes
exactly the current well-formed services, and `Register` got the alias while `web` asked for it -/
example :
    (trace envW pfW init ((historyTexts envW pfW cfgW
      [[.register 0 victim, .register 1 (mk "web" ["urlprefix-web.example.com/"]), .register 2 (mk "svc" ["urlprefix-/x weight=abc"])],
       [.register 1 { mk "web" ["urlprefix-web.example.com/ register=web-alias"] with port := 9090 }],
       [.deregister 2, .fail 0]]).map WEv.svc)).map
      (fun s => (s.table.flatMap (fun h => h.2.flatMap (fun r => r.targets.map (fun x => (x.service, x.url)))),
                 s.registered.getLast?)) =
    [([("web".toList, "http://10.0.0.1:8080/".toList), ("victim".toList, "http://10.0.0.1:8080/".toList)], some []),
     ([("web".toList, "http://10.0.0.1:9090/".toList), ("victim".toList, "http://10.0.0.1:8080/".toList)], some ["web-alias".toList]),
     ([("web".toList, "http://10.0.0.1:9090/".toList)], some ["web-alias".toList])] := by decide

/-- hypotheses of `watch_installs_current` on a state reached after an update: the invariant holds with the
second disjunct -/
example : (let s := step envW pfW init (.svc (config envW pfW cfgW [victim]))
    !s.lastTable.isEmpty && s.mancfg.isEmpty &&
      (match loadTable envW pfW s.lastTable with
       | .ok t => t.map (fun h => (h.1, h.2.map (·.path))) == s.table.map (fun h => (h.1, h.2.map (·.path))) && !t.isEmpty
       | .error _ => false)) = true := by decide

/-- `hostile_registration_changes_nothing` on the seven hostile registrations of D19 (their hypothesis is shown in
`Props/C14.lean`): the loop remembers the same text with and without each of them -/
example : hostile.map (fun r => (step envW pfW init (.svc (config envW pfW cfgW [victim, r]))).lastTable) =
    hostile.map (fun _ => (step envW pfW init (.svc (config envW pfW cfgW [victim]))).lastTable) := by decide

/-- the unrepaired `build` (D19): with one instance carrying `weight=abc` the first text is rejected, `first` stays
open — a starting fabio never serves; the repaired code starts -/
example : (step envW pfW init (.svc (configOld printAll cfgW [victim, mk "svc" ["urlprefix-/x weight=abc"]]))).started = false ∧
    (step envW pfW init (.svc (config envW pfW cfgW [victim, mk "svc" ["urlprefix-/x weight=abc"]]))).started = true := by
  decide

/-- hypothesis of `step_idempotent_of_accepted` on an accepted update -/
example : (step envW pfW init (.svc (config envW pfW cfgW [victim, web]))).lastTable =
    nextText (receive init (.svc (config envW pfW cfgW [victim, web]))) := by decide

/-- an operator's text with a comment, a blank line and a route: the hypothesis `ManAdds` holds … -/
def manW : Str := "# operator\n\nroute add manual /manual http://9.9.9.9:1/ tags \"op\"".toList

example : (match parse pfW manW with
    | .ok md => md.length == 1 && md.all (fun d => d.cmd == .add && accepted envW d)
    | .error _ => false) = true := by decide

/-- … and with it in force the loop installs the services' update next to the operator's route, a hostile instance
notwithstanding -/
example : ((step envW pfW { init with mancfg := manW } (.svc (config envW pfW cfgW [victim, attacker]))).table.flatMap
      (fun h => h.2.flatMap (fun r => r.targets.map (fun x => (x.service, r.path))))) =
    [("victim".toList, "/v".toList), ("manual".toList, "/manual".toList)] := by decide

end Fabio.Props.C14Watch
