import Fabio.Generated.C09
import Fabio.Model.C09
/-! Obligations over the facts regenerated from `/repo` on every run: the constants, event orders and call
arguments the C09 model silently depends on.

The facts are *events and roles*, not source text (`tools/factgen/c09.go`): the AST is normalised (package
constants inlined, switch → if chain), handlers are walked with same-package calls and local closures followed,
and variables are named by role — `client` (the handler's connection), `upstream` (assigned from the dial call),
`bufreader` (from `bufio.NewReader*`), `header` (result of `Peek`), `hello` (the buffer given to `io.ReadFull`),
`hsbuf` (the buffer of the websocket handshake read); in `copyBuffer`: `dst`, `src`, `counter`, `buf`, `nr`,
`er`, `nw`, `ew`. Renaming locals, extracting or inlining helpers, if ↔ switch, named constants and moving code
between files leave them unchanged. -/
namespace Fabio.Props.C09Facts
open Fabio Fabio.Model.C09

/-- `copyBuffer` allocates `32*1024` bytes; the model's `copyBufSize` is that number. -/
theorem copy_buffer_size : Generated.C09.copyBufBytes = copyBufSize := by decide

/-- The copy loop: one loop; `Read` into the buffer, `Write` of exactly the bytes read, the counter gets the
bytes written; the tests the model has (byte counts, write error, short write, read error, EOF), the byte
count examined before the read error; the errors it can return are the write error, `io.ErrShortWrite` and
the read error. -/
theorem copy_loop_shape :
    Generated.C09.copyLoops = 1 ∧
    Generated.C09.copyCalls = ["src.Read(buf)", "dst.Write(buf[:nr])", "counter.Add(float64(nw))"] ∧
    Generated.C09.copyTests =
      ["cmp(counter,nil)", "cmp(er,io.EOF)", "cmp(er,nil)", "cmp(ew,nil)", "cmp(nr,nw)", "nr > 0", "nw > 0"] ∧
    Generated.C09.copyTestOrder = ["nr", "nw", "counter", "ew", "nr", "er"] ∧
    Generated.C09.copyResults = ["er", "ew", "io.ErrShortWrite"] :=
  ⟨rfl, rfl, rfl, rfl, rfl⟩

/-- `SNIProxy.ServeTCP`: a default-size `bufio.Reader` over the client connection, `Peek(9)`, the size from
the peeked header, `io.ReadFull` through the same reader, the parser on `hello[5:]`, lookup, dial, PROXY line
(which writes to the upstream), the hello, then the two concurrent copies — the client→upstream one reading
from the buffered reader (`codeCopySrc`); each reports on the error channel when it ends, the client→upstream
one after `CloseWrite` on the upstream and a wait for the client connection's `Done()` (see
`tunnel_teardown_mode`) — and one receive from the error channel. No other event. -/
theorem sni_call_order :
    Generated.C09.sniEvents =
      ["bufreader(client)", "peek(9)", "size(header)", "readfull(bufreader)", "parse(hello[5:])", "lookup",
       "dial", "proxyheader(upstream,client)", "write(upstream,other)", "write(upstream,hello)",
       "go copy client<-upstream", "go send",
       "go copy upstream<-bufreader", "upstream.CloseWrite()", "go wait(client.Done)", "go send", "recv"] ∧
    codeCopySrc = .buffered :=
  ⟨rfl, rfl⟩

/-- Plain TCP and tcp-dynamic: lookup(s) → dial → PROXY line → the two concurrent copies on the raw
connections → one receive; the websocket handler: hijack → dial → request relayed → handshake read (1024
bytes, 1 s read deadline) relayed to the client and checked for the `HTTP/1.1 101` prefix → deadline cleared →
the two concurrent copies → one receive. -/
theorem tcp_call_order :
    Generated.C09.tcpEvents =
      ["lookup", "dial", "proxyheader(upstream,client)", "write(upstream,other)",
       "go copy client<-upstream", "go send",
       "go copy upstream<-client", "upstream.CloseWrite()", "go wait(client.Done)", "go send", "recv"] ∧
    Generated.C09.dynEvents =
      ["lookup", "lookup", "dial", "proxyheader(upstream,client)", "write(upstream,other)",
       "go copy client<-upstream", "go send",
       "go copy upstream<-client", "upstream.CloseWrite()", "go wait(client.Done)", "go send", "recv"] ∧
    Generated.C09.wsEvents =
      ["hijack", "dial", "writeto(upstream)", "upstream.SetReadDeadline(now+d)", "read(upstream,1024)",
       "write(client,hsbuf)", "hasprefix(hsbuf,[]byte(\"HTTP/1.1 101\"))", "upstream.SetReadDeadline(zero)",
       "go copy upstream<-client", "upstream.CloseWrite()", "go return", "go send",
       "go copy client<-upstream", "go send", "recv"] :=
  ⟨rfl, rfl, rfl⟩

/-- The teardown rule of all four tunnels is mode `clientHalf` of the tunnel machine (`codeMode`): the error
channel has room for both results and the handler receives **once**; the upstream→client goroutine reports when its
copy ends (`go copy client<-upstream`, `go send`); the client→upstream goroutine, when its copy has ended, calls
`CloseWrite` on the upstream connection and — in the tcp handlers — waits for the client connection's `Done()`
before it reports (`upstream.CloseWrite()`, `go wait(client.Done)`, `go send` in the event lists of
`sni_call_order`/`tcp_call_order`), in the websocket handler ends without reporting (`go return` before its
`go send`). So a client EOF alone never ends the tunnel: the receive is fed by the end of the upstream→client
direction, by an error, or — tcp handlers — by the client connection being closed (`serverClose`). -/
theorem tunnel_teardown_mode :
    (Generated.C09.tcpErrcCap = 2 ∧ Generated.C09.tcpErrcReceives = 1) ∧
    (Generated.C09.sniErrcCap = 2 ∧ Generated.C09.sniErrcReceives = 1) ∧
    (Generated.C09.dynErrcCap = 2 ∧ Generated.C09.dynErrcReceives = 1) ∧
    (Generated.C09.wsErrcCap = 2 ∧ Generated.C09.wsErrcReceives = 1) ∧
    codeMode = .clientHalf := by decide

/-- Who writes a PROXY line: the three tcp handlers (event `proxyheader` above; `dynWritesProxyHeader` is the
model's constant for tcp-dynamic), not the websocket handler. -/
theorem proxy_header_writers :
    Generated.C09.tcpWritesProxyHeader = true ∧ Generated.C09.sniWritesProxyHeader = true ∧
    Generated.C09.dynWritesProxyHeader = dynWritesProxyHeader ∧ Generated.C09.wsWritesProxyHeader = false := by decide

/-- `WriteProxyHeader` builds the line from these parts in this order, the family from the client
address alone, the addresses from the client connection's `RemoteAddr()` / `LocalAddr()` (the set of
`SplitHostPort` arguments, sorted; unexported helpers `WriteProxyHeader` calls are followed with their parameters
standing for the arguments). -/
theorem proxy_header_parts :
    Generated.C09.pxyHeaderParts =
      ["lit:PROXY ", "family", "lit: ", "clientAddr", "lit: ", "serverAddr", "lit: ", "clientPort", "lit: ",
       "serverPort", "lit:\r\n"] ∧
    Generated.C09.pxyFamily = ["TCP4 if net.ParseIP(clientAddr).To4() != nil", "TCP6 otherwise"] ∧
    Generated.C09.pxySplitArgs = ["client.LocalAddr().String()", "client.RemoteAddr().String()"] :=
  ⟨rfl, rfl, rfl⟩

/-- The socket contract the tunnel machine assumes (orderly close, writes without deadline) is not
disturbed by the code: the event lists above are complete with respect to socket-option, deadline and
half-close calls (`SetLinger`, `Set*Deadline`, `SetNoDelay`, `SetKeepAlive*`, `Set*Buffer`, `CloseWrite`,
`CloseRead`) on every path from the handlers — `copyBuffer` has none, the handlers only the `CloseWrite` on the
upstream connection that passes the client's EOF on (after the client→upstream copy has ended, see
`tunnel_teardown_mode`), the websocket handler besides that only bounds its handshake read and clears that deadline
before the copy phase — and the connection
wrapper `Server.Serve` puts around accepted connections sets per-call deadlines only under a configured
`ReadTimeout`/`WriteTimeout`. -/
theorem no_socket_options_in_tunnel_handlers :
    Generated.C09.tcpSockOpts = ["upstream.CloseWrite()"] ∧ Generated.C09.sniSockOpts = ["upstream.CloseWrite()"] ∧
    Generated.C09.dynSockOpts = ["upstream.CloseWrite()"] ∧
    Generated.C09.copySockOpts = [] ∧ tunnelHandlersTouchSocketOptions = false ∧
    Generated.C09.wsSockOpts =
      ["upstream.SetReadDeadline(now+d)", "upstream.SetReadDeadline(zero)", "upstream.CloseWrite()"] ∧
    Generated.C09.serverSockOpts =
      ["Read: SetReadDeadline(now+recv.ReadTimeout) if recv.ReadTimeout > 0",
       "SetDeadline: SetDeadline(p0)", "SetReadDeadline: SetReadDeadline(p0)", "SetWriteDeadline: SetWriteDeadline(p0)",
       "Write: SetWriteDeadline(now+recv.WriteTimeout) if recv.WriteTimeout > 0"] := by
  exact ⟨rfl, rfl, rfl, rfl, rfl, rfl, rfl⟩

end Fabio.Props.C09Facts
