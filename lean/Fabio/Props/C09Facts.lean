import Fabio.Generated.C09
import Fabio.Model.C09
/-! Obligations over the facts regenerated from `/repo` on every run: the constants, call orders and call
arguments the C09 model silently depends on. -/
namespace Fabio.Props.C09Facts
open Fabio Fabio.Model.C09

/-- `copyBuffer` allocates `32*1024` bytes; the model's `copyBufSize` is that number. -/
theorem copy_buffer_size : Generated.C09.copyBufBytes = copyBufSize := by decide

/-- The copy loop has one `Read`, one `Write` and the exits the model has (write error, short write,
read error other than EOF). -/
theorem copy_loop_shape :
    Generated.C09.copyReads = 1 ∧ Generated.C09.copyWrites = 1 ∧
    Generated.C09.copyConds = ["nr > 0", "nw > 0", "c != nil", "ew != nil", "nr != nw", "er != nil", "er != io.EOF"] :=
  ⟨rfl, rfl, rfl⟩

/-- `SNIProxy.ServeTCP` peeks 9 bytes through a default-size (4096) `bufio.Reader` over the client
connection, reads the hello through the same reader and hands `data[5:]` to the parser. -/
theorem sni_read_shape :
    Generated.C09.sniPeek = 9 ∧
    Generated.C09.sniConnParam = "in" ∧
    Generated.C09.sniBufReaderVar = "tlsReader" ∧
    Generated.C09.sniBufReaderCtor = "bufio.NewReader(in)" ∧
    Generated.C09.sniReadFullArgs = "tlsReader, data" ∧
    Generated.C09.sniServerNameArg = "data[5:]" :=
  ⟨rfl, rfl, rfl, rfl, rfl, rfl⟩

/-- Order in `SNIProxy.ServeTCP`: peek → size → ReadFull → parse → lookup → dial → PROXY line → hello →
the two copies; the client→upstream copy reads from the buffered reader (`codeCopySrc`). -/
theorem sni_call_order :
    Generated.C09.sniCallOrder =
      ["tlsReader.Peek", "clientHelloBufferSize", "io.ReadFull", "readServerName", "p.Lookup",
       "net.DialTimeout", "WriteProxyHeader", "out.Write(data)", "go cp(in, out)", "go cp(out, tlsReader)"] ∧
    codeCopySrc = .buffered :=
  ⟨rfl, rfl⟩

/-- Plain TCP: dial → PROXY line → the two copies, both on the raw connections. -/
theorem tcp_call_order :
    Generated.C09.tcpCallOrder = ["net.DialTimeout", "WriteProxyHeader", "go cp(in, out)", "go cp(out, in)"] ∧
    Generated.C09.tcpCopies = ["in<-out", "out<-in"] ∧
    Generated.C09.dynCopies = ["in<-out", "out<-in"] ∧
    Generated.C09.wsCopies = ["out<-in", "in<-out"] ∧ Generated.C09.wsIoCopies = 1 :=
  ⟨rfl, rfl, rfl, rfl, rfl⟩

/-- All four tunnels: `errc` has room for both results and the handler returns after the **first** one
(mode `firstEnds` of the tunnel machine). -/
theorem first_finished_direction_ends_tunnel :
    (Generated.C09.tcpErrcCap = 2 ∧ Generated.C09.tcpErrcReceives = 1) ∧
    (Generated.C09.sniErrcCap = 2 ∧ Generated.C09.sniErrcReceives = 1) ∧
    (Generated.C09.dynErrcCap = 2 ∧ Generated.C09.dynErrcReceives = 1) ∧
    (Generated.C09.wsErrcCap = 2 ∧ Generated.C09.wsErrcReceives = 1) := by decide

/-- Who writes a PROXY line. -/
theorem proxy_header_writers :
    Generated.C09.tcpWritesProxyHeader = true ∧ Generated.C09.sniWritesProxyHeader = true ∧
    Generated.C09.dynWritesProxyHeader = dynWritesProxyHeader ∧ Generated.C09.wsWritesProxyHeader = false := by decide

/-- `WriteProxyHeader` builds the line from these parts in this order, the family from the client
address alone, the addresses from `in.RemoteAddr()` / `in.LocalAddr()`. -/
theorem proxy_header_parts :
    Generated.C09.pxyHeaderParts =
      ["lit:PROXY ", "proto", "lit: ", "clientAddr", "lit: ", "serverAddr", "lit: ", "clientPort", "lit: ",
       "serverPort", "lit:\r\n"] ∧
    Generated.C09.pxyFamily = "net.ParseIP(clientAddr).To4() != nil ? { proto = \"TCP4\" } : { proto = \"TCP6\" }" ∧
    Generated.C09.pxySplitArgs = ["in.RemoteAddr().String()", "in.LocalAddr().String()"] :=
  ⟨rfl, rfl, rfl⟩

/-- The socket contract the tunnel machine assumes (orderly close, writes without deadline) is not
disturbed by the code: the tcp tunnel handlers call no socket-option, deadline or half-close method at all;
the websocket handler only bounds its handshake read and clears that deadline before the copy phase;
`server.go`'s `conn` wrapper sets per-call deadlines only under a configured `ReadTimeout`/`WriteTimeout`. -/
theorem no_socket_options_in_tunnel_handlers :
    Generated.C09.tcpSockOpts = [] ∧ tunnelHandlersTouchSocketOptions = false ∧
    Generated.C09.wsSockOpts =
      ["ws_handler.go newWSHandler: out.SetReadDeadline(time.Now().Add(time.Second))",
       "ws_handler.go newWSHandler: out.SetReadDeadline(time.Time{})"] ∧
    Generated.C09.serverSockOpts =
      ["server.go *conn.Read: c.c.SetReadDeadline(time.Now().Add(c.ReadTimeout)) if c.ReadTimeout > 0",
       "server.go *conn.Write: c.c.SetWriteDeadline(time.Now().Add(c.WriteTimeout)) if c.WriteTimeout > 0",
       "server.go *conn.SetDeadline: c.c.SetDeadline(t)",
       "server.go *conn.SetReadDeadline: c.c.SetReadDeadline(t)",
       "server.go *conn.SetWriteDeadline: c.c.SetWriteDeadline(t)"] :=
  ⟨rfl, rfl, rfl, rfl⟩

end Fabio.Props.C09Facts
