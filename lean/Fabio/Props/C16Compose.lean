import Fabio.Props.C16
import Fabio.Props.C03
/-!
C16 ∘ C03 — the gRPC interceptor composed with the routing model (phase 2).

`Props/C16.lean` takes the table lookup as a parameter.  Here the parameter is instantiated with C03's
`Lookup` on the request the interceptor builds (`Props/C16Facts.lean: lookup_calls_table_lookup_once` and
`synthetic_request_has_no_tls` pin it): `Host` = `dstHost md`, `URL.Path` = parsed path of the full method
(the method itself for ordinary gRPC names), `TLS` = nil.  The C03 theorems then say *which* backend a gRPC
call reaches:

* `grpc_routed_to_matching_backend` — only a target of a route whose path matches the method path under the
  configured matcher and whose host key is empty or matches the `dsthost` value (`lookup_sound`);
* `grpc_most_specific` — the host order, "host-less only as fallback", "exact host beats pattern" and
  "longest path wins" corollaries of C03, transported to calls;
* `grpc_notfound_iff_no_candidate` — `NotFound` ⇔ the table has no candidate route (every route of a
  reachable table has a target: `NoEmptyRoutes`, established for tables built by the command language in
  C05), with the proxy state untouched (`noroute_notfound_no_backend`).
-/
namespace Fabio.Props.C16Compose
open Fabio Fabio.Model.Route Fabio.Model.C03 Fabio.Model.C16
open Fabio.Props.C03 (HostMatches PickOK NoEmptyRoutes NoSkip TableSorted matched look)

/-- the `http.Request` of `GrpcProxyInterceptor.lookup` as C03 sees it: no TLS -/
def grpcReq (md : MD) (path : Str) : Model.C03.Req := { host := dstHost md, tls := false, path := path }

/-- C03's `Lookup` as the lookup parameter of `intercept` (answer: host key, route, target) -/
def lookupFull (cfg : Cfg) (t : Table) : Str → Str → Option (Str × Route × Target) :=
  fun host path => Lookup cfg t { host := host, tls := false, path := path }

/-- … and as the lookup parameter of `World.call` (answer: the target's pool key `URL.String()`) -/
def lookupKey (cfg : Cfg) : Table → Str → Str → Option Str :=
  fun t host path => (lookupFull cfg t host path).map (fun a => a.2.2.url)

/-- the interceptor with the real routing function -/
def grpcIntercept (cfg : Cfg) (t : Table) (pp : Str → Option Str) (md : MD) (method : Str) :
    Intercept (Str × Route × Target) :=
  intercept pp (lookupFull cfg t) true md method

theorem grpcIntercept_eq (cfg : Cfg) (t : Table) (pp : Str → Option Str) (md : MD) (method p : Str)
    (hp : pp method = some p) :
    grpcIntercept cfg t pp md method =
      match Lookup cfg t (grpcReq md p) with
      | none => .notFound
      | some a => .forward a := by
  have := (Props.C16.grpc_lookup_args (T := Str × Route × Target) pp md method p hp).1 (lookupFull cfg t)
  unfold grpcIntercept
  rw [this]
  simp only [lookupFull, grpcReq]
  cases Lookup cfg t { host := dstHost md, tls := false, path := p } <;> rfl

/-- a candidate for a call: a route under a key that is empty or matches the `dsthost` value, whose path
matches the method path -/
def Candidate (cfg : Cfg) (t : Table) (md : MD) (p : Str) (k : Str) (r : Route) : Prop :=
  (k = [] ∨ HostMatches cfg t (grpcReq md p) k) ∧ r ∈ t.get (lowerL k) ∧ cfg.pathMatch p r.path = true

/-- **A call is forwarded only to a backend of a matching route.** If the interceptor forwards a call to
target `tg` of route `r` found under host key `h`, then `h` is empty or matches the `dsthost` value (as a
glob, case-insensitively; equality when host globbing is off), `r` is a route of that key whose path matches
the method path under the configured matcher, and `tg` is one of `r`'s targets. -/
theorem grpc_routed_to_matching_backend (cfg : Cfg) (t : Table) (pp : Str → Option Str) (md : MD)
    (method p : Str) (hp : pp method = some p) (hpick : PickOK cfg.pick)
    {h : Str} {r : Route} {tg : Target}
    (hf : grpcIntercept cfg t pp md method = .forward (h, r, tg)) :
    Candidate cfg t md p h r ∧ tg ∈ r.targets := by
  rw [grpcIntercept_eq cfg t pp md method p hp] at hf
  cases hl : Lookup cfg t (grpcReq md p) with
  | none => rw [hl] at hf; cases hf
  | some a =>
    rw [hl] at hf
    simp only [Intercept.forward.injEq] at hf
    subst hf
    obtain ⟨h1, h2, h3, h4⟩ := Props.C03.lookup_sound cfg t (grpcReq md p) hpick hl
    exact ⟨⟨h1, h2, h3⟩, h4⟩

/-- the same through `World.call`: a call that reaches the pool does so with the key of a target of a
matching route, and the pool is asked for exactly that key -/
theorem grpc_call_reaches_matching_backend (cfg : Cfg) (pp : Str → Option Str) (w : World) (md : MD)
    (method p : Str) (d : Bool) (hp : pp method = some p) (hpick : PickOK cfg.pick)
    {w' : World} {k : Str} {res : GetRes}
    (hc : w.call pp (lookupKey cfg) true md method d = (w', .proxied k res)) :
    ∃ h r tg, Candidate cfg w.table md p h r ∧ tg ∈ r.targets ∧ k = tg.url ∧ (w', res) = w.get k d := by
  have ha := (Props.C16.grpc_lookup_args (T := Str) pp md method p hp).1 (lookupKey cfg w.table)
  cases hl : Lookup cfg w.table (grpcReq md p) with
  | none =>
    have : lookupKey cfg w.table (dstHost md) p = none := by simp [lookupKey, lookupFull, grpcReq] at hl ⊢; exact hl
    simp [World.call, ha, this] at hc
  | some a =>
    obtain ⟨h, r, tg⟩ := a
    have hk : lookupKey cfg w.table (dstHost md) p = some tg.url := by
      simp only [lookupKey, lookupFull]; simp only [grpcReq] at hl; rw [hl]; rfl
    simp only [World.call, ha, hk] at hc
    obtain ⟨h1, h2, h3, h4⟩ := Props.C03.lookup_sound cfg w.table (grpcReq md p) hpick hl
    refine ⟨h, r, tg, ⟨h1, h2, h3⟩, h4, ?_, ?_⟩
    · injection hc with _ e2; injection e2 with e3 _; exact e3.symm
    · injection hc with e1 e2; injection e2 with e3 e4; subst e3; rw [← e1, ← e4]

/-- **NotFound ⇔ no candidate route.** For a table in which every route has a target (tables built by the
command language: C05) and a call whose method parses: the interceptor answers `NotFound` exactly when no
route stands under a key that is empty or matches the `dsthost` value with a path matching the method path. -/
theorem grpc_notfound_iff_no_candidate (cfg : Cfg) (t : Table) (pp : Str → Option Str) (md : MD)
    (method p : Str) (hp : pp method = some p) (hpick : PickOK cfg.pick) (hns : NoSkip cfg)
    (hne : NoEmptyRoutes t) :
    grpcIntercept cfg t pp md method = .notFound ↔ ¬ ∃ k r, Candidate cfg t md p k r := by
  rw [grpcIntercept_eq cfg t pp md method p hp]
  constructor
  · intro hnf ⟨k, r, hk, hr, hm⟩
    have := Props.C03.lookup_complete cfg t (grpcReq md p) hns hne hk hr hm
    cases hl : Lookup cfg t (grpcReq md p) with
    | none => rw [hl] at this; cases this
    | some a => rw [hl] at hnf; cases hnf
  · intro hno
    cases hl : Lookup cfg t (grpcReq md p) with
    | none => rfl
    | some a =>
      obtain ⟨h, r, tg⟩ := a
      obtain ⟨h1, h2, h3, _⟩ := Props.C03.lookup_sound cfg t (grpcReq md p) hpick hl
      exact absurd ⟨h, r, h1, h2, h3⟩ hno

/-- … and then nothing of the proxy is touched: status `NotFound`, pool, dial log and id counter unchanged. -/
theorem grpc_no_candidate_notfound_no_backend (cfg : Cfg) (pp : Str → Option Str) (w : World) (md : MD)
    (method p : Str) (d : Bool) (hp : pp method = some p) (hpick : PickOK cfg.pick)
    (hno : ¬ ∃ k r, Candidate cfg w.table md p k r) :
    w.call pp (lookupKey cfg) true md method d = (w, .status codeNotFound) := by
  apply Props.C16.noroute_notfound_no_backend pp (lookupKey cfg) w md method p d hp
  cases hl : Lookup cfg w.table (grpcReq md p) with
  | none => simp only [lookupKey, lookupFull]; simp only [grpcReq] at hl; rw [hl]; rfl
  | some a =>
    obtain ⟨h, r, tg⟩ := a
    obtain ⟨h1, h2, h3, _⟩ := Props.C03.lookup_sound cfg w.table (grpcReq md p) hpick hl
    exact absurd ⟨h, r, h1, h2, h3⟩ hno

/-- **The most specific route is used.** For a forwarded call (answer under key `h`, route `r`):
(1) any other host key matching the `dsthost` value that could have answered stands after `h` in C03's
specificity order; (2) if some matching host key has a matching route, the answer does not come from the
host-less routes; (3) if an exact host key matches and has a matching route, the answer does not come from
a pattern key; (4) under the prefix and iprefix matchers, in a table in `newTable`'s order, no matching
route of the answer's host has a longer path than `r`. -/
theorem grpc_most_specific (cfg : Cfg) (t : Table) (pp : Str → Option Str) (md : MD)
    (method p : Str) (hp : pp method = some p) (hns : NoSkip cfg)
    {h : Str} {r : Route} {tg : Target}
    (hf : grpcIntercept cfg t pp md method = .forward (h, r, tg)) :
    (∀ k, k ∈ matched cfg t (grpcReq md p) → (look cfg t (grpcReq md p) k).isSome = true →
        h ∈ matched cfg t (grpcReq md p) ∧ (k = h ∨ Lemmas.C03.hostOrd h k)) ∧
    (∀ k, HostMatches cfg t (grpcReq md p) k → (look cfg t (grpcReq md p) k).isSome = true →
        HostMatches cfg t (grpcReq md p) h) ∧
    (∀ k, HostMatches cfg t (grpcReq md p) k → isGlobPat k = false →
        (look cfg t (grpcReq md p) k).isSome = true → isGlobPat h = false) ∧
    (∀ (pg : Str → Str → Bool) (kind : MatcherKind), kind ≠ .glob → cfg.pathMatch = pathMatch pg kind →
        TableSorted t → ∀ r' ∈ t.get (lowerL h), cfg.pathMatch p r'.path = true →
        r'.path.length ≤ r.path.length) := by
  rw [grpcIntercept_eq cfg t pp md method p hp] at hf
  have hres : Lookup cfg t (grpcReq md p) = some (h, r, tg) := by
    cases hl : Lookup cfg t (grpcReq md p) with
    | none => rw [hl] at hf; cases hf
    | some a => rw [hl] at hf; simp only [Intercept.forward.injEq] at hf; rw [hf]
  refine ⟨?_, ?_, ?_, ?_⟩
  · intro k hk hc; exact Props.C03.lookup_host_order cfg t _ hns hres hk hc
  · intro k hk hc; exact Props.C03.host_less_only_as_fallback cfg t _ hns hres hk hc
  · intro k hk he hc; exact Props.C03.exact_beats_wildcard cfg t _ hns hres hk he hc
  · intro pg kind hkind hcfg hs r' hr' hm'
    exact Props.C03.longest_path_wins cfg t _ pg kind hkind hcfg hs hres hr' hm'

/-- the letter case of the `dsthost` value does not matter -/
theorem grpc_dsthost_case_insensitive (cfg : Cfg) (t : Table) (h p : Str) :
    lookupFull cfg t (lowerL h) p = lookupFull cfg t h p := by
  simpa [lookupFull] using Props.C03.host_case_insensitive cfg t h false p

/-! ### non-vacuity -/
namespace Ex

def tg (s u : String) : Target := { service := s.toList, tags := [], opts := [], url := u.toList, fixedWeight := 0 }
def rt (h p s u : String) : Route := { host := h.toList, path := p.toList, targets := [tg s u] }

/-- host-less `/svc.A` → a, `/svc.A/M` → a2; `beta.example` `/svc.A` → b; `*.example` `/` → c -/
def T : Table :=
  [ ([], [rt "" "/svc.A/M" "a2" "grpc://a2", rt "" "/svc.A" "a" "grpc://a"]),
    ("beta.example".toList, [rt "beta.example" "/svc.A" "b" "grpc://b"]),
    ("*.example".toList, [rt "*.example" "/" "c" "grpc://c"]) ]

def cfg : Cfg := { globMatch := globLib, pathMatch := pathMatch globLib .pfx, pick := fun r => r.targets.headD (tg "?" "?") }

def md1 (h : String) : MD := [("dsthost".toList, [h.toList])]

def ans (x : Intercept (Str × Route × Target)) : Option (String × String × String) :=
  match x with
  | .forward a => some (String.ofList a.1, String.ofList a.2.1.path, String.ofList a.2.2.url)
  | _ => none

-- no dsthost: the host-less routes, longest path first
example : ans (grpcIntercept cfg T some [] "/svc.A/M".toList) = some ("", "/svc.A/M", "grpc://a2") := by decide
example : ans (grpcIntercept cfg T some [] "/svc.A/Other".toList) = some ("", "/svc.A", "grpc://a") := by decide
-- dsthost (any letter case) selects the exact host before the pattern; the pattern before the host-less routes
example : ans (grpcIntercept cfg T some (md1 "BETA.example") "/svc.A/M".toList) = some ("beta.example", "/svc.A", "grpc://b") := by decide
example : ans (grpcIntercept cfg T some (md1 "x.example") "/svc.A/M".toList) = some ("*.example", "/", "grpc://c") := by decide
-- exact host without a matching route: falls through to the pattern
example : ans (grpcIntercept cfg T some (md1 "beta.example") "/svc.B/M".toList) = some ("*.example", "/", "grpc://c") := by decide
-- two dsthost values: the empty host; no candidate: NotFound
example : ans (grpcIntercept cfg T some [("dsthost".toList, ["beta.example".toList, "beta.example".toList])] "/svc.A/X".toList)
    = some ("", "/svc.A", "grpc://a") := by decide
example : grpcIntercept cfg T some [] "/svc.B/M".toList = .notFound := by decide
-- the hypotheses are satisfiable
example : NoEmptyRoutes T := Props.C03.noEmptyRoutes_of_all T (by decide)
example : PickOK cfg.pick := by
  intro r hr; cases h : r.targets with
  | nil => exact absurd h hr
  | cons a as => simp [cfg, h]
example : NoSkip cfg := rfl
example : Candidate cfg T (md1 "beta.example") "/svc.A/M".toList "beta.example".toList (rt "beta.example" "/svc.A" "b" "grpc://b") := by
  refine ⟨Or.inr ?_, ?_, ?_⟩
  · unfold HostMatches; decide
  · decide
  · decide
/-- the composed call: second call to the same backend reuses the pooled connection -/
example :
    (World.run some (lookupKey cfg) { table := T }
      [.call true (md1 "beta.example") "/svc.A/M".toList true, .call true (md1 "Beta.Example") "/svc.A/N".toList true,
       .call true [] "/svc.B/M".toList true]).2 =
      [.call (.proxied "grpc://b".toList (.dialled 0)), .call (.proxied "grpc://b".toList (.reused 0)),
       .call (.status codeNotFound)] := by decide
/-- an emptied route kept in the table (what `delRoute` must prune) shadows the general route: the
hypothesis `NoEmptyRoutes` of `grpc_notfound_iff_no_candidate` is necessary -/
example :
    let Tbad : Table := [([], [{ host := [], path := "/svc.A/M".toList, targets := [] }, rt "" "/svc.A" "a" "grpc://a"])]
    grpcIntercept cfg Tbad some [] "/svc.A/M".toList = .notFound ∧
      Candidate cfg Tbad [] "/svc.A/M".toList [] (rt "" "/svc.A" "a" "grpc://a") := by
  refine ⟨by decide, Or.inl rfl, by decide, by decide⟩

end Ex
end Fabio.Props.C16Compose
