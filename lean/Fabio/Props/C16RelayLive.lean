import Fabio.Lemmas.C16RelayLive
import Fabio.Props.C16Relay
/-!
C16, round 4 — the relay delivers: liveness of `Model/C16Relay.lean` under fair scheduling.

`Props/C16Relay.lean` says what the two ends can have seen at any moment (safety).  "The backend *receives* the
caller's messages … the caller *receives* the backend's messages, trailers and final status" is also a promise
that these things arrive.  Here: from **every** reachable state, once the backend has finished, a bounded number
of fair rounds (each goroutine of the proxy and each end's receive scheduled once per round, `Relay.round`)
brings the end of the call, with everything the backend sent, to the caller; and while the backend has not
finished, once the caller has half-closed, a bounded number of rounds brings every message and the end of the
stream to a backend that keeps reading.  The bounds are the progress measures `nu` / `mu` of
`Lemmas/C16RelayLive.lean` (linear in the number of messages in flight); no round is ever stuck.
-/
namespace Fabio.Props.C16RelayLive
open Fabio.Model.C16 Fabio.Model.C16.Spec Fabio.Model.C16.Relay
open Fabio.Lemmas.C16Relay Fabio.Lemmas.C16RelayLive Fabio.Props.C16Relay

theorem reach_append (method : String) (md : SMD) (es fs : List Ev) :
    run (reach method md es) fs = reach method md (es ++ fs) := by
  simp [reach, run, List.foldl_append]

/-- **The caller receives the backend's messages, trailers and final status.** From any reachable state in
which the backend has finished with trailers `tr` and status `st`, after `n ≥ nu` fair rounds the caller has
seen the end of the call — with these trailers, this status code and message, *all* the backend's messages, and
the backend's header iff it sent a message. -/
theorem finished_backend_reaches_caller (method : String) (md : SMD) (es : List Ev) (tr : SMD) (st : Status) (n : Nat)
    (hb : (reach method md es).bFin = some (tr, st)) (hn : nu (down (reach method md es)) ≤ n) :
    let s' := reach method md (es ++ settle n)
    s'.cFin = some (tr, st.norm) ∧ s'.cGot = s'.bSent ∧ s'.bSent = (reach method md es).bSent ∧
    (s'.bSent ≠ [] → s'.cHdr = some s'.bHdr) ∧ (s'.bSent = [] → s'.cHdr = none) := by
  intro s'
  have hsome : (reach method md es).bFin.isSome = true := by rw [hb]; rfl
  obtain ⟨hd, hbf⟩ := settle_rounds n (reach method md es) hsome
  have hc : (run (reach method md es) (settle n)).cFin.isSome = true := by
    have := dRounds_complete n (down (reach method md es)) hsome hn
    rw [← hd] at this; exact this
  rw [reach_append] at hc hbf
  cases hcf : s'.cFin with
  | none => rw [hcf] at hc; cases hc
  | some f =>
    obtain ⟨tr', st'⟩ := f
    obtain ⟨st0, h1, h2, h3, h4, h5⟩ := finished_call_is_transparent method md (es ++ settle n) tr' st' hcf
    have hb' : s'.bFin = some (tr, st) := by rw [hbf]; exact hb
    rw [hb'] at h1
    injection h1 with h1; injection h1 with e1 e2
    subst e1; subst e2
    refine ⟨by rw [h2], h3, ?_, h4, h5⟩
    -- the backend sends nothing in a round
    have sent : ∀ (k : Nat) (t : St), (run t (settle k)).bSent = t.bSent := by
      intro k
      induction k with
      | zero => intro t; rfl
      | succ k ih =>
        intro t
        have hr : run t (settle (k + 1)) = run (run t round) (settle k) := by
          simp only [settle, run, List.foldl_append]
        rw [hr, ih]
        simp only [run, round, List.foldl_cons, List.foldl_nil]
        have one : ∀ (u : St) (e : Ev), e ∈ round → (step u e).bSent = u.bSent := by
          intro u e he
          simp only [round, List.mem_cons, List.mem_nil_iff, or_false] at he
          rcases he with h | h | h | h | h | h <;> subst h <;> simp only [step] <;> (repeat' split) <;> rfl
        rw [one _ _ (by simp [round]), one _ _ (by simp [round]), one _ _ (by simp [round]),
          one _ _ (by simp [round]), one _ _ (by simp [round]), one _ _ (by simp [round])]
    have := sent n (reach method md es)
    rw [reach_append] at this; exact this

/-- **The backend receives the caller's messages.** From any reachable state in which the caller has half-closed
and the backend has not finished, after `n ≥ mu` fair rounds a backend that keeps reading has received *all*
the caller's messages, in order, and then the end of the stream. -/
theorem open_call_backend_reads_everything (method : String) (md : SMD) (es : List Ev) (n : Nat)
    (hc : (reach method md es).cClosed = true) (hb : (reach method md es).bFin = none)
    (hn : mu (up (reach method md es)) ≤ n) :
    let s' := reach method md (es ++ settle n)
    s'.bEOF = true ∧ s'.bGot = s'.cSent ∧ s'.cSent = (reach method md es).cSent := by
  intro s'
  have inv := reach_inv method md es
  have ctl : Ctl (reach method md es) := ctl_run _ es (ctl_init method md)
  have hnd : ∀ tr st, (reach method md es).c2s ≠ .done tr st := by
    intro tr st h
    have := (inv.done tr st h).1; rw [hb] at this; cases this
  have hdf : (reach method md es).dFin = none := by
    cases hd : (reach method md es).dFin with
    | none => rfl
    | some f => obtain ⟨tr, st, h, _⟩ := inv.dfin f hd; exact absurd h (hnd tr st)
  have hopen : Open (reach method md es) := ⟨hb, hdf, hnd⟩
  have hok : UpOK (up (reach method md es)) := by
    refine ⟨hc, ?_, ctl.2⟩
    intro hf
    have := ctl.1 hf; rw [hdf] at this; cases this
  obtain ⟨hu, _⟩ := settle_rounds_up n (reach method md es) hopen
  have he : (run (reach method md es) (settle n)).bEOF = true := by
    have := uRounds_complete n (up (reach method md es)) hok hn
    rw [← hu] at this; exact this
  rw [reach_append] at he
  obtain ⟨h1, _⟩ := backend_at_eof_has_everything method md (es ++ settle n) he
  refine ⟨he, h1, ?_⟩
  have sent : ∀ (k : Nat) (t : St), (run t (settle k)).cSent = t.cSent := by
    intro k
    induction k with
    | zero => intro t; rfl
    | succ k ih =>
      intro t
      have hr : run t (settle (k + 1)) = run (run t round) (settle k) := by
        simp only [settle, run, List.foldl_append]
      rw [hr, ih]
      simp only [run, round, List.foldl_cons, List.foldl_nil]
      have one : ∀ (u : St) (e : Ev), e ∈ round → (step u e).cSent = u.cSent := by
        intro u e he
        simp only [round, List.mem_cons, List.mem_nil_iff, or_false] at he
        rcases he with h | h | h | h | h | h <;> subst h <;> simp only [step] <;> (repeat' split) <;> rfl
      rw [one _ _ (by simp [round]), one _ _ (by simp [round]), one _ _ (by simp [round]),
        one _ _ (by simp [round]), one _ _ (by simp [round]), one _ _ (by simp [round])]
  have := sent n (reach method md es)
  rw [reach_append] at this; exact this

/-! ### a whole call -/

/-- the backend's answer after it has read the caller's stream: header, messages, trailers and status -/
def answer (hdr : SMD) (reps : List Msg) (tr : SMD) (st : Status) : List Ev :=
  [.backendHeader hdr] ++ reps.map Ev.backendSend ++ [.backendFinish tr st]

theorem bEOF_step (s : St) (e : Ev) (h : s.bEOF = true) : (step s e).bEOF = true := by
  cases e <;> simp only [step] <;> (repeat' split) <;> first | exact h | rfl

theorem bEOF_run (s : St) (es : List Ev) (h : s.bEOF = true) : (run s es).bEOF = true := by
  induction es generalizing s with
  | nil => exact h
  | cons e es ih => exact ih (step s e) (bEOF_step s e h)

theorem run_sends (s : St) (reps : List Msg) (h : s.bFin = none) :
    (run s (reps.map Ev.backendSend)).bFin = none ∧ (run s (reps.map Ev.backendSend)).cSent = s.cSent := by
  induction reps generalizing s with
  | nil => exact ⟨h, rfl⟩
  | cons m r ih =>
    have h1 : (step s (.backendSend m)).bFin = none := by simp [step, h]
    have h2 : (step s (.backendSend m)).cSent = s.cSent := by simp [step, h]
    obtain ⟨a, b⟩ := ih (step s (.backendSend m)) h1
    exact ⟨a, b.trans h2⟩

theorem step_finish (u : St) (tr : SMD) (st : Status) (h : u.bFin = none) :
    (step u (.backendFinish tr st)).bFin = some (tr, st) ∧ (step u (.backendFinish tr st)).cSent = u.cSent := by
  simp [step, h]

theorem run_answer (s : St) (hdr : SMD) (reps : List Msg) (tr : SMD) (st : Status) (h : s.bFin = none) :
    (run s (answer hdr reps tr st)).bFin = some (tr, st) ∧ (run s (answer hdr reps tr st)).cSent = s.cSent := by
  have e : run s (answer hdr reps tr st) =
      step (run (step s (.backendHeader hdr)) (reps.map Ev.backendSend)) (.backendFinish tr st) := by
    simp [answer, run, List.foldl_append]
  have h1 : (step s (.backendHeader hdr)).bFin = none := by
    simp only [step]; split <;> simp [h]
  have h1' : (step s (.backendHeader hdr)).cSent = s.cSent := by
    simp only [step]; split <;> rfl
  obtain ⟨a, b⟩ := run_sends (step s (.backendHeader hdr)) reps h1
  obtain ⟨c, d⟩ := step_finish _ tr st a
  rw [e]
  exact ⟨c, d.trans (b.trans h1')⟩

/-- **A whole call with a backend that reads the caller's stream to its end and then answers.** From any
reachable state in which the caller has half-closed and the backend has not finished: after `n₁ ≥ mu` fair
rounds, the backend's answer (header, any messages, trailers, any status), and `n₂ ≥ nu` further rounds, the
backend has received all the caller's messages and the caller has received the whole answer — all messages,
the trailers, the status code and message, the header iff a message was sent. -/
theorem call_with_reading_backend_completes (method : String) (md : SMD) (es : List Ev) (n1 n2 : Nat)
    (hdr : SMD) (reps : List Msg) (tr : SMD) (st : Status)
    (hc : (reach method md es).cClosed = true) (hb : (reach method md es).bFin = none)
    (h1 : mu (up (reach method md es)) ≤ n1)
    (h2 : nu (down (reach method md (es ++ settle n1 ++ answer hdr reps tr st))) ≤ n2) :
    let s' := reach method md (es ++ settle n1 ++ answer hdr reps tr st ++ settle n2)
    s'.bGot = (reach method md es).cSent ∧ s'.bEOF = true ∧
    s'.cFin = some (tr, st.norm) ∧ s'.cGot = s'.bSent ∧
    (s'.bSent ≠ [] → s'.cHdr = some s'.bHdr) ∧ (s'.bSent = [] → s'.cHdr = none) := by
  intro s'
  -- the caller → backend half
  obtain ⟨e1, _, e3⟩ := open_call_backend_reads_everything method md es n1 hc hb h1
  -- the call is still open after the rounds
  have inv := reach_inv method md es
  have hnd : ∀ tr st, (reach method md es).c2s ≠ .done tr st := by
    intro tr st h
    have := (inv.done tr st h).1; rw [hb] at this; cases this
  have hdf : (reach method md es).dFin = none := by
    cases hd : (reach method md es).dFin with
    | none => rfl
    | some f => obtain ⟨tr, st, h, _⟩ := inv.dfin f hd; exact absurd h (hnd tr st)
  obtain ⟨_, hopen⟩ := settle_rounds_up n1 (reach method md es) ⟨hb, hdf, hnd⟩
  rw [reach_append] at hopen
  -- the answer
  obtain ⟨a1, a2⟩ := run_answer (reach method md (es ++ settle n1)) hdr reps tr st hopen.1
  rw [reach_append] at a1 a2
  -- the backend → caller half
  obtain ⟨f1, f2, _, f4, f5⟩ :=
    finished_backend_reaches_caller method md (es ++ settle n1 ++ answer hdr reps tr st) tr st n2 a1 h2
  -- the end of the stream, once seen, stays seen; then the backend has everything
  have heof : s'.bEOF = true := by
    have := bEOF_run (reach method md (es ++ settle n1)) (answer hdr reps tr st ++ settle n2) e1
    rw [reach_append, ← List.append_assoc] at this; exact this
  obtain ⟨g1, _⟩ := backend_at_eof_has_everything method md _ heof
  -- nobody but the caller adds to what the caller sent
  have hs : s'.cSent = (reach method md es).cSent := by
    have sent : ∀ (k : Nat) (t : St), (run t (settle k)).cSent = t.cSent := by
      intro k
      induction k with
      | zero => intro t; rfl
      | succ k ih =>
        intro t
        have hr : run t (settle (k + 1)) = run (run t round) (settle k) := by
          simp only [settle, run, List.foldl_append]
        rw [hr, ih]
        simp only [run, round, List.foldl_cons, List.foldl_nil]
        have one : ∀ (u : St) (e : Ev), e ∈ round → (step u e).cSent = u.cSent := by
          intro u e he
          simp only [round, List.mem_cons, List.mem_nil_iff, or_false] at he
          rcases he with h | h | h | h | h | h <;> subst h <;> simp only [step] <;> (repeat' split) <;> rfl
        rw [one _ _ (by simp [round]), one _ _ (by simp [round]), one _ _ (by simp [round]),
          one _ _ (by simp [round]), one _ _ (by simp [round]), one _ _ (by simp [round])]
    have := sent n2 (reach method md (es ++ settle n1 ++ answer hdr reps tr st))
    rw [reach_append] at this
    rw [this, a2, e3]
  exact ⟨by rw [g1, hs], heof, f1, f2, f4, f5⟩

/-! ### non-vacuity -/

/-- a caller that has sent a message and half-closed, nothing scheduled yet: `mu` = 3·1 + 1 + 1 + 0 + 1 = 6
rounds suffice -/
example :
    let es : List Ev := [.callerSend "01", .callerClose]
    mu (up (reach "/m" [] es)) = 6 ∧
    (reach "/m" [] (es ++ settle 6)).bGot = ["01"] ∧ (reach "/m" [] (es ++ settle 6)).bEOF = true := by decide

/-- … and a backend that has answered with a header, a message and status 9, the forwarder having moved the
message on already: `nu` = 0 + 0 + 2 + 1 + 1 = 4 rounds later the caller has everything -/
example :
    let es : List Ev := [.backendHeader [("x-h", ["1"])], .backendSend "0a",
      .backendFinish [("x-t", ["2"])] { code := 9, message := "boom" }, .c2sStep, .c2sStep, .c2sStep, .c2sStep]
    nu (down (reach "/m" [] es)) = 4 ∧
    (reach "/m" [] (es ++ settle 4)).cFin = some ([("x-t", ["2"])], { code := 9, message := "boom" }) ∧
    (reach "/m" [] (es ++ settle 4)).cGot = ["0a"] ∧
    (reach "/m" [] (es ++ settle 4)).cHdr = some [("x-h", ["1"])] := by decide

/-- the hypotheses of `call_with_reading_backend_completes` on the smallest call: no caller message, an answer
without message (`mu` = 3, `nu` = 3) -/
example :
    let es : List Ev := [.callerClose]
    let ans := answer [("x-h", ["1"])] [] [("x-t", ["2"])] { code := 5, message := "nope" }
    mu (up (reach "/m" [] es)) = 3 ∧ nu (down (reach "/m" [] (es ++ settle 3 ++ ans))) = 3 ∧
    (reach "/m" [] (es ++ settle 3 ++ ans ++ settle 3)).cFin = some ([("x-t", ["2"])], { code := 5, message := "nope" }) ∧
    (reach "/m" [] (es ++ settle 3 ++ ans ++ settle 3)).bEOF = true ∧
    (reach "/m" [] (es ++ settle 3 ++ ans ++ settle 3)).cHdr = none := by decide

end Fabio.Props.C16RelayLive
