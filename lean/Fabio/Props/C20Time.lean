import Fabio.Lemmas.C20Time
import Fabio.Props.C20
/-!
C20, third module: "time (in UTC)". The calendar fields the time renderers print are the civil date and the clock
of the instant `End` in UTC. `Model/C20Time.lean` computes them from the Unix second with its own civil-date function
(the driver does so on every case and compares with what Go's `time` reports: class `calendar-mismatch`); here that
function is proved to be the calendar: it inverts the Gregorian day count and always answers a date that exists.
With that, the hypothesis `EventCalendar` of the field theorems is discharged for every instant of the years
0…9999.
-/
namespace Fabio.Props.C20Time
open Fabio Fabio.Model.C20 Fabio.Model.C20Time

/-- **The civil date of a day number is the date with that day number**: `daysFromCivil` — 365 days a year, a leap
day every 4th year except every 100th except every 400th, month lengths 31/30/…/28|29 — of the answer is the day
asked for. For every day number (no bound). -/
theorem civil_date_inverts_day_count (z : Int) :
    daysFromCivil (civilFromDays z).1 (civilFromDays z).2.1 (civilFromDays z).2.2 = z :=
  Lemmas.C20Time.civil_roundtrip z

/-- … and it is a date of the calendar: month 1…12, day 1…(28 | 29 | 30 | 31 as that month has in that year). -/
theorem civil_date_exists (z : Int) :
    1 ≤ (civilFromDays z).2.1 ∧ (civilFromDays z).2.1 ≤ 12 ∧ 1 ≤ (civilFromDays z).2.2 ∧
      (civilFromDays z).2.2 ≤ daysInMonth (civilFromDays z).1 (civilFromDays z).2.1 :=
  Lemmas.C20Time.civil_valid z

/-- Two different days never get the same date. -/
theorem civil_date_injective (z1 z2 : Int) (h : civilFromDays z1 = civilFromDays z2) : z1 = z2 := by
  have h1 := civil_date_inverts_day_count z1
  have h2 := civil_date_inverts_day_count z2
  rw [h] at h1
  rw [← h1, h2]

/-- an event whose time fields are the UTC fields of the instant (`sec`, `ns`) -/
def atInstant (e : Event) (sec ns : Int) : Event :=
  let f := utcFields sec ns
  { e with year := f.1, month := f.2.1, day := f.2.2.1, hour := f.2.2.2.1, minute := f.2.2.2.2.1,
           second := f.2.2.2.2.2.1, nanos := f.2.2.2.2.2.2 }

/-- The hypothesis `EventCalendar` of `fields_eq_reference_partial` / `log_line_eq_reference_partial` holds of every
instant whose UTC year is 0…9999: month, day, hour, minute, second and nanosecond are always in range. -/
theorem calendar_of_instant (e : Event) (sec ns : Int)
    (hy : 0 ≤ (atInstant e sec ns).year ∧ (atInstant e sec ns).year ≤ 9999) :
    Lemmas.C20.EventCalendar (atInstant e sec ns) := by
  obtain ⟨m1, m2, d1, d2⟩ := civil_date_exists ((sec + ns / 1000000000) / 86400)
  have d31 : (civilFromDays ((sec + ns / 1000000000) / 86400)).2.2 ≤ 31 := by
    have : ∀ y m, daysInMonth y m ≤ 31 := by
      intro y m; unfold daysInMonth; split <;> (try split) <;> omega
    exact Int.le_trans d2 (this _ _)
  refine ⟨hy, ⟨m1, m2⟩, ⟨d1, d31⟩, ?_, ?_, ?_, ?_⟩ <;>
    simp only [atInstant, utcFields] <;> omega

/-- The time fields of an instant, composed: for every instant of the years 0…9999, `$time_rfc3339` is
`YYYY-MM-DDTHH:MM:SSZ` and `$time_common` is `DD/Mon/YYYY:HH:MM:SS +0000` of the civil date and clock **in UTC** —
`time_fields_utc` with its calendar hypothesis discharged by `calendar_of_instant`. -/
theorem time_fields_of_instant (e : Event) (sec ns : Int)
    (hy : 0 ≤ (atInstant e sec ns).year ∧ (atInstant e sec ns).year ≤ 9999)
    (hr : Props.C20.EventInRange (atInstant e sec ns)) (hd : 0 ≤ (atInstant e sec ns).durNs)
    (hmin : -2^63 < (atInstant e sec ns).status ∧ -2^63 < (atInstant e sec ns).contentLength ∧ -2^63 < (atInstant e sec ns).unixNano)
    (f g : Event → Outcome (List Char))
    (hf : fieldTable.lookup "$time_rfc3339" = some f) (hg : fieldTable.lookup "$time_common" = some g) :
    f (atInstant e sec ns) = .ok (Spec.refRfc3339 (atInstant e sec ns) ++ ['Z']) ∧
    ∃ r, Spec.refField (atInstant e sec ns) "$time_common" = some r ∧ g (atInstant e sec ns) = .ok r :=
  Props.C20.time_fields_utc _ hr (calendar_of_instant e sec ns hy) hd hmin f g hf hg

/-- non-vacuity: 2020-02-29T23:59:59.999999999Z and the day before 1970 -/
example : utcFields 1583020799 999999999 = (2020, 2, 29, 23, 59, 59, 999999999) := by decide +kernel
example : utcFields (-1) 0 = (1969, 12, 31, 23, 59, 59, 0) := by decide +kernel
example : civilFromDays 0 = (1970, 1, 1) ∧ civilFromDays 11016 = (2000, 2, 29) ∧ civilFromDays (-719468) = (0, 3, 1) := by decide +kernel
example : daysFromCivil 2000 2 29 = 11016 := by decide +kernel

end Fabio.Props.C20Time
