import Fabio.Model.C12Parse
import Fabio.Lemmas.C12
import Fabio.Lemmas.C12Serve
import Fabio.Props.C12
/-!
C12, round 3 — theorems about the glue around the gate: `addTarget`'s option handling, routes with several
targets (the upstream a connection is attempted to is the upstream of the very target whose rules and scheme
judged the request — also when that attempt fails), and first requests arriving together on a fresh target.
All statements hold for every `Parsers`, every table, every lookup sequence, every schedule.
-/
namespace Fabio.Props.C12Serve
open Fabio Fabio.Model.C12 Fabio.Lemmas.C12

/-! ### `redirect=` -/

/-- `addTarget` keeps a redirect code only from the 3xx range: whatever the option text, the target either has no
redirect answer or one with a status in 300…399. -/
theorem redirect_code_in_range (s : List Char) (h : redirectCode s ≠ 0) :
    300 ≤ redirectCode s ∧ redirectCode s ≤ 399 := by
  unfold redirectCode at h ⊢
  split at h
  · rename_i n hn
    split at h
    · rename_i hr
      simp only [hr]
      simp only [and_self, ↓reduceIte]
      omega
    · exact absurd rfl h
  · exact absurd rfl h

/-- A value that is not a (signed) decimal number — blanks, `3xx`, `0x12d`, `3_01`, the empty text — gives none. -/
theorem redirect_needs_a_number (s : List Char) (h : goAtoi s = none) : redirectCode s = 0 := by
  simp [redirectCode, h]

/-! ### Options that fail to parse, seen from the proxies -/

/-- A target built by `addTarget` from options whose processing fails is served to nobody, whichever proxy finds
it, whoever the peer is and whatever else is in the table. -/
theorem malformed_target_serves_nobody (P : Parsers) (o : Opts) (up : Nat) (e : RuleErr)
    (h : (processAccessRules P o.allow o.deny).2 = some e) :
    (∀ p lk alive peer, lookupPhase p lk = some (addTarget P o up) → serveTCP p lk alive peer = .forbidden) ∧
    (∀ lk alive remote xff authOK, lk 0 = some (addTarget P o up) →
      serveHTTP P lk alive remote xff authOK = .forbidden) := by
  obtain ⟨hh, ht⟩ := Props.C12.unparsable_rule_never_widens P o.allow o.deny e h
  constructor
  · intro p lk alive peer hl
    simp [serveTCP, hl, addTarget, ht peer]
  · intro lk alive remote xff authOK hl
    simp [serveHTTP, hl, addTarget, hh remote xff]

/-! ### Several targets: the upstream that is tried is the upstream of the target that was judged -/

/-- TCP, TCP+SNI, dynamic TCP: a connection to an upstream is attempted only if the lookup found a target, the
upstream is that target's, and that target's rules admit the peer. -/
theorem attempted_is_checked_tcp (p : Proto) (lk : Nat → Option TargetM) (alive : Nat → Bool) (peer : TCPPeer)
    (u : Nat) (h : (serveTCP p lk alive peer).attempted = some u) :
    ∃ t, lookupPhase p lk = some t ∧ t.up = u ∧ accessDeniedTCP t.rules peer = false := by
  unfold serveTCP at h
  cases hl : lookupPhase p lk with
  | none => simp [hl, Result.attempted] at h
  | some t =>
    simp only [hl] at h
    cases hd : accessDeniedTCP t.rules peer with
    | true => simp [hd, Result.attempted] at h
    | false =>
      refine ⟨t, rfl, ?_, hd⟩
      simp only [hd] at h
      cases ha : alive t.up <;> simp [ha, Result.attempted] at h <;> exact h

/-- HTTP: … and additionally that target's scheme accepted the credentials and the route has no redirect answer. -/
theorem attempted_is_checked_http (P : Parsers) (lk : Nat → Option TargetM) (alive : Nat → Bool)
    (remote : List Char) (xff : List (List Char)) (authOK : TargetM → Bool) (u : Nat)
    (h : (serveHTTP P lk alive remote xff authOK).attempted = some u) :
    ∃ t, lk 0 = some t ∧ t.up = u ∧ accessDeniedHTTP P t.rules remote xff = false ∧ authOK t = true ∧
      t.redirect = 0 := by
  unfold serveHTTP at h
  cases hl : lk 0 with
  | none => simp [hl, Result.attempted] at h
  | some t =>
    simp only [hl] at h
    cases hd : accessDeniedHTTP P t.rules remote xff with
    | true => simp [hd, Result.attempted] at h
    | false =>
      cases ha : authOK t with
      | false => simp [hd, ha, Result.attempted] at h
      | true =>
        by_cases hr : t.redirect = 0
        · refine ⟨t, rfl, ?_, hd, ha, hr⟩
          simp only [hd, ha, hr] at h
          cases hv : alive t.up <;> simp [hv, Result.attempted] at h <;> exact h
        · simp [hd, ha, hr, Result.attempted] at h

/-- When the upstream of the judged target cannot be reached, the connection attempt to it is the only one: the
result is `dialFailed` for that upstream — no other instance of the route is tried in its place. -/
theorem dial_failure_tries_nobody_else (p : Proto) (lk : Nat → Option TargetM) (alive : Nat → Bool) (peer : TCPPeer)
    (t : TargetM) (hl : lookupPhase p lk = some t) (hd : accessDeniedTCP t.rules peer = false)
    (ha : alive t.up = false) : serveTCP p lk alive peer = .dialFailed t.up := by
  simp [serveTCP, hl, hd, ha]

/-- What later lookups would return (other instances of the route, with other rules) has no influence. -/
theorem later_lookups_irrelevant (p : Proto) (lk lk' : Nat → Option TargetM) (alive : Nat → Bool) (peer : TCPPeer)
    (h0 : lk 0 = lk' 0) (h1 : lk 1 = lk' 1) : serveTCP p lk alive peer = serveTCP p lk' alive peer := by
  have : lookupPhase p lk = lookupPhase p lk' := by
    cases p <;> simp [lookupPhase, h0, h1]
  simp [serveTCP, this]

theorem later_lookups_irrelevant_http (P : Parsers) (lk lk' : Nat → Option TargetM) (alive : Nat → Bool)
    (remote : List Char) (xff : List (List Char)) (authOK : TargetM → Bool) (h0 : lk 0 = lk' 0) :
    serveHTTP P lk alive remote xff authOK = serveHTTP P lk' alive remote xff authOK := by
  simp [serveHTTP, h0]

/-- A refusal, a redirect answer and "no route" attempt no connection at all. -/
theorem refused_attempts_nothing (r : Result)
    (h : r = .noRoute ∨ r = .forbidden ∨ r = .unauthorized ∨ ∃ c, r = .redirected c) : r.attempted = none := by
  rcases h with h | h | h | ⟨c, h⟩ <;> subst h <;> rfl

/-- The table-level proxies refine the four-step gate of `Model/C12.lean`: projecting the result to (reply class,
upstream statement reached) gives `runGate` on the environment read off the looked-up target. -/
theorem serveHTTP_refines_gate (P : Parsers) (lk : Nat → Option TargetM) (alive : Nat → Bool)
    (remote : List Char) (xff : List (List Char)) (authOK : TargetM → Bool) :
    (serveHTTP P lk alive remote xff authOK).toGate =
      runGate { found := (lk 0).isSome,
                denied := match lk 0 with | some t => accessDeniedHTTP P t.rules remote xff | none => false,
                authorized := match lk 0 with | some t => authOK t | none => true,
                redirect := match lk 0 with | some t => t.redirect != 0 | none => false }
        [.lookup, .access, .auth, .redirect, .upstream] false := by
  unfold serveHTTP
  cases hl : lk 0 with
  | none => simp [runGate, Result.toGate]
  | some t =>
    cases hd : accessDeniedHTTP P t.rules remote xff <;> cases ha : authOK t <;>
      cases hr : (t.redirect != 0) <;> cases hv : alive t.up <;> simp_all [runGate, Result.toGate]

theorem serveTCP_refines_gate (p : Proto) (lk : Nat → Option TargetM) (alive : Nat → Bool) (peer : TCPPeer) :
    (serveTCP p lk alive peer).toGate =
      runGate { found := (lookupPhase p lk).isSome,
                denied := match lookupPhase p lk with | some t => accessDeniedTCP t.rules peer | none => false,
                authorized := true }
        [.lookup, .access, .upstream] false := by
  unfold serveTCP
  cases hl : lookupPhase p lk with
  | none => simp [runGate, Result.toGate]
  | some t =>
    cases hd : accessDeniedTCP t.rules peer <;> cases hv : alive t.up <;> simp_all [runGate, Result.toGate]

/-! ### First requests arriving together -/

/-- However the micro-steps of any number of request threads on one target are interleaved — as long as nobody
stores into the rule map after the target was built — the map stays what `addTarget` made it and every thread
that finishes has the decision a single request gets. -/
theorem first_requests_agree (peer : TCPPeer) (cell : Rules) (n : Nat) (sched : List Action)
    (hs : sched.all Action.isRead = true) :
    (runSched peer (cell, List.replicate n {}) sched).1 = cell ∧
    ∀ rd ∈ (runSched peer (cell, List.replicate n {}) sched).2, rd.pc = 2 →
      rd.result = some (accessDeniedTCP cell peer) := by
  have h0 : ∀ rd ∈ List.replicate n ({} : Reader), ReaderOK cell peer rd := by
    intro rd hrd
    have := List.eq_of_mem_replicate hrd
    subst this
    left; exact ⟨rfl, rfl⟩
  obtain ⟨hc, hr⟩ := runSched_reads_ok peer cell _ sched hs h0
  refine ⟨hc, ?_⟩
  intro rd hrd hpc
  rcases hr rd hrd with ⟨h, _⟩ | ⟨h, _, _⟩ | ⟨_, h⟩
  · omega
  · omega
  · exact h

/-- The hypothesis is needed: if the rule map is filled in only while requests are already under way (parsing on
first use), a request can finish "admitted" although the rules being installed deny its peer. -/
theorem late_store_admits :
    ∃ (rules : Rules) (peer : TCPPeer) (sched : List Action),
      accessDeniedTCP rules peer = true ∧
      (runSched peer ({}, [{}, {}]) sched).1 = rules ∧
      (runSched peer ({}, [{}, {}]) sched).2 = [{ pc := 2, result := some false }, { pc := 2, result := some true }] := by
  refine ⟨{ deny := some [⟨⟨false, 0x0a000000⟩, 32, 8⟩] }, .addr (some ⟨false, 0x0a010203⟩),
    [.read 0, .write { deny := some [⟨⟨false, 0x0a000000⟩, 32, 8⟩] }, .read 1, .read 1], ?_, ?_, ?_⟩ <;> decide

/-! ### Non-vacuity -/
section examples
open Parse
set_option maxRecDepth 8000

example : redirectCode "301".toList = 301 := by decide
example : redirectCode "+308".toList = 308 := by decide
example : redirectCode "0399".toList = 399 := by decide
example : redirectCode "400".toList = 0 := by decide
example : redirectCode "-301".toList = 0 := by decide
example : redirectCode "3_01".toList = 0 := by decide
example : redirectCode " 301".toList = 0 := by decide
example : redirectCode [] = 0 := by decide
example : goAtoi "+".toList = none := by decide

private def t1 : TargetM := addTarget goParsers { allow := "ip:127.0.0.0/8".toList } 0
private def t2 : TargetM := addTarget goParsers { deny := "ip:127.0.0.0/8".toList } 1
private def rr (k : Nat) : Option TargetM := if k % 2 = 0 then some t1 else some t2
private def lo : TCPPeer := .addr (some ⟨false, 0x7f000001⟩)

-- the instance that admits the client is down, the next one is up but denies it: nobody is served
example : serveTCP .tcp rr (fun u => u == 1) lo = .dialFailed 0 := by decide
example : serveTCP .tcp rr (fun _ => true) lo = .served 0 := by decide
example : serveTCP .dyn (fun k => if k = 0 then none else some t2) (fun _ => true) lo = .forbidden := by decide
example : (addTarget goParsers { allow := "ip:10.0.0.0/33".toList } 0).rules = Rules.denyAll := by decide
example : serveHTTP goParsers rr (fun _ => true) "127.0.0.1:9".toList [] (fun _ => true) = .served 0 := by decide
example : serveHTTP goParsers (fun _ => some (addTarget goParsers { allow := "ip:10.0.0.0/8".toList, redirect := "301".toList } 0))
    (fun _ => true) "127.0.0.1:9".toList [] (fun _ => true) = .forbidden := by decide
example : serveHTTP goParsers (fun _ => some (addTarget goParsers { redirect := "301".toList } 0))
    (fun _ => true) "127.0.0.1:9".toList [] (fun _ => true) = .redirected 301 := by decide
-- schedules: three threads, interleaved, all get the sequential answer
example : (runSched lo (t2.rules, List.replicate 3 {}) [.read 2, .read 0, .read 2, .read 1, .read 0, .read 1]).2
    = List.replicate 3 { pc := 2, result := some true } := by decide
end examples

end Fabio.Props.C12Serve
