import Fabio.Generated.C07
import Fabio.Model.C07
/-! OBLIGATIONS over the facts regenerated from `/repo` on every run: what the C07 proof chain relies on and no
correspondence stream could establish by running the code — the absence of effects (a stream watches its own
upstream; it cannot see a connection opened elsewhere, a header outside its universe deleted, a body consumed under
a configuration it does not sample), gates ahead of the handler, atomic operations, constants, and the wiring in
`main.go` that no harness executes. Each statement names the breaking change it stands against.

Statements that merely pin the shape of sequential code whose behaviour a stream compares with the model on every
run (the rendered statements of the URL construction, the literal event list of the no-route branch, the literal
list of director stores, the order of strip and prepend) are CHANGE DETECTORS and live in `C07Pins.lean`.

The facts are role-named events on the normalised AST (header of tools/factgen/c07.go): renaming locals,
parameters or unexported helpers, extracting or inlining helpers, if/else ↔ switch and named constants do not
change them. -/
namespace Fabio.Props.C07Facts
open Fabio Fabio.Generated.C07

def idx (k : String) : Option Nat := (serveOrder.zipIdx.find? (·.1 = k)).map (·.2)

/-- `a` and `b` are recognised exactly once and `a` comes first -/
def before (a b : String) : Bool :=
  serveOrder.count a = 1 && serveOrder.count b = 1 &&
  match idx a, idx b with
  | some i, some j => i < j
  | _, _ => false

/-- Gates ahead of the handler: lookup → no-route return → access check → authorization → redirect answer, and
only then a handler is chosen and served (the only place where an upstream is dialled). Against: serving first
and judging the answer afterwards, or a gate moved behind the handler — the client-side answer of a stream would
be the same 403/401 while the upstream had already been contacted through a connection the stream's recorder
does not see (another target of the table, a mirror). The model's `Target` is "a target that passed the gates". -/
theorem gates_before_the_handler :
    before "lookup" "noroute-return" ∧ before "noroute-return" "access" ∧ before "access" "auth" ∧
    before "auth" "redirect" ∧ before "redirect" "handler-choice" ∧ before "handler-choice" "serve" := by decide

/-- what the no-route branch may do at all -/
def noRouteAllowed : List String :=
  ["store status = recv.Config.NoRouteStatus", "store status = http.StatusNotFound", "call w.WriteHeader(status)",
   "store html = noroute.GetHTML()", "call io.WriteString(w, html)", "return"]

/-- "… without any upstream being contacted": the `target == nil` branch consists of nothing but reading the
configured status, the 404 fallback, `WriteHeader`, fetching the page, writing it, and `return` — no handler, no
transport, no dial, no other call (membership, not order: the order is compared by `c07.noroute`). The bounds and
the fallback are the model's constants. Against: a fallback upstream / mirror call added to the branch (a stream
sees only that *its* upstream was not hit), a bound edited to a value between two sampled statuses. -/
theorem noroute_contacts_nothing :
    noRouteLo = Model.C07.noRouteLo ∧ noRouteHi = Model.C07.noRouteHi ∧ noRouteDefault = Model.C07.statusNotFound ∧
    noRouteActions.all (noRouteAllowed.contains ·) = true ∧ noRouteActions.getLast? = some "return" ∧
    noRouteActions.contains "call w.WriteHeader(status)" = true ∧
    noRouteActions.contains "store html = noroute.GetHTML()" = true := by decide

/-- what the director may do to the outgoing request -/
def directorAllowed : List String :=
  ["store out.URL.Scheme = turl.Scheme", "store out.URL.Host = turl.Host", "store out.URL.Path = turl.Path",
   "store out.URL.RawPath = turl.RawPath", "store out.URL.RawQuery = turl.RawQuery",
   "call out.Header.Set(\"User-Agent\", \"\")"]

/-- Frame of the director (`Model.C07.director`, theorem `director_frame`): every store to and every method call on
the outgoing request is one of the five URL fields copied from the target URL or the User-Agent suppression; the
five are all there. Against: `out.Header.Del("X-…")` / `out.Close = true` / `out.Body = …` for a header, field or
request class outside the generators' universe. -/
theorem director_touches_only_the_url :
    directorEffects.all (directorAllowed.contains ·) = true ∧
    (directorAllowed.take 5).all (directorEffects.contains ·) = true := by decide

/-- `responseWriter` (the wrapper `Model.C07.RW` transcribes): `WriteHeader` passes every call on to the wrapped
writer — the call is a top-level statement with nothing in front of it that could skip it — and records the
code; `Write` hands the bytes on and returns the wrapped writer's count; the handler is served with the wrapper.
Against: a skip for one particular code (`if code == 425 { return }`) that no sampled status hits. -/
theorem response_writer_forwards :
    rwWriteHeaderForwards = true ∧ rwWriteHeaderRecords = true ∧ rwWriteForwards = true ∧
    serveUsesResponseWriter = true := by decide

/-- methods of `*http.Request` that consume the body or parse it into `Form` (after which `httputil.ReverseProxy`
rewrites the query) -/
def consuming : List String :=
  ["ParseForm", "ParseMultipartForm", "FormValue", "PostFormValue", "FormFile", "MultipartReader", "Write", "WriteProxy",
   "Clone", "Body.Read", "Body.Close", "GetBody", "Header.Write", "Header.WriteSubset"]

/-- Before the handler gets the request, `ServeHTTP`, its helpers in package proxy and the tracing code it calls
(`trace.CreateSpan`, `spanName`, `trace.InjectHeaders`) only *read* the request, apart from header lines
(`addHeaders`, the request-id: C08), `Host` (the `host=` option) and `URL` (websocket branch) — the three the models
transcribe: no call that consumes or parses the body, no mention of `Body`/`Form`/`PostForm`/`MultipartForm`/
`GetBody`/`Trailer`, no other field assigned. Against: a `r.ParseForm()` / `r.FormValue(…)` behind a configuration
value or template the streams do not sample (the body then never reaches the upstream and the reverse proxy
re-encodes the query), `r.Method = …`, `r.ContentLength = …`. -/
theorem request_only_read_before_the_handler :
    requestTouchCoversCreateSpan = true ∧ requestBodyMentions = [] ∧
    requestCalls.all (fun c => !consuming.contains c) = true ∧
    requestStores.all (["Header[]", "Host", "URL"].contains ·) = true := by decide

/-- methods of `*http.Request` / `http.Header` / `*url.URL` that only read -/
def readOnly : List String :=
  ["BasicAuth", "Header.Get", "Header.Values", "Context", "Cookie", "Cookies", "Referer", "UserAgent", "ProtoAtLeast",
   "URL.String", "URL.EscapedPath", "URL.Query", "URL.Hostname", "URL.Port", "URL.RequestURI", "URL.IsAbs"]

/-- The stages between the client's request and the handler that live outside package proxy — the lookup
(`route.Table.Lookup`), the access gate (`Target.AccessDeniedHTTP`), the authorization gate (`Target.Authorized` and
every `Authorized` method of package auth, the implementations of `auth.AuthScheme`) — *judge* the request and hand
it on as it came: the unified model (`Model.ServeHTTP.serveTarget`) passes the very same `Request` to the gates, to
the header stage and to the URL construction. Every method they call on the request is a reading one, none of
`Body`/`Form`/… is mentioned, and the only field stored is `URL.Host` (the lookup, while it tests a redirect target
for pointing back at the request; the director and the websocket branch overwrite it: pin `director_stores`,
`url_construction`). Against: `request.Header.Del("Authorization")` once the credentials matched ("do not hand them on
to the upstream") in a scheme, or for a header no generator sends (`X-Api-Key` of a future scheme), a lookup that
normalises `req.Host` in place. The streams run the real basic scheme (`c07.serve`), but a scheme added later has no
stream until someone writes one; this obligation covers it the day it is added. -/
theorem gates_only_judge_the_request :
    gateWalked.contains "route.Table.Lookup" = true ∧ gateWalked.contains "route.Target.AccessDeniedHTTP" = true ∧
    gateWalked.contains "route.Target.Authorized" = true ∧ gateSchemes ≠ [] ∧
    gateBodyMentions = [] ∧ gateCalls.all (readOnly.contains ·) = true ∧
    gateStores.all (["URL.Host"].contains ·) = true := by decide

/-- `main.newHTTPProxy` (no harness runs `main`): the proxy gets the `proxy.*` section of the configuration and
the tracing section, its transport comes from `transport.NewTransport` (what the harness installs as well), and
the `Lookup` closure returns what `route.GetTable().Lookup` gave for this very request without storing into the
request or the target. -/
theorem main_wiring :
    mainProxyFields.contains "Config: cfg.Proxy" = true ∧ mainProxyFields.contains "TracerCfg: cfg.Tracing" = true ∧
    mainProxyFields.contains "Transport: transport.NewTransport(nil)" = true ∧
    mainLookupIsTableLookup = true ∧ mainLookupStores = [] := by decide

/-- The no-route page (`Model.C07Chain.watch`, theorem `page_is_last_delivered`): `main` starts the watcher, every
round takes the next delivery from the registry's channel and hands it to `noroute.SetHTML` (with or without the
"unchanged" shortcut in front); the page lives in an `atomic.Value`, `SetHTML` is one unconditional `Store` of its
argument and `GetHTML` one `Load` (requests read it while the watcher writes). -/
theorem noroute_page_wiring :
    mainStartsWatcher = true ∧ watcherEvents.contains "loop ⊢ store next = <-pages" = true ∧
    (watcherEvents.contains "loop, past:!(next == noroute.GetHTML()) ⊢ call noroute.SetHTML(next)" ||
     watcherEvents.contains "loop ⊢ call noroute.SetHTML(next)") = true ∧
    norouteVarType = "atomic.Value" ∧ norouteSetEvents = ["call pagevar.Store(page)"] ∧
    norouteGetEvents = ["return pagevar.Load().(string)"] := by decide

end Fabio.Props.C07Facts
