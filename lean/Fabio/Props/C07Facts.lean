import Fabio.Generated.C07
import Fabio.Model.C07
/-! Obligations over the facts regenerated from `/repo` on every run: what the C07 model silently relies on. -/
namespace Fabio.Props.C07Facts
open Fabio Fabio.Generated.C07

def idx (k : String) : Option Nat := (serveOrder.zipIdx.find? (·.1 = k)).map (·.2)

/-- `a` and `b` are recognised exactly once and `a` comes first -/
def before (a b : String) : Bool :=
  serveOrder.count a = 1 && serveOrder.count b = 1 &&
  match idx a, idx b with
  | some i, some j => i < j
  | _, _ => false

/-- `ServeHTTP`: lookup → no-route return → access → auth → redirect → URL build (query merge, strip before
prepend, raw path) → handler choice → serve; the Host override and `addHeaders` happen after the no-route return
and before the handler is chosen. -/
theorem serve_order :
    before "lookup" "noroute-return" ∧ before "noroute-return" "access" ∧ before "access" "auth" ∧
    before "auth" "redirect" ∧ before "redirect" "url-build" ∧ before "url-build" "rawpath-init" ∧
    before "url-build" "query-merge" ∧ before "rawpath-init" "strip" ∧ before "strip" "prepend" ∧
    before "prepend" "rawpath-set" ∧ before "rawpath-set" "handler-choice" ∧ before "query-merge" "handler-choice" ∧
    before "noroute-return" "host-override" ∧ before "host-override" "handler-choice" ∧
    before "noroute-return" "addHeaders" ∧ before "addHeaders" "handler-choice" ∧
    before "handler-choice" "serve" := by decide

/-- the no-route branch: the bounds and the default are the model's, the branch writes the status and the
page, ends with `return`, and calls nothing else (in particular no handler, no transport) -/
theorem noroute_branch :
    noRouteLo = Model.C07.noRouteLo ∧ noRouteHi = Model.C07.noRouteHi ∧ noRouteDefault = Model.C07.statusNotFound ∧
    noRouteDefaultName = "http.StatusNotFound" ∧
    noRouteCalls = ["w.WriteHeader", "noroute.GetHTML", "io.WriteString"] ∧ noRouteEndsWithReturn = true ∧
    noRouteStmts = ["status := p.Config.NoRouteStatus", "if status < 100 || status > 999", "status = http.StatusNotFound", "end",
      "w.WriteHeader(status)", "html := noroute.GetHTML()", "if html != \"\"", "io.WriteString(w, html)", "end", "return"] := by
  decide

/-- the statements of the URL construction the model transcribes -/
theorem url_construction :
    urlBuild = "&url.URL{ Scheme: t.URL.Scheme, Host: t.URL.Host, Path: r.URL.Path, }" ∧
    rawPathInit = "r.URL.EscapedPath()" ∧
    queryMergeStmts = ["if t.URL.RawQuery == \"\" || r.URL.RawQuery == \"\"", "targetURL.RawQuery = t.URL.RawQuery + r.URL.RawQuery", "end",
      "else", "targetURL.RawQuery = t.URL.RawQuery + \"&\" + r.URL.RawQuery", "end"] ∧
    stripStmts = ["if t.StripPath != \"\" && strings.HasPrefix(r.URL.Path, t.StripPath)", "targetURL.Path = targetURL.Path[len(t.StripPath):]",
      "rawPath = rawPath[escapedLen(rawPath, len(t.StripPath)):]", "if !strings.HasPrefix(targetURL.Path, \"/\")",
      "targetURL.Path = \"/\" + targetURL.Path", "rawPath = \"/\" + rawPath", "end", "end"] ∧
    prependStmts = ["if t.PrependPath != \"\"", "targetURL.Path = t.PrependPath + targetURL.Path",
      "rawPath = (&url.URL{Path: t.PrependPath}).EscapedPath() + rawPath", "if !strings.HasPrefix(targetURL.Path, \"/\")",
      "targetURL.Path = \"/\" + targetURL.Path", "rawPath = \"/\" + rawPath", "end", "end"] ∧
    rawPathSetStmts = ["if strings.HasPrefix(rawPath, \"/\")", "targetURL.RawPath = rawPath", "end"] ∧
    hostStmts = ["if t.Host == \"dst\"", "r.Host = targetURL.Host", "end", "else", "if t.Host != \"\"", "r.Host = t.Host", "end"] := by
  decide

/-- the director copies exactly scheme, host, path, raw path and raw query from the target URL and writes no
other field of the request; the websocket case replaces `r.URL` by the target URL and is chosen by
`strings.EqualFold(upgrade, "websocket")` -/
theorem director_and_handler :
    directorFields = ["Scheme", "Host", "Path", "RawPath", "RawQuery"] ∧ directorCopiesSameField = true ∧
    directorOtherWrites = [] ∧ wsReplacesURL = true ∧ wsCaseHandler = "ws" ∧
    handlerCases = ["strings.EqualFold(upgrade, \"websocket\")", "accept == \"text/event-stream\"", "default"] := by
  decide

/-- `responseWriter` (the wrapper `Model.C07.RW` transcribes): `WriteHeader` passes every call on to the wrapped
writer — the call is a top-level statement with nothing in front of it that could skip it — and records the
code; `Write` hands the bytes on and returns the wrapped writer's count; the handler is served with the wrapper -/
theorem response_writer_forwards :
    rwWriteHeaderForwards = true ∧ rwWriteHeaderRecords = true ∧ rwWriteForwards = true ∧
    serveUsesResponseWriter = true := by decide

end Fabio.Props.C07Facts
