import Fabio.Generated.C07
import Fabio.Model.C07
/-! Obligations over the facts regenerated from `/repo` on every run: what the C07 model silently relies on.
The facts are role-named events on the normalised AST (see the header of tools/factgen/c07.go): renaming locals,
parameters or unexported helpers, extracting or inlining helpers, if/else ↔ switch and named constants do not
change them. -/
namespace Fabio.Props.C07Facts
open Fabio Fabio.Generated.C07

def idx (k : String) : Option Nat := (serveOrder.zipIdx.find? (·.1 = k)).map (·.2)

/-- `a` and `b` are recognised exactly once and `a` comes first -/
def before (a b : String) : Bool :=
  serveOrder.count a = 1 && serveOrder.count b = 1 &&
  match idx a, idx b with
  | some i, some j => i < j
  | _, _ => false

/-- `ServeHTTP`: lookup → no-route return → access → auth → redirect → URL build (query merge, strip before
prepend, raw path) → handler choice → serve; the Host override and `addHeaders` happen after the no-route return
and before the handler is chosen. -/
theorem serve_order :
    before "lookup" "noroute-return" ∧ before "noroute-return" "access" ∧ before "access" "auth" ∧
    before "auth" "redirect" ∧ before "redirect" "url-build" ∧ before "url-build" "rawpath-init" ∧
    before "url-build" "query-merge" ∧ before "rawpath-init" "strip" ∧ before "strip" "prepend" ∧
    before "prepend" "rawpath-set" ∧ before "rawpath-set" "handler-choice" ∧ before "query-merge" "handler-choice" ∧
    before "noroute-return" "host-override" ∧ before "host-override" "handler-choice" ∧
    before "noroute-return" "addHeaders" ∧ before "addHeaders" "handler-choice" ∧
    before "handler-choice" "serve" := by decide

/-- the no-route branch, as events (role-named, helper calls followed): the status comes from the configuration,
is replaced by `http.StatusNotFound` outside the model's bounds, is written; the page is fetched and written when
non-empty; then `return` — and nothing else happens (no handler, no transport) -/
theorem noroute_branch :
    noRouteLo = Model.C07.noRouteLo ∧ noRouteHi = Model.C07.noRouteHi ∧ noRouteDefault = Model.C07.statusNotFound ∧
    noRouteEvents = ["store status = recv.Config.NoRouteStatus",
      "status < 100 || status > 999 ⊢ store status = http.StatusNotFound",
      "call w.WriteHeader(status)", "store html = noroute.GetHTML()",
      "nonempty(html) ⊢ call io.WriteString(w, html)", "return"] := by
  decide

/-- the target URL is built only past the returns of the lookup check, the no-route branch, the access check, the
authorization check and the redirect answer -/
theorem url_built_past_the_gates :
    gatePrefix = ["past:!(recv.Lookup == nil)", "past:!(target == nil)", "past:!(target.AccessDeniedHTTP(req))",
      "past:!(!target.Authorized(req, w, recv.AuthSchemes))",
      "past:!(target.RedirectCode != 0 && target.RedirectURL != nil)"] := by decide

/-- every store to the target URL, to the escaped path carried alongside, to the request's Host and to the request's
URL, with the conditions it happens under: exactly what `Model.C07.targetURL`, `hostOverride` and the websocket
branch transcribe -/
theorem url_construction :
    urlEvents = [
      "store turl = &url.URL{Scheme: target.URL.Scheme, Host: target.URL.Host, Path: req.URL.Path}",
      "store raw = req.URL.EscapedPath()",
      "empty(target.URL.RawQuery) || empty(req.URL.RawQuery) ⊢ store turl.RawQuery = target.URL.RawQuery + req.URL.RawQuery",
      "!(empty(target.URL.RawQuery) || empty(req.URL.RawQuery)) ⊢ store turl.RawQuery = target.URL.RawQuery + \"&\" + req.URL.RawQuery",
      "nonempty(target.StripPath) && strings.HasPrefix(req.URL.Path, target.StripPath) ⊢ store turl.Path = turl.Path[len(target.StripPath):]",
      "nonempty(target.StripPath) && strings.HasPrefix(req.URL.Path, target.StripPath) ⊢ store raw = raw[helper(raw, len(target.StripPath)):]",
      "nonempty(target.StripPath) && strings.HasPrefix(req.URL.Path, target.StripPath), !strings.HasPrefix(turl.Path, \"/\") ⊢ store turl.Path = \"/\" + turl.Path",
      "nonempty(target.StripPath) && strings.HasPrefix(req.URL.Path, target.StripPath), !strings.HasPrefix(turl.Path, \"/\") ⊢ store raw = \"/\" + raw",
      "nonempty(target.PrependPath) ⊢ store turl.Path = target.PrependPath + turl.Path",
      "nonempty(target.PrependPath) ⊢ store raw = (&url.URL{Path: target.PrependPath}).EscapedPath() + raw",
      "nonempty(target.PrependPath), !strings.HasPrefix(turl.Path, \"/\") ⊢ store turl.Path = \"/\" + turl.Path",
      "nonempty(target.PrependPath), !strings.HasPrefix(turl.Path, \"/\") ⊢ store raw = \"/\" + raw",
      "strings.HasPrefix(raw, \"/\") ⊢ store turl.RawPath = raw",
      "target.Host == \"dst\" ⊢ store req.Host = turl.Host",
      "!(target.Host == \"dst\"), nonempty(target.Host) ⊢ store req.Host = target.Host",
      "strings.EqualFold(upgrade, \"websocket\") ⊢ store req.URL = turl"] := by
  decide +kernel

/-- the director stores exactly scheme, host, path, raw path and raw query of the target URL into the outgoing
request's URL, unconditionally, and writes no other field of the request -/
theorem director_stores :
    directorStores = ["store out.URL.Scheme = turl.Scheme", "store out.URL.Host = turl.Host",
      "store out.URL.Path = turl.Path", "store out.URL.RawPath = turl.RawPath",
      "store out.URL.RawQuery = turl.RawQuery"] := by decide

/-- `responseWriter` (the wrapper `Model.C07.RW` transcribes): `WriteHeader` passes every call on to the wrapped
writer — the call is a top-level statement with nothing in front of it that could skip it — and records the
code; `Write` hands the bytes on and returns the wrapped writer's count; the handler is served with the wrapper -/
theorem response_writer_forwards :
    rwWriteHeaderForwards = true ∧ rwWriteHeaderRecords = true ∧ rwWriteForwards = true ∧
    serveUsesResponseWriter = true := by decide

end Fabio.Props.C07Facts
