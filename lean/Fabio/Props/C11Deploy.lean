import Fabio.Model.C11Deploy
import Fabio.Props.C11
import Fabio.Props.C11Order
/-!
C11, fourth part — from the configuration to the handshake. The property's first sentence speaks of "strict and
non-strict listeners": several listeners can be configured on one certificate source, each with its own
`strictmatch` option, each served by its own store (`main.makeTLSConfig`). These theorems compose the stages
(option → strictness, source → published list, published list → store of every listener on that source, store →
answer) and state the sentence for a whole deployment; they also cover the `GetCertificate` closure of
`cert.TLSConfig` with a source that can issue certificates. Nothing is bounded: any number of listeners and
sources, any history of publications, any material.
-/
namespace Fabio.Props.C11Deploy
open Fabio Fabio.Model.C11 Fabio.Props.C11 Fabio.Props.C11Order

/-! ## 1. The closure of `TLSConfig` -/

/-- A source that cannot issue certificates: the closure returns exactly what `getCertificate` decided. -/
theorem closure_without_issuer (p : Published) (server : Name) (strict : Bool) :
    tlsGetCertificate none p server strict = (Presented.ofAnswer (getCertificateP p server strict), []) := by
  unfold tlsGetCertificate
  cases getCertificateP p server strict <;> rfl

/-- **The store comes first**: whenever the stored set has an answer, that certificate is presented and the
issuer is not asked — for every issuer. -/
theorem closure_store_first (issuer : Option IssuerFn) (p : Published) (server : Name) (strict : Bool) (c : Cert)
    (h : getCertificateP p server strict = .cert c) :
    tlsGetCertificate issuer p server strict = (.cert c, []) := by
  unfold tlsGetCertificate; rw [h]

/-- The issuer is asked exactly when the store has no certificate to present (strict and nothing matches, or
nothing stored), once, and for the server name as the client sent it (not normalised). -/
theorem closure_issuer_asked_iff (issue : IssuerFn) (p : Published) (server : Name) (strict : Bool) :
    ((tlsGetCertificate (some issue) p server strict).2 = [server] ↔
        ∀ c, getCertificateP p server strict ≠ .cert c) ∧
    ((tlsGetCertificate (some issue) p server strict).2 = [] ↔
        ∃ c, getCertificateP p server strict = .cert c) := by
  unfold tlsGetCertificate
  cases h : getCertificateP p server strict with
  | cert c => simp
  | noCert => cases hi : issue server <;> simp [hi]
  | errNoCerts => cases hi : issue server <;> simp [hi]

/-- What an issuing source's listener presents when the store has nothing: the issued certificate, or the
issuer's error; never a certificate of the store that does not match. -/
theorem closure_issued (issue : IssuerFn) (p : Published) (server : Name) (strict : Bool)
    (h : ∀ c, getCertificateP p server strict ≠ .cert c) :
    (tlsGetCertificate (some issue) p server strict).1 =
      match issue server with
      | some c => .issued c
      | none => .issueErr := by
  unfold tlsGetCertificate
  cases hg : getCertificateP p server strict with
  | cert c => exact absurd hg (h c)
  | noCert => cases hi : issue server <;> simp [hi]
  | errNoCerts => cases hi : issue server <;> simp [hi]

-- non-vacuity: a strict listener, a name no certificate carries: without issuer nothing, with issuer the issued
-- certificate for the name as sent (upper case kept); a name that matches is served from the store
example :
    let a : Cert := ⟨0, ["a.test".toList]⟩
    let b : Cert := ⟨1, ["*.w.test".toList]⟩
    let p := mkPublished [a, b]
    let issue : IssuerFn := fun n => some ⟨9, [n]⟩
    tlsGetCertificate none p "Other.test".toList true = (.noCert, []) ∧
    tlsGetCertificate (some issue) p "Other.test".toList true = (.issued ⟨9, ["Other.test".toList]⟩, ["Other.test".toList]) ∧
    tlsGetCertificate (some issue) p "X.W.test.".toList true = (.cert b, []) ∧
    tlsGetCertificate (some fun _ => none) (mkPublished []) "a.test".toList false = (.issueErr, ["a.test".toList]) := by
  decide

/-! ## 2. Options and sources -/

/-- `strictmatch` is on for the value `true` and for nothing else; an absent option is off. -/
theorem parseStrict_true_iff (o : Option Name) : parseStrict o = true ↔ o = some "true".toList := by
  cases o with
  | none => simp [parseStrict]
  | some v => simp [parseStrict]

/-- A `file` source publishes at most one certificate; it is the certificate of the configured pair. -/
theorem file_source_single (cf kf : Name) (blocks : Blocks) (order : List Name) (ids : List Nat)
    (h : sourceIds ⟨.file cf kf, blocks⟩ order = some ids) :
    ∃ c k id, blocks.lookup cf = some c ∧ blocks.lookup kf = some k ∧ pairCert c k = some id ∧ ids = [id] := by
  unfold sourceIds at h
  simp only at h
  split at h
  · rename_i c k hc hk
    cases hp : pairCert c k with
    | none => simp [hp] at h
    | some id =>
      simp only [hp, Option.map_some, Option.some.injEq] at h
      exact ⟨c, k, id, hc, hk, hp, h.symm⟩
  · simp at h

/-- A `path` / `http` source publishes the same list (or nothing) whatever order Go iterates the loaded map in. -/
theorem dir_source_order_irrelevant (blocks : Blocks) (o1 o2 : List Name) (h : ∀ n, n ∈ o1 ↔ n ∈ o2) :
    sourceIds ⟨.dir, blocks⟩ o1 = sourceIds ⟨.dir, blocks⟩ o2 := by
  unfold sourceIds
  simp only [loadCertificates_order_irrelevant blocks o1 o2 h]

/-! ## 3. One listener -/

/-- **What a listener presents is the best match within the set of its own source, with its own strictness**:
exact name, else first covering wildcard, else the first certificate — or nothing when *this listener's*
`strictmatch` option is `true`. -/
theorem listener_presents_best_match (names : Nat → List Name) (ids : List Nat) (l : ListenerCfg) (server : Name) :
    listenerAnswer names ids l server =
      specAnswer (ids.map fun i => ⟨i, names i⟩) server (parseStrict l.strict) := by
  unfold listenerAnswer
  exact getCertificate_eq_spec _ _ _

/-- The same through the source, for every iteration order: a `path` / `http` source whose material is usable. -/
theorem listener_best_match_for_every_order (blocks : Blocks) (o1 o2 : List Name) (h : ∀ n, n ∈ o1 ↔ n ∈ o2)
    (ids : List Nat) (h1 : sourceIds ⟨.dir, blocks⟩ o1 = some ids)
    (names : Nat → List Name) (l : ListenerCfg) (server : Name) :
    sourceIds ⟨.dir, blocks⟩ o2 = some ids ∧
    listenerAnswer names ids l server = specAnswer (ids.map fun i => ⟨i, names i⟩) server (parseStrict l.strict) :=
  ⟨(dir_source_order_irrelevant blocks o1 o2 h) ▸ h1, listener_presents_best_match names ids l server⟩

/-- **Strictness is per listener**: two listeners on the same published list, one with `strictmatch=true`, one
without (or with any other value): for a name that nothing in the set matches the first presents no certificate,
the second the first certificate of the set — side by side, from the same source. -/
theorem strictness_is_per_listener (names : Nat → List Name) (i : Nat) (rest : List Nat) (l1 l2 : ListenerCfg)
    (server : Name) (h1 : l1.strict = some "true".toList) (h2 : l2.strict ≠ some "true".toList)
    (hx : lastWith ((i :: rest).map fun i => ⟨i, names i⟩) (normName server) = none)
    (hw : ∀ k ∈ candidates (splitDots (normName server)),
            lastWith ((i :: rest).map fun i => ⟨i, names i⟩) k = none) :
    listenerAnswer names (i :: rest) l1 server = .noCert ∧
    listenerAnswer names (i :: rest) l2 server = .cert ⟨i, names i⟩ := by
  have s1 : parseStrict l1.strict = true := (parseStrict_true_iff _).mpr h1
  have s2 : parseStrict l2.strict = false := by
    cases hp : parseStrict l2.strict with
    | false => rfl
    | true => exact absurd ((parseStrict_true_iff _).mp hp) h2
  unfold listenerAnswer
  simp only [List.map_cons] at hx hw ⊢
  have e1 := (exact_then_wildcard_then_default ⟨i, names i⟩ (rest.map fun i => ⟨i, names i⟩) server true).2.2.1 hx hw
  have e2 := (exact_then_wildcard_then_default ⟨i, names i⟩ (rest.map fun i => ⟨i, names i⟩) server false).2.2.1 hx hw
  rw [s1, s2]
  exact ⟨by simpa using e1, by simpa using e2⟩

-- non-vacuity: the values `TRUE`, `1`, `false` and an absent option all leave strictness off
example :
    let names : Nat → List Name := fun i => if i = 0 then ["a.test".toList] else ["b.test".toList]
    listenerAnswer names [0, 1] ⟨0, some "true".toList⟩ "zzz.test".toList = .noCert ∧
    listenerAnswer names [0, 1] ⟨0, none⟩ "zzz.test".toList = .cert ⟨0, ["a.test".toList]⟩ ∧
    listenerAnswer names [0, 1] ⟨0, some "TRUE".toList⟩ "zzz.test".toList = .cert ⟨0, ["a.test".toList]⟩ ∧
    listenerAnswer names [0, 1] ⟨0, some "false".toList⟩ "B.test.".toList = .cert ⟨1, ["b.test".toList]⟩ ∧
    listenerAnswer names [0, 1] ⟨0, some "true".toList⟩ "B.test.".toList = .cert ⟨1, ["b.test".toList]⟩ := by
  decide

/-! ## 4. A whole deployment: any listeners, any history of publications -/

/-- The set source `j` published last (`init` when it has not published). -/
def lastOf (j : Nat) (init : CertSet) : List (Nat × CertSet) → CertSet
  | [] => init
  | (k, cs) :: ps => lastOf j (if k = j then cs else init) ps

def runPubs (d : Deployment) (pubs : List (Nat × CertSet)) : Deployment :=
  pubs.foldl (fun d p => d.publish p.1 p.2) d

private theorem zip_map_publish (ls : List ListenerCfg) (g : ListenerCfg → CertSet) (j : Nat) (cs : CertSet) :
    ((ls.zip (ls.map g)).map fun (p : ListenerCfg × CertSet) => if p.1.src = j then cs else p.2)
      = ls.map fun l => if l.src = j then cs else g l := by
  induction ls with
  | nil => rfl
  | cons l ls ih => simp only [List.map_cons, List.zip_cons_cons, ih]

private theorem publish_stores (ls : List ListenerCfg) (g : ListenerCfg → CertSet) (j : Nat) (cs : CertSet) :
    (⟨ls, ls.map g⟩ : Deployment).publish j cs = ⟨ls, ls.map fun l => if l.src = j then cs else g l⟩ := by
  simp only [Deployment.publish, zip_map_publish]

private theorem runPubs_stores (ls : List ListenerCfg) (g : ListenerCfg → CertSet) (pubs : List (Nat × CertSet)) :
    runPubs ⟨ls, ls.map g⟩ pubs = ⟨ls, ls.map fun l => lastOf l.src (g l) pubs⟩ := by
  induction pubs generalizing g with
  | nil => rfl
  | cons p ps ih =>
    obtain ⟨j, cs⟩ := p
    have step : runPubs ⟨ls, ls.map g⟩ ((j, cs) :: ps)
        = runPubs ((⟨ls, ls.map g⟩ : Deployment).publish j cs) ps := rfl
    rw [step, publish_stores, ih (fun l => if l.src = j then cs else g l)]
    congr 1
    apply List.map_congr_left
    intro l _
    by_cases h : l.src = j
    · subst h
      simp [lastOf]
    · have : ¬ j = l.src := fun e => h e.symm
      simp [lastOf, h, this]

/-- **Every handshake on every listener, after every history of publications of every source**: the answer is
`getCertificate` of the set that *this listener's* source published last (the empty store before its first
publication), decided with *this listener's* strictness. Publications of other sources and the options of other
listeners — also of listeners on the same source — do not enter. -/
theorem deployment_handshake (ls : List ListenerCfg) (pubs : List (Nat × CertSet)) (i : Nat) (l : ListenerCfg)
    (hl : ls[i]? = some l) (server : Name) :
    (runPubs (Deployment.init ls) pubs).handshake i server
      = some (getCertificate (lastOf l.src [] pubs) server (parseStrict l.strict)) := by
  unfold Deployment.init
  rw [runPubs_stores ls (fun _ => []) pubs]
  unfold Deployment.handshake
  simp only [List.getElem?_map, hl, Option.map_some]

/-- … and that answer is the declarative best match of the property's first sentence. -/
theorem deployment_presents_best_match (ls : List ListenerCfg) (pubs : List (Nat × CertSet)) (i : Nat)
    (l : ListenerCfg) (hl : ls[i]? = some l) (server : Name) :
    (runPubs (Deployment.init ls) pubs).handshake i server
      = some (specAnswer (lastOf l.src [] pubs) server (parseStrict l.strict)) := by
  rw [deployment_handshake ls pubs i l hl server, getCertificate_eq_spec]

/-- A new set of a source takes effect on **all** listeners of that source, and on no other listener. -/
theorem publication_reaches_the_listeners_of_its_source (ls : List ListenerCfg) (pubs : List (Nat × CertSet))
    (j : Nat) (cs : CertSet) (i : Nat) (l : ListenerCfg) (hl : ls[i]? = some l) (server : Name) :
    (runPubs (Deployment.init ls) (pubs ++ [(j, cs)])).handshake i server =
      if l.src = j then some (getCertificate cs server (parseStrict l.strict))
      else (runPubs (Deployment.init ls) pubs).handshake i server := by
  rw [deployment_handshake ls _ i l hl server, deployment_handshake ls pubs i l hl server]
  have : ∀ (init : CertSet), lastOf l.src init (pubs ++ [(j, cs)]) = if j = l.src then cs else lastOf l.src init pubs := by
    induction pubs with
    | nil => intro init; simp [lastOf]
    | cons p ps ih => intro init; obtain ⟨k, x⟩ := p; simp only [List.cons_append, lastOf]; exact ih _
  rw [this]
  by_cases h : l.src = j
  · simp [h]
  · have : ¬ j = l.src := fun e => h e.symm
    simp [h, this]

-- non-vacuity: three listeners, two on source 0 with different strictness, one on source 1; source 0 publishes,
-- source 1 publishes, source 0 publishes again
example :
    let a : Cert := ⟨0, ["a.test".toList]⟩
    let b : Cert := ⟨1, ["b.test".toList]⟩
    let c : Cert := ⟨2, ["c.test".toList]⟩
    let ls : List ListenerCfg := [⟨0, some "true".toList⟩, ⟨0, none⟩, ⟨1, some "false".toList⟩]
    let d := runPubs (Deployment.init ls) [(0, [a, b]), (1, [c]), (0, [b, a])]
    d.handshake 0 "zzz.test".toList = some .noCert ∧
    d.handshake 1 "zzz.test".toList = some (.cert b) ∧
    d.handshake 2 "zzz.test".toList = some (.cert c) ∧
    d.handshake 0 "A.test.".toList = some (.cert a) ∧
    (runPubs (Deployment.init ls) [(1, [c])]).handshake 0 "a.test".toList = some .errNoCerts := by
  decide

/-! ## 5. The watcher of a source in front of the deployment -/

/-- A watcher whose every load is unusable (loader error or material `loadCertificates` rejects) publishes nothing. -/
theorem bad_script_publishes_nothing {M : Type} [DecidableEq M] (b : Bool) (mk : M → Option CertSet) (refresh : Int)
    (st : St M) (script : List (LoadResult M)) (hbad : ∀ r ∈ script, badLoad mk r = true) :
    publications (trace b mk refresh st script) = [] := by
  apply List.eq_nil_iff_forall_not_mem.mpr
  intro s hs
  obtain ⟨m, hm, e⟩ := published_sets_are_usable b mk refresh st script s hs
  have := hbad _ hm
  simp [badLoad, e] at this

/-- **A source that delivers unusable material removes no listener's working set**: whatever the deployment has
been through (`pubs`), when the watcher of source `j` then goes through any history of failing loads, every
handshake on every listener — those of source `j` included, strict or not — is answered exactly as before. -/
theorem deployment_keeps_working_set {M : Type} [DecidableEq M] (ls : List ListenerCfg) (pubs : List (Nat × CertSet))
    (j : Nat) (mk : M → Option CertSet) (refresh : Int) (st : St M) (script : List (LoadResult M))
    (hbad : ∀ r ∈ script, badLoad mk r = true) (i : Nat) (server : Name) :
    (runPubs (Deployment.init ls)
        (pubs ++ (publications (trace true mk refresh st script)).map fun s => (j, s))).handshake i server
      = (runPubs (Deployment.init ls) pubs).handshake i server := by
  rw [bad_script_publishes_nothing true mk refresh st script hbad]
  simp

/-- … and the first usable, different material after such a history is published to all listeners of the source:
each of them answers from the new set with its own strictness. -/
theorem deployment_new_set_effective {M : Type} [DecidableEq M] (ls : List ListenerCfg) (pubs : List (Nat × CertSet))
    (j : Nat) (mk : M → Option CertSet) (refresh : Int) (st : St M) (bad : List (LoadResult M))
    (hbad : ∀ r ∈ bad, badLoad mk r = true) (m : M) (cs : CertSet) (hm : mk m = some cs) (hne : m ≠ st.last)
    (i : Nat) (l : ListenerCfg) (hl : ls[i]? = some l) (hj : l.src = j) (server : Name) :
    (step true mk refresh (runSt true mk refresh st bad) (.blocks m)).2 = [.publish m cs] ∧
    (runPubs (Deployment.init ls) (pubs ++ [(j, cs)])).handshake i server
      = some (specAnswer cs server (parseStrict l.strict)) := by
  refine ⟨by rw [good_material_after_bad_is_published true mk refresh st bad m cs hbad hm hne], ?_⟩
  rw [publication_reaches_the_listeners_of_its_source ls pubs j cs i l hl server, if_pos hj, getCertificate_eq_spec]

-- non-vacuity: a script of failing loads (an error, then material without key) in front of a deployment
example :
    let mk : Nat → Option CertSet := fun m => if m = 7 then none else some [⟨m, ["x.test".toList]⟩]
    let script : List (LoadResult Nat) := [.err, .blocks 7, .err]
    (∀ r ∈ script, badLoad mk r = true) ∧
    publications (trace true mk 0 ⟨0, false⟩ script) = [] ∧
    publications (trace true mk 0 ⟨0, false⟩ (script ++ [.blocks 3])) = [[⟨3, ["x.test".toList]⟩]] := by
  decide

/-! ## 6. `base`: where the files of an HTTP source's list are fetched from -/

/-- `path.Clean` leaves a sequence of ordinary path elements alone. -/
theorem cleanSegs_plain (acc ss : List Name)
    (h : ∀ s ∈ ss, s ≠ [] ∧ s ≠ ['.'] ∧ s ≠ ['.', '.']) : cleanSegs acc ss = acc.reverse ++ ss := by
  induction ss generalizing acc with
  | nil => simp [cleanSegs]
  | cons s ss ih =>
    obtain ⟨h1, h2, h3⟩ := h s (by simp)
    have e1 : s.isEmpty = false := by cases s <;> simp_all
    have e2 : (s == ['.']) = false := by simpa using h2
    have e3 : (s == ['.', '.']) = false := by simpa using h3
    unfold cleanSegs
    simp only [e1, e2, e3, Bool.or_self, Bool.false_eq_true, if_false]
    rw [ih (s :: acc) (fun t ht => h t (List.mem_cons_of_mem _ ht))]
    simp

/-- **A list in a directory**: for a list at `origin/d₁/…/dₙ/file` (n ≥ 1, ordinary directory names) the files are
fetched from `origin/d₁/…/dₙ` — *without* a trailing slash, so the names in the list must start with `/`. -/
theorem base_of_list_in_directory (origin path : Name) (dirs : List Name) (file : Name)
    (hsplit : splitOn '/' path = [] :: dirs ++ [file]) (hne : dirs ≠ [])
    (hd : ∀ s ∈ dirs, s ≠ [] ∧ s ≠ ['.'] ∧ s ≠ ['.', '.']) :
    baseOf origin path = origin ++ '/' :: joinSlash dirs := by
  have hp1 : (path == ['/']) = false := by
    cases hb : path == ['/'] with
    | false => rfl
    | true =>
      have : path = ['/'] := by simpa using hb
      subst this
      have : dirs = [] := by
        have hl := congrArg List.length hsplit
        simp [splitOn] at hl
        cases dirs with
        | nil => rfl
        | cons d ds => simp at hl
      exact absurd this hne
  have hp2 : path.isEmpty = false := by
    cases path with
    | nil =>
      have hl := congrArg List.length hsplit
      simp [splitOn] at hl
    | cons c cs => rfl
  unfold baseOf pathDir
  simp only [hp1, hp2, Bool.false_eq_true, if_false]
  have hdl : (splitOn '/' path).dropLast = [] :: dirs := by
    rw [hsplit]; exact List.dropLast_concat
  rw [hdl]
  have : cleanSegs [] ([] :: dirs) = dirs := by
    unfold cleanSegs
    simp only [List.isEmpty_nil, Bool.true_or, if_true]
    simpa using cleanSegs_plain [] dirs hd
  rw [this]

/-- **A list at the server's root** (`origin/file`): the files are fetched from `origin/` (names without a slash). -/
theorem base_of_list_at_root (origin path : Name) (file : Name) (hsplit : splitOn '/' path = [[], file])
    (hf : file ≠ []) : baseOf origin path = origin ++ ['/'] := by
  have hp1 : (path == ['/']) = false := by
    cases hb : path == ['/'] with
    | false => rfl
    | true =>
      have : path = ['/'] := by simpa using hb
      subst this
      simp [splitOn] at hsplit
      exact absurd hsplit hf
  have hp2 : path.isEmpty = false := by
    cases path with
    | nil => simp [splitOn] at hsplit
    | cons c cs => rfl
  unfold baseOf pathDir
  simp only [hp1, hp2, Bool.false_eq_true, if_false, hsplit]
  simp [cleanSegs, joinSlash]

-- non-vacuity, and the two corner cases of the code: a URL without path, and elements `path.Clean` removes
example :
    baseOf "http://h:80".toList "/certs/tls/list.txt".toList = "http://h:80/certs/tls".toList ∧
    splitOn '/' "/certs/tls/list.txt".toList = [] :: ["certs".toList, "tls".toList] ++ ["list.txt".toList] ∧
    baseOf "http://h:80".toList "/list".toList = "http://h:80/".toList ∧
    baseOf "http://h:80".toList "/".toList = "http://h:80/".toList ∧
    baseOf "http://h:80".toList [] = "http://h:80/.".toList ∧
    baseOf "http://h:80".toList "/a/../list".toList = "http://h:80/".toList ∧
    baseOf "http://h:80".toList "/a//b/./list".toList = "http://h:80/a/b".toList := by
  decide

/-! ## 7. What follows the leaf (`FileC.rest`) -/

/-- change only what `pairCert` does not look at -/
def reRest (g : Name → FileC → Nat) (b : Blocks) : Blocks := b.map fun e => (e.1, { e.2 with rest := g e.1 e.2 })

theorem lookup_reRest (g : Name → FileC → Nat) (b : Blocks) (n : Name) :
    (reRest g b).lookup n = (b.lookup n).map fun c => { c with rest := g n c } := by
  induction b with
  | nil => rfl
  | cons e b ih =>
    obtain ⟨m, c⟩ := e
    simp only [reRest, List.map_cons, List.lookup_cons]
    by_cases h : n == m
    · have : n = m := by simpa using h
      subst this
      simp
    · simp only [h]
      exact ih

theorem pairCert_ignores_rest (c k : FileC) (r1 r2 : Nat) :
    pairCert { c with rest := r1 } { k with rest := r2 } = pairCert c k := rfl

theorem loadOne_reRest (g : Name → FileC → Nat) (b : Blocks) (acc : LoadAcc) (n : Name) :
    loadOne (reRest g b) acc n = loadOne b acc n := by
  unfold loadOne
  cases classify n with
  | none => rfl
  | some p =>
    obtain ⟨cf, kf⟩ := p
    simp only [lookup_reRest]
    cases b.lookup cf <;> cases b.lookup kf <;> simp [pairCert]

/-- **Which certificates are made does not depend on what follows the leaf**, … -/
theorem loadCertificates_ignores_rest (g : Name → FileC → Nat) (b : Blocks) (order : List Name) :
    loadCertificates (reRest g b) order = loadCertificates b order := by
  unfold loadCertificates
  have : ∀ acc, order.foldl (loadOne (reRest g b)) acc = order.foldl (loadOne b) acc := by
    induction order with
    | nil => intro acc; rfl
    | cons n ns ih => intro acc; simp only [List.foldl_cons, loadOne_reRest, ih]
  simp only [this]

/-- … **but the watcher publishes again**: material that differs from the last published one only in what follows
a leaf (the operator appended the missing intermediate) is different material; when it is usable it is sent on, so
the new chain takes effect without restart. -/
theorem chain_renewal_is_published (g : Name → FileC → Nat) (b : Blocks) (order : Blocks → List Name)
    (ids : List (Name × Nat)) (refresh : Int) (hne : reRest g b ≠ b)
    (hok : loadCertificates b (order b) = some ids) (hord : order (reRest g b) = order b) :
    step true (fun m => loadCertificates m (order m)) refresh ⟨b, false⟩ (.blocks (reRest g b))
      = (⟨reRest g b, once refresh⟩, [.publish (reRest g b) ids]) := by
  have : loadCertificates (reRest g b) (order (reRest g b)) = some ids := by
    rw [hord, loadCertificates_ignores_rest, hok]
  simp [step, hne, this]

example :
    let b : Blocks := [("a-cert.pem".toList, ⟨some 0, none, 0⟩), ("a-key.pem".toList, ⟨none, some 0, 0⟩)]
    let g : Name → FileC → Nat := fun _ c => if c.cert.isSome then 1 else 0
    reRest g b ≠ b ∧ loadCertificates (reRest g b) (b.map (·.1)) = some [("a-cert.pem".toList, 0)] := by
  decide


end Fabio.Props.C11Deploy
