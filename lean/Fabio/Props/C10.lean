import Fabio.Model.C10
import Fabio.Lemmas.C10
/-!
C10 — SNI routing uses the server name the TLS stack itself would see: property theorems.

Model: `Fabio/Model/C10.lean` (`clientHelloBufferSize`, `readServerName`/`unmarshal`, the start of
`SNIProxy.ServeTCP` as `sniRoute`, the abstract `Hello` with its RFC 5246/6066/8446 `encode`/`record`).
Helper lemmas: `Fabio/Lemmas/C10.lean`. Every statement is for all byte strings resp. all well-formed hellos
with extension lists of any length and any sizes; nothing is bounded.
-/
namespace Fabio.Props.C10
open Fabio Fabio.Model.C10

/-! ### No input makes the extraction panic or read out of bounds -/

/-- `clientHelloBufferSize` never reaches a panic point: every index is guarded by the length check. -/
theorem bufsize_no_panic (data : Bytes) : (clientHelloBufferSize data).isPanic = false :=
  Lemmas.C10.bufsize_no_panic data

/-- `clientHelloMsg.unmarshal` never reaches a panic point on any byte string — every index and slice
expression is in range, and both loops terminate within their fuel (they consume ≥ 4 resp. ≥ 3 bytes per
iteration). -/
theorem unmarshal_no_panic (data : Bytes) : (unmarshal data).isPanic = false :=
  Lemmas.C10.unmarshal_no_panic data

/-- `readServerName` returns `(name, ok)` for every input; malformed input is `("", false)` or a name, never
a panic. -/
theorem readServerName_no_panic (data : Bytes) : (readServerName data).isPanic = false := by
  have h := Lemmas.C10.unmarshal_no_panic data
  unfold readServerName
  cases hu : unmarshal data with
  | ok nm => rfl
  | reject s => rfl
  | panic w => rw [hu] at h; cases h

/-- The start of `ServeTCP` (peek 9, size the buffer, read exactly that many, parse `data[5:]`) never
panics, whatever the client sends and wherever the stream ends. -/
theorem sniRoute_no_panic (stream : Bytes) : (sniRoute stream).isPanic = false :=
  Lemmas.C10.sniRoute_no_panic stream

/-! ### The amount buffered never exceeds the first TLS record -/

/-- When `clientHelloBufferSize` accepts, the size is the announced handshake length + 9, it is at most the
first record (`recordLength + 5 ≤ 16384 + 5`) and at least 10, so `data[5:]` is in range and non-empty. -/
theorem bufsize_le_record (data : Bytes) (n : Nat) (h : clientHelloBufferSize data = .ok n) :
    ∃ h9 : 9 ≤ data.length,
      n = be24 data[6] data[7] data[8] + 9 ∧ 10 ≤ n ∧
      n ≤ be16 data[3] data[4] + 5 ∧ be16 data[3] data[4] ≤ 16384 ∧ n ≤ 16389 ∧
      data[0] = 0x16 ∧ data[5] = 0x01 := by
  obtain ⟨h9, h0, h5, hn, hp, hle, hr⟩ := Lemmas.C10.bufsize_spec data n h
  exact ⟨h9, hn, by omega, by omega, hr, by omega, h0, h5⟩

/-- `sni_reads_exact`: if the proxy gets as far as a server name it has consumed exactly `n` bytes of the
stream, `n` being the size computed from the first 9 bytes (so at most the first record), and the name is
`unmarshal` of exactly those bytes minus the 5-byte record header (`n - 5 = handshakeLength + 4` bytes: the
complete handshake message and nothing else). -/
theorem sni_reads_exact (stream name : Bytes) (h : sniRoute stream = .ok name) :
    ∃ n, clientHelloBufferSize (stream.take 9) = .ok n ∧ 10 ≤ n ∧ n ≤ stream.length ∧
      ((stream.take n).drop 5).length = n - 5 ∧ unmarshal ((stream.take n).drop 5) = .ok name :=
  Lemmas.C10.sniRoute_exact stream name h

/-! ### Well-formed hellos: the extracted name is the hello's server name -/

/-- For every well-formed hello — any version bytes, session id, cipher suites, compression methods, and any
list of pairwise distinct extensions of any sizes before and after `server_name` (ALPN, key shares, tickets,
padding, …; the loop skips them by length: induction over the list in `Lemmas.C10.extLoop_enc`) —
`readServerName` of its encoding is `(sniOf h, true)`. -/
theorem parse_encode (h : Hello) (hw : WellFormed h) : readServerName (encode h) = .ok (sniOf h, true) := by
  unfold readServerName
  rw [Lemmas.C10.unmarshal_encode h hw, Lemmas.C10.foldOf_eq_sniOf h hw]

/-- "Empty when the extension is absent": no extension block. -/
theorem sniOf_no_extensions (h : Hello) (he : h.extensions = none) : sniOf h = [] := by
  unfold sniOf; rw [he]

/-- "Empty when the extension is absent": an extension block without `server_name`. -/
theorem sniOf_no_server_name (h : Hello) (es : List Ext) (he : h.extensions = some es)
    (hn : ∀ e ∈ es, e.typ ≠ 0) : sniOf h = [] := by
  unfold sniOf; rw [he]
  have : es.find? (fun e => e.typ == 0) = none := by
    rw [List.find?_eq_none]; intro e hm; simpa using hn e hm
  simp only [this]

/-- With a `server_name` extension carrying host name `nm` anywhere in the list, `sniOf` is `nm`. -/
theorem sniOf_server_name (h : Hello) (hw : WellFormed h) (pre post : List Ext) (ns : List (UInt8 × Bytes))
    (nm : Bytes) (he : h.extensions = some (pre ++ .serverName ns :: post)) (hh : hostName ns = some nm) :
    sniOf h = nm := by
  have hx := hw.exts
  rw [he] at hx
  have hnd := hx.2.1
  unfold sniOf; rw [he]
  have hpre : ∀ e ∈ pre, (e.typ == 0) = false := by
    intro e hm
    rw [List.map_append, List.map_cons] at hnd
    have := (List.nodup_append.mp hnd).2.2 e.typ (List.mem_map_of_mem hm) 0 (List.mem_cons_self ..)
    simpa using this
  have : (pre ++ Ext.serverName ns :: post).find? (fun e => e.typ == 0) = some (.serverName ns) := by
    rw [List.find?_append, List.find?_eq_none.mpr (by intro e hm; simpa using hpre e hm)]
    simp [Ext.typ]
  simp only [this, hh, Option.getD_some]

/-- At the proxy: the first flight of a client (one record carrying a well-formed hello that fits it,
followed by anything) is routed by exactly the hello's server name. -/
theorem route_encode (vMaj vMin : UInt8) (h : Hello) (hw : WellFormed h) (hf : FitsRecord h) (rest : Bytes) :
    sniRoute (record vMaj vMin h ++ rest) = .ok (sniOf h) :=
  Lemmas.C10.sniRoute_record vMaj vMin h hw hf rest

/-- For a hello that fits one record the buffer size computed from the first 9 bytes is exactly the length of
that record: nothing beyond the first record is buffered, and `data[5:]` is exactly the handshake message. -/
theorem bufsize_exact (vMaj vMin : UInt8) (h : Hello) (hf : FitsRecord h) (rest : Bytes) :
    clientHelloBufferSize ((record vMaj vMin h ++ rest).take 9) = .ok (record vMaj vMin h).length := by
  have := Lemmas.C10.bufsize_record vMaj vMin h hf rest (record vMaj vMin h ++ rest).length
    (by rw [List.length_append, Lemmas.C10.record_length]; omega)
  rwa [List.take_length] at this

/-! ### Truncated input is rejected -/

/-
The full statement "every strict prefix of `encode h` is rejected by `readServerName`" is FALSE for the code
(see `truncation_exception`): fabio's `unmarshal`, like the Go 1.7 original, never compares the 3-byte
handshake length with the data it was given, and a hello cut exactly behind its compression methods is a
complete extension-less hello.

theorem truncation_rejected_full (h : Hello) (hw : WellFormed h) (k : Nat) (hk : k < (encode h).length) :
    readServerName ((encode h).take k) = .ok ([], false)
-/

/-- A strict prefix of the encoding of a well-formed hello is rejected (`("", false)`), for every cut
position except the single one named in the hypothesis: exactly behind the compression methods. -/
theorem truncation_rejected_partial (h : Hello) (hw : WellFormed h) (k : Nat) (hk : k < (encode h).length)
    (hne : k ≠ cutAfterCompression h) : readServerName ((encode h).take k) = .ok ([], false) := by
  have := Lemmas.C10.unmarshal_trunc h hw k hk hne
  unfold readServerName
  cases hu : unmarshal ((encode h).take k) with
  | ok nm => rw [hu] at this; cases this
  | reject s => rfl
  | panic w => rw [hu] at this; cases this

/-- The exception is real (negation of the full statement, for every hello that has an extension block):
the prefix ending behind the compression methods is strict, and it is *accepted* with an empty name. -/
theorem truncation_exception (h : Hello) (hw : WellFormed h) (es : List Ext) (he : h.extensions = some es) :
    cutAfterCompression h < (encode h).length ∧
    readServerName ((encode h).take (cutAfterCompression h)) = .ok ([], true) := by
  constructor
  · rw [Lemmas.C10.cut_eq, Lemmas.C10.encode_split, he]
    simp only [List.length_append, encExtBlock, Lemmas.C10.enc16_length]
    omega
  · unfold readServerName
    rw [Lemmas.C10.unmarshal_cut h hw]

/-- At the proxy the exception cannot arise: of a record carrying a hello, *every* strict prefix is dropped
without routing (fewer than 9 bytes: `Peek` fails; otherwise `io.ReadFull` of the announced size fails). -/
theorem truncation_rejected (vMaj vMin : UInt8) (h : Hello) (hf : FitsRecord h) (k : Nat)
    (hk : k < (record vMaj vMin h).length) : (sniRoute ((record vMaj vMin h).take k)).isReject = true :=
  Lemmas.C10.sniRoute_trunc vMaj vMin h hf k hk

/-! ### Non-vacuity: a concrete hello with extensions on both sides of `server_name` -/

def exName : Bytes := [0x65, 0x78, 0x61, 0x6d, 0x70, 0x6c, 0x65, 0x2e, 0x63, 0x6f, 0x6d]   -- "example.com"

def exHello : Hello :=
  { versHi := 3, versLo := 3, random := List.replicate 32 7, sessionId := List.replicate 32 1,
    cipherSuites := [(0x13, 0x01), (0xc0, 0x2f)], compressionMethods := [0],
    extensions := some [.other 10 [0, 2, 0, 29], .other 51 ([0, 36, 0, 29, 0, 32] ++ List.replicate 32 9),
                        .serverName [(7, [1, 2]), (0, exName)],
                        .other 16 [0, 3, 2, 0x68, 0x32], .other 21 (List.replicate 10 0)] }

example : WellFormed exHello := by decide +kernel
example : FitsRecord exHello := by decide +kernel
example : sniOf exHello = exName := by decide +kernel
example : readServerName (encode exHello) = .ok (exName, true) := parse_encode exHello (by decide +kernel)
/-- the model itself computes it (kernel evaluation of the executable model, fuel included) -/
example : readServerName (encode exHello) = .ok (exName, true) := by decide +kernel
example : sniRoute (record 3 1 exHello ++ [0x14, 3, 3, 0, 1, 1]) = .ok exName :=
  route_encode 3 1 exHello (by decide +kernel) (by decide +kernel) _
example : clientHelloBufferSize ((record 3 1 exHello).take 9) = .ok (record 3 1 exHello).length := by decide +kernel
example : cutAfterCompression exHello = 79 ∧ (encode exHello).length = 179 := by decide +kernel
example : readServerName ((encode exHello).take 100) = .ok ([], false) :=
  truncation_rejected_partial exHello (by decide +kernel) 100 (by decide +kernel) (by decide +kernel)
example : readServerName ((encode exHello).take (cutAfterCompression exHello)) = .ok ([], true) :=
  (truncation_exception exHello (by decide +kernel) _ rfl).2
/-- … and the model computes the exception, too -/
example : readServerName ((encode exHello).take 79) = .ok ([], true) := by decide +kernel
example : (sniRoute ((record 3 1 exHello).take 83)).isReject = true :=
  truncation_rejected 3 1 exHello (by decide +kernel) 83 (by decide +kernel)
example : (clientHelloBufferSize [0x16, 3, 1, 0, 5, 1, 0, 0, 2]).isReject = true := by decide
example : (clientHelloBufferSize [0x16, 3, 1, 0, 6, 1, 0, 0, 2]) = .ok 11 := by decide
example : sniOf { exHello with extensions := none } = [] := sniOf_no_extensions _ rfl
example : readServerName [] = .ok ([], false) := by decide

end Fabio.Props.C10
