import Fabio.Lemmas.C07
/-!
C07 — HTTP requests and responses pass through unaltered apart from routing: property theorems over the model
`Fabio.Model.C07` (`serve` = `ServeHTTP` from the lookup result on, gates of C12/C13 and header derivation of
C08 left out).  In every theorem `o` is the request handed to the upstream `up` through handler `via`.
Helper lemmas live in `Fabio/Lemmas/C07.lean`; nothing here is weakened to make a proof pass.
-/
namespace Fabio.Props.C07
open Fabio.Model.C07 Fabio.Model.C07Spec Fabio.Lemmas.C07

/-- a routed request is always forwarded to the target's host, and these are all the fields of the outgoing
request in terms of the incoming one -/
theorem serve_forward {β} (c : Int) (html : String) (t : Target) (r : Req β) :
    ∃ via o, serve c html (some t) r = .forward via t.host o ∧
      o.method = r.method ∧ o.body = r.body ∧ o.headers = r.headers ∧ o.host = hostOverride t r.host ∧
      o.url.scheme = t.scheme ∧ o.url.host = t.host ∧
      o.url.path = (targetURL t r.url).path ∧ o.url.rawPath = (targetURL t r.url).rawPath ∧
      o.url.rawQuery = (targetURL t r.url).rawQuery := by
  unfold serve
  cases chooseHandler r.headers
  · exact ⟨_, _, rfl, rfl, rfl, rfl, rfl, rfl, rfl, rfl, rfl, rfl⟩
  · exact ⟨_, _, rfl, rfl, rfl, rfl, rfl, rfl, rfl, rfl, rfl, rfl⟩

/-- **Frame.** The handler writes the URL and (when asked) the Host of the request and nothing else: method,
body and header block reach the upstream as the client sent them (the forwarding headers of C08 and the
hop-by-hop handling of `httputil.ReverseProxy` are outside this model), and the upstream is the route's target. -/
theorem method_body_headers_untouched {β} (c : Int) (html : String) (t : Target) (r : Req β)
    (via : Via) (up : String) (o : Req β) (h : serve c html (some t) r = .forward via up o) :
    o.method = r.method ∧ o.body = r.body ∧ o.headers = r.headers ∧ up = t.host := by
  obtain ⟨via', o', hs, h1, h2, h3, _⟩ := serve_forward c html t r
  rw [hs] at h; cases h
  exact ⟨h1, h2, h3, rfl⟩

/-- the director assigns scheme, host, path, raw path and raw query only -/
theorem director_frame (target u : URL) : (director target u).forceQuery = u.forceQuery := rfl

theorem absolutise_fst (pr : Bytes × Bytes) : (absolutise pr).1 = ensureAbs pr.1 := by
  unfold absolutise ensureAbs
  split <;> simp_all

theorem ensureAbs_abs (p : Bytes) : startsWithSlash (ensureAbs p) = true := by
  unfold ensureAbs
  split
  · assumption
  · rfl

/-- the decoded path of `targetURL`, in terms of the request path and the two options -/
theorem targetURL_path (t : Target) (u : URL) :
    (targetURL t u).path =
      (if t.prepend ≠ [] then
        ensureAbs (t.prepend ++ (if t.strip ≠ [] ∧ t.strip <+: u.path then ensureAbs (u.path.drop t.strip.length) else u.path))
       else (if t.strip ≠ [] ∧ t.strip <+: u.path then ensureAbs (u.path.drop t.strip.length) else u.path)) := by
  simp only [targetURL, rewritePath, prependStep, stripStep, hasPrefix, List.isPrefixOf_iff_prefix]
  by_cases h1 : t.strip ≠ [] ∧ t.strip <+: u.path <;> by_cases h2 : t.prepend ≠ [] <;>
    simp only [h1, h2, if_true, if_false, absolutise_fst, not_false_eq_true, and_self, ne_eq]

/-- the query of `targetURL` -/
theorem targetURL_query (t : Target) (u : URL) :
    (targetURL t u).rawQuery = t.rawQuery ++ (if t.rawQuery ≠ [] ∧ u.rawQuery ≠ [] then [AMP] else []) ++ u.rawQuery := by
  simp only [targetURL, mergeQuery]
  by_cases h1 : t.rawQuery = [] <;> by_cases h2 : u.rawQuery = [] <;> simp [h1, h2]

/-- **Path rewrite.** The upstream's (decoded) path is the client's path with the strip prefix removed — only
when the path really begins with it — and the prepend option put in front, made absolute after each step;
it is absolute whenever an option applied and is the client's path when no option is set. -/
theorem path_rewrite {β} (c : Int) (html : String) (t : Target) (r : Req β)
    (via : Via) (up : String) (o : Req β) (h : serve c html (some t) r = .forward via up o) :
    let applies := t.strip ≠ [] ∧ t.strip <+: r.url.path
    let rem := if applies then ensureAbs (r.url.path.drop t.strip.length) else r.url.path
    o.url.path = (if t.prepend ≠ [] then ensureAbs (t.prepend ++ rem) else rem) ∧
    (applies → r.url.path = t.strip ++ r.url.path.drop t.strip.length) ∧
    (applies ∨ t.prepend ≠ [] → startsWithSlash o.url.path = true) ∧
    (t.strip = [] → t.prepend = [] → o.url.path = r.url.path) := by
  intro applies rem
  obtain ⟨via', o', hs, _, _, _, _, _, _, hp, _, _⟩ := serve_forward c html t r
  rw [hs] at h; cases h
  have key : o.url.path = (if t.prepend ≠ [] then ensureAbs (t.prepend ++ rem) else rem) := by
    rw [hp]
    simp only [targetURL, rewritePath, prependStep, stripStep, hasPrefix, List.isPrefixOf_iff_prefix]
    by_cases h1 : t.strip ≠ [] ∧ t.strip <+: r.url.path <;> by_cases h2 : t.prepend ≠ [] <;>
      simp only [h1, h2, if_true, if_false, absolutise_fst, rem, applies, not_false_eq_true, and_self, ne_eq]
  refine ⟨key, ?_, ?_, ?_⟩
  · intro ⟨_, t', ht⟩
    rw [← ht]; simp
  · intro hor
    rw [key]
    by_cases h2 : t.prepend ≠ []
    · rw [if_pos h2]; exact ensureAbs_abs _
    · rw [if_neg h2]
      cases hor with
      | inl ha => simp only [rem, if_pos ha]; exact ensureAbs_abs _
      | inr hb => exact absurd hb h2
  · intro h1 h2
    rw [key]
    simp [rem, applies, h1, h2]

/-- **Query merge.** Route query first, `&` exactly when both are non-empty, the client's query bytes unchanged
at the end. -/
theorem query_merge {β} (c : Int) (html : String) (t : Target) (r : Req β)
    (via : Via) (up : String) (o : Req β) (h : serve c html (some t) r = .forward via up o) :
    o.url.rawQuery = t.rawQuery ++ (if t.rawQuery ≠ [] ∧ r.url.rawQuery ≠ [] then [AMP] else []) ++ r.url.rawQuery ∧
    t.rawQuery <+: o.url.rawQuery ∧ r.url.rawQuery <:+ o.url.rawQuery := by
  obtain ⟨via', o', hs, _, _, _, _, _, _, _, _, hq⟩ := serve_forward c html t r
  rw [hs] at h; cases h
  have key : o.url.rawQuery = t.rawQuery ++ (if t.rawQuery ≠ [] ∧ r.url.rawQuery ≠ [] then [AMP] else []) ++ r.url.rawQuery := by
    rw [hq]
    simp only [targetURL, mergeQuery]
    by_cases h1 : t.rawQuery = [] <;> by_cases h2 : r.url.rawQuery = [] <;> simp [h1, h2]
  refine ⟨key, ?_, ?_⟩
  · rw [key, List.append_assoc]; exact List.prefix_append _ _
  · rw [key]; exact List.suffix_append _ _

/-- **Host.** The Host of the outgoing request is the client's unless the route carries a `host=` option:
`dst` means the target's host, anything else is taken literally. -/
theorem host_only_when_asked {β} (c : Int) (html : String) (t : Target) (r : Req β)
    (via : Via) (up : String) (o : Req β) (h : serve c html (some t) r = .forward via up o) :
    (t.hostOpt = "" → o.host = r.host) ∧ (t.hostOpt = "dst" → o.host = t.host) ∧
    (t.hostOpt ≠ "" → t.hostOpt ≠ "dst" → o.host = t.hostOpt) := by
  obtain ⟨via', o', hs, _, _, _, hh, _⟩ := serve_forward c html t r
  rw [hs] at h; cases h
  rw [hh]
  refine ⟨?_, ?_, ?_⟩
  · intro h0; simp [hostOverride, h0]
  · intro h0; simp [hostOverride, h0]
  · intro h0 h1; simp [hostOverride, h0, h1]

/-
Full statement (`percent_encoding_preserved`): for EVERY request-target path `client` the server accepts, the
bytes of the request-target the upstream receives are the client's bytes with strip/prepend applied to the
escaped form (`expectedPath … = some (d, w)` and the wire path is `w`).

The code cannot satisfy it for two input classes, so the theorem below carries them as hypotheses:
 * `hvalid` — `client` holds a byte net/url does not accept unescaped in a path (`"<>\^`{|}`, ≥ 0x80):
   `url.URL.EscapedPath` then re-encodes the whole path from its decoded form (recorded finding
   `path-raw-invalid-byte`; witness `percent_encoding_lost_invalid_byte`, replayed from the corpus of `c07.url`);
 * `habs` — the expected wire form is not absolute: the strip prefix is followed by an encoded slash and
   nothing is prepended (`/s%2Fa`, strip `/s`).  No absolute request-target keeps both the client's encoding
   and the decoded path `/a`; the code sends `/a` (witness `percent_encoding_encoded_slash_corner`).
-/
/-- **Percent-encoding (partial: see the comment above for the two excluded classes).**  `client` is the path the
client put on the wire, `(p, rp)` what the server's `setPath` made of it.  The path the upstream sees on the
wire is the specification's expected wire form — the client's bytes with the strip prefix cut off *in the
escaped form* and the escaped prepend option in front — and the decoded path is the rewritten one. -/
theorem percent_encoding_preserved_partial {β} (c : Int) (html : String) (t : Target) (r : Req β)
    (client p rp : Bytes) (hparse : setPath client = some (p, rp)) (hurl : r.url.path = p ∧ r.url.rawPath = rp)
    (hslash : startsWithSlash client = true)
    (hvalid : validEncoded client = true)
    (via : Via) (up : String) (o : Req β) (h : serve c html (some t) r = .forward via up o) :
    ∃ d w, expectedPath t.strip t.prepend client = some (d, w) ∧ o.url.path = d ∧ unescape w = some d ∧
      (startsWithSlash w = true → o.url.escapedPath = w) := by
  obtain ⟨via', o', hs, _, _, _, _, _, _, hp, hrp, _⟩ := serve_forward c html t r
  rw [hs] at h; cases h
  obtain ⟨hesc, hdec⟩ := escapedPath_parsed client p rp hparse hslash hvalid r.url hurl
  have hinv : Inv (r.url.path, r.url.escapedPath) := by
    refine ⟨?_, ?_⟩
    · simp only []; rw [hesc]; exact hvalid
    · simp only []; rw [hesc, hurl.1]; exact hdec
  have hexp := expectedPath_eq t r.url client hesc (by rw [hurl.1]; exact hdec)
  refine ⟨(rewritePath t r.url).1, (rewritePath t r.url).2, hexp, ?_, (inv_rewrite t r.url hinv).2, ?_⟩
  · rw [hp]; simp [targetURL]
  · intro habs
    have := escapedPath_target t r.url hinv
    rw [if_pos habs] at this
    have heq : o.url.escapedPath = (targetURL t r.url).escapedPath := by
      simp [URL.escapedPath, hp, hrp]
    rw [heq, this]

/-- **strip_cut_counts.** The cut that goes with a strip option, for EVERY escaped path `s` (valid or not: a `%` at the
end, `%zz`, raw bytes) and every count `n`: `dropEscaped n s` is a suffix of `s`, and the prefix cut off stands for
exactly `n` decoded bytes — all of them when the path has fewer — in the specification's way of counting
(`C07Spec.decodedCount`; `Props/C07Xlate.lean xescapedLen_count` states the same of the Go function as translated). For validly encoded paths
`dropEscaped_spec` says more (the prefix *decodes* to the first `n` bytes). -/
theorem strip_cut_counts (n : Nat) (s : Bytes) :
    ∃ a, s = a ++ dropEscaped n s ∧ decodedCount a = min n (decodedCount s) := dropEscaped_count n s

/-- non-vacuity: `/%73trip/a%2Fb` cut after the six bytes of `/strip`; a broken escape at the end; a count beyond the end -/
example : dropEscaped 6 "/%73trip/a%2Fb".toUTF8.toList = "/a%2Fb".toUTF8.toList ∧ decodedCount "/%73trip".toUTF8.toList = 6 ∧
    dropEscaped 3 "/a%2".toUTF8.toList = [] ∧ decodedCount "/a%2".toUTF8.toList = 3 ∧
    dropEscaped 9 "/a".toUTF8.toList = [] ∧ decodedCount "/a".toUTF8.toList = 2 := by decide +kernel

/-- without options the upstream sees exactly the client's bytes -/
theorem percent_encoding_identity {β} (c : Int) (html : String) (t : Target) (r : Req β)
    (client p rp : Bytes) (hparse : setPath client = some (p, rp)) (hurl : r.url.path = p ∧ r.url.rawPath = rp)
    (hslash : startsWithSlash client = true) (hvalid : validEncoded client = true)
    (hstrip : t.strip = []) (hprepend : t.prepend = [])
    (via : Via) (up : String) (o : Req β) (h : serve c html (some t) r = .forward via up o) :
    o.url.escapedPath = client := by
  obtain ⟨d, w, hexp, _, _, hw⟩ := percent_encoding_preserved_partial c html t r client p rp hparse hurl hslash hvalid via up o h
  have hdec := (escapedPath_parsed client p rp hparse hslash hvalid r.url hurl).2
  simp [expectedPath, hstrip, hprepend, hdec] at hexp
  obtain ⟨_, h2⟩ := hexp
  subst h2
  exact hw hslash

/-- negation witness for the first excluded class: `GET /a"b%2Fc`, no options — the upstream gets `/a%22b/c` -/
theorem percent_encoding_lost_invalid_byte :
    let client := ofStr "/a\"b%2Fc"
    let r : Req Unit := { method := "GET", url := { path := ofStr "/a\"b/c", rawPath := client }, host := "h", headers := [], body := () }
    let out := director (targetURL { host := "up" } r.url) r.url
    setPath client = some (r.url.path, r.url.rawPath) ∧ validEncoded client = false ∧
    serve 404 "" (some { host := "up" }) r = .forward .http "up" { r with url := out } ∧
      out.escapedPath = ofStr "/a%22b/c" ∧ out.escapedPath ≠ client := by
  decide +kernel

/-- witness for the second excluded class: `GET /s%2Fa` with `strip=/s` — the expected wire form `%2Fa` is not
absolute; the upstream gets `/a` -/
theorem percent_encoding_encoded_slash_corner :
    let client := ofStr "/s%2Fa"
    let r : Req Unit := { method := "GET", url := { path := ofStr "/s/a", rawPath := client }, host := "h", headers := [], body := () }
    let t : Target := { strip := ofStr "/s", host := "up" }
    let out := director (targetURL t r.url) r.url
    setPath client = some (r.url.path, r.url.rawPath) ∧
    expectedPath (ofStr "/s") [] client = some (ofStr "/a", ofStr "%2Fa") ∧
    serve 404 "" (some t) r = .forward .http "up" { r with url := out } ∧ out.escapedPath = ofStr "/a" := by
  decide +kernel

/-- **No route.** A request for which the lookup finds nothing is answered by fabio itself with the configured
status — 404 when the configured value is outside 100..999 — and the no-route page; the result names no
upstream. Conversely a request with a target is never answered this way. -/
theorem noroute_status_page_no_upstream {β} (c : Int) (html : String) (r : Req β) :
    (∃ s, serve c html none r = .noRoute s html ∧
      (100 ≤ c ∧ c ≤ 999 → s = c) ∧ (¬(100 ≤ c ∧ c ≤ 999) → s = 404)) ∧
    (∀ t s page, serve c html (some t) r ≠ .noRoute s page) := by
  refine ⟨⟨noRouteStatus c, rfl, ?_, ?_⟩, ?_⟩
  · intro ⟨h1, h2⟩
    simp [noRouteStatus, noRouteLo, noRouteHi]; omega
  · intro hn
    have : c < 100 ∨ c > 999 := by omega
    simp [noRouteStatus, noRouteLo, noRouteHi, statusNotFound, this]
  · intro t s page hcontra
    obtain ⟨via, o, hs, _⟩ := serve_forward c html t r
    rw [hs] at hcontra; cases hcontra

theorem run_append (cs : List Int) (c : Int) : RW.run (cs ++ [c]) = (RW.run cs).writeHeader c := by
  simp [RW.run, List.foldl_append]

theorem foldl_sent (cs : List Int) : ∀ rw : RW, (cs.foldl RW.writeHeader rw).sentHeaders = rw.sentHeaders ++ cs := by
  induction cs with
  | nil => intro rw; simp
  | cons c cs ih => intro rw; simp [List.foldl_cons, ih, RW.writeHeader]

theorem run_sent (cs : List Int) : (RW.run cs).sentHeaders = cs := by
  simp [RW.run, foldl_sent]

theorem clientView_informational (pre : List Int) (final : Int) (hpre : ∀ c ∈ pre, informational c = true)
    (hfinal : informational final = false) : clientView (pre ++ [final]) = (pre, final) := by
  induction pre with
  | nil => simp [clientView, hfinal]
  | cons c cs ih =>
    have hc := hpre c (by simp)
    have := ih (fun x hx => hpre x (by simp [hx]))
    simp [clientView, hc, this]

/-- **Status after informational responses.** Whatever informational (1xx) responses the handler announces before
the final status — `httputil.ReverseProxy` passes the upstream's 103 Early Hints, 102 … through the same
`WriteHeader` —, the wrapped writer receives exactly that sequence of calls, the recorded code is the final one, and
(with net/http's reading of such a sequence) the client sees the informational responses as interim responses and
the upstream's final status as the status. -/
theorem final_status_after_informational (pre : List Int) (final : Int)
    (hpre : ∀ c ∈ pre, informational c = true) (hfinal : informational final = false) :
    (RW.run (pre ++ [final])).sentHeaders = pre ++ [final] ∧ (RW.run (pre ++ [final])).code = final ∧
    clientView (RW.run (pre ++ [final])).sentHeaders = (pre, final) := by
  refine ⟨run_sent _, ?_, ?_⟩
  · rw [run_append]; rfl
  · rw [run_sent]; exact clientView_informational pre final hpre hfinal

/-- the body bytes go through the wrapper untouched in number and are counted -/
theorem write_forwards (rw : RW) (n : Nat) : (rw.write n).sentBytes = rw.sentBytes + n ∧ (rw.write n).size = rw.size + n ∧
    (rw.write n).sentHeaders = rw.sentHeaders := ⟨rfl, rfl, rfl⟩

/-! ## the hypotheses are satisfiable on non-trivial values -/

/-- D11 as repaired: `GET /strip/a%2Fb?x=1`, `strip=/strip`, target query `t=1`, `host=dst` -/
example :
    let client := ofStr "/strip/a%2Fb"
    let r : Req Unit := { method := "POST", url := { path := ofStr "/strip/a/b", rawPath := client, rawQuery := ofStr "x=1" },
                          host := "example.com", headers := [("X-A", "1")], body := () }
    let t : Target := { strip := ofStr "/strip", hostOpt := "dst", host := "up:80", rawQuery := ofStr "t=1" }
    let out := director (targetURL t r.url) r.url
    setPath client = some (r.url.path, r.url.rawPath) ∧ validEncoded client = true ∧
    serve 404 "" (some t) r = .forward .http "up:80" { r with url := out, host := "up:80" } ∧
      out.requestURI = ofStr "/a%2Fb?t=1&x=1" := by
  decide +kernel

/-- prepend without a leading slash, strip leaving nothing, websocket path -/
example :
    let client := ofStr "/s"
    let r : Req Unit := { method := "GET", url := { path := client }, host := "h", headers := [("Upgrade", "websocket")], body := () }
    let t : Target := { strip := ofStr "/s", prepend := ofStr "p q", host := "up" }
    setPath client = some (r.url.path, r.url.rawPath) ∧
    serve 404 "" (some t) r = .forward .ws "up" { r with url := targetURL t r.url } ∧
      (targetURL t r.url).requestURI = ofStr "/p%20q/" := by
  decide +kernel

/-- the strip prefix itself percent-encoded by the client -/
example : expectedPath (ofStr "/strip") (ofStr "/p") (ofStr "/%73trip/a%2Fb") = some (ofStr "/p/a/b", ofStr "/p/a%2Fb") := by
  decide +kernel

example : serve 999 "<html>" none ({ method := "GET", url := {}, host := "h", headers := [], body := () } : Req Unit) = .noRoute 999 "<html>" := by decide +kernel
example : serve 1000 "<html>" none ({ method := "GET", url := {}, host := "h", headers := [], body := () } : Req Unit) = .noRoute 404 "<html>" := by decide +kernel
example : serve 99 "" none ({ method := "GET", url := {}, host := "h", headers := [], body := () } : Req Unit) = .noRoute 404 "" := by decide +kernel

/-- 103, 102, 103 and then 404: the final status is what is recorded and what the client sees -/
example : (RW.run [103, 102, 103, 404]).code = 404 ∧ clientView (RW.run [103, 102, 103, 404]).sentHeaders = ([103, 102, 103], 404) := by
  decide +kernel

end Fabio.Props.C07
