import Fabio.Model.C15Cmd
import Fabio.Props.C15
/-!
C15 — the command line as typed: `config.parse` (pre-pass) and `flag.FlagSet.Parse` (tokenisation) composed
with `load`.  The theorems of `Props/C15.lean` start from the command line *after* tokenisation (a list of
`(name, value)`); the ones here say that every accepted spelling of an assignment — `-name=value`,
`--name=value`, `-name value`, `--name value`, `-flag`, `--flag` — delivers exactly that list, so precedence and
source equivalence hold for the command line as the user types it.
-/
namespace Fabio.Props.C15Cmd
open Fabio Fabio.Model.C15

/-! ### the pre-pass never panics -/

theorem parseLoop_total (args acc : List Str) (path : Str) : (parseLoop args acc path).isPanic = false := by
  fun_induction parseLoop args acc path <;> simp_all [Outcome.isPanic]

/-- **`parse` is total** on every argument vector that has a program name (arbitrary arguments, `-cfg` as the
last argument, empty and quoted paths): a result or `errInvalidConfig`, never an index panic. -/
theorem parse_total (prog : Str) (more : List Str) : (parsePre (prog :: more)).isPanic = false := by
  simp [parsePre, parseLoop_total]

/-- arguments the pre-pass does not recognise pass through unchanged, in order -/
theorem parseLoop_other (args acc : List Str) (path : Str) (h : ∀ a ∈ args, preClass a = .other) :
    parseLoop args acc path = .ok (.ok { rest := acc.reverse ++ args, path := path }) := by
  induction args generalizing acc with
  | nil => simp [parseLoop]
  | cons a t ih =>
    have ha : preClass a = .other := h a (by simp)
    have step : parseLoop (a :: t) acc path = parseLoop t (a :: acc) path := by
      rw [parseLoop.eq_def]; simp [ha]
    rw [step, ih (a :: acc) (fun b hb => h b (by simp [hb]))]
    simp

/-! ### when is an argument left alone by the pre-pass -/

theorem isPrefixOf_append_cases (w p s : Str) (h : w.isPrefixOf (p ++ s) = true) :
    w.isPrefixOf p = true ∨ p.isPrefixOf w = true := by
  induction w generalizing p with
  | nil => left; simp
  | cons a w ih =>
    cases p with
    | nil => right; simp
    | cons b p =>
      simp only [List.cons_append, List.isPrefixOf_cons_cons, Bool.and_eq_true] at h ⊢
      rcases ih p h.2 with h' | h'
      · left; exact ⟨h.1, h'⟩
      · right
        have hab := h.1
        simp only [beq_iff_eq] at hab ⊢
        exact ⟨hab.symm, h'⟩

/-- `p` (an argument up to and including its `=`) can not be completed to something the pre-pass recognises -/
def eqFormSafe (p : Str) : Bool :=
  p.contains '=' &&
  ["-cfg=".toList, "--cfg=".toList, "-test.".toList].all (fun w => !w.isPrefixOf p && !p.isPrefixOf w)

theorem preClass_of_eqFormSafe (p s : Str) (h : eqFormSafe p = true) : preClass (p ++ s) = .other := by
  simp only [eqFormSafe, Bool.and_eq_true, List.all_cons, List.all_nil, Bool.not_eq_true',
    Bool.and_true] at h
  obtain ⟨heq, ⟨h1a, h1b⟩, ⟨h2a, h2b⟩, ⟨h3a, h3b⟩⟩ := h
  have hmem : '=' ∈ p ++ s := by
    simp only [List.contains_eq_mem, decide_eq_true_eq] at heq
    exact List.mem_append_left _ heq
  have np : ∀ w : Str, w.isPrefixOf p = false → p.isPrefixOf w = false → ¬ (w.isPrefixOf (p ++ s) = true) := by
    intro w hw hp hc
    rcases isPrefixOf_append_cases w p s hc with h' | h' <;> simp_all
  have ne : ∀ w : Str, '=' ∉ w → p ++ s ≠ w := fun w hw e => hw (e ▸ hmem)
  unfold preClass
  rw [if_neg, if_neg, if_neg, if_neg, if_neg]
  · exact np _ h3a h3b
  · exact np _ h2a h2b
  · exact np _ h1a h1b
  · intro h'; rcases h' with h' | h' <;> exact ne _ (by decide) h'
  · intro h'; rcases h' with h' | h' | h' <;> exact ne _ (by decide) h'

/-! ### tokenisation of a spelled assignment -/

/-- a flag name the flag package can carry: not empty, does not start with `-` or `=`, contains no `=` -/
def nameOK : Str → Bool
  | [] => false
  | c :: cs => c != '-' && c != '=' && !cs.contains '='

theorem splitAtEq_eq (seen cs v : Str) (h : '=' ∉ cs) :
    splitAtEq seen (cs ++ '=' :: v) = (seen.reverse ++ cs, some v) := by
  induction cs generalizing seen with
  | nil => simp [splitAtEq]
  | cons c cs ih =>
    have hc : c ≠ '=' := fun e => h (by simp [e])
    have hcs : '=' ∉ cs := fun e => h (by simp [e])
    simp [splitAtEq, hc, ih _ hcs]

theorem splitAtEq_none (seen cs : Str) (h : '=' ∉ cs) : splitAtEq seen cs = (seen.reverse ++ cs, none) := by
  induction cs generalizing seen with
  | nil => simp [splitAtEq]
  | cons c cs ih =>
    have hc : c ≠ '=' := fun e => h (by simp [e])
    have hcs : '=' ∉ cs := fun e => h (by simp [e])
    simp [splitAtEq, hc, ih _ hcs]

theorem classifyName_eq (n v : Str) (h : nameOK n = true) : classifyName (n ++ '=' :: v) = .flag n (some v) := by
  cases n with
  | nil => simp [nameOK] at h
  | cons c cs =>
    simp only [nameOK, Bool.and_eq_true, bne_iff_ne, ne_eq, Bool.not_eq_true', List.contains_eq_mem,
      decide_eq_false_iff_not] at h
    simp [classifyName, h.1.1, h.1.2, splitAtEq_eq [c] cs v h.2]

theorem classifyName_bare (n : Str) (h : nameOK n = true) : classifyName n = .flag n none := by
  cases n with
  | nil => simp [nameOK] at h
  | cons c cs =>
    simp only [nameOK, Bool.and_eq_true, bne_iff_ne, ne_eq, Bool.not_eq_true', List.contains_eq_mem,
      decide_eq_false_iff_not] at h
    simp [classifyName, h.1.1, h.1.2, splitAtEq_none [c] cs h.2]

/-- both dash counts, for any argument body that starts with an acceptable name character -/
theorem classifyArg_body (c : Char) (cs : Str) (hc : c ≠ '-') :
    classifyArg ('-' :: c :: cs) = classifyName (c :: cs) ∧
    classifyArg ('-' :: '-' :: c :: cs) = classifyName (c :: cs) := by
  simp [classifyArg, hc]

theorem nameOK_cons (n : Str) (h : nameOK n = true) : ∃ c cs, n = c :: cs ∧ c ≠ '-' := by
  cases n with
  | nil => simp [nameOK] at h
  | cons c cs =>
    simp only [nameOK, Bool.and_eq_true, bne_iff_ne, ne_eq] at h
    exact ⟨c, cs, rfl, h.1.1⟩

/-- a spelled assignment is well-formed for a flag set: the name is registered, the form fits the flag's kind
(no `-name value` for a boolean flag, `-flag` only for a boolean flag and meaning `true`), and the flag's `Set`
accepts the value -/
def wf (formal : Str → Option Bool) (accepts : Str → Str → Bool) (x : Str × Str × Form) : Prop :=
  nameOK x.1 = true ∧ accepts x.1 x.2.1 = true ∧
  (match x.2.2 with
   | .eq1 | .eq2 => (formal x.1).isSome
   | .split1 | .split2 => formal x.1 = some false
   | .bare1 | .bare2 => formal x.1 = some true ∧ x.2.1 = "true".toList)

theorem tokenise_spell (formal : Str → Option Bool) (accepts : Str → Str → Bool)
    (xs : List (Str × Str × Form)) (acc : List (Str × Str)) (h : ∀ x ∈ xs, wf formal accepts x) :
    tokenise formal accepts (spell xs) acc =
      .ok { pairs := acc.reverse ++ xs.map (fun x => (x.1, x.2.1)), positional := [] } := by
  induction xs generalizing acc with
  | nil => simp [spell, tokenise]
  | cons x t ih =>
    obtain ⟨n, v, f⟩ := x
    obtain ⟨hn, hacc, hf⟩ := h (n, v, f) (by simp)
    have ht := fun a => ih a (fun y hy => h y (by simp [hy]))
    obtain ⟨c, cs, rfl, hc⟩ := nameOK_cons n hn
    have hb := classifyArg_body c cs hc
    have hbe := classifyArg_body c (cs ++ '=' :: v) hc
    have ce := classifyName_eq (c :: cs) v hn
    have cb := classifyName_bare (c :: cs) hn
    simp only [List.cons_append] at ce
    cases f with
    | eq1 =>
      simp only at hf
      cases hfm : formal (c :: cs) with
      | none => simp [hfm] at hf
      | some b =>
        cases b <;>
          simp [spell, spellOne, tokenise, hbe.1, ce, hfm, hacc, ht]
    | eq2 =>
      simp only at hf
      cases hfm : formal (c :: cs) with
      | none => simp [hfm] at hf
      | some b =>
        cases b <;>
          simp [spell, spellOne, tokenise, hbe.2, ce, hfm, hacc, ht]
    | split1 =>
      simp only at hf
      simp [spell, spellOne, tokenise, hb.1, cb, hf, hacc, ht]
    | split2 =>
      simp only at hf
      simp [spell, spellOne, tokenise, hb.2, cb, hf, hacc, ht]
    | bare1 =>
      simp only at hf
      obtain ⟨hf1, rfl⟩ := hf
      simp [spell, spellOne, tokenise, hb.1, cb, hf1, ht]
      simpa using hacc
    | bare2 =>
      simp only at hf
      obtain ⟨hf1, rfl⟩ := hf
      simp [spell, spellOne, tokenise, hb.2, cb, hf1, ht]
      simpa using hacc

/-! ### names that are safe on the command line (evaluated on the regenerated flag table in `C15Facts`) -/

/-- for every name: it is a name the flag package can carry, and neither `-name`, `--name` nor anything that
starts with `-name=` / `--name=` is taken by the pre-pass -/
def namesCmdlineSafe (names : List Str) : Bool :=
  names.all (fun n => nameOK n &&
    decide (preClass ('-' :: n) = .other) && decide (preClass ('-' :: '-' :: n) = .other) &&
    eqFormSafe (('-' :: n) ++ ['=']) && eqFormSafe (('-' :: '-' :: n) ++ ['=']))

/-- the value of a `-name value` spelling is an argument of its own for the pre-pass -/
def splitValuesPlain (xs : List (Str × Str × Form)) : Prop :=
  ∀ x ∈ xs, (x.2.2 = .split1 ∨ x.2.2 = .split2) → preClass x.2.1 = .other

theorem spell_other (names : List Str) (hs : namesCmdlineSafe names = true) (xs : List (Str × Str × Form))
    (hx : ∀ x ∈ xs, x.1 ∈ names) (hv : splitValuesPlain xs) : ∀ a ∈ spell xs, preClass a = .other := by
  induction xs with
  | nil => simp [spell]
  | cons x t ih =>
    obtain ⟨n, v, f⟩ := x
    have hn : n ∈ names := hx (n, v, f) (by simp)
    simp only [namesCmdlineSafe, List.all_eq_true, Bool.and_eq_true, decide_eq_true_eq] at hs
    obtain ⟨⟨⟨⟨_, h1⟩, h2⟩, h3⟩, h4⟩ := hs n hn
    have e1 : ∀ s, preClass ((('-' :: n) ++ ['=']) ++ s) = .other := fun s => preClass_of_eqFormSafe _ s h3
    have e2 : ∀ s, preClass ((('-' :: '-' :: n) ++ ['=']) ++ s) = .other := fun s => preClass_of_eqFormSafe _ s h4
    have iht := ih (fun y hy => hx y (by simp [hy])) (fun y hy => hv y (by simp [hy]))
    intro a ha
    simp only [spell, List.mem_append] at ha
    rcases ha with ha | ha
    · cases f <;> simp only [spellOne, List.mem_cons, List.not_mem_nil, or_false] at ha
      · subst ha; simpa using e1 v
      · subst ha; simpa using e2 v
      · rcases ha with rfl | rfl
        · exact h1
        · exact hv (n, a, .split1) (by simp) (by simp)
      · rcases ha with rfl | rfl
        · exact h2
        · exact hv (n, a, .split2) (by simp) (by simp)
      · subst ha; exact h1
      · subst ha; exact h2
    · exact iht a ha

/--
**Every spelling of an assignment list reaches the flag set as that list** (statement with the one hypothesis the
code forces, `splitValuesPlain`):

for every flag set, every list of assignments `(name, value)` over names that pass `namesCmdlineSafe`, each
spelled in any form that fits its flag — `-name=value`, `--name=value`, `-name value`, `--name value`, and for
booleans `-name`, `--name` — the pre-pass hands all arguments on unchanged with no properties path and the flag
package calls `Set(name, value)` for exactly these assignments in this order, with nothing left over.

The full statement ("for every value") is false for the two-argument forms: the pre-pass reads the value as an
argument of its own.  `split_value_prepass_word` is the witness, replayed on the real code from
`corpus/c15.cmdline.jsonl` (`-ui.title -v` prints the version; `-ui.title=-v` sets the title).
-/
theorem cmdline_spelling_partial (formal : Str → Option Bool) (accepts : Str → Str → Bool) (names : List Str)
    (hs : namesCmdlineSafe names = true) (prog : Str) (xs : List (Str × Str × Form))
    (hx : ∀ x ∈ xs, x.1 ∈ names) (hwf : ∀ x ∈ xs, wf formal accepts x) (hv : splitValuesPlain xs) :
    parsePre (prog :: spell xs) = .ok (.ok { rest := spell xs, path := [] }) ∧
    tokenise formal accepts (spell xs) [] = .ok { pairs := xs.map (fun x => (x.1, x.2.1)), positional := [] } := by
  constructor
  · simp [parsePre, parseLoop_other _ _ _ (spell_other names hs xs hx hv)]
  · simpa using tokenise_spell formal accepts xs [] hwf

/-- the hypothesis is forced: a value that is itself a pre-pass word, given in the two-argument form, is taken
by the pre-pass (here: the version flag), while the one-argument form delivers it -/
theorem split_value_prepass_word :
    parsePre ["fabio".toList, "-ui.title".toList, "-v".toList] = .ok .version ∧
    parsePre ["fabio".toList, "-ui.title=-v".toList] = .ok (.ok { rest := ["-ui.title=-v".toList], path := [] }) := by
  constructor <;> decide

/-- **`Load` does not depend on how the command line is spelled**: two spellings of the same assignments give
the same result (configuration, error, exit) for every environment block. -/
theorem load_spelling_irrelevant (E : FlagEnv) (names : List Str) (hs : namesCmdlineSafe names = true)
    (prog : Str) (xs ys : List (Str × Str × Form)) (environ : List Str)
    (hsame : xs.map (fun x => (x.1, x.2.1)) = ys.map (fun x => (x.1, x.2.1)))
    (hx : ∀ x ∈ xs, x.1 ∈ names) (hy : ∀ y ∈ ys, y.1 ∈ names)
    (hwx : ∀ x ∈ xs, wf E.formal E.accepts x) (hwy : ∀ y ∈ ys, wf E.formal E.accepts y)
    (hvx : splitValuesPlain xs) (hvy : splitValuesPlain ys) :
    loadArgv E (prog :: spell xs) environ = loadArgv E (prog :: spell ys) environ := by
  obtain ⟨px, tx⟩ := cmdline_spelling_partial E.formal E.accepts names hs prog xs hx hwx hvx
  obtain ⟨py, ty⟩ := cmdline_spelling_partial E.formal E.accepts names hs prog ys hy hwy hvy
  simp only [loadArgv, px, py, tx, ty, hsame]

/-- **Precedence for the command line as typed**: whatever the spelling, the flag `name` resolves to the *last*
assignment of it on the command line, before any environment variable or the file. -/
theorem cmdline_wins_as_typed (formal : Str → Option Bool) (accepts : Str → Str → Bool) (names : List Str)
    (hs : namesCmdlineSafe names = true) (xs : List (Str × Str × Form))
    (hx : ∀ x ∈ xs, x.1 ∈ names) (hwf : ∀ x ∈ xs, wf formal accepts x) (hv : splitValuesPlain xs)
    (name dflt v : Str) (environ : List Str) (props : Option Map)
    (hlast : cmdLookup name (xs.map (fun x => (x.1, x.2.1))) = some v) :
    ∃ tok, tokenise formal accepts (spell xs) [] = .ok tok ∧
      resolve name dflt { cmd := tok.pairs, environ := environ, prefixes := ["FABIO_".toList, []], props := props }
        = .ok (.cmdline, v) := by
  obtain ⟨_, tx⟩ := cmdline_spelling_partial formal accepts names hs [] xs hx hwf hv
  refine ⟨_, tx, ?_⟩
  rw [Fabio.Props.C15.precedence_load name dflt _ _ _ rfl]
  simp [hlast, Fabio.Props.C15.expected]

/-- **`Load` is total** on every argument vector with a program name: version, configuration, error or the
flag package's exit — never a panic — for every environment block and whatever the properties loader returns. -/
theorem loadArgv_total (E : FlagEnv) (prog : Str) (more environ : List Str) :
    (loadArgv E (prog :: more) environ).isPanic = false := by
  unfold loadArgv
  have hp := parse_total prog more
  cases hpp : parsePre (prog :: more) with
  | panic w => rw [hpp] at hp; cases hp
  | ok r =>
    cases r with
    | version => rfl
    | invalidConfig => rfl
    | ok pre =>
      simp only
      split
      · rfl
      · rename_i props _
        split
        · rfl
        · rfl
        · rename_i tok _
          have := Fabio.Props.C15.load_total E.unq E.atoi E.extra E.flags
            { cmd := tok.pairs, environ := environ, prefixes := ["FABIO_".toList, []], props := props }
          split
          · rename_i w hw; rw [hw] at this; cases this
          · rfl
          · rfl

/-! ### Non-vacuity -/
section Examples
deriving instance DecidableEq for Except
def formalEx (n : Str) : Option Bool :=
  if n = "insecure".toList then some true
  else if n = "ui.title".toList ∨ n = "proxy.maxconn".toList then some false else none
def namesEx : List Str := ["insecure".toList, "ui.title".toList, "proxy.maxconn".toList]
def xsEx : List (Str × Str × Form) :=
  [("ui.title".toList, "a".toList, .split2), ("insecure".toList, "true".toList, .bare1),
   ("proxy.maxconn".toList, "5".toList, .eq1), ("ui.title".toList, "-x=y".toList, .eq2),
   ("insecure".toList, "false".toList, .eq1)]

example : namesCmdlineSafe namesEx = true := by decide
/-- the pre-pass names themselves are not safe: `-v`, `-cfg`, a flag called `test.x` -/
example : namesCmdlineSafe ["v".toList] = false ∧ namesCmdlineSafe ["cfg".toList] = false
    ∧ namesCmdlineSafe ["test.x".toList] = false ∧ namesCmdlineSafe ["a=b".toList] = false := by decide
example : spell xsEx = ["--ui.title".toList, "a".toList, "-insecure".toList, "-proxy.maxconn=5".toList,
    "--ui.title=-x=y".toList, "-insecure=false".toList] := by decide
example : tokenise formalEx (fun _ _ => true) (spell xsEx) [] =
    .ok { pairs := xsEx.map (fun x => (x.1, x.2.1)), positional := [] } := by decide
/-- a boolean flag does not take the next argument: parsing stops there and later flags are lost -/
example : tokenise formalEx (fun _ _ => true) ["-insecure".toList, "false".toList, "-ui.title=x".toList] [] =
    .ok { pairs := [("insecure".toList, "true".toList)], positional := ["false".toList, "-ui.title=x".toList] } := by decide
example : tokenise formalEx (fun _ _ => true) ["-ui.title".toList] [] = .error (.needsArg "ui.title".toList) := by decide
example : tokenise formalEx (fun _ _ => true) ["-nosuch=1".toList] [] = .error (.undefined "nosuch".toList) := by decide
example : tokenise formalEx (fun _ _ => true) ["---x".toList] [] = .error (.badSyntax "---x".toList) := by decide
example : tokenise formalEx (fun _ _ => true) ["--".toList, "-ui.title=x".toList] [] =
    .ok { pairs := [], positional := ["-ui.title=x".toList] } := by decide
/-- the pre-pass: `-cfg` with and without `=`, quotes trimmed, test flags dropped, the last path counts -/
example : parsePre ["fabio".toList, "-cfg".toList, "a".toList, "-x".toList, "-test.v".toList, "--cfg='b'".toList] =
    .ok (.ok { rest := ["-x".toList], path := "b".toList }) := by decide
example : parsePre ["fabio".toList, "-x".toList, "-cfg".toList] = .ok .invalidConfig := by decide
example : parsePre ["fabio".toList, "-cfg=''".toList] = .ok .invalidConfig := by decide
example : (parsePre []).isPanic = true := by decide
end Examples

end Fabio.Props.C15Cmd
