import Fabio.Generated.C15
import Fabio.Props.C15
/-! Obligations over the facts regenerated from `/repo` on every run (C15). -/
namespace Fabio.Props.C15Facts
open Fabio Fabio.Model.C15 Fabio.Props.C15
open Fabio.Generated.C15

/-- there is a flag table -/
theorem flag_table_nonempty : 0 < flagTable.length := by decide +kernel

/-- every flag name is ASCII and contains no `=` (so `NAME=value` splits at the right place and ASCII
upper-casing is Go's upper-casing) -/
theorem flag_names_ascii_no_eq :
    (flagNames ++ prefixes).all (fun n => n.all (fun c => decide (c.toNat < 128) && c != '=')) = true := by decide +kernel

/-- the prefixes `Load` passes to `load`, in order -/
theorem prefix_list : prefixStrings = ["FABIO_", ""] ∧ prefixes = ["FABIO_".toList, []]
    ∧ loadReceivesEnvironAndPrefixes = true := by decide

/-- the model's mangling, applied to the table, gives exactly the names Go's `strings.ToUpper` /
`strings.Replace` give (computed by the extractor; each name packed into one number by `enc`) -/
theorem mangled_table :
    (envNames prefixes flagNames).map (fun x => enc x.2) = mangledCodes := by decide +kernel

theorem mangled_distinct : allDistinct mangledCodes = true := by decide +kernel

/-- **No two registered options share an environment variable** (either prefix), on the table as it is in
the source now. -/
theorem env_names_injective :
    ∀ p ∈ prefixes, ∀ q ∈ prefixes, ∀ f ∈ flagNames, ∀ g ∈ flagNames, envName p f = envName q g → p = q ∧ f = g :=
  env_names_injective_generic prefixes flagNames (by unfold noCollision; rw [mangled_table]; exact mangled_distinct)

/-- `ParseFlags`: command line first, the environment map, marking what the command line set, and per flag:
skip if set, environment (prefixes in list order), then properties. -/
theorem parse_order :
    parseOrder = ["cmdline", "env-map", "mark-cmdline-set", "skip-if-set", "env", "props"] := by decide

/-- the environment-variable name is `ToUpper(prefix + Replace(name, ".", "_"))`, looked up in a map keyed by
`ToUpper(entry name)`; an entry without `=` is guarded before `p[1]` (D20) -/
theorem env_name_mangling : envNameUpperCased = true ∧ envNameDotsReplaced = true ∧ envKeyUpperCased = true := by decide
theorem env_entry_guarded : envEntryWithoutEqGuarded = true := by decide

/-- the options the model treats as kvslice-valued are the ones the source hands to the kvslice parsers -/
theorem kvslice_flags : kvsliceFlags = ["bgp.peers", "proxy.addr", "proxy.auth", "proxy.cs", "ui.addr"] := by decide

/-- the enumerations `validate` checks -/
theorem enum_validations : strategyValues = ["rr", "rnd"] ∧ matcherValues = ["prefix", "glob", "iprefix"]
    ∧ uiAccessValues = ["ro", "rw"] := by decide

/-- `load` rejects a glob cache size below 1 (D21), and the cache is built from that field only -/
theorem glob_cache_size_validated :
    (globCacheSizeRejectedWhen = "cfg.GlobCacheSize <= 0" ∨ globCacheSizeRejectedWhen = "cfg.GlobCacheSize < 1")
    ∧ 0 < globCacheBuiltFromConfig := by decide

/-- **Every integer-indexed expression of `config/load.go` and `config/flagset.go` keeps its guard**: the
dominating length check of each index site, as extracted from the source.  `kvs[0]` (the `ui.addr` listener,
modelled by the checked `ui[0]?` in `validate`) is reached only after `len(kvs) != 1 ⇒ error`; `p[1]` of an
environment entry only after `len(p) != 2 ⇒ continue` (D20).  `cmdline[0]` has no guard inside `load`: its
caller `parse` builds `cmdline` from `args[:1]` after `len(args) < 1 ⇒ panic("missing exec name")`, i.e. `Load`
requires the program name — a stated precondition.  Weakening or removing a guard changes this list. -/
theorem index_sites_guarded : indexGuards =
    [("ParseFlags", "p[0]", "exit-if len(p) != 2"),
     ("ParseFlags", "p[1]", "exit-if len(p) != 2"),
     ("load", "cmdline[0]", "none"),
     ("load", "kvs[0]", "exit-if len(kvs) != 1"),
     ("parse", "args[i+1]", "exit-if i >= len(args)-1"),
     ("parse", "args[i]", "loop-while i < len(args)"),
     ("parse", "path[0]", "after-case path == \"\""),
     ("parse", "path[0]", "after-case path == \"\""),
     ("parseCertSource", "p[0]", "exit-if len(p) != 2"),
     ("parseCertSource", "p[1]", "exit-if len(p) != 2")] := by decide

end Fabio.Props.C15Facts
