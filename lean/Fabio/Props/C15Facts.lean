import Fabio.Generated.C15
import Fabio.Props.C15
import Fabio.Props.C15Cmd
import Fabio.Props.C15Listen
/-! Obligations over the facts regenerated from `/repo` on every run (C15). -/
namespace Fabio.Props.C15Facts
open Fabio Fabio.Model.C15 Fabio.Props.C15
open Fabio.Generated.C15

/-- there is a flag table -/
theorem flag_table_nonempty : 0 < flagTable.length := by decide +kernel

/-- every flag name is ASCII and contains no `=` (so `NAME=value` splits at the right place and ASCII
upper-casing is Go's upper-casing) -/
theorem flag_names_ascii_no_eq :
    (flagNames ++ prefixes).all (fun n => n.all (fun c => decide (c.toNat < 128) && c != '=')) = true := by decide +kernel

/-- the prefixes `Load` passes to `load`, in order -/
theorem prefix_list : prefixStrings = ["FABIO_", ""] ∧ prefixes = ["FABIO_".toList, []]
    ∧ loadReceivesEnvironAndPrefixes = true := by decide

/-- the model's mangling, applied to the table, gives exactly the names Go's `strings.ToUpper` /
`strings.Replace` give (computed by the extractor; each name packed into one number by `enc`) -/
theorem mangled_table :
    (envNames prefixes flagNames).map (fun x => enc x.2) = mangledCodes := by decide +kernel

theorem mangled_distinct : allDistinct mangledCodes = true := by decide +kernel

/-- **No two registered options share an environment variable** (either prefix), on the table as it is in
the source now. -/
theorem env_names_injective :
    ∀ p ∈ prefixes, ∀ q ∈ prefixes, ∀ f ∈ flagNames, ∀ g ∈ flagNames, envName p f = envName q g → p = q ∧ f = g :=
  env_names_injective_generic prefixes flagNames (by unfold noCollision; rw [mangled_table]; exact mangled_distinct)

-- `parse_order` and `env_name_mangling` (shape of the sequential code of `ParseFlags`) are change detectors:
-- `Props/C15Pins.lean`.
/-- an environment entry without `=` is guarded before the second part of the split is read (D20) -/
theorem env_entry_guarded :
    ("@strings.SplitN[1]", "exit-if len(@strings.SplitN) != 2") ∈ indexGuards := by decide

/-- the options the model treats as kvslice-valued are the ones the source hands to the kvslice parsers -/
theorem kvslice_flags : kvsliceFlags = ["bgp.peers", "proxy.addr", "proxy.auth", "proxy.cs", "ui.addr"] := by decide

/-- the enumerations `validate` checks (sets of literals the option is compared with, sorted) -/
theorem enum_validations : strategyValues = ["rnd", "rr"] ∧ matcherValues = ["glob", "iprefix", "prefix"]
    ∧ uiAccessValues = ["ro", "rw"] := by decide

/-- on `load`'s path there is an unconditional top-level `if <cfg>.GlobCacheSize <= 0 { return nil, err }`
(or `< 1`, or the mirrored comparison) (D21), and the cache is built from that field only -/
theorem glob_cache_size_validated :
    globCacheSizeBelowOneRejected = true ∧ 0 < globCacheBuiltFromConfig := by decide

/-- **Every integer-indexed expression on the path of `Load` / `ParseFlags` keeps its guard**: the set of
(index site, dominating length check) pairs of all functions reachable from `config.Load` and
`FlagSet.ParseFlags`, with variables printed by role (`p<i>` i-th parameter, `r<i>` i-th named result,
`@<callee>` local assigned from that call, `@i` loop counter), so that renaming, extracting or inlining code does
not change it but weakening or dropping a guard does.
`@parseKVSlice.0[0]` (the `ui.addr` listener `kvs[0]`, modelled by the checked `ui[0]?` in `validate`) is reached
only after `len ≠ 1 ⇒ return`; `@strings.SplitN[1]` (environment entry, certificate header) only after
`len ≠ 2 ⇒ continue/return`; `p0[@i+1]`, `p0[@i]`, `r1[0]` are `parse`'s accesses to `args` and `path`.
`p0[0]` is `cmdline[0]` in `load`: no guard there — `Load` requires the program name (`parse` panics
deliberately on an empty `args`), a stated precondition. -/
theorem index_sites_guarded : indexGuards =
    [("@parseKVSlice.0[0]", "exit-if len(@parseKVSlice.0) != 1"),
     ("@strings.SplitN[0]", "exit-if len(@strings.SplitN) != 2"),
     ("@strings.SplitN[1]", "exit-if len(@strings.SplitN) != 2"),
     ("p0[0]", "none"),
     ("p0[@i+1]", "exit-if @i >= len(p0)-1"),
     ("p0[@i]", "loop-while @i < len(p0)"),
     ("r1[0]", "after-case r1 == \"\"")] := by decide

/-! ### the command line as typed (round 4) -/

/-- the options a user can set on the command line: every registered flag except the three the pre-pass of
`config.Load` takes for itself (`-v`, `-version`, `-cfg`) -/
def settableNames : List Str :=
  flagNames.filter (fun n => n != "v".toList && n != "version".toList && n != "cfg".toList)

/-- **every settable option's name is safe on the command line**: the flag package can carry it (not empty, no
leading `-`/`=`, no `=` inside) and neither `-name`, `--name` nor anything starting with `-name=`/`--name=` is
taken by the pre-pass (no option is called `test.…`).  Hypothesis `hs` of `C15Cmd.cmdline_spelling_partial`. -/
theorem flag_names_cmdline_safe : Fabio.Props.C15Cmd.namesCmdlineSafe settableNames = true := by decide +kernel

/-- the pre-pass flags are registered too (so that `-h` lists them), and they are exactly the names excluded -/
theorem prepass_flags_registered :
    ["v".toList, "version".toList, "cfg".toList].all (fun n => flagNames.contains n) = true := by decide +kernel

/-- the flag kinds the tokeniser model needs: `formal name` = is it registered, and is it boolean -/
def formal (n : Str) : Option Bool :=
  match flagTable.find? (fun r => r.1 == n) with
  | some r => some (r.2.1 == "bool")
  | none => none

/-- **the command line as typed, on the real table**: any spelling of any assignments to settable options that
fits their kinds reaches `ParseFlags` as exactly that list (instance of `cmdline_spelling_partial`). -/
theorem cmdline_spelling_here (accepts : Str → Str → Bool) (prog : Str) (xs : List (Str × Str × Form))
    (hx : ∀ x ∈ xs, x.1 ∈ settableNames) (hwf : ∀ x ∈ xs, Fabio.Props.C15Cmd.wf formal accepts x)
    (hv : Fabio.Props.C15Cmd.splitValuesPlain xs) :
    parsePre (prog :: spell xs) = .ok (.ok { rest := spell xs, path := [] }) ∧
    tokenise formal accepts (spell xs) [] = .ok { pairs := xs.map (fun x => (x.1, x.2.1)), positional := [] } :=
  Fabio.Props.C15Cmd.cmdline_spelling_partial formal accepts settableNames flag_names_cmdline_safe prog xs hx hwf hv

/-- `main` hands the process's own argument vector and environment block to `config.Load` — the two inputs
every theorem here quantifies over — and `Load` is not called in any other way -/
theorem main_loads_args_and_environ : mainLoadsArgsAndEnviron = true := by decide

/-! ### listeners (round 4) -/

/-- the protocol names of the model are the case literals of the protocol switch in `parseListen`, and that
switch rejects every other name -/
theorem listen_protos_model :
    listenProtosAccepted.all (fun p => acceptedProtos.contains p.toList) = true ∧
    acceptedProtos.all (fun p => listenProtosAccepted.contains (String.ofList p)) = true ∧
    listenProtoOthersRejected = true := by decide

/-- **`main.startServers` has a case for every protocol name `parseListen` accepts** (every switch over a
listener's `.Proto` in package main; its `default:` ends the process) -/
theorem listen_protos_handled :
    (∀ p ∈ acceptedProtos, p ∈ listenProtosHandled.map String.toList) ∧ 0 < listenProtoSwitches := by decide

/-- **an accepted listener can be started, on the source as it is now** -/
theorem accepted_listener_startable_here (E : ListenEnv) (cfg : Map) (l : LListen)
    (h : parseListenM E cfg = .ok l) : startable (listenProtosHandled.map String.toList) l = true :=
  Fabio.Props.C15Listen.accepted_listener_startable E _ listen_protos_handled.1 cfg l h

/-- **an accepted configuration's listeners can be started, on the source as it is now** (instance of
`C15Listen.accepted_config_listeners_startable` with the case literals of `main.go`) -/
theorem accepted_config_listeners_startable_here (unq : Str → Option Str) (atoi : Str → Int) (X : ListenExt)
    (rest : List Resolved → Option Err) (flags : List (Str × Str)) (s : Sources) (cfg : Cfg)
    (h : loadModel unq atoi (listenExtra unq X rest) flags s = .ok (.ok cfg)) :
    ∃ ls ui, listenersOf unq X cfg.values = .ok (ls, ui) ∧
      (∀ l ∈ ls, startable (listenProtosHandled.map String.toList) l = true ∧ l.addr ≠ []) ∧
      (∀ l, ui = some l → startable (listenProtosHandled.map String.toList) l = true ∧ l.addr ≠ []) :=
  Fabio.Props.C15Listen.accepted_config_listeners_startable unq atoi X rest flags s _ listen_protos_handled.1 cfg h

end Fabio.Props.C15Facts
