import Fabio.Props.C03Compose
/-!
C03 — the second caller of `Table.Lookup`: `GrpcProxyInterceptor.lookup` (`proxy/grpc_handler.go`) builds a
synthetic request — Host = the single value of the `dsthost` metadata key (no value or several: empty), URL =
`url.ParseRequestURI(fullMethodName)`, headers = the metadata, no TLS — and calls `Lookup` with the configured
picker, matcher, glob cache and glob switch (fact `lookup_callers`). The model of that glue and the property's
sentences for a gRPC call; the stream `c03.grpc` compares `grpcLookup` with the real interceptor.
-/
namespace Fabio.Props.C03Grpc
open Fabio Fabio.Model.Route Fabio.Model.C03 Fabio.Props.C03 Fabio.Props.C03Compose

/-- `getDestinationHostFromMetadata`: the value of `dsthost` when there is exactly one -/
def dstHost : List Str → Str
  | [h] => h
  | _ => []

/-- the request the interceptor hands to `Lookup` (the method name is taken as the path: `c03.grpc` skips
method names that `url.ParseRequestURI` would not return unchanged as the path) -/
def grpcReq (dsthosts : List Str) (method : Str) : Req := ⟨dstHost dsthosts, false, method⟩

/-- `GrpcProxyInterceptor.lookup` -/
def grpcLookup (cfg : Cfg) (t : Table) (dsthosts : List Str) (method : Str) : Option (Str × Route × Target) :=
  Lookup cfg t (grpcReq dsthosts method)

/-- **grpc_routed_like_http.** A gRPC call with one `dsthost` value is routed exactly like the plain HTTP request
with that Host and the method name as path. -/
theorem grpc_routed_like_http (cfg : Cfg) (t : Table) (h method : Str) :
    grpcLookup cfg t [h] method = Lookup cfg t ⟨h, false, method⟩ := rfl

/-- without `dsthost`, or with several values, the call is routed like a request with an empty Host: only
host-less routes and patterns that match the empty string can answer -/
theorem grpc_without_dsthost (cfg : Cfg) (t : Table) (method : Str) (a b : Str) (rest : List Str) :
    grpcLookup cfg t [] method = Lookup cfg t ⟨[], false, method⟩ ∧
    grpcLookup cfg t (a :: b :: rest) method = Lookup cfg t ⟨[], false, method⟩ := ⟨rfl, rfl⟩

/-- **grpc_lookup_sound.** The property's first sentence for a gRPC call. -/
theorem grpc_lookup_sound (cfg : Cfg) (t : Table) (dsthosts : List Str) (method : Str) (hpick : PickOK cfg.pick)
    {h : Str} {r : Route} {tg : Target} (hres : grpcLookup cfg t dsthosts method = some (h, r, tg)) :
    (h = [] ∨ HostMatches cfg t (grpcReq dsthosts method) h) ∧ r ∈ t.get (lowerL h) ∧
      cfg.pathMatch method r.path = true ∧ tg ∈ r.targets :=
  lookup_sound cfg t (grpcReq dsthosts method) hpick hres

/-- **grpc_most_specific.** For every table `NewTableCustom` returns: the answer to a gRPC call is a candidate
and no candidate is more specific (the four clauses of `most_specific_built`). -/
theorem grpc_most_specific (cfg : Cfg) (t : Table) (dsthosts : List Str) (method : Str) (hb : Built t)
    (hns : NoSkip cfg) (hpick : PickOK cfg.pick) {h : Str} {r : Route} {tg : Target}
    (hres : grpcLookup cfg t dsthosts method = some (h, r, tg)) :
    (Candidate cfg t (grpcReq dsthosts method) (lowerL h) r ∧ tg ∈ r.targets) ∧
    ∀ k r', Candidate cfg t (grpcReq dsthosts method) k r' →
      (KeyMatches cfg (grpcReq dsthosts method) k → KeyMatches cfg (grpcReq dsthosts method) (lowerL h)) ∧
      (KeyMatches cfg (grpcReq dsthosts method) k → isGlobPat k = false → isGlobPat h = false) ∧
      (KeyMatches cfg (grpcReq dsthosts method) k → ∀ Y T : Str, 2 ≤ Y.length → hostPart k = Y ++ T →
          ¬ (isGlobPat h = true ∧ hostPart h = '*' :: T)) ∧
      (∀ pg kind, kind ≠ MatcherKind.glob → cfg.pathMatch = pathMatch pg kind → k = lowerL h →
          r'.path.length ≤ r.path.length) :=
  most_specific_built cfg t (grpcReq dsthosts method) hb hns hpick hres

/-- the letter case of `dsthost` does not matter -/
theorem grpc_host_case_insensitive (cfg : Cfg) (t : Table) (h method : Str) :
    grpcLookup cfg t [lowerL h] method = grpcLookup cfg t [h] method :=
  host_case_insensitive cfg t h false method

-- non-vacuity: the example of the source comment (`dsthost=betatest`, route `betatest/grpcpackage.servicename`)
example : dstHost ["betatest".toList] = "betatest".toList ∧ dstHost [] = [] ∧ dstHost ["a".toList, "b".toList] = [] := by decide
example : (grpcLookup (Ex.cfg .pfx false)
      [("betatest".toList, [Ex.rt "betatest" "/grpcpackage.servicename" "beta"]), ([], [Ex.rt "" "/grpcpackage.servicename" "prod"])]
      ["betatest".toList] "/grpcpackage.servicename/Method".toList).map (fun a => String.ofList a.2.2.service) = some "beta" := by decide
example : (grpcLookup (Ex.cfg .pfx false)
      [("betatest".toList, [Ex.rt "betatest" "/grpcpackage.servicename" "beta"]), ([], [Ex.rt "" "/grpcpackage.servicename" "prod"])]
      [] "/grpcpackage.servicename/Method".toList).map (fun a => String.ofList a.2.2.service) = some "prod" := by decide

end Fabio.Props.C03Grpc
