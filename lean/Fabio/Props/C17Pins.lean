import Fabio.Generated.C17
import Fabio.Model.C17
/-!
CHANGE DETECTORS for C17 (`"pins_module"` in checks/C17.json): the shape of the sequential, deterministic code of
`proxy/gzip/gzip_handler.go` whose input/output behaviour the correspondence streams compare with the model on
every run. When one of these stops building nothing is claimed broken — the streams run at the widened budget and
decide. Each statement names the streams that carry the tie. (The traces are canonical — see
`tools/factgen/c17.go` — so renaming, extracting/inlining unexported helpers, if/else ↔ switch ↔ early return
leave them unchanged.)
-/
namespace Fabio.Props.C17Pins
open Fabio Fabio.Model.C17
open Fabio.Generated.C17 Fabio.Xlate

/-- the header names, encodings and separators the model uses occur as literals — `c17.resp` (header names in
every casing, Accept/Accept-Encoding universes) -/
theorem literals_present :
    [hVary, hAccept, hAcceptEncoding, hContentEncoding, hContentType, hContentLength, encGzip,
     ",", ";", "=", "q", "Q", "text/event-stream"].all (fun l => stringLiterals.contains l) = true := by decide

/-- every header-name literal is already canonical, so the direct map index `Header()["Content-Type"]` in `Write`
and `Header().Get/Set/Del` talk about the same key — `c17.resp` (Content-Type set under `content-type`,
`CONTENT-TYPE`, then an implicit write) -/
theorem literals_canonical :
    (stringLiterals.filter (fun l => isPrefix "Accept".toList l.toList || isPrefix "Content-".toList l.toList ||
        l == "Vary")).all
      (fun k => canonKey k == k) = true := by decide

/-- the handler: add `Vary`; wrap exactly when `acceptsGzip` (= `@2`) holds and the method is not HEAD; otherwise
the bare writer — `c17.resp` (HEAD, refused/absent Accept-Encoding), `c17.proxy` -/
theorem handler_trace_pinned :
    handlerTrace = ["c0.Header().Add(\"Vary\", \"Accept-Encoding\")",
      "@2 && c1.Method != http.MethodHead => defer NewGzipResponseWriter(c0, p1).Close()",
      "@2 && c1.Method != http.MethodHead => p0.ServeHTTP(NewGzipResponseWriter(c0, p1), c1)",
      "(!@2 || c1.Method == http.MethodHead) => p0.ServeHTTP(c0, c1)"] := by rfl

/-- `acceptsGzip` (`@2`, with `zeroWeight` = `@1`), `bodyAllowedForStatus` (`@3`) and `isCompressable` (`@4`) as
inlined — `c17.resp`, `c17.seq` (expressions that look at content type parameters), `c17.proxy` -/
theorem helpers_pinned :
    inlinedDefs = ["@1 = {range strings.Split(strings.Cut(elem(strings.Split(c1.Header.Get(\"Accept-Encoding\"), \",\")), \";\")#1, \";\") => strings.TrimSpace(strings.Cut(elem(strings.Split(strings.Cut(elem(strings.Split(c1.Header.Get(\"Accept-Encoding\"), \",\")), \";\")#1, \";\")), \"=\")#0); range strings.Split(strings.Cut(elem(strings.Split(c1.Header.Get(\"Accept-Encoding\"), \",\")), \";\")#1, \";\") && (strings.TrimSpace(strings.Cut(elem(strings.Split(strings.Cut(elem(strings.Split(c1.Header.Get(\"Accept-Encoding\"), \",\")), \";\")#1, \";\")), \"=\")#0) == \"q\" || strings.TrimSpace(strings.Cut(elem(strings.Split(strings.Cut(elem(strings.Split(c1.Header.Get(\"Accept-Encoding\"), \",\")), \";\")#1, \";\")), \"=\")#0) == \"Q\") => return strconv.ParseFloat(strings.TrimSpace(strings.Cut(elem(strings.Split(strings.Cut(elem(strings.Split(c1.Header.Get(\"Accept-Encoding\"), \",\")), \";\")#1, \";\")), \"=\")#1), 64)#1 == nil && strconv.ParseFloat(strings.TrimSpace(strings.Cut(elem(strings.Split(strings.Cut(elem(strings.Split(c1.Header.Get(\"Accept-Encoding\"), \",\")), \";\")#1, \";\")), \"=\")#1), 64)#0 == 0; return false}",
      "@2 = {range []string{\"text/event-stream\"} && strings.Contains(c1.Header.Get(\"Accept\"), elem([]string{\"text/event-stream\"})) => return false; range strings.Split(c1.Header.Get(\"Accept-Encoding\"), \",\") && strings.TrimSpace(strings.Cut(elem(strings.Split(c1.Header.Get(\"Accept-Encoding\"), \",\")), \";\")#0) == \"gzip\" => return !@1; return false}",
      "@3 = {return p0 != http.StatusNoContent && p0 != http.StatusNotModified}",
      "@4 = {recv.Header().Get(\"Content-Encoding\") == \"\" => return recv.F[*regexp.Regexp].MatchString(recv.Header().Get(\"Content-Type\")); recv.Header().Get(\"Content-Encoding\") != \"\" => return false}"] := by rfl

/-- `WriteHeader`: a 1xx status is passed on and nothing else happens; otherwise, only while undecided: if the
status allows a body and the response is compressable — delete Content-Length, set Content-Encoding: gzip, take a
writer from the pool, reset it onto the response, select it — else select the response itself; finally forward
the status — `c17.resp` (late calls, 1xx scripts, stale Content-Length), `c17.seq`/`c17.pool` (a recycled writer
that was not reset writes into the previous response) -/
theorem writeHeader_trace_pinned :
    writeHeaderTrace = ["p0 >= 100 && p0 <= 199 => recv.ResponseWriter.WriteHeader(p0)",
      "(p0 < 100 || p0 > 199) && recv.F[io.Writer] == nil && @3 && @4 => recv.Header().Del(\"Content-Length\")",
      "(p0 < 100 || p0 > 199) && recv.F[io.Writer] == nil && @3 && @4 => recv.Header().Set(\"Content-Encoding\", \"gzip\")",
      "(p0 < 100 || p0 > 199) && recv.F[io.Writer] == nil && @3 && @4 => recv.F[*gzip.Writer] = V[sync.Pool].Get().(*gzip.Writer)",
      "(p0 < 100 || p0 > 199) && recv.F[io.Writer] == nil && @3 && @4 => recv.F[*gzip.Writer].Reset(recv.ResponseWriter)",
      "(p0 < 100 || p0 > 199) && recv.F[io.Writer] == nil && @3 && @4 => recv.F[io.Writer] = recv.F[*gzip.Writer]",
      "(p0 < 100 || p0 > 199) && recv.F[io.Writer] == nil && (!@3 || !@4) => recv.F[io.Writer] = recv.ResponseWriter",
      "(p0 < 100 || p0 > 199) => recv.ResponseWriter.WriteHeader(p0)"] := by rfl

/-- `Write`: while undecided, fill in a sniffed Content-Type when the map has none (key presence, not value),
then `WriteHeader(200)`; then write to whatever was selected — `c17.resp` (implicit writes with absent, empty and
valueless Content-Type) -/
theorem write_trace_pinned :
    writeTrace = ["recv.F[io.Writer] == nil && !recv.Header()[\"Content-Type\"]#1 => recv.Header().Set(\"Content-Type\", http.DetectContentType(p0))",
      "recv.F[io.Writer] == nil => recv.WriteHeader(http.StatusOK)",
      "return recv.F[io.Writer].Write(p0)"] := by rfl

/-- `Close` as written (the order Close-then-Put is an obligation: `C17Facts.close_then_put`) — `c17.resp`,
`c17.pool` -/
theorem close_trace_pinned :
    closeTrace = ["recv.F[*gzip.Writer] != nil => recv.F[*gzip.Writer].Close()",
      "recv.F[*gzip.Writer] != nil => V[sync.Pool].Put(recv.F[*gzip.Writer])",
      "recv.F[*gzip.Writer] != nil => recv.F[*gzip.Writer] = nil"] := by rfl

/-- the writer's fields are stored to under `WriteHeader` only — and the gzip field is cleared by `Close` —, and their
types — `c17.resp` (decided once), `c17.fault` (a handler that calls `Close` itself) -/
theorem decision_stores_pinned :
    fieldStores = ["WriteHeader: F[*gzip.Writer]", "WriteHeader: F[io.Writer]", "WriteHeader: F[io.Writer]", "Close: F[*gzip.Writer]"] ∧
    writerFieldTypes = ["*gzip.Writer", "*regexp.Regexp", "io.Writer"] := by decide

/-- the proxy installs the handler exactly when an expression is configured, with that expression — `c17.proxy`
(real `HTTPProxy.ServeHTTP` with and without the option, through the real `config.Load`) -/
theorem proxy_wraps_when_configured :
    proxyWrap = ["recv.Config.GZIPContentTypes != nil => gzip.NewGzipHandler(_, recv.Config.GZIPContentTypes)"] := by rfl

/-- the expression the streams use most is the documented one; the built-in default is "off" — `c17.proxy`
(empty option value) -/
theorem doc_pattern_pinned :
    docPattern = "^(text/.*|application/(javascript|json|font-woff|xml)|.*\\+(json|xml))(;.*)?$" ∧
    defaultSetsGzipPattern = false := by decide

/-! ### the tie by translation

`Fabio.Generated.C17.XBodyAllowed` is produced on every run by the Go→Lean translator (`tools/factgen/xlate.go`) from
the current `proxy/gzip/gzip_handler.go`: it IS what `bodyAllowedForStatus` says now. The theorem proves it equal —
for every status code — to the model's `bodyAllowedForStatus`, the function `compress_iff`/`proxy_compress_iff` are
about. A change to the Go function changes the generated definition and the proof is re-checked against it; the
streams carry the tie as well (`c17.resp`, `c17.proxy`: statuses 204/304 and the others), hence a change detector.
(`acceptsGzip`/`zeroWeight` are outside the translator's subset: `strings.Split/Cut/TrimSpace/Contains`, `range` over
a `[]string` result, `strconv.ParseFloat`, methods of `http.Header`.) -/

/-- the translated source function was inside the translator's subset (no stub) -/
theorem bodyAllowed_in_subset : XBodyAllowed.translated = true := rfl

/-- **bodyAllowed_translated.** For every status code the translated `bodyAllowedForStatus` returns — without panic —
what the model's function returns. -/
theorem bodyAllowed_translated (code : Nat) :
    XBodyAllowed.run { p0 := Int.ofNat code } = .ok (bodyAllowedForStatus code, { p0 := Int.ofNat code }) := by
  simp only [XBodyAllowed.run, Xlate.run, XBodyAllowed.body, Xlate.ret, bodyAllowedForStatus]
  congr 2
  have h1 : ((Int.ofNat code != (204 : Int)) = (code != 204)) := by
    simp only [bne, Int.ofNat_eq_natCast]
    congr 1
    rw [show (204 : Int) = ((204 : Nat) : Int) from rfl]
    exact decide_eq_decide.mpr Int.ofNat_inj
  have h2 : ((Int.ofNat code != (304 : Int)) = (code != 304)) := by
    simp only [bne, Int.ofNat_eq_natCast]
    congr 1
    rw [show (304 : Int) = ((304 : Nat) : Int) from rfl]
    exact decide_eq_decide.mpr Int.ofNat_inj
  rw [h1, h2]

example : XBodyAllowed.run { p0 := 204 } = .ok (false, { p0 := 204 }) := bodyAllowed_translated 204
example : XBodyAllowed.run { p0 := 304 } = .ok (false, { p0 := 304 }) := bodyAllowed_translated 304
example : XBodyAllowed.run { p0 := 200 } = .ok (true, { p0 := 200 }) := bodyAllowed_translated 200

end Fabio.Props.C17Pins
