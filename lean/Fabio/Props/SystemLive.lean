import Fabio.Props.System
/-!
System-level composition, the "if" half (round 4): a healthy instance that advertises a prefix is *reachable*.

`System.forwarded_only_to_eligible_instance` is the "only if" direction (traffic reaches nobody else). Here the converse,
from C01Compose `table_complete` (every expressible routing tag of an eligible instance has its target in the service
table — whatever else is registered) and the unified model's `noroute_iff_no_candidate` (C03 `lookup_complete`):

* `abs_nonempty_route`             — a non-empty abstraction entry is a stored route: `abs t h p ≠ []` gives a route with path
                                     `p` among `t.get h`;
* `eligible_instance_is_reachable` — registry state R, an instance eligible in R, one of its routing tags that is expressible,
                                     with source (h, p): every request whose host matches key `h` (as C03 defines it) and
                                     whose path matches `p` under the configured matcher is NOT answered with the no-route
                                     page — it is routed (and then gated, redirected or forwarded by `serveHTTP`).
-/
namespace Fabio.Props.SystemLive
open Fabio Fabio.Model Fabio.Model.ServeHTTP
open Fabio.Model.Route (Env RouteDef Table Target Route findRoute)
open Fabio.Model.C05Spec (abs key newTarget targetsAt Inv)
open Fabio.Model.C01 Fabio.Model.C01Compose Fabio.Props.C01Compose
open Fabio.Model.C14 (Intent intents wantDef expressibleB)
open Fabio.Model.Parse (loadTable ParseFloat)

theorem abs_nonempty_route {t : Table} {h p : List Char} {y : Target} (hy : y ∈ abs t h p) :
    ∃ ro ∈ t.get h, ro.path = p ∧ y ∈ ro.targets := by
  unfold abs targetsAt Table.route at hy
  cases hf : findRoute (t.get h) p with
  | none => rw [hf] at hy; cases hy
  | some ro =>
    rw [hf] at hy
    unfold findRoute at hf
    exact ⟨ro, List.mem_of_find?_eq_some hf, by simpa using List.find?_some hf, hy⟩

section
variable (env : Env) (pf : ParseFloat) (ccfg : Fabio.Model.C14.Cfg) (st : List (List Char)) (strict : Bool)
variable (checks : List Check) (catalog : List Char → List Instance)

theorem eligible_instance_is_reachable (wf : WellFormed ccfg checks catalog) (t : Table)
    (hload : loadTable env pf (svcText env pf ccfg st strict checks catalog) = .ok t)
    (i : Instance) (he : Eligible st strict checks catalog i)
    (it : Intent) (hit : it ∈ intents ccfg (regOf i)) (hx : expressibleB env pf it = true)
    (pcfg : ServeHTTP.Cfg) (hpick : Props.C03.PickOK pcfg.lookup.pick) (r : Request)
    (hskip : skipFor pcfg r = fun _ => false) :
    ∃ d, wantDef pf it = some d ∧
      (Props.C03.HostMatches { pcfg.lookup with skip := skipFor pcfg r } t (req03 r) (key d.src).1 ∨ (key d.src).1 = [] →
       pcfg.lookup.pathMatch (req03 r).path (key d.src).2 = true →
       serveHTTP pcfg t r ≠ .noRoute (C07.noRouteStatus pcfg.noRouteStatus) pcfg.noRouteHTML) := by
  obtain ⟨d, u, hw, _, y, hy, _⟩ :=
    table_complete env pf ccfg st strict checks catalog wf t hload i he it hit hx
  refine ⟨d, hw, ?_⟩
  intro hhost hpath hno
  obtain ⟨ro, hro, hp, _⟩ := abs_nonempty_route hy
  have hne : Props.C03.NoEmptyRoutes t := (Fabio.Props.C03Compose.built_loadTable (env := env) hload).noEmpty
  have hkl : lowerL (key d.src).1 = (key d.src).1 := Fabio.Props.C03Compose.key_lower d.src
  apply (Props.ServeHTTP.noroute_iff_no_candidate pcfg t r hskip hne hpick).1 hno
  refine ⟨(key d.src).1, ro, ?_, by rw [hkl]; exact hro, by rw [hp]; exact hpath⟩
  rcases hhost with h | h
  · exact Or.inr h
  · exact Or.inl h

end

/-! ### non-vacuity: the two-node registry; a request for foo.com/x is routed -/
namespace Demo
open Fabio.Props.System.Demo (pcfgW reqW tableW)

example : serveHTTP pcfgW tableW reqW ≠ .noRoute (C07.noRouteStatus pcfgW.noRouteStatus) pcfgW.noRouteHTML := by
  intro h
  have : (serveHTTP pcfgW tableW reqW).cls = "forward" := by decide +kernel
  rw [h] at this
  simp [Outcome.cls] at this

end Demo

end Fabio.Props.SystemLive
