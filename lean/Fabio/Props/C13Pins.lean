import Fabio.Generated.C13
import Fabio.Model.C13
/-!
CHANGE DETECTORS for C13 (`"pins_module"` in checks/C13.json): the shape of sequential, deterministic code whose
input/output behaviour a correspondence stream compares with the model on every run. When one of these stops
building nothing is claimed broken — the streams run at the widened budget with a second seed and decide. Each
statement names the streams that carry the tie. (Moved here from `C13Facts.lean` in round 3.)
-/
namespace Fabio.Props.C13Pins
open Fabio Fabio.Model.C13 Fabio.Generated.C13

/-- extraction problems in the pinned code (a construct the extractor no longer recognises) -/
theorem no_extraction_notes : pinNotes = [] := by decide

/-- the pseudo-variables of `BuildRedirectURL` — its string literals that hold a `$` — are the model's.
Tie: `c13.build`, `c13.sequence`, `c13.http`, `c13.tag` compare the built URL and the Location for every template form
(a new fast path, a renamed variable or an extra variable shows as a disagreement: seeded m9). -/
theorem build_literals_pinned :
    buildVarLits.map (fun s => lit s) = [vHost, vPath, vSlashPath] := by decide

/-- the redirect option: `strconv.Atoi` of the `"redirect"` option, bounds 300 and 399, code reset to 0 on an
`Atoi` error (D27) and outside the bounds. Tie: `c13.build` / `c13.tag` evaluate `codeSpecOpt` (the plain decimal
reading of the option text) on the real target for every code 290..409 and the `Atoi` edge spellings (seeded m7). -/
theorem redirect_code_bounds_pinned :
    codeLo = 300 ∧ codeHi = 399 ∧ codeAtoiOfRedirectOption = true ∧ codeResetOnAtoiError = true ∧
    codeResetWhenOutOfRange = true := by decide

/-- the redirect branch of `ServeHTTP`: taken when the target has a code and a URL, and
`http.Redirect(w, r, target.RedirectURL.String(), target.RedirectCode)`. Tie: `c13.http` (status, Location and hit
counter over real connections, with and without the headers that choose the upstream handler), `c13.sequence`, `c13.tag`. -/
theorem serve_redirect_call_pinned :
    serveRedirectCond = ["call:Lookup.RedirectCode != 0", "call:Lookup.RedirectURL != nil"] ∧
    serveRedirectArgs = ["p0", "p1", "call:Lookup.RedirectURL.String()", "call:Lookup.RedirectCode"] := by decide

/-- the self-redirect skip compares scheme, host and path of the copy's redirect URL with the request, drops the
skipped target (D18c) and continues; the request's scheme comes from a helper of the request: `X-Forwarded-Proto`,
else the connection (D18). Tie: `c13.http` (plain and TLS listeners × header, self-pointing templates:
`skip-then-proxy`, `skip-then-noroute`, "no answered redirect points at the request itself"), `c13.sequence`, `c13.tag`. -/
theorem self_redirect_comparison_pinned :
    lookupSelfRedirectContinues = true ∧ lookupSkipClearsTarget = true ∧
    lookupSelfRedirectComparisons = ["copy.RedirectURL.Host == p0.Host", "copy.RedirectURL.Path == p0.URL.Path",
      "copy.RedirectURL.Scheme == helper(p0)"] ∧
    requestSchemeLits = ["", "X-Forwarded-Proto", "http", "https"] ∧ requestSchemeReadsTLS = true := by decide

end Fabio.Props.C13Pins
