import Fabio.Model.C11Load
import Fabio.Props.C11
/-!
C11, second part — the loaders behind a certificate source (`loadURL`, `loadPath`) and what the watcher does
with their answers: an HTTP or path source that fails, or fails partly, publishes nothing and leaves the
working set in force; a successful load holds exactly the announced / selected files.
Nothing is bounded: every list, every server behaviour (`fetch` is an arbitrary function), every tree (every
sequence of walk invocations), every history.
-/
namespace Fabio.Props.C11Load
open Fabio Fabio.Model.C11 Fabio.Props.C11

/-! ## 1. `loadURL` -/

section url
variable {B : Type}

/-- A fetch of the repaired loader fails exactly when the request failed or the answer is not `200 OK`. -/
theorem fetchBody_none_iff (f : Fetch B) :
    fetchBody true f = none ↔ f = .fail ∨ ∃ s b, f = .resp s b ∧ s ≠ 200 := by
  cases f with
  | fail => simp [fetchBody]
  | resp s b => by_cases h : s = 200 <;> simp [fetchBody, h]

theorem fetchBody_some_iff (f : Fetch B) (b : B) : fetchBody true f = some b ↔ f = .resp 200 b := by
  cases f with
  | fail => simp [fetchBody]
  | resp s b' => by_cases h : s = 200 <;> simp [fetchBody, h]

/-- `(url, body)` for a listed name whose fetch succeeds -/
def entryOf (chk : Bool) (fetch : Name → Fetch B) (b p : Name) : Option (Name × B) :=
  (fetchBody chk (fetch (b ++ p))).map fun x => (b ++ p, x)

def nonEmpty (ps : List Name) : List Name := ps.filter fun p => !p.isEmpty

theorem nonEmpty_cons_empty (p : Name) (ps : List Name) (h : p.isEmpty = true) : nonEmpty (p :: ps) = nonEmpty ps := by
  simp [nonEmpty, h]

theorem nonEmpty_cons_ne (p : Name) (ps : List Name) (h : p.isEmpty = false) :
    nonEmpty (p :: ps) = p :: nonEmpty ps := by
  simp [nonEmpty, h]

theorem fetchNames_cons_empty (chk : Bool) (fetch : Name → Fetch B) (b p : Name) (ps : List Name) (acc : PemMap B)
    (h : p.isEmpty = true) : fetchNames chk fetch b (p :: ps) acc = fetchNames chk fetch b ps acc := by
  rw [fetchNames]; simp [h]

theorem fetchNames_cons_fail (chk : Bool) (fetch : Name → Fetch B) (b p : Name) (ps : List Name) (acc : PemMap B)
    (h : p.isEmpty = false) (hf : fetchBody chk (fetch (b ++ p)) = none) :
    fetchNames chk fetch b (p :: ps) acc = ([b ++ p], none) := by
  rw [fetchNames]; simp [h, hf]

theorem fetchNames_cons_ok (chk : Bool) (fetch : Name → Fetch B) (b p : Name) (ps : List Name) (acc : PemMap B)
    (x : B) (h : p.isEmpty = false) (hf : fetchBody chk (fetch (b ++ p)) = some x) :
    fetchNames chk fetch b (p :: ps) acc =
      ((b ++ p) :: (fetchNames chk fetch b ps ((b ++ p, x) :: acc)).1,
       (fetchNames chk fetch b ps ((b ++ p, x) :: acc)).2) := by
  rw [fetchNames]; simp [h, hf]

/-- The loop over the list: it succeeds iff every non-empty line can be fetched, and then the map holds one
entry per non-empty line (later lines inserted later), nothing else. -/
theorem fetchNames_result (chk : Bool) (fetch : Name → Fetch B) (b : Name) (ps : List Name) (acc : PemMap B) :
    (fetchNames chk fetch b ps acc).2 =
      if (nonEmpty ps).all (fun p => (fetchBody chk (fetch (b ++ p))).isSome)
      then some (((nonEmpty ps).filterMap (entryOf chk fetch b)).reverse ++ acc)
      else none := by
  induction ps generalizing acc with
  | nil => simp [fetchNames, nonEmpty]
  | cons p ps ih =>
    cases hp : p.isEmpty with
    | true => rw [fetchNames_cons_empty _ _ _ _ _ _ hp, nonEmpty_cons_empty _ _ hp]; exact ih acc
    | false =>
      rw [nonEmpty_cons_ne _ _ hp]
      cases hf : fetchBody chk (fetch (b ++ p)) with
      | none => rw [fetchNames_cons_fail _ _ _ _ _ _ hp hf]; simp [hf]
      | some x =>
        rw [fetchNames_cons_ok _ _ _ _ _ _ x hp hf]
        simp only [ih, List.all_cons, hf, Option.isSome_some, Bool.true_and, List.filterMap_cons, entryOf,
          Option.map_some, List.reverse_cons, List.append_assoc, List.singleton_append]

/-- One fetch per listed name, in the order of the list, and none after the first one that fails. -/
theorem fetchNames_requests_prefix (chk : Bool) (fetch : Name → Fetch B) (b : Name) (ps : List Name)
    (acc : PemMap B) : (fetchNames chk fetch b ps acc).1 <+: (nonEmpty ps).map (b ++ ·) := by
  induction ps generalizing acc with
  | nil => simp [fetchNames, nonEmpty]
  | cons p ps ih =>
    cases hp : p.isEmpty with
    | true => rw [fetchNames_cons_empty _ _ _ _ _ _ hp, nonEmpty_cons_empty _ _ hp]; exact ih acc
    | false =>
      rw [nonEmpty_cons_ne _ _ hp]
      cases hf : fetchBody chk (fetch (b ++ p)) with
      | none => rw [fetchNames_cons_fail _ _ _ _ _ _ hp hf]; simp
      | some x =>
        rw [fetchNames_cons_ok _ _ _ _ _ _ x hp hf]
        simp only [List.map_cons]
        exact (List.prefix_cons_inj _).mpr (ih _)

theorem fetchNames_requests_ok (chk : Bool) (fetch : Name → Fetch B) (b : Name) (ps : List Name) (acc : PemMap B)
    (h : (fetchNames chk fetch b ps acc).2 ≠ none) :
    (fetchNames chk fetch b ps acc).1 = (nonEmpty ps).map (b ++ ·) := by
  induction ps generalizing acc with
  | nil => simp [fetchNames, nonEmpty]
  | cons p ps ih =>
    cases hp : p.isEmpty with
    | true =>
      rw [fetchNames_cons_empty _ _ _ _ _ _ hp] at h ⊢
      rw [nonEmpty_cons_empty _ _ hp]; exact ih acc h
    | false =>
      rw [nonEmpty_cons_ne _ _ hp]
      cases hf : fetchBody chk (fetch (b ++ p)) with
      | none => rw [fetchNames_cons_fail _ _ _ _ _ _ hp hf] at h; simp at h
      | some x =>
        rw [fetchNames_cons_ok _ _ _ _ _ _ x hp hf] at h ⊢
        simp only [List.map_cons, List.cons.injEq, true_and]
        exact ih _ h

/-- **A failing or partly failing HTTP source fails the whole load.** The repaired `loadURL` returns an error
exactly when the URL is not empty and: the URL cannot be parsed, or the request for the list fails or is answered
with anything but `200 OK`, or the same happens for at least one of the listed files. -/
theorem loadURL_err_iff (base : Name → Option Name) (fetch : Name → Fetch B) (text : B → List Char)
    (listURL : Name) :
    loadURL true base fetch text listURL = .err ↔
      listURL ≠ [] ∧
      (base listURL = none ∨ fetchBody true (fetch listURL) = none ∨
       ∃ b list, base listURL = some b ∧ fetchBody true (fetch listURL) = some list ∧
         ∃ p ∈ listedNames (text list), fetchBody true (fetch (b ++ p)) = none) := by
  unfold loadURL loadURLRun
  by_cases hu : listURL = []
  · simp [hu]
  · have hu' : listURL.isEmpty = false := by simpa using hu
    simp only [hu', Bool.false_eq_true, if_false, ne_eq, hu, not_false_eq_true, true_and]
    cases hb : base listURL with
    | none => simp
    | some b =>
      cases hl : fetchBody true (fetch listURL) with
      | none => simp
      | some list =>
        simp only [fetchNames_result, reduceCtorEq, Option.some.injEq, exists_and_left, exists_eq_left', false_or]
        by_cases hall : (nonEmpty (splitOn '\n' (text list))).all
            (fun p => (fetchBody true (fetch (b ++ p))).isSome) = true
        · simp only [hall, if_true, reduceCtorEq, false_iff, not_exists, not_and]
          intro p hp hn
          have := List.all_eq_true.mp hall p (by simpa [listedNames, nonEmpty] using hp)
          simp [hn] at this
        · simp only [hall, Bool.false_eq_true, if_false, true_iff]
          have hall' : ∃ p, p ∈ nonEmpty (splitOn '\n' (text list)) ∧ fetchBody true (fetch (b ++ p)) = none := by
            simpa using hall
          obtain ⟨p, hp, hn⟩ := hall'
          exact ⟨p, by simpa [listedNames, nonEmpty] using hp, hn⟩

/-- **An answer set is exactly the listed files.** When the repaired `loadURL` delivers a map, the list was
answered with `200 OK`, every listed file was, and the map holds for every non-empty line `p` of the list the key
`base + p` with the body of *its* `200 OK` answer — and no other key (no error page, nothing unlisted). -/
theorem loadURL_ok_exact (base : Name → Option Name) (fetch : Name → Fetch B) (text : B → List Char)
    (listURL : Name) (m : PemMap B) (h : loadURL true base fetch text listURL = .blocks (some m)) :
    ∃ b list, base listURL = some b ∧ fetch listURL = .resp 200 list ∧
      (∀ p ∈ listedNames (text list), ∃ body, fetch (b ++ p) = .resp 200 body ∧ (b ++ p, body) ∈ m) ∧
      (∀ k body, (k, body) ∈ m → ∃ p ∈ listedNames (text list), k = b ++ p ∧ fetch k = .resp 200 body) := by
  unfold loadURL loadURLRun at h
  by_cases hu : listURL.isEmpty = true
  · simp [hu] at h
  · simp only [hu, Bool.false_eq_true, if_false] at h
    cases hb : base listURL with
    | none => simp [hb] at h
    | some b =>
      cases hl : fetchBody true (fetch listURL) with
      | none => simp [hb, hl] at h
      | some list =>
        simp only [hb, hl, fetchNames_result] at h
        by_cases hall : (nonEmpty (splitOn '\n' (text list))).all
            (fun p => (fetchBody true (fetch (b ++ p))).isSome) = true
        · simp only [hall, if_true, List.append_nil, LoadResult.blocks.injEq, Option.some.injEq] at h
          refine ⟨b, list, rfl, (fetchBody_some_iff _ _).mp hl, ?_, ?_⟩
          · intro p hp
            have hp' : p ∈ nonEmpty (splitOn '\n' (text list)) := by simpa [listedNames, nonEmpty] using hp
            have hs := List.all_eq_true.mp hall p hp'
            obtain ⟨body, hbody⟩ := Option.isSome_iff_exists.mp hs
            refine ⟨body, (fetchBody_some_iff _ _).mp hbody, ?_⟩
            rw [← h, List.mem_reverse, List.mem_filterMap]
            exact ⟨p, hp', by simp [entryOf, hbody]⟩
          · intro k body hk
            rw [← h, List.mem_reverse, List.mem_filterMap] at hk
            obtain ⟨p, hp, he⟩ := hk
            simp only [entryOf, Option.map_eq_some_iff, Prod.mk.injEq] at he
            obtain ⟨x, hx, rfl, rfl⟩ := he
            exact ⟨p, by simpa [listedNames, nonEmpty] using hp, rfl, (fetchBody_some_iff _ _).mp hx⟩
        · simp [hall] at h

/-- The requests `loadURL` makes: the list first, then one per listed name in list order, stopping after the
first failure; on success exactly one per listed name. -/
theorem loadURL_requests (chk : Bool) (base : Name → Option Name) (fetch : Name → Fetch B) (text : B → List Char)
    (listURL b : Name) (list : B) (hu : listURL ≠ []) (hb : base listURL = some b)
    (hl : fetchBody chk (fetch listURL) = some list) :
    ∃ rest, (loadURLRun chk base fetch text listURL).1 = listURL :: rest ∧
      rest <+: (listedNames (text list)).map (b ++ ·) ∧
      ((loadURLRun chk base fetch text listURL).2 ≠ .err → rest = (listedNames (text list)).map (b ++ ·)) := by
  have hu' : listURL.isEmpty = false := by simpa using hu
  refine ⟨(fetchNames chk fetch b (splitOn '\n' (text list)) []).1, ?_, ?_, ?_⟩
  · simp [loadURLRun, hu', hb, hl]
  · exact fetchNames_requests_prefix chk fetch b _ []
  · intro h
    apply fetchNames_requests_ok
    intro hn
    simp [loadURLRun, hu', hb, hl, hn] at h

/-- An empty URL is "no source": the nil map, no request, no error. -/
theorem loadURL_empty (chk : Bool) (base : Name → Option Name) (fetch : Name → Fetch B) (text : B → List Char) :
    loadURLRun chk base fetch text [] = ([], .blocks none) := by simp [loadURLRun]

end url

/-! ## 2. `loadPath` -/

section path
variable {B : Type}

/-- the entry a visit contributes -/
def addOf (strict : Bool) (maxSize : Nat) (root : Name) (v : Visit B) : Option (Name × B) :=
  match pathCallback strict maxSize root v with
  | .add k b => some (k, b)
  | _ => none

theorem walkFold_result (strict : Bool) (maxSize : Nat) (root : Name) (vs : List (Visit B)) (acc : PemMap B) :
    walkFold strict maxSize root vs acc =
      if vs.all (fun v => !(pathCallback strict maxSize root v).isFail)
      then some ((vs.filterMap (addOf strict maxSize root)).reverse ++ acc) else none := by
  induction vs generalizing acc with
  | nil => simp [walkFold]
  | cons v vs ih =>
    unfold walkFold
    cases hc : pathCallback strict maxSize root v with
    | skip => simp [ih, addOf, hc, CbRes.isFail]
    | fail => simp [hc, CbRes.isFail]
    | add k b => simp [ih, addOf, hc, CbRes.isFail]

/-- The error a visit carries is swallowed: it is on the root and (for the repaired function) says "does not
exist". -/
def swallowed (strict : Bool) (root : Name) (v : Visit B) (e : FsErr) : Bool :=
  v.path = root && (!strict || e == .notExist)

/-- What makes the walk function fail: an error that is not swallowed, or a selected file that cannot be read. -/
theorem pathCallback_fail_iff (strict : Bool) (maxSize : Nat) (root : Name) (v : Visit B) :
    pathCallback strict maxSize root v = .fail ↔
      (∃ e, v.err = some e ∧ swallowed strict root v e = false) ∨
      (selected maxSize v = true ∧ ∃ size, v.kind = .file size none) := by
  unfold pathCallback selected Visit.err swallowed
  cases hk : v.kind with
  | lstatErr e =>
    generalize (decide (v.path = root) && (!strict || e == .notExist)) = c
    cases c <;> simp
  | dir e =>
    cases e with
    | none => simp
    | some e =>
      generalize (decide (v.path = root) && (!strict || e == .notExist)) = c
      cases c <;> simp
  | file size content =>
    by_cases h1 : (ext v.name != sPem || hasDotPrefix v.name) = true
    · simp only [h1, if_true, reduceCtorEq, false_iff]
      simp only [Bool.or_eq_true, bne_iff_ne, ne_eq] at h1
      rcases h1 with h1 | h1 <;> simp [h1]
    · simp only [h1, Bool.false_eq_true, if_false]
      simp only [Bool.or_eq_true, bne_iff_ne, ne_eq, not_or, Decidable.not_not, Bool.not_eq_true] at h1
      by_cases h2 : size > maxSize
      · simp [h2]; omega
      · have h2' : size ≤ maxSize := by omega
        cases content <;> simp [h2, h1.1, h1.2, h2']

theorem pathCallback_add_iff (strict : Bool) (maxSize : Nat) (root : Name) (v : Visit B) (k : Name) (b : B) :
    pathCallback strict maxSize root v = .add k b ↔
      k = v.path ∧ selected maxSize v = true ∧ ∃ size, v.kind = .file size (some b) := by
  unfold pathCallback selected
  cases hk : v.kind with
  | lstatErr e => by_cases h : (decide (v.path = root) && (!strict || e == .notExist)) = true <;> simp [h]
  | dir e =>
    cases e with
    | none => simp
    | some e => by_cases h : (decide (v.path = root) && (!strict || e == .notExist)) = true <;> simp [h]
  | file size content =>
    by_cases h1 : (ext v.name != sPem || hasDotPrefix v.name) = true
    · simp only [h1, if_true, reduceCtorEq, false_iff]
      simp only [Bool.or_eq_true, bne_iff_ne, ne_eq] at h1
      rcases h1 with h1 | h1 <;> simp [h1]
    · simp only [h1, Bool.false_eq_true, if_false]
      simp only [Bool.or_eq_true, bne_iff_ne, ne_eq, not_or, Decidable.not_not, Bool.not_eq_true] at h1
      by_cases h2 : size > maxSize
      · simp [h2]; omega
      · have h2' : size ≤ maxSize := by omega
        cases content with
        | none => simp [h2]
        | some c =>
          simp only [h2, if_false, CbRes.add.injEq, h1.1, h1.2, h2', beq_self_eq_true, Bool.not_false, Bool.and_self,
            decide_true, VisitKind.file.injEq, Option.some.injEq, true_and, exists_eq_left']
          constructor
          · rintro ⟨rfl, rfl⟩; exact ⟨rfl, rfl⟩
          · rintro ⟨rfl, rfl⟩; exact ⟨rfl, rfl⟩

/-- **`loadPath` fails exactly when** (for a non-empty root) some path cannot be stat'ed or some directory not be
listed — unless it is the root itself and the root does not exist — or a selected file (`*.pem`, no dot-file,
not larger than `MaxSize`) cannot be read. -/
theorem loadPath_err_iff (maxSize : Nat) (root : Name) (vs : List (Visit B)) :
    loadPath true maxSize root vs = .err ↔
      root ≠ [] ∧ ∃ v ∈ vs,
        (∃ e, v.err = some e ∧ ¬(v.path = root ∧ e = .notExist)) ∨
        (selected maxSize v = true ∧ ∃ size, v.kind = .file size none) := by
  unfold loadPath
  by_cases hr : root = []
  · simp [hr]
  · have hr' : root.isEmpty = false := by simpa using hr
    have key : ∀ v : Visit B, pathCallback true maxSize root v = .fail ↔
        ((∃ e, v.err = some e ∧ ¬(v.path = root ∧ e = .notExist)) ∨
         (selected maxSize v = true ∧ ∃ size, v.kind = .file size none)) := by
      intro v
      rw [pathCallback_fail_iff]
      simp [swallowed]
    simp only [hr', Bool.false_eq_true, if_false, walkFold_result, List.append_nil, ne_eq, hr, not_false_eq_true,
      true_and]
    by_cases hall : vs.all (fun v => !(pathCallback true maxSize root v).isFail) = true
    · simp only [hall, if_true]
      constructor
      · intro h; cases h
      · rintro ⟨v, hv, hf⟩
        have := List.all_eq_true.mp hall v hv
        simp [(key v).mpr hf, CbRes.isFail] at this
    · simp only [hall, Bool.false_eq_true, if_false, true_iff]
      have hall' : ∃ v, v ∈ vs ∧ (pathCallback true maxSize root v).isFail = true := by simpa using hall
      obtain ⟨v, hv, hf⟩ := hall'
      refine ⟨v, hv, (key v).mp ?_⟩
      cases hc : pathCallback true maxSize root v <;> simp [hc, CbRes.isFail] at hf ⊢

/-- **A loaded directory is exactly the selected files.** The map holds `(path, content)` for every visited
non-directory whose name has the extension `.pem`, does not start with a dot, whose size does not exceed
`MaxSize` — and nothing else: no directory, no other extension, no dot-file, no oversized file. -/
theorem loadPath_ok_exact (strict : Bool) (maxSize : Nat) (root : Name) (vs : List (Visit B)) (m : PemMap B)
    (h : loadPath strict maxSize root vs = .blocks (some m)) :
    ∀ k b, (k, b) ∈ m ↔
      ∃ v ∈ vs, v.path = k ∧ selected maxSize v = true ∧ ∃ size, v.kind = .file size (some b) := by
  unfold loadPath at h
  by_cases hr : root.isEmpty = true
  · simp [hr] at h
  · simp only [hr, Bool.false_eq_true, if_false, walkFold_result, List.append_nil] at h
    by_cases hall : vs.all (fun v => !(pathCallback strict maxSize root v).isFail) = true
    · simp only [hall, if_true, LoadResult.blocks.injEq, Option.some.injEq] at h
      intro k b
      rw [← h, List.mem_reverse, List.mem_filterMap]
      constructor
      · rintro ⟨v, hv, he⟩
        unfold addOf at he
        split at he
        · rename_i k' b' hc
          simp only [Option.some.injEq, Prod.mk.injEq] at he
          obtain ⟨rfl, rfl⟩ := he
          obtain ⟨e, hs, hk⟩ := (pathCallback_add_iff strict maxSize root v _ _).mp hc
          exact ⟨v, hv, e.symm, hs, hk⟩
        · simp at he
      · rintro ⟨v, hv, rfl, hs, hk⟩
        exact ⟨v, hv, by simp [addOf, (pathCallback_add_iff strict maxSize root v v.path b).mpr ⟨rfl, hs, hk⟩]⟩
    · simp [hall] at h

/-- An empty root is "no source": the nil map. -/
theorem loadPath_empty_root (strict : Bool) (maxSize : Nat) (vs : List (Visit B)) :
    loadPath strict maxSize [] vs = .blocks none := by
  simp [loadPath]

/-- A root that does not exist is an empty directory to the code: the empty (non-nil) map, no error. -/
theorem loadPath_missing_root (strict : Bool) (maxSize : Nat) (root name : Name) (hr : root ≠ []) :
    loadPath strict maxSize root ((Root.absent name .notExist : Root B).visits root) = .blocks (some []) := by
  have hr' : root.isEmpty = false := by simpa using hr
  simp [loadPath, hr', Root.visits, walkFold, pathCallback]

/-- A root that exists but cannot be reached or listed is an *error* (since the repair `e63514f`), whatever it holds. -/
theorem loadPath_unreachable_root (maxSize : Nat) (root name : Name) (es : List (Node B)) (hr : root ≠ []) :
    loadPath true maxSize root ((Root.node (.dir name false es)).visits root) = .err ∧
    loadPath true maxSize root ((Root.absent name .other : Root B).visits root) = .err := by
  have hr' : root.isEmpty = false := by simpa using hr
  simp [loadPath, hr', Root.visits, Node.visits, walkFold, pathCallback]

end path

/-! ## 3. Into the watcher: failing sources keep the working set -/

section compose
variable {B M : Type} [DecidableEq M]

omit [DecidableEq M] in
theorem badLoad_err {S : Type} (mk : M → Option S) : badLoad mk (LoadResult.err : LoadResult M) = true := rfl

/-- What the server does during one load: how it answers each URL. -/
abbrev Server (B : Type) := Name → Fetch B

/-- The HTTP source is broken during this load: the list, or one of the files it announces, is not answered with
`200 OK` (error page, redirect without target, connection refused or reset, truncated body). -/
def httpBroken (base : Name → Option Name) (text : B → List Char) (listURL : Name) (srv : Server B) : Prop :=
  base listURL = none ∨ fetchBody true (srv listURL) = none ∨
    ∃ b list, base listURL = some b ∧ fetchBody true (srv listURL) = some list ∧
      ∃ p ∈ listedNames (text list), fetchBody true (srv (b ++ p)) = none

/-- **An HTTP source that answers error pages keeps the working set.** Take any history of loads during each of
which the server fails the list or at least one listed file (any status other than 200, any transport failure,
in any combination and number). The watcher publishes nothing, keeps its state, and every handshake is answered
from the set that was in force before — `bad_material_keeps_working_set` extended through the real loader.
(`canon` turns the loaded map into the material the watcher compares; `mk` is `loadCertificates`; both arbitrary.) -/
theorem http_errors_keep_working_set (sleepOnMakeErr : Bool) (canon : Option (PemMap B) → M)
    (mk : M → Option CertSet) (refresh : Int) (st : St M) (cell : Published)
    (base : Name → Option Name) (text : B → List Char) (listURL : Name) (hu : listURL ≠ [])
    (history : List (Server B)) (hbad : ∀ srv ∈ history, httpBroken base text listURL srv) :
    let script := history.map fun srv => (loadURL true base srv text listURL).map canon
    applyOuts cell (outsOf (trace sleepOnMakeErr mk refresh st script)) = cell ∧
    runSt sleepOnMakeErr mk refresh st script = st ∧
    ∀ server strict, getCertificateP (applyOuts cell (outsOf (trace sleepOnMakeErr mk refresh st script))) server strict
        = getCertificateP cell server strict := by
  intro script
  apply bad_material_keeps_working_set
  intro r hr
  obtain ⟨srv, hs, rfl⟩ := List.mem_map.mp hr
  have : loadURL true base srv text listURL = .err := (loadURL_err_iff base srv text listURL).mpr ⟨hu, hbad srv hs⟩
  rw [this]; rfl

/-- The path source is broken during this load: some path cannot be stat'ed or some directory not be listed (other
than a root that does not exist, which is an empty directory), or a selected file cannot be read. -/
def pathBroken (maxSize : Nat) (root : Name) (vs : List (Visit B)) : Prop :=
  ∃ v ∈ vs, (∃ e, v.err = some e ∧ ¬(v.path = root ∧ e = .notExist)) ∨
    (selected maxSize v = true ∧ ∃ size, v.kind = .file size none)

/-- **A path source that cannot read its directory keeps the working set** — whatever goes wrong: the root
cannot be reached or listed (no permission, a parent that is a file, an I/O error), something below it cannot,
or a selected file cannot be read; in any combination, for any history. (Before the repair `e63514f` this held only
for failures *below* the root: `root_error_lost_the_working_set_before_repair`.) -/
theorem path_errors_keep_working_set (sleepOnMakeErr : Bool) (canon : Option (PemMap B) → M)
    (mk : M → Option CertSet) (refresh : Int) (st : St M) (cell : Published)
    (maxSize : Nat) (root : Name) (hroot : root ≠ [])
    (history : List (List (Visit B))) (hbad : ∀ vs ∈ history, pathBroken maxSize root vs) :
    let script := history.map fun vs => (loadPath true maxSize root vs).map canon
    applyOuts cell (outsOf (trace sleepOnMakeErr mk refresh st script)) = cell ∧
    runSt sleepOnMakeErr mk refresh st script = st ∧
    ∀ server strict, getCertificateP (applyOuts cell (outsOf (trace sleepOnMakeErr mk refresh st script))) server strict
        = getCertificateP cell server strict := by
  intro script
  apply bad_material_keeps_working_set
  intro r hr
  obtain ⟨vs, hs, rfl⟩ := List.mem_map.mp hr
  have : loadPath true maxSize root vs = .err := (loadPath_err_iff maxSize root vs).mpr ⟨hroot, hbad vs hs⟩
  rw [this]; rfl

end compose

/-! ## 4. The excluded points, with witnesses -/

/-- the material of the concrete instances below: the canonical map; `none` = nil map -/
abbrev Mat := Option (PemMap Body)

def canonMat : Option (PemMap Body) → Mat
  | none => none
  | some m => some (canonMap m)

def pemFile (c k : Option Nat) : Body := ⟨[], ⟨c, k, 0⟩⟩
def textFile (s : String) : Body := ⟨s.toList, ⟨none, none, 0⟩⟩

/-- the working set of the witnesses: one certificate, loaded from `S/a.pem` -/
def wsURL : Name := "S/list".toList
def wsBase : Name → Option Name := fun _ => some "S/".toList
def goodServer : Server Body := fun u =>
  if u = "S/list".toList then .resp 200 (textFile "a.pem\n")
  else if u = "S/a.pem".toList then .resp 200 (pemFile (some 7) (some 7))
  else .resp 404 (textFile "404 page not found\n")
/-- every request is answered `503 Service Unavailable` with a one-line error page -/
def unavailableServer : Server Body := fun _ => .resp 503 (textFile "Service Unavailable\n")

/-- **Before `ea73618`** (`checkStatus = false`) the statement `http_errors_keep_working_set` was false: after a
good load a server answering 503 to everything makes the watcher publish the *empty* set — the error page of the
list is split into "file names", the error pages fetched for them are stored under names that are no `.pem`
files, `loadCertificates` finds nothing wrong with that — and every handshake gets `ErrNoCertsStored`. -/
theorem status_unchecked_loses_working_set :
    let script := [goodServer, unavailableServer].map fun srv =>
      (loadURL false wsBase srv Body.text wsURL).map canonMat
    let cell := applyOuts (mkPublished []) (outsOf (trace true mkFromMap second ⟨none, false⟩ script))
    publications (trace true mkFromMap second ⟨(none : Mat), false⟩ script) = [[⟨7, []⟩], []] ∧
    getCertificateP cell "x.test".toList false = .errNoCerts := by decide

/-- The same history with the repaired loader: one publication, the working set stays. -/
theorem status_checked_keeps_working_set :
    let script := [goodServer, unavailableServer, unavailableServer].map fun srv =>
      (loadURL true wsBase srv Body.text wsURL).map canonMat
    let cell := applyOuts (mkPublished []) (outsOf (trace true mkFromMap second ⟨none, false⟩ script))
    publications (trace true mkFromMap second ⟨(none : Mat), false⟩ script) = [[⟨7, []⟩]] ∧
    getCertificateP cell "x.test".toList false = .cert ⟨7, []⟩ := by decide

/-- **Before the repair `e63514f`** (`onlyNotExist = false`) `path_errors_keep_working_set` was false: a good load,
then the root directory cannot be listed — the walk function swallowed *every* error on the root, the watcher
published the empty set and the working set was lost. -/
theorem root_error_lost_the_working_set_before_repair :
    let root : Name := "R".toList
    let good : Root Body := .node (.dir "R".toList true [.file "a.pem".toList 10 (some (pemFile (some 7) (some 7)))])
    let locked : Root Body := .node (.dir "R".toList false [.file "a.pem".toList 10 (some (pemFile (some 7) (some 7)))])
    let script := [good, locked].map fun t => (loadPath false maxSize root (t.visits root)).map canonMat
    let cell := applyOuts (mkPublished []) (outsOf (trace true mkFromMap second ⟨none, false⟩ script))
    publications (trace true mkFromMap second ⟨(none : Mat), false⟩ script) = [[⟨7, []⟩], []] ∧
    getCertificateP cell "x.test".toList false = .errNoCerts := by decide

/-- The same history with the repaired walk function: one publication, the working set stays. A root that is
*gone* still is an empty directory (the reading the code documents): the empty set is published. -/
theorem root_error_keeps_the_working_set :
    let root : Name := "R".toList
    let good : Root Body := .node (.dir "R".toList true [.file "a.pem".toList 10 (some (pemFile (some 7) (some 7)))])
    let locked : Root Body := .node (.dir "R".toList false [.file "a.pem".toList 10 (some (pemFile (some 7) (some 7)))])
    let run (h : List (Root Body)) := publications (trace true mkFromMap second ⟨(none : Mat), false⟩
      (h.map fun t => (loadPath true maxSize root (t.visits root)).map canonMat))
    run [good, locked, .absent "R".toList .other] = [[⟨7, []⟩]] ∧
    run [good, .absent "R".toList .notExist] = [[⟨7, []⟩], []] := by decide

/-! ## Non-vacuity -/

-- a list with an empty line, a CRLF-free body, three files; one file answered 404 fails the whole load
example :
    let srv : Server Body := fun u =>
      if u = "S/list".toList then .resp 200 (textFile "a-cert.pem\n\na-key.pem\nz.pem\n")
      else if u = "S/a-cert.pem".toList then .resp 200 (pemFile (some 1) none)
      else if u = "S/a-key.pem".toList then .resp 200 (pemFile none (some 1))
      else if u = "S/z.pem".toList then .resp 200 (pemFile (some 2) (some 2))
      else .resp 404 (textFile "nf")
    let srv404 : Server Body := fun u => if u = "S/a-key.pem".toList then .resp 404 (textFile "nf") else srv u
    (loadURLRun true wsBase srv Body.text wsURL).1
        = ["S/list".toList, "S/a-cert.pem".toList, "S/a-key.pem".toList, "S/z.pem".toList] ∧
    ((loadURL true wsBase srv Body.text wsURL).map (fun m => mkFromMap (canonMat m)))
        = .blocks (some [⟨1, []⟩, ⟨2, []⟩]) ∧
    loadURLRun true wsBase srv404 Body.text wsURL = (["S/list".toList, "S/a-cert.pem".toList, "S/a-key.pem".toList], .err) ∧
    httpBroken wsBase Body.text wsURL srv404 := by
  refine ⟨by decide, by decide, by decide, ?_⟩
  right; right
  exact ⟨"S/".toList, textFile "a-cert.pem\n\na-key.pem\nz.pem\n", rfl, by decide, "a-key.pem".toList, by decide, by decide⟩

-- a tree with a sub-directory, a dot-file, another extension, an oversized file and a link that cannot be read
example :
    let f (n : String) (c : Nat) : Node Body := .file n.toList 10 (some (pemFile (some c) (some c)))
    let tree : Node Body := .dir "R".toList true
      [f "a.pem" 1, f ".hidden.pem" 2, f "notes.txt" 3, .file "big.pem".toList (maxSize + 1) (some (pemFile (some 4) (some 4))),
       .dir "sub".toList true [f "z.pem" 5, f "a.PEM" 6], .dir ".git".toList true [f "k.pem" 8]]
    let broken : Node Body := .dir "R".toList true [f "a.pem" 1, .file "dangling.pem".toList 7 none]
    (loadPath true maxSize "R".toList (tree.visits "R".toList)).map (fun m => (canonMat m).map (·.map (·.1)))
      = .blocks (some ["R/.git/k.pem".toList, "R/a.pem".toList, "R/sub/z.pem".toList]) ∧
    loadPath true maxSize "R".toList (broken.visits "R".toList) = .err ∧
    pathBroken maxSize "R".toList (broken.visits "R".toList) := by
  refine ⟨by decide, by decide, ?_⟩
  exact ⟨⟨"R/dangling.pem".toList, "dangling.pem".toList, .file 7 none⟩, by decide, Or.inr ⟨by decide, 7, rfl⟩⟩

end Fabio.Props.C11Load
