import Fabio.Props.C02
import Fabio.Model.C02Buf
import Fabio.Lemmas.C02Scan
import Fabio.Lemmas.C02ScanAll
/-!
C02, round 4 — the long-lived `tableBuffer` of the update loop (`Model/C02Buf.lean`).

The round-1 history theorems are about a loop that hands `route.NewTable` the concatenated text. The real loop hands
it a buffer that survives from one iteration to the next and that `Parse` does not drain when it stops at a
syntax error. The theorems of this file remove that gap:

* `stepB_refines_step`, `runB_refines_run` — with the `Reset` in place, for EVERY behaviour of `NewTable` on the
  buffer (whatever it leaves unread) and whatever the buffer held before, the locals and the active table go
  through exactly the states of `WB.step`/`WB.run`; hence
* `leftover_never_matters`, `keeps_last_good_with_buffer`, `next_valid_applied_with_buffer`: the sentences of the
  property for the loop with its buffer;
* `noReset_refines_when_drained` / `noReset_loses_next_valid` — the loop without `Reset` (m10's shape) is the same
  machine exactly under the assumption that `NewTable` always drains the buffer, and is wrong without it (a
  suffix-respecting `NewTable`, a two-event history, the valid second text is never applied);
* the scanner: `nlFlags_size`, `scan_off_le`, `consumed_le` — the model of `bufio.Scanner` never takes more out of
  the buffer than it holds, so `leftAfterParse` is the length of a real tail. Its VALUE is compared with the real
  `bytes.Buffer` on every case of stream `c02.buffer`.
-/
namespace Fabio.Props.C02Buf
open Fabio Fabio.Model.C02 Fabio.Model.C02Buf Fabio.Model.Parse Fabio.Model.Route

section loop
variable {T : Type}

/-- **One iteration, as written.** Whatever `NewTable` leaves in the buffer (`nt.rest` is arbitrary) and whatever
the buffer held when the iteration began, the locals and the active table afterwards are those of `WB.step`. -/
theorem stepB_refines_step (nt : NT T) (st : WBB T) (e : Ev) :
    (stepB true nt st e).wb = WB.step nt.build st.wb e := by
  unfold stepB WB.step
  simp only [if_true, Buf.reset, Buf.writeString, Buf.string, WB.nextText, List.nil_append]
  by_cases hs : (st.wb.recv e).svccfg ++ ['\n'] ++ (st.wb.recv e).mancfg = (st.wb.recv e).lastTable
  · simp [hs]
  · simp only [hs, if_false]
    cases nt.build ((st.wb.recv e).svccfg ++ ['\n'] ++ (st.wb.recv e).mancfg) <;> rfl

/-- **Every history.** -/
theorem runB_refines_run (nt : NT T) (es : List Ev) : ∀ st : WBB T,
    (runB true nt st es).wb = WB.run nt.build st.wb es := by
  induction es with
  | nil => intro st; rfl
  | cons e es ih =>
    intro st
    simp only [runB, WB.run, List.foldl_cons] at ih ⊢
    rw [ih (stepB true nt st e), stepB_refines_step]

/-- **What a rejected text leaves behind never matters.** Two runs of the loop over the same history whose
`NewTable`s agree on the result but leave different tails unread, started with different junk in the buffer, go
through the same locals and serve the same table. -/
theorem leftover_never_matters (nt nt' : NT T) (hb : nt.build = nt'.build) (st st' : WBB T) (hw : st.wb = st'.wb)
    (es : List Ev) : (runB true nt st es).wb = (runB true nt' st' es).wb := by
  rw [runB_refines_run, runB_refines_run, hb, hw]

/-- **Last good table, for the loop with its buffer.** -/
theorem keeps_last_good_with_buffer (nt : NT T) (t0 : T) (junk : Buf) (es : List Ev) :
    (runB true nt (WBB.init t0 junk) es).wb.active = lastGood nt.build t0 (texts es) := by
  rw [runB_refines_run]
  exact Fabio.Props.C02.keeps_last_good nt.build t0 es

/-- **The next valid configuration is applied, for the loop with its buffer**: whatever was rejected before it and
whatever those rejected texts left in the buffer. -/
theorem next_valid_applied_with_buffer (nt : NT T) (t0 : T) (junk : Buf) (es : List Ev) (e : Ev) (t : T)
    (hb : nt.build ((WB.run nt.build (WB.init t0) es).recv e).nextText = some t) :
    (runB true nt (WBB.init t0 junk) (es ++ [e])).wb.active = t := by
  rw [runB_refines_run]
  exact Fabio.Props.C02.next_valid_applied nt.build t0 es e t hb

/-- **Without the `Reset`** the loop is the same machine exactly as long as `NewTable` drains the buffer. -/
theorem noReset_refines_when_drained (nt : NT T) (hd : ∀ s, nt.rest s = []) (st : WBB T) (hb : st.buf = []) (e : Ev) :
    (stepB false nt st e).wb = WB.step nt.build st.wb e ∧ (stepB false nt st e).buf = [] := by
  unfold stepB WB.step
  simp only [Bool.false_eq_true, if_false, Buf.writeString, Buf.string, WB.nextText, hb, List.nil_append]
  by_cases hs : (st.wb.recv e).svccfg ++ ['\n'] ++ (st.wb.recv e).mancfg = (st.wb.recv e).lastTable
  · simp [hs]
  · simp only [hs, if_false]
    cases nt.build ((st.wb.recv e).svccfg ++ ['\n'] ++ (st.wb.recv e).mancfg) <;> simp [hd]

/-- a `NewTable` that accepts exactly the text `g` + newline and, like the real one, leaves a tail of a rejected text
unread (here: everything but its first character) -/
def toyNT : NT Nat :=
  { build := fun s => if s = "g\n".toList then some 1 else none,
    rest := fun s => if s = "g\n".toList then [] else s.drop 1 }

theorem toyNT_suffix : toyNT.RestIsSuffix := by
  intro s
  unfold toyNT
  by_cases h : s = "g\n".toList
  · exact ⟨s, by simp [h]⟩
  · exact ⟨s.take 1, by simp only [h, if_false]; exact (List.take_append_drop 1 s).symm⟩

/-- **…and wrong otherwise** (the seeded changes m4 and m10 in the model): there is a `NewTable` honouring the
suffix contract and a history of two updates — a rejected text, then a valid one — after which the loop without
`Reset` still serves the initial table although the last text builds: "the next valid configuration is still
applied" fails. -/
theorem noReset_loses_next_valid :
    ¬ ∀ (nt : NT Nat), nt.RestIsSuffix → ∀ es : List Ev,
        (runB false nt (WBB.init 0 []) es).wb.active = lastGood nt.build 0 (texts es) := by
  intro h
  have := h toyNT toyNT_suffix [.svc "xx".toList, .svc "g".toList]
  revert this
  decide

end loop

/-! ## the scanner -/

theorem push_replicate_size (a : Array Bool) (n : Nat) :
    ((List.replicate n false).foldl Array.push a).size = a.size + n := by
  induction n generalizing a with
  | zero => simp
  | succ n ih => simp only [List.replicate_succ, List.foldl_cons, ih, Array.size_push]; omega

theorem nlFlags_size_aux (text : Str) : ∀ (a : Array Bool) (k : Nat),
    (text.foldl (fun a c => if c == '\n' then a.push true else (List.replicate c.utf8Size false).foldl Array.push a) a).size
      = a.size + (text.foldl (fun a c => a + c.utf8Size) k - k) ∧ k ≤ text.foldl (fun a c => a + c.utf8Size) k := by
  induction text with
  | nil => intro a k; simp
  | cons c cs ih =>
    intro a k
    simp only [List.foldl_cons]
    by_cases hc : (c == '\n') = true
    · have hc' : c = '\n' := by simpa using hc
      obtain ⟨h1, h2⟩ := ih (a.push true) (k + c.utf8Size)
      have hu : c.utf8Size = 1 := by rw [hc']; rfl
      simp only [hc, if_true]
      rw [h1]
      simp only [Array.size_push]
      constructor <;> omega
    · obtain ⟨h1, h2⟩ := ih ((List.replicate c.utf8Size false).foldl Array.push a) (k + c.utf8Size)
      simp only [hc, Bool.false_eq_true, if_false]
      rw [h1, push_replicate_size]
      constructor <;> omega

/-- one flag per byte: the scanner model sees as many bytes as the text has -/
theorem nlFlags_size (text : Str) : (nlFlags text).size = byteLen text := by
  have := (nlFlags_size_aux text #[] 0).1
  simpa [nlFlags, byteLen] using this

theorem shift_off (s : Scan) : s.shift.off = s.off := by unfold Scan.shift; split <;> rfl
theorem grow_off (cfg : ScanCfg) (s : Scan) : (s.grow cfg).off = s.off := by unfold Scan.grow; split <;> rfl
theorem read_off_le (data : Array Bool) (s : Scan) (h : s.off ≤ data.size) : (s.read data).off ≤ data.size := by
  unfold Scan.read
  split
  · exact h
  · have := Nat.min_le_right (s.cap - s.end_) (data.size - s.off)
    show s.off + min (s.cap - s.end_) (data.size - s.off) ≤ data.size
    omega

/-- `Scan()` never takes more out of the buffer than it holds -/
theorem scan_off_le (cfg : ScanCfg) (data : Array Bool) : ∀ (fuel : Nat) (s : Scan), s.off ≤ data.size →
    (Scan.next cfg data fuel s).2.off ≤ data.size := by
  intro fuel
  induction fuel with
  | zero => intro s h; simpa [Scan.next] using h
  | succ fuel ih =>
    intro s h
    unfold Scan.next
    split
    · exact h
    · split
      · exact h
      · split
        · show s.shift.off ≤ data.size; rw [shift_off]; exact h
        · apply ih
          apply read_off_le
          rw [grow_off, shift_off]; exact h

theorem scanLoop_off_le (cfg : ScanCfg) (data : Array Bool) (stop : Nat → Bool) : ∀ (fuel i : Nat) (s : Scan),
    s.off ≤ data.size → (scanLoop cfg data stop fuel i s).1.off ≤ data.size := by
  intro fuel
  induction fuel with
  | zero => intro i s h; simpa [scanLoop] using h
  | succ fuel ih =>
    intro i s h
    unfold scanLoop
    have h1 := scan_off_le cfg data (data.size + 40) s h
    split
    · rename_i s' heq; rw [heq] at h1; exact h1
    · rename_i tk s' heq
      rw [heq] at h1
      split
      · exact h1
      · exact ih _ _ h1

/-- **What `Parse` takes out of the buffer is part of what was in it** — for every text, every stopping line and both
`bufio` constants: `leftAfterParse` is the length of a genuine tail. -/
theorem consumed_le (cfg : ScanCfg) (text : Str) (stop : Option Nat) : consumed cfg text stop ≤ byteLen text := by
  unfold consumed
  rw [← nlFlags_size]
  exact scanLoop_off_le cfg _ _ _ _ _ (by simp)

/-! ### the scanner delivers lines -/
open Fabio.Lemmas.C02Scan (NoNL Ok)

/-- **What one call of `Scan()` returns, with Go's constants** (4096-byte start buffer, 64 KiB token limit; the general
statement for any constants `0 < startBuf ≤ maxTok` is `Lemmas.C02Scan.next_spec`). For every source and every state
`s` the scanner can be in (`Ok`: initially, and again after every delivered token), with `s.base` = the position where
the previous token's line ended:
* a token `(p, l)` starts at `s.base`, holds no newline, is shorter than 65536 bytes, and is followed by a newline (the
  next token starts behind it) — or it is the non-empty rest of a source whose end has been seen;
* `false` with `ErrTooLong` happens only when the next 65536 bytes hold no newline;
* `false` without an error happens only when the source is exhausted.
So the tokens are exactly the maximal newline-free segments up to the first one of 65536 bytes or more — the line-level
reading (`Parse.rawLines`, `maxToken ≤ byteLen raw`) the model of `route.Parse` uses. -/
theorem scan_delivers_lines (data : Array Bool) (fuel : Nat) (s : Scan) (h : Ok goCfg data s)
    (hf : data.size - s.off + (if s.eof then 0 else 1) < fuel) :
    match Scan.next goCfg data fuel s with
    | (some (p, l), s') =>
        Ok goCfg data s' ∧ p = s.base ∧ NoNL data p (p + l) ∧ l < 65536 ∧
        ((data[p + l]? = some true ∧ s'.base = p + l + 1) ∨
         (0 < l ∧ p + l = data.size ∧ s'.base = data.size ∧ s'.eof = true))
    | (none, s') =>
        (s'.tooLong = true ∧ NoNL data s.base (s.base + 65536) ∧ s.base + 65536 ≤ data.size) ∨
        (s'.tooLong = false ∧ s.base = data.size) :=
  Fabio.Lemmas.C02Scan.next_spec goCfg data (by decide) (by decide) fuel s h hf

open Fabio.Lemmas.C02ScanAll (scanAll segs)

/-- **The scanner delivers exactly the lines.** `segs data 65536 n p` is the specification, free of buffers and chunks:
the maximal newline-free segments of the source from position `p` on, cut at the first one of 65536 bytes or more
(`Lemmas/C02ScanAll.lean`). From ANY state the scanner can be in, the tokens of all further `Scan()` calls are these
segments from `s.base` on, and the scanner ends with `ErrTooLong` exactly when such a segment exists. (General constants:
`Lemmas.C02ScanAll.scanAll_eq_segs`.) -/
theorem scan_delivers_exactly_the_lines (data : Array Bool) (n : Nat) (s : Scan) (h : Ok goCfg data s)
    (hn : data.size - s.base < n) :
    (scanAll goCfg data n s).1 = (segs data 65536 n s.base).1 ∧
    (scanAll goCfg data n s).2.tooLong = (segs data 65536 n s.base).2 :=
  Fabio.Lemmas.C02ScanAll.scanAll_eq_segs goCfg data (by decide) (by decide) n s h hn

/-- the fuel `scanLoop` hands every call is enough, whatever state the scanner is in -/
theorem scan_fuel_suffices (data : Array Bool) (s : Scan) :
    data.size - s.off + (if s.eof then 0 else 1) < data.size + 40 := by
  split <;> omega

/-! ## non-vacuity -/
section examples

/-- the initial scanner state satisfies `Ok`; the first call on `ab⏎cd` with a 4-byte buffer delivers `(0, 2)`, the
second `(3, 2)` as the rest of the source, the third `false` without error -/
example (cfg : ScanCfg) (data : Array Bool) : Ok cfg data {} := Fabio.Lemmas.C02Scan.Ok.init cfg data

/-- four lines, one of them empty, the last without newline: specification and scanner (4-byte start buffer) agree;
a 10-byte line with an 8-byte limit: both stop after the first line with `ErrTooLong` -/
example : segs (nlFlags "ab\ncd\n\nx".toList) 16 10 0 = ([(0,2),(3,2),(6,0),(7,1)], false) ∧
    (scanAll ⟨4, 16⟩ (nlFlags "ab\ncd\n\nx".toList) 10 {}).1 = [(0,2),(3,2),(6,0),(7,1)] := by decide
example : segs (nlFlags "ab\n0123456789\nzz".toList) 8 10 0 = ([(0,2)], true) ∧
    ((scanAll ⟨4, 8⟩ (nlFlags "ab\n0123456789\nzz".toList) 10 {}).1,
     (scanAll ⟨4, 8⟩ (nlFlags "ab\n0123456789\nzz".toList) 10 {}).2.tooLong) = ([(0,2)], true) := by decide

example :
    let d := nlFlags "ab\ncd".toList
    let r1 := Scan.next ⟨4, 16⟩ d 50 {}
    let r2 := Scan.next ⟨4, 16⟩ d 50 r1.2
    let r3 := Scan.next ⟨4, 16⟩ d 50 r2.2
    (r1.1, r2.1, r3.1, r3.2.tooLong) = (some (0, 2), some (3, 2), none, false) := by decide

/-- a loop whose `NewTable` leaves junk behind after a failure, started with junk in the buffer: fail, recover -/
example : ((runB true toyNT (WBB.init 0 "junk".toList) [.svc "xx".toList, .svc "g".toList]).wb.active,
           (runB false toyNT (WBB.init 0 []) [.svc "xx".toList, .svc "g".toList]).wb.active,
           (runB true toyNT (WBB.init 0 []) [.svc "xx".toList]).buf) = (1, 0, "x\n".toList) := by decide

example : toyNT.build ((WB.run toyNT.build (WB.init 0) [.svc "xx".toList]).recv (.svc "g".toList)).nextText = some 1 := by decide

/-- the scanner with a 4-byte start buffer on `bad` + newline + 12 more bytes, stopped at line 1: 4 bytes taken, 12 left;
not stopped: everything taken -/
example : (consumed ⟨4, 16⟩ "bad\nroute add".toList (some 1), consumed ⟨4, 16⟩ "bad\nroute add".toList none,
           byteLen "bad\nroute add".toList) = (4, 13, 13) := by decide

/-- a line longer than the largest buffer: the scanner gives up with the buffer full -/
example : (consumed ⟨4, 8⟩ "ab\n0123456789\nzz".toList none) = 11 := by decide

end examples

end Fabio.Props.C02Buf
