import Fabio.Generated.C14
import Fabio.Model.C14
/-!
C14 — obligations over the facts regenerated from `/repo` on every run.

The extractor (`tools/factgen/c14.go`) works on the *normalised* source (package constants inlined, literal
concatenations folded, `switch` = if-chain) and on the *inlined* walk from `ServiceMonitor.makeConfig` through
`serviceConfig`, `routecmd.build` and every unexported helper they call; locals, parameters and receivers are
printed as `_`, unexported field/method names selected from a variable are not printed, conditions are taken
without polarity. The obligations pin meaning — which library calls are made with which literal arguments, which
literals make up the line, what each option does, the order "read the weight, parse, compare, table check, then
emit", what is read of a catalog entry and of the monitor — not the spelling of statements or the names of
locals and unexported helpers, nor the function or file a statement lives in.
-/
namespace Fabio.Props.C14Facts
open Fabio Fabio.Generated.C14 Fabio.Model.C14

/-- every element of `req` occurs in `l` -/
def sub (req l : List String) : Bool := req.all (fun s => l.contains s)

/-! ### the option loop of `build` -/

/-- what each option does first: the destination by protocol (no trailing slash), the weight text after
`weight=`, the redirect value after `redirect=` split on "," — as `Model.C14.optStep` -/
theorem option_effects :
    optionEffects = ["_ == \"proto=grpc\" => _ = \"grpc://\" + _", "_ == \"proto=grpcs\" => _ = \"grpcs://\" + _",
      "_ == \"proto=https\" => _ = \"https://\" + _", "_ == \"proto=tcp\" => _ = \"tcp://\" + _",
      "strings.HasPrefix(_, \"redirect=\") => _ := strings.Split(strings.TrimPrefix(_, \"redirect=\"), \",\")",
      "strings.HasPrefix(_, \"weight=\") => _ = strings.TrimPrefix(_, \"weight=\")"] := by decide

/-- the model's keywords are literals of the code -/
theorem model_keywords :
    sub [String.ofList kProtoTcp, String.ofList kProtoHttps, String.ofList kProtoGrpcs, String.ofList kProtoGrpc,
      String.ofList kWeightEq, String.ofList kRedirectEq] pipelineLiterals = true := by decide

/-- the literals of the emitted line (tags and options **raw** between double quotes), the five destination
schemes, the separators, the `redirect=%s` option, the variable `DC`, the join with "\n" -/
theorem line_literals :
    sub ["route add ", " ", " weight ", " tags \"", " opts \"", "\"", ",", "http://", "/", "tcp://", "https://",
      "grpcs://", "grpc://", "redirect=%s", ":", "=", "DC", "\n", ".local", "darwin"] pipelineLiterals = true := by decide

/-! ### the library calls of the pipeline `makeConfig → serviceConfig → build → parseURLPrefixTag / validation` -/

/-- options are split with `strings.Fields`, tags trimmed with `strings.TrimSpace`, tags joined with ",", options
with " ", commands with "\n" after a reverse sort; host and port joined by `net.JoinHostPort(_, strconv.Itoa(_))`;
the redirect value split on ","; `parseURLPrefixTag` trims, splits once at " " and once at "/", tests ":" and "/",
lower-cases the expanded host and expands with `os.Expand` -/
theorem pipeline_calls :
    sub ["strings.Fields(_)", "strings.TrimSpace(_)", "strings.TrimSpace(_[len(_):])", "strings.Join(_, \",\")",
      "strings.Join(_, \" \")", "strings.Join(_, \"\\n\")", "sort.Sort(sort.Reverse(sort.StringSlice(_)))",
      "net.JoinHostPort(_, strconv.Itoa(_))", "strings.Split(strings.TrimPrefix(_, \"redirect=\"), \",\")",
      "fmt.Sprintf(\"redirect=%s\", _[0])", "strings.SplitN(_, \" \", 2)", "strings.SplitN(_, \"/\", 2)",
      "strings.HasPrefix(_, \":\")", "strings.Contains(_, \"/\")", "strings.HasPrefix(_, _)",
      "strings.ToLower(_(_))", "os.Expand(_, func)"] pipelineCalls = true := by decide

/-- tags and options are not written with `strconv.Quote` / `%q` (the grammar `"[^"]*"` knows no escapes) -/
theorem no_go_quoting : goQuotingCalls = [] := by decide

/-- the guards the model mirrors (without polarity): the tag partition and `parseURLPrefixTag`'s prefix test, the
address fallback / weight clause (`_ == ""`), the redirect arity and the two-way splits (`len(_) == 2`), the
optional clauses (`len(_) == 0`), `serviceConfig`'s empty-name guard, the darwin-only `.local` suffix (outside the
model: the harness runs on linux) -/
theorem pipeline_guards :
    sub ["strings.HasPrefix(_, _)", "_ == \"\"", "len(_) == 2", "len(_) == 0", "_ == \"\" || len(_) == 0",
      "strings.HasPrefix(_, \":\")", "strings.Contains(_, \"/\")",
      "runtime.GOOS == \"darwin\" && !strings.Contains(_, \".\") && !strings.HasSuffix(_, \".local\")",
      "_ == \"proto=tcp\"", "_ == \"proto=https\"", "_ == \"proto=grpcs\"", "_ == \"proto=grpc\"",
      "strings.HasPrefix(_, \"weight=\")", "strings.HasPrefix(_, \"redirect=\")"] pipelineConds = true := by decide

/-! ### repair of D19: a command is emitted only if it denotes the route that is meant -/

/-- in `build` (helpers inlined), between the assembly of a command and the append to the result: the weight is
read with `strconv.ParseFloat`, the command goes through `route.Parse`, the one definition is compared with
`reflect.DeepEqual`, a table is built with `route.NewTable` — each followed by a conditional exit — and only then
the command is emitted (`Model.C14.denotes`, `Model.C14.build`) -/
theorem validation_before_emit :
    validationOrder = ["call strconv.ParseFloat", "exit", "call route.Parse", "exit", "call reflect.DeepEqual", "exit",
      "call route.NewTable", "exit", "emit"] := by decide

/-- parser and table each get the command text in a buffer of their own (`route.Parse` drains its buffer), the
comparison is between the parsed definition and the intended one, the weight is a 64-bit float, the intended
options are split at the first "=" -/
theorem validator_calls :
    sub ["route.Parse(bytes.NewBufferString(_))", "route.NewTable(bytes.NewBufferString(_))",
      "reflect.DeepEqual(_[0], _)", "strconv.ParseFloat(_, 64)", "strings.SplitN(_, \"=\", 2)"] pipelineCalls = true ∧
    sub ["len(_) != 1 || !reflect.DeepEqual(_[0], _)", "_ == nil"] pipelineConds = true := by decide

/-! ### `parseURLPrefixTag` -/

/-- its results: not a routing tag / bad syntax; the `:port` and no-slash forms verbatim; host lower-cased and
expanded, path expanded -/
theorem parse_tag_returns :
    parseTagReturns = ["return \"\", \"\", false", "return \"\", \"\", false", "return _, _, true", "return _, _, true",
      "return strings.ToLower(_(_)) + \"/\" + _(_), _, true"] := by decide

/-- the only variable is `DC` -/
theorem env_keys : envKeys = ["DC"] := by decide

/-! ### no state between calls (the property quantifies over histories) -/

/-- `ServiceMonitor` holds an API client, the configuration, a string and a bool — nothing that could remember an
earlier catalog state; `routecmd` holds the catalog entry, a string and a string map -/
theorem monitor_fields :
    monitorFieldTypes = ["*api.Client", "*config.Consul", "bool", "string"] ∧
    routecmdFieldTypes = ["*api.CatalogService", "map[string]string", "string"] := by decide

/-- no method of `ServiceMonitor` or `routecmd` assigns through its receiver; the package has no package-level
variable -/
theorem monitor_is_stateless : receiverWrites = [] ∧ packageVars = [] := by decide

/-- what the pipeline reads: of the monitor the client's catalog, the query options, the number of parallel
lookups, the tag prefix and the datacenter string; of a catalog entry / health check exactly the fields
`Model.C14.Reg` carries (name, service address, node address, port, tags) plus node and service id (the join of
C01) — `CreateIndex`/`ModifyIndex` and the like are not consulted -/
theorem reads_only_current_state :
    monitorReads = ["(*api.Client).Catalog", "(*config.Consul).AllowStale", "(*config.Consul).RequireConsistent",
      "(*config.Consul).ServiceMonitors", "(*config.Consul).TagPrefix", "(string)"] ∧
    entryFieldsRead = ["Address", "Node", "ServiceAddress", "ServiceID", "ServiceName", "ServicePort",
      "ServiceTags"] := by decide

/-! ### `makeConfig` answers: one result per service, whatever the service yields -/

/-- The goroutine `makeConfig` starts per service takes the semaphore, sends its result and releases the semaphore —
straight-line code (no branch, no early exit, two sends: semaphore and result; a `defer` for the release is fine), so a service that yields no command (every routing tag dropped, empty
name, a failed catalog lookup) still answers; and the collector receives once per element of the collection the
goroutines were started from. Otherwise `makeConfig` never returns, `Watch` never sends again and the routes of ALL
services stay frozen. Stream `c14.poison`/`c14.history`/`c14.watch` see that for dropped registrations
(`update-blocked:makeConfig`); a failed catalog lookup never happens against the fake — hence an obligation. -/
theorem make_config_always_answers :
    (makeConfigWorker.all (fun e => e != "branch" && e != "exit") &&
      (makeConfigWorker.filter (· == "send")).length == 2 && collectorAwaitsEverySpawned) = true := by decide

/-! ### the consumer of the text: `main.watchBackend` -/

/-- In the loop of `watchBackend` that builds the table, an iteration can end before `route.SetTable` in two places
only: in front of everything (the unchanged-text test) and after `route.NewTable` (its error). Nothing between
`route.ParseAliases` / `registry.Default.Register` and `route.NewTable` leaves the iteration: neither the verdict of
the alias reader nor the outcome of the registration decides whether the table of the current catalog is installed
(`Model.C14Watch.step`; hypothesis-free `watch_installs_current`). An exit on `Register`'s error is invisible to
stream `c14.watch` — its scripted backend never fails — hence an obligation. -/
theorem watch_loop_exits :
    watchLoopEvents = ["exit", "call route.ParseAliases", "call registry.Default.Register", "call route.NewTable",
      "exit", "call route.SetTable"] := by decide

end Fabio.Props.C14Facts
