import Fabio.Generated.C14
import Fabio.Model.C14
/-!
C14 — obligations over the facts regenerated from `/repo` on every run: the literals of the option switch and of
the emitted line that `Model/C14.lean` mirrors, how tags and options are quoted, that every command passes fabio's
own parser and a routing table before it is emitted (repair of D19), the tag partition, the address fallback, the
calls of `parseURLPrefixTag`, the join of `makeConfig`, and that monitor and command builder keep no state between
calls (struct fields, no writes through a receiver, no package variables, what each method reads).
-/
namespace Fabio.Props.C14Facts
open Fabio Fabio.Generated.C14 Fabio.Model.C14

/-- closes conjunctions of closed equalities between literals -/
syntax "pin" : tactic
macro_rules | `(tactic| pin) => `(tactic| first | rfl | decide | (apply And.intro <;> pin))

/-! ### the option switch of `build` -/

/-- the cases, in order: four protocols, `weight=`, `redirect=`, default — as `Model.C14.optStep` tests them -/
theorem option_switch_conditions :
    optSwitchConds = ["o == \"proto=tcp\"", "o == \"proto=https\"", "o == \"proto=grpcs\"", "o == \"proto=grpc\"",
      "strings.HasPrefix(o, \"weight=\")", "strings.HasPrefix(o, \"redirect=\")", "default"] := by pin

/-- what each case does first: the destination by protocol (no trailing slash), the weight text, the redirect
split on ",", the option passed on -/
theorem option_switch_effects :
    optSwitchFirstStmt = ["dst = \"tcp://\" + addr", "dst = \"https://\" + addr", "dst = \"grpcs://\" + addr",
      "dst = \"grpc://\" + addr", "weight = o[len(\"weight=\"):]",
      "redir := strings.Split(o[len(\"redirect=\"):], \",\")", "ropts = append(ropts, o)"] := by pin

/-- the model's keywords are the code's literals -/
theorem model_keywords :
    String.ofList kProtoTcp ∈ buildLiterals ∧ String.ofList kProtoHttps ∈ buildLiterals ∧
    String.ofList kProtoGrpcs ∈ buildLiterals ∧ String.ofList kProtoGrpc ∈ buildLiterals ∧
    String.ofList kWeightEq ∈ buildLiterals ∧ String.ofList kRedirectEq ∈ buildLiterals := by decide

/-- every string literal of `build`: the line is `route add <name> <route> <dst>[ weight <w>][ tags "<t>"][ opts "<o>"]`
with the tags and options **raw** between double quotes, the five destination schemes, the `redirect=%s` option -/
theorem build_literals :
    buildLiterals = ["", " ", " opts \"", " tags \"", " weight ", "\"", ",", ".", ".local", "/",
      "[ERROR] Invalid syntax for redirect: %s. should be redirect=<code>,<url>",
      "[WARN] consul: Ignoring tag %q of service %q. %s", "darwin", "grpc://", "grpcs://", "http://", "https://",
      "proto=grpc", "proto=grpcs", "proto=https", "proto=tcp", "redirect=", "redirect=%s", "route add ", "tcp://",
      "weight="] := by pin

/-- tags and options are no longer written with `strconv.Quote` / `%q` (the grammar `"[^"]*"` knows no escapes) -/
theorem no_go_quoting : buildStrconvQuoteCalls = 0 ∧ buildSprintfQ = 0 := by pin

/-- options are split with `strings.Fields`; tags are trimmed once, in the partition loop; the tags are joined
with ",", the options with " ", host and port with `net.JoinHostPort(addr, strconv.Itoa(port))`; the redirect
value is split on "," -/
theorem build_calls :
    buildFieldsCalls = ["strings.Fields(opts)"] ∧ buildTrimCalls = ["strings.TrimSpace(t)"] ∧
    buildJoinCalls = ["strings.Join(svctags, \",\")", "strings.Join(ropts, \" \")",
      "net.JoinHostPort(addr, strconv.Itoa(port))"] ∧
    buildSplitCalls = ["strings.Split(o[len(\"redirect=\"):], \",\")"] := by pin

/-- the conditions of `build`, in order: tag partition by prefix, `parseURLPrefixTag` ok, the node-address
fallback, the darwin-only `.local` suffix (outside the model: the harness runs on linux), the redirect arity,
the three optional clauses, the validation -/
theorem build_conditions :
    buildIfConds = ["strings.HasPrefix(t, r.prefix)", "ok", "addr == \"\"",
      "runtime.GOOS == \"darwin\" && !strings.Contains(addr, \".\") && !strings.HasSuffix(addr, \".local\")",
      "len(redir) == 2", "weight != \"\"", "len(svctags) > 0", "len(ropts) > 0", "err != nil"] := by pin

/-! ### repair of D19: a command is emitted only if it denotes the route that is meant -/

/-- `config = append(config, cfg)` is preceded by `if err := denotes(cfg, …); err != nil { …; continue }` -/
theorem emit_is_validated : emitGuardedByValidator = true ∧ validatorName = "denotes" := by pin

/-- the validator feeds the command to fabio's own parser (`route.Parse`) and to a routing table
(`route.NewTable`), compares the one definition with the intended one (`reflect.DeepEqual`) and reads the weight
with `strconv.ParseFloat` — `Model.C14.denotes` -/
theorem validator_uses_fabios_parser :
    validatorCalls = ["route.Parse(bytes.NewBufferString(cmd))", "route.NewTable(bytes.NewBufferString(cmd))",
      "reflect.DeepEqual(defs[0], want)", "strconv.ParseFloat(weight, 64)"] := by pin

/-- the intended options are split at the first "=" (`Model.Parse.splitKV`) -/
theorem validator_literals :
    validatorLiterals = ["", "=", "invalid weight %q", "tag cannot be expressed as a route command"] := by pin

/-! ### `parseURLPrefixTag` -/

theorem parse_tag_calls :
    parseTagCalls = ["strings.TrimSpace(s)", "strings.TrimSpace(s[len(prefix):])", "strings.HasPrefix(s, prefix)",
      "strings.HasPrefix(s, \":\")", "strings.SplitN(s, \" \", 2)", "strings.SplitN(s, \"/\", 2)",
      "strings.Contains(s, \"/\")", "strings.ToLower(expand(host))",
      "os.Expand(s, func(x string) string { if env == nil { return \"\" } return env[x] })"] := by pin

theorem parse_tag_returns :
    parseTagReturns = ["return \"\", \"\", false", "return s, opts, true", "return s, opts, true",
      "return \"\", \"\", false", "return strings.ToLower(expand(host)) + \"/\" + expand(path), opts, true"] := by pin

/-! ### `makeConfig` / `serviceConfig` -/

/-- all commands of all services are sorted in reverse and joined with "\n" (`Model.C14.configText`); a service
without a name contributes nothing (`Model.C14.named`); the only variable is `DC` -/
theorem make_config_join :
    makeConfigJoin = ["sort.Sort(sort.Reverse(sort.StringSlice(config)))", "strings.Join(config, \"\\n\")"] ∧
    serviceConfigGuard = "name == \"\" || len(passing) == 0" ∧ envKeys = ["DC"] ∧
    serviceConfigBuildCalls = ["r.build()"] := by pin

/-! ### no state between calls (the property quantifies over histories) -/

/-- `ServiceMonitor` holds the client, the configuration, the datacenter and the strict flag — nothing that could
remember an earlier catalog state; `routecmd` holds the catalog entry, the prefix and the environment -/
theorem monitor_fields :
    monitorFields = ["client *api.Client", "config *config.Consul", "dc string", "strict bool"] ∧
    routecmdFields = ["svc *api.CatalogService", "prefix string", "env map[string]string"] := by pin

/-- the monitor's methods are `Watch`, `makeConfig`, `serviceConfig`; no method of `ServiceMonitor` or `routecmd`
assigns through its receiver; the package has no package-level variable -/
theorem monitor_is_stateless :
    monitorMethods = ["Watch", "makeConfig", "serviceConfig"] ∧ receiverWrites = [] ∧ packageVars = [] := by pin

/-- what the methods read through their receiver: `makeConfig` the number of parallel lookups, `serviceConfig` the
client (the catalog answer), the query options, the tag prefix and the datacenter — and `build` exactly the
fields of the catalog entry that `Model.C14.Reg` carries (name, service address, node address, port, tags), the
prefix and the environment: `CreateIndex`/`ModifyIndex` and the like are not consulted -/
theorem reads_only_current_state :
    makeConfigReads = ["w.config.ServiceMonitors", "w.serviceConfig"] ∧
    serviceConfigReads = ["w.client.Catalog", "w.config.AllowStale", "w.config.RequireConsistent",
      "w.config.TagPrefix", "w.dc"] ∧
    buildReads = ["r.env", "r.prefix", "r.svc.Address", "r.svc.ServiceAddress", "r.svc.ServiceName",
      "r.svc.ServicePort", "r.svc.ServiceTags"] := by pin

end Fabio.Props.C14Facts
