import Fabio.Generated.C14
import Fabio.Model.C14
/-!
C14 — obligations over the facts regenerated from `/repo` on every run.

Only what no stream can establish by running the code is an obligation here: that nothing is remembered between
two calls of `makeConfig` (a memo keyed by anything but the full current entry shows only on the histories that hit
it), that `makeConfig` answers whatever a service yields (a skipped send on a failed catalog lookup: the fake never
fails), and where an iteration of `watchBackend` can end before `route.SetTable` (an exit on `Register`'s error: the
scripted backend never fails). The statements about the SHAPE of the sequential, deterministic pipeline
`build → parseURLPrefixTag → denotes` — whose input/output behaviour `c14.build`, `c14.poison`, `c14.history`,
`c14.watch` and `c14.expand` compare with the model on every run — are change detectors in `Props/C14Pins.lean`.

The extractor (`tools/factgen/c14.go`) works on the *normalised* source (package constants inlined, literal
concatenations folded, `switch` = if-chain) and on the *inlined* walk from `ServiceMonitor.makeConfig` through
`serviceConfig`, `routecmd.build` and every unexported helper they call; locals, parameters and receivers are
printed as `_`, unexported field/method names selected from a variable are not printed, conditions are taken
without polarity. The obligations pin meaning — which library calls are made with which literal arguments, which
literals make up the line, what each option does, the order "read the weight, parse, compare, table check, then
emit", what is read of a catalog entry and of the monitor — not the spelling of statements or the names of
locals and unexported helpers, nor the function or file a statement lives in.
-/
namespace Fabio.Props.C14Facts
open Fabio Fabio.Generated.C14 Fabio.Model.C14

/-- every element of `req` occurs in `l` -/
def sub (req l : List String) : Bool := req.all (fun s => l.contains s)

/-! ### no state between calls (the property quantifies over histories) -/

/-- `ServiceMonitor` holds an API client, the configuration, a string and a bool — nothing that could remember an
earlier catalog state; `routecmd` holds the catalog entry, a string and a string map -/
theorem monitor_fields :
    monitorFieldTypes = ["*api.Client", "*config.Consul", "bool", "string"] ∧
    routecmdFieldTypes = ["*api.CatalogService", "map[string]string", "string"] := by decide

/-- no method of `ServiceMonitor` or `routecmd` assigns through its receiver; the package has no package-level
variable -/
theorem monitor_is_stateless : receiverWrites = [] ∧ packageVars = [] := by decide

/-- what the pipeline reads: of the monitor the client's catalog, the query options, the number of parallel
lookups, the tag prefix and the datacenter string; of a catalog entry / health check exactly the fields
`Model.C14.Reg` carries (name, service address, node address, port, tags) plus node and service id (the join of
C01) — `CreateIndex`/`ModifyIndex` and the like are not consulted -/
theorem reads_only_current_state :
    monitorReads = ["(*api.Client).Catalog", "(*config.Consul).AllowStale", "(*config.Consul).RequireConsistent",
      "(*config.Consul).ServiceMonitors", "(*config.Consul).TagPrefix", "(string)"] ∧
    entryFieldsRead = ["Address", "Node", "ServiceAddress", "ServiceID", "ServiceName", "ServicePort",
      "ServiceTags"] := by decide

/-! ### `makeConfig` answers: one result per service, whatever the service yields -/

/-- The goroutine `makeConfig` starts per service takes the semaphore, sends its result and releases the semaphore —
straight-line code (no branch, no early exit, two sends: semaphore and result; a `defer` for the release is fine), so a service that yields no command (every routing tag dropped, empty
name, a failed catalog lookup) still answers; and the collector receives once per element of the collection the
goroutines were started from. Otherwise `makeConfig` never returns, `Watch` never sends again and the routes of ALL
services stay frozen. Stream `c14.poison`/`c14.history`/`c14.watch` see that for dropped registrations
(`update-blocked:makeConfig`); a failed catalog lookup never happens against the fake — hence an obligation. -/
theorem make_config_always_answers :
    (makeConfigWorker.all (fun e => e != "branch" && e != "exit") &&
      (makeConfigWorker.filter (· == "send")).length == 2 && collectorAwaitsEverySpawned) = true := by decide

/-! ### the consumer of the text: `main.watchBackend` -/

/-- In the loop of `watchBackend` that builds the table (unexported helpers of package main followed: the update
stage may live in a function of its own), from the alias reader to the installation of the table an iteration can
end in one place only: after `route.NewTable` (its error). What happens in front of `route.ParseAliases` (the
unchanged-text test) depends on the text alone and is the business of stream `c14.watch`. Nothing between
`route.ParseAliases` / `registry.Default.Register` and `route.NewTable` leaves the iteration: neither the verdict of
the alias reader nor the outcome of the registration decides whether the table of the current catalog is installed
(`Model.C14Watch.step`; hypothesis-free `watch_installs_current`). An exit on `Register`'s error is invisible to
stream `c14.watch` — its scripted backend never fails — hence an obligation. -/
theorem watch_loop_exits :
    watchUpdateStage = ["call route.ParseAliases", "call registry.Default.Register", "call route.NewTable", "exit",
      "call route.SetTable"] := by decide

end Fabio.Props.C14Facts
