import Fabio.Lemmas.C06
/-!
C06 — concurrent requests do not influence each other's routing: property theorems.

Every `∀ sch : List Nat` below quantifies over ALL schedules (`run` skips ids that name no runnable thread,
so every list of naturals is a schedule, complete or not), any number of threads, any operation sequences.
The "current" forms (`…Current`) are the programs found on the unchanged tree; the witnesses about them are
replayed on the implementation by the race streams of the check (D08, D09, D10).
-/
namespace Fabio.Props.C06
open Fabio.Model.C06 Fabio.Lemmas.C06

/-! ## round-robin -/

/-- **Round-robin hands out an exact share under every interleaving.**  `ks[i]` picks by thread `i`, each
pick one atomic fetch-add (`rrThreadRepaired`), any start cursor `c = s.total`, ANY schedule (also one that
stops half-way: `K` is the number of picks performed so far).  The multiset of ring indices handed out is
exactly `{c, …, c+K-1} mod N`; all picks are performed iff the schedule ran every thread to completion. -/
theorem rr_exact_share_any_schedule (N : Nat) (hN : 0 < N) (ks : List Nat) (s : State) (sch : List Nat) :
    let r := run sch (ks.map (rrThreadRepaired N)) s
    let K := r.1.total - s.total
    s.total ≤ r.1.total ∧ K ≤ ks.sum ∧ (finished r.2 = true → K = ks.sum) ∧
    (allPicks r.2).Perm ((List.range' s.total K).map (· % N)) := by
  intro r K
  have h := run_preserves (RRInv N s.total ks.sum) (fun i ts s h => rrInv_step N hN _ _ i ts s h)
    sch _ s (rrInv_init N ks s)
  obtain ⟨_, hc, hsum, hperm⟩ := h
  refine ⟨hc, ?_, ?_, hperm⟩
  · show r.1.total - s.total ≤ ks.sum
    have : r.1.total + remaining r.2 = s.total + ks.sum := hsum
    omega
  · intro hf
    show r.1.total - s.total = ks.sum
    have : r.1.total + remaining r.2 = s.total + ks.sum := hsum
    rw [remaining_zero_of_finished _ hf] at this
    omega

/-- … hence every ring slot is hit `⌊K/N⌋` or `⌊K/N⌋+1` times, exactly `K/N` times after whole cycles. -/
theorem rr_slot_share_any_schedule (N : Nat) (hN : 0 < N) (ks : List Nat) (s : State) (sch : List Nat)
    (j : Nat) (hj : j < N) :
    let r := run sch (ks.map (rrThreadRepaired N)) s
    let K := r.1.total - s.total
    K / N ≤ (allPicks r.2).count j ∧ (allPicks r.2).count j ≤ K / N + 1 ∧
      (K % N = 0 → (allPicks r.2).count j = K / N) := by
  intro r K
  have hp := (rr_exact_share_any_schedule N hN ks s sch).2.2.2
  have hb := labelShare_bounds (fun x => x) N hN j K s.total
  rw [labelWeight_id N j hj] at hb
  have e : (allPicks r.2).count j = labelShare (fun x => x) N s.total K j := by
    unfold labelShare
    exact hp.count_eq j
  rw [e]
  simpa using hb

/-- … and every target receives its exact share of the lookups: a target owning `w` of the `N` ring slots
(`ring` maps slot ↦ target) is chosen between `⌊K/N⌋·w` and `(⌊K/N⌋+1)·w` times, exactly `(K/N)·w` times
after whole cycles — whatever the interleaving. -/
theorem rr_target_share_any_schedule (ring : List Nat) (hN : 0 < ring.length) (ks : List Nat) (s : State)
    (sch : List Nat) (t : Nat) :
    let N := ring.length
    let r := run sch (ks.map (rrThreadRepaired N)) s
    let K := r.1.total - s.total
    let hits := ((allPicks r.2).map (fun i => ring[i]?.getD 0)).count t
    K / N * ring.count t ≤ hits ∧ hits ≤ (K / N + 1) * ring.count t ∧
      (K % N = 0 → hits = K / N * ring.count t) ∧
      hits = targetShare ring s.total K t := by
  intro N r K hits
  have hp := (rr_exact_share_any_schedule N hN ks s sch).2.2.2
  have hb := labelShare_bounds (fun x => ring[x]?.getD 0) N hN t K s.total
  rw [ring_weight ring t] at hb
  have e : hits = labelShare (fun x => ring[x]?.getD 0) N s.total K t := by
    unfold labelShare
    have := (hp.map (fun i => ring[i]?.getD 0)).count_eq t
    rw [List.map_map] at this
    exact this
  refine ⟨by rw [e]; exact hb.1, by rw [e]; exact hb.2.1, by rw [e]; exact hb.2.2, ?_⟩
  rw [e]; rfl

/-- The driver's cycle-wise evaluation of the share is the specification's. -/
theorem targetShareFast_eq (ring : List Nat) (hN : 0 < ring.length) (c K t : Nat) :
    targetShareFast ring c K t = targetShare ring c K t := by
  have hsplit := labelShare_add (fun x => ring[x]?.getD 0) ring.length c (ring.length * (K / ring.length)) (K % ring.length) t
  rw [Nat.div_add_mod] at hsplit
  have hcyc := (labelShare_bounds (fun x => ring[x]?.getD 0) ring.length hN t
    (ring.length * (K / ring.length)) c).2.2 (Nat.mul_mod_right _ _)
  rw [Nat.mul_div_cancel_left _ hN, ring_weight] at hcyc
  unfold targetShareFast targetShare
  unfold labelShare at hsplit hcyc
  simp only [List.getElem?_toArray]
  rw [hsplit, hcyc]

/-- The form found on the unchanged tree (plain read of the cursor, then atomic add) loses the share: two
goroutines, one pick each, ring of 3 — both read cursor 0, both receive slot 0, slot 1 is skipped. -/
theorem rr_current_loses_share :
    ∃ sch : List Nat,
      let r := run sch [rrThreadCurrent 3 1, rrThreadCurrent 3 1] {}
      finished r.2 = true ∧ r.1.total = 2 ∧ allPicks r.2 = [0, 0] ∧
      ¬ (allPicks r.2).Perm ((List.range' 0 2).map (· % 3)) :=
  ⟨[0, 1, 0, 1], by decide⟩


/-! ## random strategy -/

/-- **`rnd` always hands out a slot of the route's ring** (a target of the route with positive weight), under
every schedule, next to any other lookups and table replacements: with `randIntn` = math/rand's internally
locked top-level generator one pick is one micro-step yielding an index below the ring size. -/
theorem rnd_pick_is_a_ring_slot (compile : Nat → Option Nat) (build : Nat → Nat) (size : Nat) (hsize : 0 < size)
    (ts : List Th) (s : State) (sch : List Nat)
    (hsteps : ∀ t ∈ ts, ∀ f ∈ t.steps, SysStep compile build f)
    (hI : CacheInv compile size s.cache) (hJ : ∀ t ∈ ts, LocalInv compile build t.loc) :
    ∀ t ∈ (run sch ts s).2, t.loc.dead = false ∧ ∀ e ∈ t.loc.rpicks, e.2 < e.1 := by
  intro t ht
  have h := (sys_inv compile build size hsize sch ts s hsteps hI hJ).2 t ht
  exact ⟨h.1, h.2.2.2.2.2.2⟩

/-! ## the host-pattern cache -/

/-- **The cache stays within its configured size and never fails a lookup.**  Any threads made of repaired
lookups (lock-free fast path, slow path under the mutex) and table replacements, any schedule, size ≥ 1:
the structural invariant `n ≤ size ∧ keys(m) = set(l[0..n)) ∧ …` holds afterwards, the map holds at most
`size` entries, no goroutine panicked, and every `Get` that returned gave exactly `compile pattern` (the
glob if the pattern compiles, the compile error otherwise) — whatever the cache held at the time. -/
theorem globcache_inv (compile : Nat → Option Nat) (build : Nat → Nat) (size : Nat) (hsize : 0 < size)
    (ts : List Th) (s : State) (sch : List Nat)
    (hsteps : ∀ t ∈ ts, ∀ f ∈ t.steps, SysStep compile build f)
    (hI : CacheInv compile size s.cache) (hJ : ∀ t ∈ ts, LocalInv compile build t.loc) :
    let r := run sch ts s
    CacheInv compile size r.1.cache ∧ r.1.cache.n ≤ size ∧ r.1.cache.m.length ≤ size ∧
    (∀ t ∈ r.2, t.loc.dead = false ∧ ∀ e ∈ t.loc.gets, e.2 = getSpec compile e.1) := by
  obtain ⟨hc, hl⟩ := sys_inv compile build size hsize sch ts s hsteps hI hJ
  refine ⟨hc, hc.2.1, ?_, fun t ht => ⟨(hl t ht).1, (hl t ht).2.2.2.2.1⟩⟩
  obtain ⟨h1, h2, _, _, hp, _, _⟩ := hc
  have := hp.length_eq
  simp only [keys, List.length_map, List.length_take] at this
  omega

/-- The unsynchronised form overflows, three ways (cache of size 1, patterns 1…5 all compile):
(a) two first-time `Get`s both pass `n < len(l)`; the second `c.l[c.n] = pattern` indexes out of range;
(b) with a slightly different interleaving both succeed, `n` ends at 2 > size and the map holds 2 entries;
    the eviction after next computes `h = 1` and `c.l[c.h]` panics;
(c) two evictions of the same head slot delete the same key and store two: no panic, every call returns
    its glob, but the map holds a key that no ring slot refers to (never evicted) — one more per round
    (3 entries after two rounds). -/
theorem globcache_current_overflows :
    let compile : Nat → Option Nat := fun p => some p
    let s1 : State := { cache := Cache.new 1 }
    (∃ sch, (outputs (run sch [getThreadCurrent compile [1], getThreadCurrent compile [2]] s1)).map (·.gets)
        = [[(1, .ok 1)], [(2, .panic .indexOutOfRange)]]) ∧
    (∃ sch, let r := run sch [getThreadCurrent compile [1, 3, 4], getThreadCurrent compile [2]] s1
        r.1.cache.n = 2 ∧ (outputs r).map (·.gets) =
          [[(1, .ok 1), (3, .ok 3), (4, .panic .indexOutOfRange)], [(2, .ok 2)]]) ∧
    (∃ sch, let r := run sch [getThreadCurrent compile [1, 2, 4], getThreadCurrent compile [3, 5]] s1
        finished r.2 = true ∧ (∀ l ∈ outputs r, l.dead = false) ∧
        r.1.cache.l = [5] ∧ keys r.1.cache.m = [5, 4, 2] ∧ ¬ CacheInv compile 1 r.1.cache) := by
  refine ⟨⟨[0,0,0,1,1,1,0,0,0,1,1,1], by decide⟩,
          ⟨[0,0,0,0, 1,1,1,1, 0,1, 0,1, 0,1] ++ List.replicate 14 0, by decide⟩,
          ⟨List.replicate 7 0 ++ [0,0,0, 1,1,1, 0,1, 0,1, 0,1, 0,1] ++ [0,0,0, 1,1,1, 0,1, 0,1, 0,1, 0,1], ?_⟩⟩
  refine ⟨by decide, by decide, by decide, by decide, ?_⟩
  intro h
  have := h.2.2.2.2.1.length_eq
  revert this
  decide

/-! ## redirect -/

/-- **The redirect Location depends only on the request.**  In the same setting (any mix of concurrent
repaired lookups and table replacements, any schedule) every Location handed back for request `q` is
`build q` — no other request, no schedule, no earlier state can influence it. -/
theorem redirect_depends_only_on_request (compile : Nat → Option Nat) (build : Nat → Nat) (size : Nat)
    (hsize : 0 < size) (ts : List Th) (s : State) (sch : List Nat)
    (hsteps : ∀ t ∈ ts, ∀ f ∈ t.steps, SysStep compile build f)
    (hI : CacheInv compile size s.cache) (hJ : ∀ t ∈ ts, LocalInv compile build t.loc) :
    ∀ t ∈ (run sch ts s).2, ∀ e ∈ t.loc.locs, e.2 = some (build e.1) := by
  intro t ht
  exact ((sys_inv compile build size hsize sch ts s hsteps hI hJ).2 t ht).2.2.2.2.2.1

/-- The form found on the unchanged tree (URL stored on the shared target by `Lookup`, read back by
`ServeHTTP`): two requests, the first is answered with the second one's Location. -/
theorem redirect_current_crosstalk :
    ∃ sch : List Nat,
      let build : Nat → Nat := fun q => 100 + q
      (outputs (run sch [rdThreadCurrent build [1], rdThreadCurrent build [2]] {})).map (·.locs)
        = [[(1, some 102)], [(2, some 102)]] :=
  ⟨[0, 1, 0, 1], by decide⟩

/-! ## frame -/

/-- **The only shared effect of a lookup is advancing load balancing.**  After any schedule of repaired
lookups, the state differs from the initial one only in the cursor — advanced by exactly the number of
picks handed out —, in the cache contents (which `globcache_inv` shows to be unobservable) and in the state of
math/rand's generator when the strategy is `rnd`: all three are load balancing / caching, none is a routing input. -/
theorem lookup_frame (compile : Nat → Option Nat) (build : Nat → Nat) (ts : List Th) (s : State) (sch : List Nat)
    (hsteps : ∀ t ∈ ts, ∀ f ∈ t.steps, LookupStep compile build f) :
    let r := run sch ts s
    r.1 = { s with total := s.total + ((allPicks r.2).length - (allPicks ts).length), cache := r.1.cache,
                    rng := r.1.rng } ∧
    (allPicks ts).length ≤ (allPicks r.2).length := by
  have h := run_preserves (FrameInv compile build s (allPicks ts).length)
    (fun i ts' s' h => frameInv_step compile build s _ i ts' s' h) sch ts s ⟨hsteps, rfl, rfl, rfl, Nat.le_refl _⟩
  obtain ⟨_, hr, ht, htot, hmono⟩ := h
  have htot' : (run sch ts s).1.total + (allPicks ts).length
      = s.total + (allPicks (run sch ts s).2).length := htot
  have hr : (run sch ts s).1.redirect = s.redirect := hr
  have ht : (run sch ts s).1.table = s.table := ht
  refine ⟨?_, hmono⟩
  have hmono' : (allPicks ts).length ≤ (allPicks (run sch ts s).2).length := hmono
  have e : (run sch ts s).1.total
      = s.total + ((allPicks (run sch ts s).2).length - (allPicks ts).length) := by omega
  generalize (allPicks (run sch ts s).2).length = np at e ⊢
  cases hr1 : (run sch ts s).1 with
  | mk total cache redirect table rng =>
    rw [hr1] at e hr ht
    simp only at e hr ht
    simp [e, hr, ht]

/-! ## non-vacuity -/

/-- a schedule-universal instance: 3 goroutines, 2+2+2 picks over 3 slots from cursor 7 — whole cycles,
so each slot exactly twice, for any of the infinitely many schedules that complete -/
example (sch : List Nat)
    (hfin : finished (run sch ([2, 2, 2].map (rrThreadRepaired 3)) { total := 7 }).2 = true) :
    (allPicks (run sch ([2, 2, 2].map (rrThreadRepaired 3)) { total := 7 }).2).count 1 = 2 := by
  have h := rr_exact_share_any_schedule 3 (by decide) [2, 2, 2] { total := 7 } sch
  have hK := h.2.2.1 hfin
  have hs := rr_slot_share_any_schedule 3 (by decide) [2, 2, 2] { total := 7 } sch 1 (by decide)
  simp only [] at hK hs
  rw [hK] at hs
  exact hs.2.2 (by decide)

/-- a concrete interleaved schedule: the repaired picker hands out 7,8,9,10,11,12 mod 3 -/
example : (outputs (run [0, 1, 2, 2, 1, 0] ([2, 2, 2].map (rrThreadRepaired 3)) { total := 7 })).map (·.picks)
    = [[1, 0], [2, 2], [0, 1]] := by decide

/-- targets: ring `[0,0,1]` (target 0 owns two slots), 6 picks ⇒ target 0 exactly 4 times -/
example : targetShare [0, 0, 1] 7 6 0 = 4 := by decide

/-- the hypotheses of `globcache_inv`/`redirect_depends_only_on_request`/`lookup_frame` are met by the thread
builders: lookups over glob hosts exceeding the cache (patterns 1,2,3, size 2), a weighted route (ring of
3) and a redirect, next to a goroutine replacing the table. -/
example (compile : Nat → Option Nat) (build : Nat → Nat) (sch : List Nat) :
    let q1 : Req := { id := 1, pats := [1, 2, 3], ring := some 3, redirect := true }
    let q2 : Req := { id := 2, pats := [3, 2, 1], ring := some 4, rnd := true, redirect := true }
    let ts := [lookupThread compile build [q1, q2], lookupThread compile build [q2, q1], swapThread [1, 2]]
    (run sch ts { cache := Cache.new 2 }).1.cache.m.length ≤ 2 := by
  intro q1 q2 ts
  refine (globcache_inv compile build 2 (by decide) ts _ sch ?_ (cacheInv_new compile 2) ?_).2.2.1
  · intro t ht
    simp only [ts, List.mem_cons, List.mem_nil_iff, or_false] at ht
    rcases ht with h | h | h <;> subst h
    · exact fun f hf => .lookup (lookupThread_steps compile build _ (by simp [q1, q2]) f hf)
    · exact fun f hf => .lookup (lookupThread_steps compile build _ (by simp [q1, q2]) f hf)
    · exact swapThread_steps compile build _
  · intro t ht
    simp only [ts, List.mem_cons, List.mem_nil_iff, or_false] at ht
    rcases ht with h | h | h <;> subst h <;> exact localInv_init compile build

/-- and on a concrete interleaving the repaired lookups do what they should: both goroutines get their own
Location, the cache of size 2 holds 2 of the 3 patterns, the cursor advanced by the one pick. -/
example :
    let compile : Nat → Option Nat := fun p => some (p + 10)
    let build : Nat → Nat := fun q => 100 + q
    let q1 : Req := { id := 1, pats := [1, 2, 3], ring := some 3, redirect := true }
    let q2 : Req := { id := 2, pats := [3, 2, 1], ring := none, redirect := true }
    let ts := [lookupThread compile build [q1], lookupThread compile build [q2]]
    let r := run ((List.replicate 12 [0, 1]).flatten) ts { cache := Cache.new 2 }
    finished r.2 = true ∧ (outputs r).map (·.locs) = [[(1, some 101)], [(2, some 102)]] ∧
      r.1.total = 1 ∧ r.1.cache.m.length = 2 ∧ cacheOK 2 (keys r.1.cache.m) r.1.cache.l r.1.cache.h r.1.cache.n = true := by
  decide

/-- two goroutines picking with `rnd` on a ring of 3: indices below 3, generator state advanced twice -/
example :
    let r := run [0, 1, 1, 0] [mkThread [rndPick 3, rndPick 3], mkThread [rndPick 3, rndPick 3]] { rng := 7 }
    (outputs r).map (·.rpicks) = [[(3, 1), (3, 1)], [(3, 0), (3, 0)]] ∧ r.1.total = 0 := by decide

end Fabio.Props.C06
