import Fabio.Lemmas.C14
/-!
C14 — every service registration yields route commands fabio itself accepts: property theorems.

Model: `Model/C14.lean` (`routecmd.build`, `parseURLPrefixTag`, `os.Expand`, `makeConfig`'s join) composed with
`Model/Parse.lean` (`route.Parse`) and `Model/Route.lean` (`route.NewTable`). Helper lemmas: `Lemmas/C14.lean`
(and the C05 lemma files for the tokenizer and the spec machine of the table).

The theorems are about the **repaired** `build` (D19): a command is emitted only if fabio's own parser reads it
as exactly the `route add` that is meant and a table accepts it; tags and options are written raw between
double quotes. For the unrepaired `build` (`buildOld`: every line emitted, `strconv.Quote`) the same statements
are false; the witnesses are at the end of the file and in `corpus/c14.*.jsonl`.

External functions are parameters, universally quantified: `pf` = `strconv.ParseFloat(·,64)`, `env.normURL` =
`url.Parse` + `String`, `env.globOK` = "`glob.Compile` succeeds".
-/
namespace Fabio.Props.C14
open Fabio Fabio.Model.Route Fabio.Model.C05Spec Fabio.Model.C14 Fabio.Lemmas.C14
open Fabio.Model.Parse hiding render config

variable {env : Env} {pf : ParseFloat} {c : Cfg} {r : Reg}

/-! ### what the intents carry of the registration -/

/-- every intended command names the registered service and carries the registration's other tags, trimmed -/
theorem intent_of_registration {i : Intent} (h : i ∈ intents c r) :
    i.service = r.name ∧ i.tags = svcTags c r ∧ ∃ tag ∈ routeTags c r, intentOf c r tag = some i := by
  unfold intents at h
  obtain ⟨tag, htag, hi⟩ := List.mem_filterMap.1 h
  refine ⟨?_, ?_, tag, htag, hi⟩ <;>
  · unfold intentOf at hi
    split at hi
    · cases hi
    · simp only [Option.some.injEq] at hi
      rw [← hi]

/-- the definition an intent means has the intent's fields -/
theorem wantDef_fields {i : Intent} {d : RouteDef} (h : wantDef pf i = some d) :
    d.cmd = .add ∧ d.service = i.service ∧ d.src = i.src ∧ d.dst = i.dst ∧ d.tags = i.tags ∧
    d.opts = optsOfPairs (i.opts.map splitKV) ∧ parseWeight pf i.weight = .ok d.weight := by
  unfold wantDef at h
  split at h
  · cases h
  · next w hw =>
    simp only [Option.some.injEq] at h
    subst h
    exact ⟨rfl, rfl, rfl, rfl, rfl, rfl, hw⟩

/-! ### build_denotes -/

/-- **build_denotes.** Every command the repaired `build` emits for a registration is the line of one of the
registration's routing tags; fabio's own parser reads it as exactly one definition, a `route add` whose
service is the registered name, whose source, destination, weight and options are those the tag states and
whose tags are the registration's other tags; and `addRoute` accepts that definition. No hypothesis on the
registration: names, addresses, ports and tags are arbitrary. -/
theorem build_denotes {cmd : Str} (h : cmd ∈ build env pf c r) :
    ∃ i ∈ intents c r, cmd = render i ∧ ∃ d, parse pf cmd = .ok [d] ∧ (∃ t, addRoute env [] d = .ok t) ∧
      d.cmd = .add ∧ d.service = r.name ∧ d.src = i.src ∧ d.dst = i.dst ∧ d.tags = svcTags c r ∧
      d.opts = optsOfPairs (i.opts.map splitKV) ∧ parseWeight pf i.weight = .ok d.weight := by
  unfold build at h
  obtain ⟨i, hi, rfl⟩ := List.mem_map.1 h
  obtain ⟨hin, hden⟩ := List.mem_filter.1 hi
  obtain ⟨d, hp, hw, ha⟩ := (denotes_iff env pf _ i).1 hden
  obtain ⟨hc, hs, hsrc, hdst, ht, ho, hwt⟩ := wantDef_fields hw
  obtain ⟨hn, htags, _⟩ := intent_of_registration hin
  exact ⟨i, hin, rfl, d, hp, (accepted_iff env d hc).1 ha, hc, hs.trans hn, hsrc, hdst, ht.trans htags, ho, hwt⟩

/-! ### expressible_not_dropped -/

/-- **expressible_not_dropped.** A routing tag whose fields fit the grammar (`expressibleB`: non-empty `\S+`
service and source, a destination `url.Parse` accepts, a finite weight, tags without `"`, `,`, newline, options
without `"`, a line under 64 KiB, host and path `glob.Compile` accepts) gets its command. -/
theorem expressible_not_dropped {i : Intent} (hi : i ∈ intents c r) (he : expressibleB env pf i = true) :
    render i ∈ build env pf c r := by
  unfold build
  exact List.mem_map.2 ⟨i, List.mem_filter.2 ⟨hi, denotes_of_expressible (expressible_of_B he)⟩, rfl⟩

/-- … and what fabio reads from it is the definition that is meant -/
theorem expressible_reads_back {i : Intent} (he : expressibleB env pf i = true) :
    ∃ d, wantDef pf i = some d ∧ parse pf (render i) = .ok [d] ∧ ∃ t, addRoute env [] d = .ok t := by
  have h := expressible_of_B he
  obtain ⟨d, hd⟩ := h.wantDef_some
  exact ⟨d, hd, h.parse hd, (addRoute_nil_iff env d (wantDef_cmd hd)).2 (h.addOK hd)⟩

/-! ### inexpressible_dropped_alone -/

/-- the commands of a registration are exactly the lines of its intents that pass the validation -/
theorem mem_build {cmd : Str} :
    cmd ∈ build env pf c r ↔ ∃ i ∈ intents c r, denotes env pf (render i) i = true ∧ cmd = render i := by
  unfold build
  constructor
  · intro h
    obtain ⟨i, hi, rfl⟩ := List.mem_map.1 h
    obtain ⟨h1, h2⟩ := List.mem_filter.1 hi
    exact ⟨i, h1, h2, rfl⟩
  · rintro ⟨i, h1, h2, rfl⟩
    exact List.mem_map.2 ⟨i, List.mem_filter.2 ⟨h1, h2⟩, rfl⟩

/-- **inexpressible_dropped_alone.** A registration none of whose routing tags can be expressed contributes
nothing: the commands of the catalog are those of the catalog without it. -/
theorem inexpressible_dropped_alone (pre post : List Reg)
    (h : ∀ i ∈ intents c r, denotes env pf (render i) i = false) :
    commands env pf c (pre ++ r :: post) = commands env pf c (pre ++ post) := by
  have hb : build env pf c r = [] := by
    unfold build
    rw [List.filter_eq_nil_iff.2 (fun i hi => by simp [h i hi])]
    rfl
  unfold commands named
  simp only [List.filter_append, List.filter_cons, List.flatMap_append]
  split
  · simp [List.flatMap_cons, hb]
  · rfl

/-- a tag that cannot be expressed costs only its own command: the other tags of the same registration and
all other registrations keep theirs (`commands` is a `flatMap` of a `filter`) -/
theorem other_commands_unaffected (regs : List Reg) {cmd : Str} :
    cmd ∈ commands env pf c regs ↔
      ∃ r ∈ named regs, ∃ i ∈ intents c r, denotes env pf (render i) i = true ∧ cmd = render i := by
  unfold commands
  rw [List.mem_flatMap]
  constructor
  · rintro ⟨r, hr, hc⟩; exact ⟨r, hr, mem_build.1 hc⟩
  · rintro ⟨r, hr, hc⟩; exact ⟨r, hr, mem_build.2 hc⟩

/-! ### no_poisoning -/

/-- **no_poisoning.** For every catalog — hostile registrations included — fabio's `NewTable` accepts the text
`makeConfig` produces (so `watchBackend` installs the new table: no update is lost or delayed), the table
holds the route of every routing tag that fits the grammar (a target with the registered service, the URL of the
destination, the fixed weight and the tags, under the (host, path) of the prefix), and it holds nothing that no
registration asked for: every target is the target of some routing tag of some registration — service, URL,
weight, tags and options (no injected or altered command). -/
theorem no_poisoning (env : Env) (pf : ParseFloat) (c : Cfg) (regs : List Reg) :
    ∃ t, loadTable env pf (config env pf c regs) = .ok t ∧
      (∀ r ∈ named regs, ∀ i ∈ intents c r, expressibleB env pf i = true →
        ∃ d u, wantDef pf i = some d ∧ env.normURL d.dst = some u ∧
          isDup (abs t (key d.src).1 (key d.src).2) (newTarget d u) = true) ∧
      (∀ h p x, x ∈ abs t h p →
        ∃ r ∈ named regs, ∃ i ∈ intents c r, ∃ d u, wantDef pf i = some d ∧ env.normURL d.dst = some u ∧
          key d.src = (h, p) ∧ core x = core (newTarget d u)) := by
  -- what fabio's parser reads from one command
  let ds : Str → List RouteDef := fun cmd => match parse pf cmd with
    | .ok l => l
    | .error _ => []
  let cmds := sortDesc (commands env pf c regs)
  -- every command of the text denotes one intent of one registration
  have hcmd : ∀ cmd ∈ cmds, ∃ r ∈ named regs, ∃ i ∈ intents c r, ∃ d, cmd = render i ∧ parse pf cmd = .ok [d] ∧
      wantDef pf i = some d ∧ accepted env d = true := by
    intro cmd hc
    obtain ⟨r, hr, i, hi, hden, rfl⟩ := (other_commands_unaffected regs).1 ((mem_sortDesc _ _).1 hc)
    obtain ⟨d, hp, hw, ha⟩ := (denotes_iff env pf _ i).1 hden
    exact ⟨r, hr, i, hi, d, rfl, hp, hw, ha⟩
  have hparse : parse pf (config env pf c regs) = .ok (cmds.flatMap ds) := by
    apply parse_join
    intro cmd hc
    obtain ⟨_, _, _, _, d, _, hp, _, _⟩ := hcmd cmd hc
    show parse pf cmd = .ok (match parse pf cmd with | .ok l => l | .error _ => [])
    rw [hp]
  have hdef : ∀ d ∈ cmds.flatMap ds, ∃ r ∈ named regs, ∃ i ∈ intents c r, wantDef pf i = some d ∧
      accepted env d = true := by
    intro d hd
    obtain ⟨cmd, hc, hdc⟩ := List.mem_flatMap.1 hd
    obtain ⟨r, hr, i, hi, d', _, hp, hw, ha⟩ := hcmd cmd hc
    have : ds cmd = [d'] := by
      show (match parse pf cmd with | .ok l => l | .error _ => []) = [d']
      rw [hp]
    rw [this] at hdc
    simp only [List.mem_singleton] at hdc
    subst hdc
    exact ⟨r, hr, i, hi, hw, ha⟩
  have hok : ∀ d ∈ cmds.flatMap ds, AddOK env d := by
    intro d hd
    obtain ⟨_, _, i, _, hw, ha⟩ := hdef d hd
    exact (addRoute_nil_iff env d (wantDef_cmd hw)).1 ((accepted_iff env d (wantDef_cmd hw)).1 ha)
  obtain ⟨t, ht, hE⟩ := newTable_adds (cmds.flatMap ds) hok
  refine ⟨t, ?_, ?_, ?_⟩
  · unfold loadTable
    rw [hparse]
    simp only [ht]
  · intro r hr i hi he
    have hx := expressible_of_B he
    obtain ⟨d, hd⟩ := hx.wantDef_some
    have hmem : render i ∈ cmds :=
      (mem_sortDesc _ _).2 ((other_commands_unaffected regs).2 ⟨r, hr, i, hi, denotes_of_expressible hx, rfl⟩)
    have hdin : d ∈ cmds.flatMap ds := by
      refine List.mem_flatMap.2 ⟨render i, hmem, ?_⟩
      show d ∈ (match parse pf (render i) with | .ok l => l | .error _ => [])
      rw [hx.parse hd]; simp
    obtain ⟨u, hu, hp⟩ := hE.present d hdin
    exact ⟨d, u, hd, hu, hp⟩
  · intro h p x hx
    obtain ⟨d, hd, u, hu, hk, hc⟩ := hE.asked h p x hx
    obtain ⟨r, hr, i, hi, hw, _⟩ := hdef d hd
    exact ⟨r, hr, i, hi, d, u, hw, hu, hk, hc⟩

/-! ### histories -/

/-- a registration — first or repeated under the same (node, service id) — is what the catalog holds for that
slot afterwards -/
theorem register_replaces (k : Nat) (r : Reg) (cat : Catalog) :
    ∃ p, (k, r, p) ∈ applyEv cat (.register k r) := by
  show ∃ p, (k, r, p) ∈ catInsert k r cat
  induction cat with
  | nil => exact ⟨true, by simp [catInsert]⟩
  | cons e rest ih =>
    obtain ⟨k', r', p'⟩ := e
    unfold catInsert
    split
    · exact ⟨p', by simp⟩
    · split
      · exact ⟨true, by simp⟩
      · obtain ⟨p, hp⟩ := ih
        exact ⟨p, List.mem_cons_of_mem _ hp⟩

/-- **histories.** Whatever sequence of registrations, re-registrations, health changes and deregistrations
came before, the text handed out after a step is the text of the catalog as it is after that step — so
`no_poisoning` (and with it `build_denotes`, `expressible_not_dropped`) holds of the registrations that are
current: `NewTable` accepts the text, every expressible routing tag of a current registration has its target,
and every target belongs to a current registration. -/
theorem history_denotes_current (env : Env) (pf : ParseFloat) (c : Cfg) (steps : List (List Ev)) :
    ∀ txt ∈ historyTexts env pf c steps, ∃ cat ∈ catalogs [] steps, txt = config env pf c (current cat) ∧
      ∃ t, loadTable env pf txt = .ok t ∧
        (∀ r ∈ named (current cat), ∀ i ∈ intents c r, expressibleB env pf i = true →
          ∃ d u, wantDef pf i = some d ∧ env.normURL d.dst = some u ∧
            isDup (abs t (key d.src).1 (key d.src).2) (newTarget d u) = true) ∧
        (∀ h p x, x ∈ abs t h p →
          ∃ r ∈ named (current cat), ∃ i ∈ intents c r, ∃ d u, wantDef pf i = some d ∧ env.normURL d.dst = some u ∧
            key d.src = (h, p) ∧ core x = core (newTarget d u)) := by
  intro txt h
  unfold historyTexts at h
  obtain ⟨cat, hc, rfl⟩ := List.mem_map.1 h
  exact ⟨cat, hc, rfl, no_poisoning env pf c (current cat)⟩

/-! ### what the variable syntax of a routing tag means -/

theorem expandAux_no_dollar (m : Str → Str) : ∀ (fuel : Nat) (s : Str), '$' ∉ s → expandAux m fuel s = s := by
  intro fuel
  induction fuel with
  | zero => intro s _; rfl
  | succ n ih =>
    intro s hs
    cases s with
    | nil => rfl
    | cons c rest =>
      have hc : (c == '$') = false := by
        apply Bool.eq_false_iff.2
        intro h
        exact hs (by simp [beq_iff_eq.1 h])
      simp only [expandAux, hc, Bool.false_and, Bool.false_eq_true, if_false]
      rw [ih rest (fun h => hs (List.mem_cons_of_mem _ h))]

/-- a host or path without `$` is taken as it is -/
theorem expand_no_dollar (m : Str → Str) (s : Str) (h : '$' ∉ s) : expand m s = s :=
  expandAux_no_dollar m _ s h

/-- `$DC` followed by something that cannot continue a name is the datacenter -/
theorem expand_DC (dc : Str) (rest : Str) (hr : '$' ∉ rest) (h0 : ∀ c, rest.head? = some c → isAlphaNum c = false) :
    expand (envLookup [("DC".toList, dc)]) ("$DC".toList ++ rest) = dc ++ rest := by
  simp only [expand]
  show expandAux _ _ ('$' :: 'D' :: 'C' :: rest) = _
  have hD : isAlphaNum 'D' = true := by decide
  have hC : isAlphaNum 'C' = true := by decide
  have hsD : isShellSpecial 'D' = false := by decide
  cases rest with
  | nil => simp [expandAux, getShellName, hsD, hD, hC, envLookup, List.lookup, List.takeWhile]
  | cons c r =>
    have hc := h0 c rfl
    simp [expandAux, getShellName, hsD, hD, hC, hc, envLookup, List.lookup, List.takeWhile,
      expandAux_no_dollar _ _ _ hr]

/-- `${DC}` is the datacenter, whatever follows -/
theorem expand_braced_DC (dc : Str) (rest : Str) (hr : '$' ∉ rest) :
    expand (envLookup [("DC".toList, dc)]) ("${DC}".toList ++ rest) = dc ++ rest := by
  simp only [expand]
  show expandAux _ _ ('$' :: '{' :: 'D' :: 'C' :: '}' :: rest) = _
  simp [expandAux, getShellName, envLookup, List.lookup, expandAux_no_dollar _ _ _ hr]

/-! ### non-vacuity: the hypotheses are satisfiable on non-trivial values -/

/-- external functions of the examples: every URL parses to itself, `glob.Compile` rejects an unclosed `[` -/
def envW : Env := { normURL := fun s => some s, globOK := fun s => !s.contains '[' }

/-- `strconv.ParseFloat` on the few texts the examples use -/
def pfW : ParseFloat := fun s =>
  if s == "0.5".toList then some (.fin ⟨1, 2, by decide, by decide⟩) else if s == "1".toList then some (.fin 1)
  else if s == "Inf".toList then some .posInf else none

def cfgW : Cfg := { pfx := "urlprefix-".toList, env := [("DC".toList, "dc1".toList)] }

def mk (name : String) (tags : List String) : Reg :=
  { name := name.toList, svcAddr := "10.0.0.1".toList, nodeAddr := "10.9.9.9".toList, port := 8080,
    tags := tags.map String.toList }

def victim : Reg := mk "victim" ["urlprefix-/v", "prod"]

def web : Reg := mk "web" ["urlprefix-${DC}.Foo.com/$DC proto=https weight=0.5 strip=/dc1", " v1 "]

/-- `build_denotes` / `expressible_not_dropped` on a registration with `${DC}`, an upper-case host, a protocol, a
weight, an option and another tag: the tag is expressible and its command is emitted -/
example : (intents cfgW web).map (expressibleB envW pfW) = [true] := by decide

example : build envW pfW cfgW web =
    ["route add web dc1.foo.com/dc1 https://10.0.0.1:8080 weight 0.5 tags \"v1\" opts \"strip=/dc1\"".toList] := by
  decide

/-- the address falls back to the node address and an IPv6 address is bracketed -/
example : build envW pfW cfgW { victim with svcAddr := [], nodeAddr := "fe80::1".toList } =
    ["route add victim /v http://[fe80::1]:8080/ tags \"prod\"".toList] := by decide

set_option maxRecDepth 8000 in
/-- a history: `web` registers, then registers again under the same service id with another port, another tag and
a second prefix, fails its check, passes again, deregisters — every text denotes the registration of the moment -/
example : historyTexts envW pfW cfgW
      [[.register 0 victim, .register 1 (mk "web" ["urlprefix-web.example.com/", "v1"])],
       [.register 1 { mk "web" ["urlprefix-web.example.com/", "urlprefix-web.example.com/v2 strip=/v2", "v2"] with port := 9090 }],
       [.fail 1], [.pass 1], [.deregister 1]] =
    ["route add web web.example.com/ http://10.0.0.1:8080/ tags \"v1\"\nroute add victim /v http://10.0.0.1:8080/ tags \"prod\"".toList,
     "route add web web.example.com/v2 http://10.0.0.1:9090/ tags \"v2\" opts \"strip=/v2\"\nroute add web web.example.com/ http://10.0.0.1:9090/ tags \"v2\"\nroute add victim /v http://10.0.0.1:8080/ tags \"prod\"".toList,
     "route add victim /v http://10.0.0.1:8080/ tags \"prod\"".toList,
     "route add web web.example.com/v2 http://10.0.0.1:9090/ tags \"v2\" opts \"strip=/v2\"\nroute add web web.example.com/ http://10.0.0.1:9090/ tags \"v2\"\nroute add victim /v http://10.0.0.1:8080/ tags \"prod\"".toList,
     "route add victim /v http://10.0.0.1:8080/ tags \"prod\"".toList] := by decide

def attacker : Reg :=
  mk "attacker" ["urlprefix-/x\thttp://evil:1/\nroute\tdel\tvictim\nroute\tadd\tattacker\t/y"]

/-- the hostile registrations of D19: bad weight, quote in a plain tag, empty prefix, uncompilable path, a name
with a space, an infinite weight, tab/newline injection -/
def hostile : List Reg :=
  [mk "svc" ["urlprefix-/x weight=abc"], mk "svc" ["urlprefix-/x", "ta\"g"], mk "svc" ["urlprefix-"],
   mk "svc" ["urlprefix-/["], mk "s v c" ["urlprefix-/x"], mk "svc" ["urlprefix-/x weight=Inf"], attacker]

/-- hypothesis of `inexpressible_dropped_alone`: none of their routing tags passes the validation … -/
example : hostile.all (fun r => (intents cfgW r).all (fun i => !denotes envW pfW (render i) i)) = true := by decide

/-- … so each of them, placed next to a well-formed service, leaves exactly that service's command -/
example : hostile.map (fun r => config envW pfW cfgW [victim, r]) =
    hostile.map (fun _ => "route add victim /v http://10.0.0.1:8080/ tags \"prod\"".toList) := by decide

/-- a backslash is an ordinary character of a tag: emitted raw and read back unchanged -/
example : (parse pfW (config envW pfW cfgW [mk "svc" ["urlprefix-/x", "back\\slash"]])).toOption.map
    (fun l => l.map (·.tags)) = some [["back\\slash".toList]] := by decide

/-! ### the unrepaired `build` (D19): the same statements are false — witnesses

`buildOld` emits every line and quotes with `strconv.Quote`. One hostile registration makes `NewTable` reject the
text of **all** services (the old table stays: no service is updated), changes a tag, or injects commands. -/

def printAll : Char → Bool := fun _ => true

def loadOld (regs : List Reg) : Except LoadErr Table := loadTable envW pfW (configOld printAll cfgW regs)

/-- the error of a load (`none` = the table was accepted) -/
def errOf (x : Except LoadErr Table) : Option LoadErr :=
  match x with
  | .ok _ => none
  | .error e => some e

/-- `weight=abc`: the whole text is rejected (`build_denotes` and `no_poisoning` fail for the old code) -/
theorem old_bad_weight_poisons :
    errOf (loadOld [victim, mk "svc" ["urlprefix-/x weight=abc"]]) = some (.parse (.syn 2 .weightValue)) := by decide

/-- a plain tag with a double quote -/
theorem old_quote_in_tag_poisons :
    errOf (loadOld [victim, mk "svc" ["urlprefix-/x", "ta\"g"]]) = some (.parse (.syn 2 .addInvalid)) := by decide

/-- the empty prefix `urlprefix-` -/
theorem old_empty_prefix_poisons :
    errOf (loadOld [victim, mk "svc" ["urlprefix-"]]) = some (.parse (.syn 2 .addInvalid)) := by decide

/-- a path `glob.Compile` rejects: the parser accepts the line, the table aborts -/
theorem old_bad_glob_poisons : errOf (loadOld [victim, mk "svc" ["urlprefix-/["]]) = some (.table .badGlob) := by decide

/-- a service name with a space -/
theorem old_name_with_space_poisons :
    errOf (loadOld [victim, mk "s v c" ["urlprefix-/x"]]) = some (.parse (.syn 2 .addInvalid)) := by decide

/-- `weight=Inf`: accepted by `ParseFloat`, rejected for the whole text (before the repair of D02: a panic) -/
theorem old_infinite_weight_poisons :
    errOf (loadOld [victim, mk "svc" ["urlprefix-/x weight=Inf"]]) = some (.parse (.nonFinite 2 .posInf)) := by decide

/-- one backslash is written as two and read back as two: the table holds a tag nobody registered -/
theorem old_backslash_alters_tag :
    (parse pfW (configOld printAll cfgW [mk "svc" ["urlprefix-/x", "back\\slash"]])).toOption.map
      (fun l => l.map (·.tags)) = some [["back\\\\slash".toList]] := by decide

/-- a tab/newline in the route field injects commands: the text of the two services is read as four commands,
one of them `route del victim` … -/
theorem old_tab_newline_injects :
    (parse pfW (configOld printAll cfgW [victim, attacker])).toOption.map
      (fun l => l.map (fun d => (d.cmd, d.service, d.src, d.dst))) =
    some [(.add, "victim".toList, "/v".toList, "http://10.0.0.1:8080/".toList),
          (.add, "attacker".toList, "/x".toList, "http://evil:1/".toList),
          (.del, "victim".toList, [], []),
          (.add, "attacker".toList, "/y".toList, "http://10.0.0.1:8080/".toList)] := by decide

/-- … and the table built from it has lost the victim's route and routes `/x` to a destination of the attacker's
choosing -/
theorem old_injection_table :
    (loadOld [victim, attacker]).toOption.map (fun t =>
      ((abs t [] "/v".toList).map (·.service), (abs t [] "/x".toList).map (·.url))) =
    some ([], ["http://evil:1/".toList]) := by decide

/-- the repaired code on the same catalog: the victim's route is there, nothing of the attacker's -/
example : (loadTable envW pfW (config envW pfW cfgW [victim, attacker])).toOption.map (fun t =>
      ((abs t [] "/v".toList).map (·.service), (abs t [] "/x".toList).map (·.url), t.length)) =
    some (["victim".toList], [], 1) := by decide

end Fabio.Props.C14
