import Fabio.Generated.C02
/-!
CHANGE DETECTORS for C02 (`"pins_module"` in checks/C02.json): ordered event lists of sequential, deterministic
code whose input/output behaviour a correspondence stream compares with the model on every run. When one of these
stops building nothing is claimed broken — the streams run at five times the budget with a second seed and decide.
Each statement names the stream (and the class of inputs) that carries the tie, and the breaking change that was
tried against it. They were obligations until round 3 (`Props/C02Facts.lean` has the criteria).
-/
namespace Fabio.Props.C02Pins
open Fabio.Generated.C02

/-- `NewTable` returns `nil, err` from every exit but the last. Tie: `c02.history` (a partial table returned
WITH the error is ignored by `watchBackend`: behaviour unchanged), `c02.nopanic` outcome classes. -/
theorem newTable_events :
    newTableEvents = ["call:Parse(p0)", "if(≠nil){", "return nil,val", "}", "call:make(Table)", "range{", "if(≠nil){",
      "return nil,val", "}", "}", "range{", "call:sort.Sort(rangeV)", "}", "return val,nil"] := by decide

/-- same for `NewTableCustom`, which first refuses a nil definition list. Tie: `c02.custom` — a partial table
returned with the error IS installed by the unconditional `SetTable` of the poll loop: class `last-good-not-kept`
(seeded change m1, replay: good document, then `route weight` without match); nil list: class
`update-loop-panic-on-null` (corpus lines 1–2). -/
theorem newTableCustom_events :
    newTableCustomEvents = ["if(=nil:p0){", "return nil,val", "}", "call:make(Table)", "range{", "if(≠nil){",
      "return nil,val", "}", "}", "range{", "call:sort.Sort(rangeV)", "}", "return val,nil"] := by decide

/-- `Parse` reports the scanner's own error after the loop (repair of D29). Tie: `c02.history` and `c02.nopanic`,
classes with an over-long line (`amp.long`) + the completeness predicate `commandLines text = number of
definitions` (class `accepted-text-incomplete`; seeded change m9). -/
theorem parse_events :
    parseEvents = ["call:bufio.NewScanner(p0)", "for{", "call:NewScanner#0.Scan()", "if(≠nil){", "return nil,val", "}", "}",
      "call:NewScanner#0.Err()", "if(≠nil){", "return nil,val", "}", "return val,nil"] := by decide

/-- the loop body of `watchBackend` (text backends): reset the buffer, service text, "\n", manual text, skip when
equal to the installed text, `ParseAliases` → `Register`, `NewTable`, `continue` on error, `SetTable`, remember the
text (`Model/C02.lean` `WB.step`, `Model/C02Loop.lean` `stepO`). Tie: `c02.history` runs the real loop — tables
after every event (classes `valid-not-applied`, `last-good-not-kept`; padded texts for what an early parse error
leaves in the buffer: seeded change m4), the `Register` calls (`registered-differs`). The remembered text being
assigned once, after `SetTable`, is benign either way for a deterministic `NewTable`. -/
theorem watchBackend_events :
    watchBackendEvents = ["for{", "call:new(bytes.Buffer).Reset()",
      "call:new(bytes.Buffer).WriteString(recv(WatchServices#0))", "call:new(bytes.Buffer).WriteString(\"\\n\")",
      "call:new(bytes.Buffer).WriteString(recv(WatchManual#0))", "set:String#0",
      "if(String#0 == copy(String#0)){", "continue", "}", "call:route.ParseAliases(String#0)",
      "call:registry.Default.Register(ParseAliases#0)", "call:route.NewTable(new(bytes.Buffer))", "if(≠nil){", "continue",
      "}", "call:route.SetTable(NewTable#0)", "set:copy(String#0)", "}"] ∧
    watchBackendLastTableAssignments = 1 := by decide

/-- the poll loop of the custom backend: transport error, non-200 and decode error `continue` before
`NewTableCustom`; `SetTable` follows unconditionally (`customStep`). Tie: `c02.custom` runs the real loop against a
scripted endpoint (statuses, dropped connections, undecodable and `null` documents). -/
theorem customRoutes_events :
    customRoutesEvents = ["call:lit:http.Client.Do(NewRequest#0)", "if(≠nil){", "continue", "}",
      "if(Do#0.StatusCode != 200){", "continue", "}", "call:NewDecoder#0.Decode(&decl:*[]route.RouteDef)", "if(≠nil){",
      "continue", "}", "call:route.NewTableCustom(decl:*[]route.RouteDef)", "call:route.SetTable(NewTableCustom#0)"] := by
  decide

/-- panic points closed by earlier repairs: both readers of `RouteDef.Weight` refuse NaN/±Inf (D02), host and
path patterns are compiled when the route is added (D03), no `glob.MustCompile` in package `route`. Tie:
`c02.nopanic` / `c02.history` replay the original inputs from the corpus on every run (`weight Inf`, `[/`, …) and
the hostile grammar draws weights and patterns from the same pools. -/
theorem panic_point_guards :
    weightReaders = ["guarded", "guarded"] ∧ routeDefGlobCompileDistinctArgs = ["2"] ∧ mustCompileSites = [] := by
  decide

end Fabio.Props.C02Pins
