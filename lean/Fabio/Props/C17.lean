import Fabio.Lemmas.C17
/-!
C17 — response compression never changes the content: property theorems over the model of
`proxy/gzip/gzip_handler.go` (`Fabio.Model.C17`). The compressor is abstract; its round-trip law
`Comp.RoundTrip` is a hypothesis of `when_compressed`, never an axiom. Every theorem is for every script of
the wrapped handler (any header calls, any number of `WriteHeader`/`Write` calls in any order, any chunking)
and every regexp, sniffer, compressor and pool content.
-/
namespace Fabio.Props.C17
open Fabio.Model.C17 Fabio.Lemmas.C17

variable {Z : Type}

/-- `isCompressable` as a conjunction. -/
theorem isCompressable_iff (C : Cfg Z) (h : Hdr) :
    isCompressable C h = true ↔ hget h hContentEncoding = "" ∧ C.typeOk (hget h hContentType) = true := by
  unfold isCompressable
  by_cases he : hget h hContentEncoding = "" <;> simp [he]

/-- **compress_iff.** The response is compressed exactly when (as coded) the request passes `acceptsGzip`,
is not a HEAD request, the wrapped handler writes a status or a body at all, the status at that first call
allows a body, and at that moment the header map has no Content-Encoding and a Content-Type (possibly the
sniffed one of an implicit write) that the configured expression matches. -/
theorem compress_iff (C : Cfg Z) (head dfl : Bool) (req h0 : Hdr) (pool : List Z) (ops : List Op) :
    (serve C head dfl req h0 pool ops).compressed = true ↔
      acceptsGzip req = true ∧ head = false ∧
      ∃ h c, decision C false (hadd h0 hVary hAcceptEncoding) ops = some (h, c) ∧ bodyAllowedForStatus c = true ∧
        hget h hContentEncoding = "" ∧ C.typeOk (hget h hContentType) = true := by
  unfold serve
  have hcr := close_run C ops (hadd h0 hVary hAcceptEncoding) pool
  by_cases hacc : (acceptsGzip req && !head) = true
  · simp only [hacc, if_true]
    have ha : acceptsGzip req = true ∧ head = false := by simpa using hacc
    cases hd : decision C false (hadd h0 hVary hAcceptEncoding) ops with
    | none =>
      have := hcr.1 hd
      simp only [this, Dec.isGzip]
      simp
    | some hc =>
      obtain ⟨h, c⟩ := hc
      have := hcr.2 h c hd
      by_cases hcond : (bodyAllowedForStatus c && isCompressable C h) = true
      · have hg := (this.1 hcond).1
        have hb : bodyAllowedForStatus c = true ∧ isCompressable C h = true := by simpa using hcond
        simp only [hg, true_iff]
        exact ⟨ha.1, ha.2, h, c, rfl, hb.1, (isCompressable_iff C h).mp hb.2⟩
      · have hcond' : (bodyAllowedForStatus c && isCompressable C h) = false := by simpa using hcond
        have hg := (this.2 hcond').1
        simp only [hg, Bool.false_eq_true, false_iff]
        rintro ⟨_, _, h', c', heq, hb, he, ht⟩
        simp only [Option.some.injEq, Prod.mk.injEq] at heq
        obtain ⟨rfl, rfl⟩ := heq
        exact hcond (by simp [hb, (isCompressable_iff C h).mpr ⟨he, ht⟩])
  · simp only [hacc]
    simp only [Bool.false_eq_true, if_false, false_iff]
    rintro ⟨h1, h2, _⟩
    exact hacc (by simp [h1, h2])

/-- The same statement against the executable predicate the correspondence uses. -/
theorem compress_iff_shouldCompress (C : Cfg Z) (head dfl : Bool) (req h0 : Hdr) (pool : List Z) (ops : List Op) :
    (serve C head dfl req h0 pool ops).compressed = shouldCompress C head req h0 ops := by
  have h := compress_iff C head dfl req h0 pool ops
  cases hs : (serve C head dfl req h0 pool ops).compressed
  · cases hsc : shouldCompress C head req h0 ops
    · rfl
    · exfalso
      have : (serve C head dfl req h0 pool ops).compressed = true := h.mpr (by
        unfold shouldCompress at hsc
        cases hd : decision C false (hadd h0 hVary hAcceptEncoding) ops with
        | none => simp [hd] at hsc
        | some hc =>
          obtain ⟨hh, c⟩ := hc
          simp only [hd, Bool.and_eq_true, Bool.not_eq_true', beq_iff_eq] at hsc
          exact ⟨hsc.1.1, hsc.1.2, hh, c, rfl, hsc.2.1.1, hsc.2.1.2, hsc.2.2⟩)
      rw [hs] at this; cases this
  · obtain ⟨h1, h2, hh, c, hd, hb, he, ht⟩ := h.mp hs
    unfold shouldCompress
    simp [h1, h2, hd, hb, he, ht]

/-- **when_compressed.** If the response is compressed then, with `(h, c)` the header map and status at the
handler's first `WriteHeader`/`Write` (explicit or implicit — every chunking, every later call): the status is
`c`; the outgoing header says `Content-Encoding: gzip`, has no Content-Length, and every other header line is
the upstream's; and — given the compressor's round-trip law — the bytes on the wire decode to exactly the
concatenation of all chunks the handler wrote. The recycled writer goes back to the pool. -/
theorem when_compressed (C : Cfg Z) (hrt : C.comp.RoundTrip) (head dfl : Bool) (req h0 : Hdr) (pool : List Z)
    (ops : List Op) (hc : (serve C head dfl req h0 pool ops).compressed = true) :
    ∃ h c, decision C false (hadd h0 hVary hAcceptEncoding) ops = some (h, c) ∧
      (serve C head dfl req h0 pool ops).obs.status = c ∧
      hget (serve C head dfl req h0 pool ops).obs.hdr hContentEncoding = encGzip ∧
      hhasRaw (serve C head dfl req h0 pool ops).obs.hdr hContentLength = false ∧
      (∀ k, k ≠ hContentLength → k ≠ hContentEncoding →
        hraw (serve C head dfl req h0 pool ops).obs.hdr k = hraw h k) ∧
      C.comp.decode (serve C head dfl req h0 pool ops).obs.body = some (writesOf ops).flatten := by
  obtain ⟨h1, h2, h, c, hd, hb, he, ht⟩ := (compress_iff C head dfl req h0 pool ops).mp hc
  have hcond : (bodyAllowedForStatus c && isCompressable C h) = true := by
    simp [hb, (isCompressable_iff C h).mpr ⟨he, ht⟩]
  have hcr := ((close_run C ops (hadd h0 hVary hAcceptEncoding) pool).2 h c hd).1 hcond
  refine ⟨h, c, hd, ?_⟩
  have hacc : (acceptsGzip req && !head) = true := by simp [h1, h2]
  simp only [serve, hacc, if_true, hcr.2.1, gzipDown, Down.obs]
  refine ⟨trivial, ?_, ?_, ?_, hrt _ _⟩
  · simp [hget, hset, canon_ContentEncoding, hraw_hsetRaw_self, firstOr]
  · have hne : hContentLength ≠ hContentEncoding := by decide
    simp [hhasRaw, hset, hdel, canon_ContentEncoding, canon_ContentLength, hraw_hsetRaw_ne _ _ _ _ hne,
          hraw_hdelRaw_self]
  · intro k hk1 hk2
    simp [hset, hdel, canon_ContentEncoding, canon_ContentLength, hraw_hsetRaw_ne _ _ _ _ hk2,
          hraw_hdelRaw_ne _ _ _ hk1]

theorem flusherOffered_engaged {head dfl : Bool} {req : Hdr} (h : (acceptsGzip req && !head) = true) :
    flusherOffered head dfl req = false := by simp [flusherOffered, h]

theorem flusherOffered_bypassed {head dfl : Bool} {req : Hdr} (h : ¬(acceptsGzip req && !head) = true) :
    flusherOffered head dfl req = dfl := by simp [flusherOffered, h]

/-- **otherwise_identical.** If the response is not compressed — whatever the reason — the client sees exactly
what the bare handler would have produced on a header map that carries the `Vary: Accept-Encoding` line, when
offered the same `Flusher` capability (none behind the gzip writer): same status, same header map, same bytes. -/
theorem otherwise_identical (C : Cfg Z) (head dfl : Bool) (req h0 : Hdr) (pool : List Z) (ops : List Op)
    (hc : (serve C head dfl req h0 pool ops).compressed = false) :
    (serve C head dfl req h0 pool ops).obs = serveBare C (flusherOffered head dfl req) h0 ops := by
  unfold serveBare
  simp only
  rw [bare_obs]
  by_cases hacc : (acceptsGzip req && !head) = true
  · have hcr := close_run C ops (hadd h0 hVary hAcceptEncoding) pool
    rw [flusherOffered_engaged hacc]
    simp only [serve, hacc, if_true] at hc ⊢
    cases hd : decision C false (hadd h0 hVary hAcceptEncoding) ops with
    | none => simp [hcr.1 hd, Down.obs]
    | some hcp =>
      obtain ⟨h, c⟩ := hcp
      by_cases hcond : (bodyAllowedForStatus c && isCompressable C h) = true
      · have := ((hcr.2 h c hd).1 hcond).1
        rw [this] at hc; cases hc
      · have hcond' : (bodyAllowedForStatus c && isCompressable C h) = false := by simpa using hcond
        have := ((hcr.2 h c hd).2 hcond').2.1
        simp [this, Down.obs]
  · rw [flusherOffered_bypassed hacc]
    simp only [serve, hacc]
    simp only [Bool.false_eq_true, if_false]
    rw [bare_obs]

/-- **status_preserved.** In all cases the status the client sees is the one the bare handler would have
produced: the code of the first non-informational `WriteHeader`, or 200. -/
theorem status_preserved (C : Cfg Z) (head dfl : Bool) (req h0 : Hdr) (pool : List Z) (ops : List Op) :
    (serve C head dfl req h0 pool ops).obs.status = (serveBare C (flusherOffered head dfl req) h0 ops).status := by
  cases hc : (serve C head dfl req h0 pool ops).compressed
  · rw [otherwise_identical C head dfl req h0 pool ops hc]
  · obtain ⟨h1, h2, h, c, hd, hb, he, ht⟩ := (compress_iff C head dfl req h0 pool ops).mp hc
    have hcond : (bodyAllowedForStatus c && isCompressable C h) = true := by
      simp [hb, (isCompressable_iff C h).mpr ⟨he, ht⟩]
    have hcr := ((close_run C ops (hadd h0 hVary hAcceptEncoding) pool).2 h c hd).1 hcond
    have hacc : (acceptsGzip req && !head) = true := by simp [h1, h2]
    unfold serveBare
    simp only
    rw [bare_obs, flusherOffered_engaged hacc, hd]
    simp [serve, hacc, hcr.2.1, gzipDown, Down.obs]

/-- **decided_once.** Once the writer has decided (gzip or plain) no later call — a second `WriteHeader`, a
header change, a flush, more writes — flips the decision, and status line and outgoing header map stay as they
were sent. -/
theorem decided_once (C : Cfg Z) (s : GW Z) (c : Nat) (hdec : s.dec.isUndecided = false)
    (hs : s.down.status = some c) (ops : List Op) :
    (GW.run C s ops).dec.isGzip = s.dec.isGzip ∧ (GW.run C s ops).dec.isUndecided = false ∧
    (GW.run C s ops).down.status = some c ∧ (GW.run C s ops).down.sent = s.down.sent := by
  cases hd : s.dec with
  | undecided => rw [hd] at hdec; cases hdec
  | gzip z => rw [run_gzip C ops s z c hd hs]; simp [Dec.isGzip, Dec.isUndecided, hs]
  | plain => rw [run_plain C ops s c hd hs]; simp [Dec.isGzip, Dec.isUndecided, hs]

/-- the first final (non-1xx) `WriteHeader`, and the first `Write`, always decide; an informational
`WriteHeader` never does. -/
theorem writeHeader_decides (C : Cfg Z) (s : GW Z) (code : Nat) (hfin : informational code = false) :
    (GW.writeHeader C s code).dec.isUndecided = false := by
  obtain ⟨dec, hdr, down, pool⟩ := s
  cases dec with
  | undecided => simp only [GW.writeHeader, hfin, Bool.false_eq_true, if_false]; split <;> rfl
  | gzip z => simp [GW.writeHeader, hfin, Dec.isUndecided]
  | plain => simp [GW.writeHeader, hfin, Dec.isUndecided]

theorem informational_does_not_decide (C : Cfg Z) (s : GW Z) (code : Nat) (hinfo : informational code = true) :
    GW.writeHeader C s code = s := by
  obtain ⟨dec, hdr, down, pool⟩ := s
  simp [GW.writeHeader, hinfo, down_writeHeader_info]

theorem write_decides (C : Cfg Z) (s : GW Z) (b : Bytes) : (GW.write C s b).dec.isUndecided = false := by
  have h1 : (GW.decideOnWrite C s b).dec.isUndecided = false := by
    obtain ⟨dec, hdr, down, pool⟩ := s
    cases dec with
    | undecided => exact writeHeader_decides C _ 200 info200
    | gzip z => rfl
    | plain => rfl
  unfold GW.write
  generalize GW.decideOnWrite C s b = s' at h1 ⊢
  obtain ⟨dec, hdr, down, pool⟩ := s'
  cases dec with
  | undecided => cases h1
  | gzip z => rfl
  | plain => rfl

/-- **flush_changes_nothing.** A `Flush` by the wrapped handler — before the first write, between chunks, after
the last one — is a no-op on the gzip writer (it offers no `Flusher`): the whole run, hence the decision, the
headers, the status and every byte, is that of the script without its flush calls. -/
theorem flush_changes_nothing (C : Cfg Z) (s : GW Z) (ops : List Op) :
    GW.step C s .fl = s ∧ GW.run C s ops = GW.run C s (dropFlush ops) :=
  ⟨rfl, run_without_flush C ops s⟩

/-- `acceptsGzip` is sound for the client's wish: it holds only if the first Accept-Encoding line has an
element whose coding is exactly `gzip` and whose parameters do not carry a zero weight. -/
theorem acceptsL_sound (es : List (List Char)) (h : acceptsL es = true) :
    ∃ e ∈ es, trim (cut ';' e).1 = encGzip.toList ∧ zeroWeight (cut ';' e).2 = false := by
  induction es with
  | nil => cases h
  | cons e r ih =>
    unfold acceptsL at h
    by_cases he : trim (cut ';' e).1 = encGzip.toList
    · simp only [he, beq_self_eq_true, if_true, Bool.not_eq_true'] at h
      exact ⟨e, List.mem_cons_self, he, h⟩
    · have : (trim (cut ';' e).1 == encGzip.toList) = false := by simpa using he
      simp only [this] at h
      obtain ⟨e', hm, hp⟩ := ih h
      exact ⟨e', List.mem_cons_of_mem _ hm, hp⟩

theorem acceptsGzip_sound (req : Hdr) (h : acceptsGzip req = true) :
    ∃ e ∈ splitOn ',' (hget req hAcceptEncoding).toList,
      trim (cut ';' e).1 = encGzip.toList ∧ zeroWeight (cut ';' e).2 = false := by
  unfold acceptsGzip at h
  split at h
  · cases h
  · exact acceptsL_sound _ h

/-- **writer_exclusively_owned.** For every interleaving of `Get`, `Put` and pool-eviction events of any
number of handlers (threads), starting from the empty pool: a writer is never held by two live responses,
and a writer that some response holds is not in the pool (so no `Get` can hand it out). -/
theorem writer_exclusively_owned (evs : List PEv) :
    let s := prun {} evs
    (∀ t₁ t₂ z, (t₁, z) ∈ s.held → (t₂, z) ∈ s.held → t₁ = t₂) ∧
    (∀ t z, (t, z) ∈ s.held → z ∉ s.pool) ∧ s.pool.Nodup := by
  have hi := prun_inv {} evs pinv_init
  refine ⟨fun t₁ t₂ z h1 h2 => snd_unique hi.held_nodup h1 h2, ?_, hi.pool_nodup⟩
  intro t z hm hp
  exact hi.disjoint z hp (List.mem_map.mpr ⟨(t, z), hm, rfl⟩)

/-! ### non-vacuity -/

/-- a toy compressor with a non-trivial state (it counts the chunks since `Reset`) that satisfies the law. -/
def toyComp : Comp Nat where
  reset := fun _ => 0
  write := fun n b => (n + 1, b)
  close := fun n => (n, [])
  decode := some

theorem toy_feed (z : Nat) (cs : List Bytes) : (toyComp.feed z cs).2 = cs.flatten := by
  induction cs generalizing z with
  | nil => rfl
  | cons b r ih => rw [feed_cons]; simp only [List.flatten_cons]; rw [ih]; rfl

theorem toy_roundtrip : toyComp.RoundTrip := by
  intro z cs
  rw [toy_feed]
  show some (cs.flatten ++ []) = some cs.flatten
  rw [List.append_nil]

def toyCfg : Cfg Nat :=
  { typeOk := fun ct => ct == "text/html", sniff := fun _ => "text/html", comp := toyComp, fresh := 7 }

def reqGzip : Hdr := [("Accept-Encoding", ["gzip, deflate"])]
def script1 : List Op :=
  [.set "content-type" "text/html", .set "Content-Length" "6", .wh 201, .w [1, 2], .w [], .wh 500,
   .set "Content-Type" "image/png", .w [3]]

-- compressed; status of the first WriteHeader; Content-Length gone; three chunks decode to their concatenation
example : (serve toyCfg false true reqGzip [] [] script1).compressed = true := by decide
example : (serve toyCfg false true reqGzip [] [] script1).obs =
    { status := 201, body := [1, 2, 3],
      hdr := [("Vary", ["Accept-Encoding"]), ("Content-Type", ["text/html"]), ("Content-Encoding", ["gzip"])] } := by decide
example : ∃ h c, decision toyCfg false (hadd [] hVary hAcceptEncoding) script1 = some (h, c) ∧
    toyCfg.comp.decode (serve toyCfg false true reqGzip [] [] script1).obs.body = some (writesOf script1).flatten :=
  let ⟨h, c, hd, _, _, _, _, hdec⟩ := when_compressed toyCfg toy_roundtrip false true reqGzip [] [] script1 (by decide)
  ⟨h, c, hd, hdec⟩
-- implicit write, sniffed type
example : (serve toyCfg false true reqGzip [] [] [.w [60], .w [62]]).compressed = true := by decide
-- not compressed: zero weight, HEAD, 304, already encoded, other type, nothing written
example : (serve toyCfg false true [("Accept-Encoding", ["gzip;q=0"])] [] [] script1).compressed = false := by decide
example : (serve toyCfg true true reqGzip [] [] script1).compressed = false := by decide
example : (serve toyCfg false true reqGzip [] [] [.set "Content-Type" "text/html", .wh 304]).compressed = false := by decide
example : (serve toyCfg false true reqGzip [] [] (.set "content-encoding" "br" :: script1)).compressed = false := by decide
example : (serve toyCfg false true reqGzip [] [] [.set "Content-Type" "image/png", .w [1]]).compressed = false := by decide
example : (serve toyCfg false true reqGzip [] [] [.set "Content-Type" "text/html"]).compressed = false := by decide
example : (serve toyCfg false true reqGzip [] [] [.set "Content-Type" "image/png", .wh 404, .w [1], .w [2]]).obs =
    serveBare toyCfg false [] [.set "Content-Type" "image/png", .wh 404, .w [1], .w [2]] := by decide
-- flush first, flush between, flush last: same response as without; 103 first: decided at the final status
example : (serve toyCfg false true reqGzip [] [] [.set "Content-Type" "text/html", .fl, .w [1], .fl, .w [2], .fl]).obs =
    (serve toyCfg false true reqGzip [] [] [.set "Content-Type" "text/html", .w [1], .w [2]]).obs := by decide
example : (serve toyCfg false true reqGzip [] [] [.wh 103, .set "Content-Type" "text/html", .wh 404, .w [1]]).compressed = true ∧
    (serve toyCfg false true reqGzip [] [] [.wh 103, .set "Content-Type" "text/html", .wh 404, .w [1]]).obs.status = 404 := by decide
-- without the gzip writer in between the flush is real: it commits status 200 before the handler's 404
example : (serve toyCfg false true [] [] [] [.fl, .wh 404]).obs.status = 200 ∧
          (serve toyCfg false false [] [] [] [.fl, .wh 404]).obs.status = 404 := by decide
-- the pool: two handlers interleaved; the second Get reuses the writer the first one put back
example : (prun {} [.get 1 0, .get 2 0, .put 1, .get 3 0, .put 2]).held = [(3, 0)] ∧
          (prun {} [.get 1 0, .get 2 0, .put 1, .get 3 0, .put 2]).pool = [1] := by decide
-- weights as strconv.ParseFloat reads them: zero mantissas in every spelling, underflow to zero at 2^-1075 (ties to
-- even), hexadecimal forms, underscores; malformed text, inf/nan and overflows are not "zero"
set_option exponentiation.threshold 4000 in
set_option maxRecDepth 100000 in
example : ["0", "0.000", ".0", "-0", "0e5", "0E-0", "1e-400", "2e-324", "24703282292062327208e-343", "0x0p0",
           "0x1p-1075", "0x1.0p-1075", "0_0", "0x_0p0"].all (fun q => zeroLit q.toList) = true := by decide
set_option exponentiation.threshold 4000 in
set_option maxRecDepth 100000 in
example : ["1", "0.001", "3e-324", "24703282292062327209e-343", "0x1p-1074", "0x1.8p-1075", "", "q", "0.0.0", "0e",
           "0x0", "inf", "nan", "1e400", "0_", "_0", "0_x0p0"].all (fun q => !zeroLit q.toList) = true := by decide
example : acceptsGzip [("Accept-Encoding", ["gzip;q=0e0"])] = false ∧ acceptsGzip [("Accept-Encoding", ["gzip;q=0.0.0"])] = true ∧
          acceptsGzip [("Accept-Encoding", ["gzip;q"])] = true := by decide
-- decided_once has inhabitants of its hypotheses
example : (GW.writeHeader toyCfg { dec := .undecided, hdr := [("Content-Type", ["text/html"])], down := {}, pool := [] } 200).down.status = some 200 := by decide

end Fabio.Props.C17
