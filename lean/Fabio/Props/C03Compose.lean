import Fabio.Props.C03
import Fabio.Props.C05
/-!
C03 — composition with C05 (phase 2): the hypotheses the C03 theorems put on the table (`NoEmptyRoutes`,
`TableSorted`, unique host keys, lower-cased host keys) hold for every table `NewTable`/`NewTableCustom`
return, so the property is restated *without* them: for every configuration text that loads
(`loadTable env pf text = .ok t`) and for every definition list of the custom backend
(`newTable env defs = .ok t`), and every request.

From C05 (`Props/C05.lean`): `newTable_good` (⇒ `Inv` = `WF` ∧ `NoEmpty` ∧ `Weighed`, and `HostsOK`).
Proved here because C05 does not state it: `KeysLower` (every host key is its own lower-casing — `addRoute`,
`delRoute`, `weighRoute` only ever store under `lowerL host`), and the bridges from C05's invariants on the
association list to C03's hypotheses on `Table.get`.
-/
set_option linter.unusedSimpArgs false
namespace Fabio.Props.C03Compose
open Fabio Fabio.Model.Route Fabio.Model.Parse Fabio.Model.C05Spec Fabio.Model.C03
open Fabio.Lemmas Fabio.Lemmas.C03 Fabio.Props.C03

variable {env : Env} {t t1 : Table} {d : RouteDef}

/-! ### host keys are lower-case -/

def KeysLower (t : Table) : Prop := ∀ kv ∈ t, lowerL kv.1 = kv.1

theorem keysLower_of_keys_sub {t t' : Table} (hh : KeysLower t)
    (hs : ∀ kv ∈ t', ∃ kv0 ∈ t, kv0.1 = kv.1) : KeysLower t' := by
  intro kv hkv
  obtain ⟨kv0, h0, he⟩ := hs kv hkv
  rw [← he]; exact hh kv0 h0

theorem keysLower_set {t : Table} {host : Str} (rs : List Route) (hh : KeysLower t)
    (hl : lowerL host = host) : KeysLower (t.set host rs) := by
  intro kv hkv
  rcases C05Add.mem_set hkv with he | hm
  · subst he; exact hl
  · exact hh kv hm

theorem key_lower (s : Str) : lowerL (key s).1 = (key s).1 := by
  unfold key; exact lowerL_idem _

theorem keysLower_add (hh : KeysLower t) (h : addRoute env t d = .ok t1) : KeysLower t1 := by
  obtain ⟨url, _, _, _, ha⟩ := C05Add.addRoute_ok h
  rcases C05Add.addAt_cases ha with ⟨_, _, _, he⟩ | ⟨_, _, _, he⟩ | ⟨_, r, _, he⟩
  · subst he; exact keysLower_set _ hh (key_lower _)
  · subst he; exact keysLower_set _ hh (key_lower _)
  · subst he; exact keysLower_set _ hh (key_lower _)

theorem keysLower_delAll (skip : Target → Bool) (hh : KeysLower t) : KeysLower (C05Del.delAll t skip) := by
  unfold C05Del.delAll
  apply keysLower_of_keys_sub hh
  intro kv hkv
  obtain ⟨kv1, h1, he1⟩ := C05Main.keys_prune_sub _ kv hkv
  obtain ⟨kv0, h0, he0⟩ := C05Main.keys_mapRoutes_sub _ _ kv1 h1
  exact ⟨kv0, h0, he0.trans he1⟩

theorem keysLower_delOne (host path : Str) (skip : Target → Bool) (hl : lowerL host = host)
    (hh : KeysLower t) : KeysLower (C05Del.delOne t host path skip) := by
  unfold C05Del.delOne
  cases t.route host path with
  | none => exact hh
  | some r =>
    dsimp only
    apply keysLower_of_keys_sub (keysLower_set _ hh hl)
    exact C05Main.keys_prune_sub _

theorem keysLower_del (hh : KeysLower t) (h : delRoute env t d = .ok t1) : KeysLower t1 := by
  rw [C05Del.delRoute_eq] at h
  split at h
  · cases h; exact keysLower_delAll _ hh
  · split at h
    · cases h; exact keysLower_delAll _ hh
    · split at h
      · cases h; exact keysLower_delOne _ _ _ (key_lower _) hh
      · split at h
        · cases h
        · cases h; exact keysLower_delOne _ _ _ (key_lower _) hh

theorem keysLower_weigh (hh : KeysLower t) (h : weighRoute t d = .ok t1) : KeysLower t1 := by
  have hk := C05Weight.hosts_weigh h
  intro kv hkv
  have : kv.1 ∈ t1.map (·.1) := List.mem_map.mpr ⟨kv, hkv, rfl⟩
  rw [hk] at this
  obtain ⟨kv0, h0, he⟩ := List.mem_map.mp this
  rw [← he]; exact hh kv0 h0

theorem keysLower_apply (hh : KeysLower t) (h : applyDef env t d = .ok t1) : KeysLower t1 := by
  unfold applyDef at h
  split at h
  · exact keysLower_add hh h
  · exact keysLower_del hh h
  · exact keysLower_weigh hh h
  · cases h

theorem keysLower_fold (defs : List RouteDef) : ∀ {t t1 : Table}, KeysLower t →
    defs.foldlM (applyDef env) t = .ok t1 → KeysLower t1 := by
  induction defs with
  | nil => intro t t1 hg h; simp [List.foldlM, pure, Except.pure] at h; subst h; exact hg
  | cons d ds ih =>
    intro t t1 hg h
    rw [List.foldlM_cons] at h
    cases ha : applyDef env t d with
    | error e => rw [ha] at h; simp [bind, Except.bind] at h
    | ok t2 =>
      rw [ha] at h
      exact ih (keysLower_apply hg ha) h

/-- **keys_lower.** Every host key of a table `NewTable`/`NewTableCustom` return is lower-case. -/
theorem keys_lower {defs : List RouteDef} (h : newTable env defs = .ok t) : KeysLower t := by
  rw [C05Main.newTable_eq] at h
  cases hf : defs.foldlM (applyDef env) ([] : Table) with
  | error e => rw [hf] at h; cases h
  | ok t0 =>
    rw [hf] at h
    simp only [Except.map] at h
    cases h
    have := keysLower_fold defs (t := []) (fun _ hm => nomatch hm) hf
    intro kv hkv
    unfold C05Weight.sortTable at hkv
    obtain ⟨kv0, h0, he⟩ := List.mem_map.mp hkv
    rw [← he]; exact this kv0 h0

/-! ### bridges: C05's invariants on the association list ⇒ C03's hypotheses on `Table.get` -/

theorem get_of_mem {t : Table} (hn : (t.map (·.1)).Nodup) {k : Str} {rs : List Route} (hm : (k, rs) ∈ t) :
    t.get k = rs := by
  unfold Table.get
  induction t with
  | nil => cases hm
  | cons x xs ih =>
    obtain ⟨a, b⟩ := x
    simp only [List.map_cons, List.nodup_cons] at hn
    simp only [List.lookup_cons]
    rcases List.mem_cons.1 hm with he | hm'
    · cases he; simp
    · have hne : (k == a) = false := by
        apply beq_false_of_ne
        intro e
        exact hn.1 (List.mem_map.mpr ⟨(k, rs), hm', e⟩)
      rw [hne]; exact ih hn.2 hm'

theorem noEmptyRoutes_of_noEmpty {t : Table} (hn : NoEmpty t) : NoEmptyRoutes t := by
  intro k r hr
  rcases C05Add.get_mem_or_nil t k with h0 | hm
  · rw [h0] at hr; cases hr
  · exact (hn _ hm).2 r hr

/-- what C03 needs of a table, all of it true of every table that was built -/
structure Built (t : Table) : Prop where
  noEmpty : NoEmptyRoutes t
  sorted : TableSorted t
  keysNodup : (t.map (·.1)).Nodup
  keysLower : KeysLower t

/-- **built_newTable.** C05's `newTable_good`, C03's `newTable_sorted` and `keys_lower` together. -/
theorem built_newTable {defs : List RouteDef} (h : newTable env defs = .ok t) : Built t :=
  ⟨noEmptyRoutes_of_noEmpty (Fabio.Props.C05.newTable_good h).inv.noEmpty,
   newTable_sorted env [] defs h,
   (Fabio.Props.C05.newTable_good h).inv.wf.hosts,
   keys_lower h⟩

theorem newTable_of_loadTable {pf : ParseFloat} {text : Str} (h : loadTable env pf text = .ok t) :
    ∃ defs, newTable env defs = .ok t := by
  unfold loadTable at h
  split at h
  · cases h
  · rename_i defs _
    split at h
    · cases h
    · rename_i t' ht
      cases h
      exact ⟨defs, ht⟩

theorem built_loadTable {pf : ParseFloat} {text : Str} (h : loadTable env pf text = .ok t) : Built t := by
  obtain ⟨defs, hd⟩ := newTable_of_loadTable h
  exact built_newTable hd

/-! ### the property over built tables, stated on the table's own entries -/

/-- the key matches the request host (case-insensitively, default port removed): by glob, or by equality
when host globbing is disabled -/
def KeyMatches (cfg : Cfg) (req : Req) (k : Str) : Prop :=
  if cfg.globDisabled then normalizeHost k req.tls = normalizeHost req.host req.tls
  else cfg.globMatch (normalizeHost k req.tls) (normalizeHost req.host req.tls) = true

/-- a candidate: a route `r` stored under key `k` in the table, whose key is empty or matches the request
host and whose path matches under the configured matcher -/
def Candidate (cfg : Cfg) (t : Table) (req : Req) (k : Str) (r : Route) : Prop :=
  ∃ rs, (k, rs) ∈ t ∧ r ∈ rs ∧ (k = [] ∨ KeyMatches cfg req k) ∧ cfg.pathMatch req.path r.path = true

theorem normalizeHost_lowerL (h : Str) (tls : Bool) : normalizeHost (lowerL h) tls = normalizeHost h tls := by
  unfold normalizeHost
  rw [normalizeHostNoLower_lowerL, lowerL_idem]

theorem keyMatches_of_hostMatches {cfg : Cfg} {t : Table} {req : Req} {h : Str}
    (hm : HostMatches cfg t req h) : KeyMatches cfg req (lowerL h) := by
  unfold HostMatches at hm; unfold KeyMatches
  split
  · rename_i hg
    simp only [hg, if_true] at hm
    obtain ⟨pat, _, rfl, he⟩ := hm
    rw [normalizeHost_lowerL, normalizeHost_lowerL]; exact he
  · rename_i hg
    simp only [hg] at hm
    rw [normalizeHost_lowerL]; exact hm.2

theorem hostMatches_of_keyMatches {cfg : Cfg} {t : Table} {req : Req} {k : Str} {rs : List Route}
    (hb : Built t) (hk : (k, rs) ∈ t) (hm : KeyMatches cfg req k) : HostMatches cfg t req k := by
  unfold KeyMatches at hm; unfold HostMatches
  have hkeys : k ∈ keys t := List.mem_map.mpr ⟨(k, rs), hk, rfl⟩
  split
  · rename_i hg
    simp only [hg, if_true] at hm
    exact ⟨k, hkeys, (hb.keysLower _ hk).symm, hm⟩
  · rename_i hg
    simp only [hg] at hm
    exact ⟨hkeys, hm⟩

theorem get_lower_of_mem {t : Table} (hb : Built t) {k : Str} {rs : List Route} (hk : (k, rs) ∈ t) :
    t.get (lowerL k) = rs := by
  rw [hb.keysLower _ hk]; exact get_of_mem hb.keysNodup hk

theorem look_isSome_of_candidate {cfg : Cfg} {t : Table} {req : Req} (hb : Built t) {k : Str} {r : Route}
    (hc : Candidate cfg t req k r) : (look cfg t req k).isSome = true := by
  obtain ⟨rs, hk, hr, _, hm⟩ := hc
  unfold look lookup
  rw [get_lower_of_mem hb hk]
  exact lookupRoutes_isSome (fun x hx => hb.noEmpty k x (by rw [get_of_mem hb.keysNodup hk]; exact hx)) hr hm

/-- the answer is itself a candidate (soundness on the table's own entries) -/
theorem answer_is_candidate {cfg : Cfg} {t : Table} {req : Req} (hpick : PickOK cfg.pick)
    {h : Str} {r : Route} {tg : Target} (hres : Lookup cfg t req = some (h, r, tg)) :
    Candidate cfg t req (lowerL h) r ∧ tg ∈ r.targets := by
  obtain ⟨hh, hr, hm, htg⟩ := lookup_sound cfg t req hpick hres
  refine ⟨?_, htg⟩
  rcases C05Add.get_mem_or_nil t (lowerL h) with h0 | hmem
  · rw [h0] at hr; cases hr
  · refine ⟨_, hmem, hr, ?_, hm⟩
    rcases hh with rfl | hh
    · left; rfl
    · right; exact keyMatches_of_hostMatches hh

/-- **routed_iff_candidate** (built tables): without the redirect skip, a target is returned exactly when
some route of the table has an empty or matching host key and a matching path. No hypothesis about empty
routes: built tables have none (C05). -/
theorem routed_iff_candidate_built (cfg : Cfg) (t : Table) (req : Req) (hb : Built t) (hns : NoSkip cfg) :
    (Lookup cfg t req).isSome = true ↔ ∃ k r, Candidate cfg t req k r := by
  constructor
  · intro hs
    match hl : Lookup cfg t req, hs with
    | some (h, r, tg), _ =>
      -- soundness needs no picker assumption for the route part
      unfold Lookup at hl
      rcases lookupHosts_sound hl with h0 | ⟨hmem, hlk⟩
      · cases h0
      · obtain ⟨pre, post, e, _, hm, _, _⟩ := lookupRoutes_some hlk
        have hr : r ∈ t.get (lowerL h) := by rw [e]; simp
        rcases C05Add.get_mem_or_nil t (lowerL h) with h0 | hmem'
        · rw [h0] at hr; cases hr
        · refine ⟨lowerL h, r, _, hmem', hr, ?_, hm⟩
          rw [hostList_eq, List.mem_append] at hmem
          rcases hmem with hmem | hmem
          · right; exact keyMatches_of_hostMatches (mem_matched_iff.1 hmem)
          · left; simp at hmem; subst hmem; rfl
  · rintro ⟨k, r, rs, hk, hr, hkm, hm⟩
    apply lookup_complete cfg t req hns hb.noEmpty (k := k) ?_ (by rw [get_lower_of_mem hb hk]; exact hr) hm
    rcases hkm with rfl | hkm
    · left; rfl
    · right; exact hostMatches_of_keyMatches hb hk hkm

/-- **most_specific** (built tables): the answer is a candidate with one of the route's targets, and no
candidate is more specific —
(1) host-less only as fallback: if a candidate's key matches the request host, so does the answer's key;
(2) exact beats pattern: if such a candidate's key has no glob metacharacter, neither has the answer's;
(3) longer suffix beats shorter: if such a candidate's key has the host part `Y`+`T` (`hostPart`: the host of
    `net.SplitHostPort`, the whole key without a port; `Y` at least two characters), the answer's key is not a
    pattern with the host part `*`+`T` (for keys without a colon and keys `host:port` the host part is what it
    looks like: `hostPart_no_colon`, `hostPart_host_port`);
(4) longest path (prefix and iprefix matchers): no candidate under the answer's key has a longer path.
No sortedness / no-empty-route hypothesis. -/
theorem most_specific_built (cfg : Cfg) (t : Table) (req : Req) (hb : Built t) (hns : NoSkip cfg)
    (hpick : PickOK cfg.pick) {h : Str} {r : Route} {tg : Target} (hres : Lookup cfg t req = some (h, r, tg)) :
    (Candidate cfg t req (lowerL h) r ∧ tg ∈ r.targets) ∧
    ∀ k r', Candidate cfg t req k r' →
      (KeyMatches cfg req k → KeyMatches cfg req (lowerL h)) ∧
      (KeyMatches cfg req k → isGlobPat k = false → isGlobPat h = false) ∧
      (KeyMatches cfg req k → ∀ Y T : Str, 2 ≤ Y.length → hostPart k = Y ++ T →
          ¬ (isGlobPat h = true ∧ hostPart h = '*' :: T)) ∧
      (∀ pg kind, kind ≠ MatcherKind.glob → cfg.pathMatch = pathMatch pg kind → k = lowerL h →
          r'.path.length ≤ r.path.length) := by
  refine ⟨answer_is_candidate hpick hres, ?_⟩
  intro k r' hc
  have hcand := look_isSome_of_candidate hb hc
  obtain ⟨rs, hk, hr', _, hm'⟩ := hc
  refine ⟨?_, ?_, ?_, ?_⟩
  · intro hkm
    exact keyMatches_of_hostMatches
      (host_less_only_as_fallback cfg t req hns hres (hostMatches_of_keyMatches hb hk hkm) hcand)
  · intro hkm hex
    exact exact_beats_wildcard cfg t req hns hres (hostMatches_of_keyMatches hb hk hkm) hex hcand
  · intro hkm Y T hY hka ⟨hpat, hha⟩
    exact longer_suffix_beats_shorter_partial cfg t req hns k h Y T hY hka hha hpat
      (hostMatches_of_keyMatches hb hk hkm) hcand r tg hres
  · intro pg kind hkind hcfg hke
    subst hke
    apply longest_path_wins cfg t req pg kind hkind hcfg hb.sorted hres (r' := r') ?_ hm'
    rw [get_of_mem hb.keysNodup hk]; exact hr'

/-! ### unconditional statements: every configuration text that loads, every custom definition list -/

/-- **routed_iff_candidate**, `NewTable` (configuration text) -/
theorem routed_iff_candidate (env : Env) (pf : ParseFloat) (text : Str) (cfg : Cfg) (req : Req)
    (hl : loadTable env pf text = .ok t) (hns : NoSkip cfg) :
    (Lookup cfg t req).isSome = true ↔ ∃ k r, Candidate cfg t req k r :=
  routed_iff_candidate_built cfg t req (built_loadTable hl) hns

/-- **routed_iff_candidate**, `NewTableCustom` (custom backend) -/
theorem routed_iff_candidate_custom (env : Env) (defs : List RouteDef) (cfg : Cfg) (req : Req)
    (hl : newTable env defs = .ok t) (hns : NoSkip cfg) :
    (Lookup cfg t req).isSome = true ↔ ∃ k r, Candidate cfg t req k r :=
  routed_iff_candidate_built cfg t req (built_newTable hl) hns

/-- **most_specific_unconditional**, `NewTable` -/
theorem most_specific_unconditional (env : Env) (pf : ParseFloat) (text : Str) (cfg : Cfg) (req : Req)
    (hl : loadTable env pf text = .ok t) (hns : NoSkip cfg) (hpick : PickOK cfg.pick)
    {h : Str} {r : Route} {tg : Target} (hres : Lookup cfg t req = some (h, r, tg)) :
    (Candidate cfg t req (lowerL h) r ∧ tg ∈ r.targets) ∧
    ∀ k r', Candidate cfg t req k r' →
      (KeyMatches cfg req k → KeyMatches cfg req (lowerL h)) ∧
      (KeyMatches cfg req k → isGlobPat k = false → isGlobPat h = false) ∧
      (KeyMatches cfg req k → ∀ Y T : Str, 2 ≤ Y.length → hostPart k = Y ++ T →
          ¬ (isGlobPat h = true ∧ hostPart h = '*' :: T)) ∧
      (∀ pg kind, kind ≠ MatcherKind.glob → cfg.pathMatch = pathMatch pg kind → k = lowerL h →
          r'.path.length ≤ r.path.length) :=
  most_specific_built cfg t req (built_loadTable hl) hns hpick hres

/-- **most_specific_unconditional**, `NewTableCustom` -/
theorem most_specific_unconditional_custom (env : Env) (defs : List RouteDef) (cfg : Cfg) (req : Req)
    (hl : newTable env defs = .ok t) (hns : NoSkip cfg) (hpick : PickOK cfg.pick)
    {h : Str} {r : Route} {tg : Target} (hres : Lookup cfg t req = some (h, r, tg)) :
    (Candidate cfg t req (lowerL h) r ∧ tg ∈ r.targets) ∧
    ∀ k r', Candidate cfg t req k r' →
      (KeyMatches cfg req k → KeyMatches cfg req (lowerL h)) ∧
      (KeyMatches cfg req k → isGlobPat k = false → isGlobPat h = false) ∧
      (KeyMatches cfg req k → ∀ Y T : Str, 2 ≤ Y.length → hostPart k = Y ++ T →
          ¬ (isGlobPat h = true ∧ hostPart h = '*' :: T)) ∧
      (∀ pg kind, kind ≠ MatcherKind.glob → cfg.pathMatch = pathMatch pg kind → k = lowerL h →
          r'.path.length ≤ r.path.length) :=
  most_specific_built cfg t req (built_newTable hl) hns hpick hres

/-- the answer's key is stored lower-case, so `lowerL h` above is `h` itself whenever `h` came from the
table (glob mode: `h` is a key; globbing disabled: `h` is `lowerL` of a key) -/
theorem answer_key_lower (cfg : Cfg) (t : Table) (req : Req) (hb : Built t)
    {h : Str} {r : Route} {tg : Target} (hres : Lookup cfg t req = some (h, r, tg)) : lowerL h = h := by
  unfold Lookup at hres
  rcases lookupHosts_sound hres with h0 | ⟨hmem, _⟩
  · cases h0
  · rw [hostList_eq, List.mem_append] at hmem
    rcases hmem with hmem | hmem
    · have hm := mem_matched_iff.1 hmem
      unfold HostMatches at hm
      split at hm
      · obtain ⟨pat, _, rfl, _⟩ := hm; exact lowerL_idem _
      · obtain ⟨kv, hkv, rfl⟩ := List.mem_map.mp hm.1
        exact hb.keysLower _ hkv
    · simp at hmem; subst hmem; rfl

/-- **case_and_port_insensitive_unconditional**: for every loaded table, every configuration (host globbing
on or off, any matcher), the answer does not depend on the letter case of the request host, and the
scheme's default port is ignored. (These hold for every table; restated for completeness.) -/
theorem case_and_port_insensitive_unconditional (env : Env) (pf : ParseFloat) (text : Str) (cfg : Cfg)
    (_hl : loadTable env pf text = .ok t) (h p : Str) (tls : Bool) :
    Lookup cfg t ⟨lowerL h, tls, p⟩ = Lookup cfg t ⟨h, tls, p⟩ ∧
    (hasSuffix h port80 = false → Lookup cfg t ⟨h ++ port80, false, p⟩ = Lookup cfg t ⟨h, false, p⟩) ∧
    (hasSuffix h port443 = false → Lookup cfg t ⟨h ++ port443, true, p⟩ = Lookup cfg t ⟨h, true, p⟩) :=
  ⟨host_case_insensitive cfg t h tls p, default_port_removed_plain cfg t h p, default_port_removed_tls cfg t h p⟩

/-! ### non-vacuity: a concrete configuration text -/
namespace Ex
open Fabio.Props.C03.Ex Fabio.Props.C05

/-- ten commands: overlapping hosts and paths, a mixed-case host, tags, and a delete by tags that empties
`foo.com/api` and removes the host-less `/foo` -/
def text : Str := (String.intercalate "\n" [
  "route add e1 foo.com/foo/bar http://a:1/",
  "route add e2 foo.com/foo http://a:1/",
  "route add w1 *.foo.com/ http://a:1/",
  "route add w2 *.a.foo.com/ http://a:1/",
  "route add w0 *foo.com/ http://a:1/",
  "route add h1 /FOOBAR http://a:1/",
  "route add h2 /foo http://a:1/ tags \"v1\"",
  "route add e3 FOO.com/api http://a:1/ tags \"v1\"",
  "route add e4 foo.com/ http://a:1/",
  "route del tags \"v1\""]).toList

def answerOf (kind : MatcherKind) (noglob : Bool) (host : String) (tls : Bool) (path : String) :
    Option (Option (String × String × String)) :=
  match loadTable envW pfW text with
  | .ok t => some (answer (Lookup (cfg kind noglob) t ⟨host.toList, tls, path.toList⟩))
  | .error _ => none

/-- the text loads; the emptied `foo.com/api` does not shadow `foo.com/`; exact beats `*foo.com`; the longest
suffix wins; iprefix picks the longest path ignoring case; host globbing off + upper-case host -/
theorem text_instances :
    answerOf .pfx false "foo.com" false "/api/users" = some (some ("foo.com", "/", "e4")) ∧
    answerOf .pfx false "FOO.com:80" false "/foo/bar/baz" = some (some ("foo.com", "/foo/bar", "e1")) ∧
    answerOf .pfx false "b.a.foo.com" true "/x" = some (some ("*.a.foo.com", "/", "w2")) ∧
    answerOf .iprefix false "bar.com" false "/foobar" = some (some ("", "/FOOBAR", "h1")) ∧
    answerOf .pfx false "bar.com" false "/foo" = some none ∧
    answerOf .pfx true "FOO.COM" false "/foo" = some (some ("foo.com", "/foo", "e2")) := by
  decide +kernel

/-- the unconditional theorems instantiated at this text -/
example (t : Table) (hl : loadTable envW pfW text = .ok t) (req : Req) :
    (Lookup (cfg .pfx false) t req).isSome = true ↔ ∃ k r, Candidate (cfg .pfx false) t req k r :=
  routed_iff_candidate envW pfW text _ req hl rfl

example (t : Table) (hl : loadTable envW pfW text = .ok t) : Built t := built_loadTable hl

end Ex

end Fabio.Props.C03Compose
