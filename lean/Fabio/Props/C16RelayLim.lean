import Fabio.Model.C16RelayLim
import Fabio.Props.C16Relay
/-!
C16, round 4 — the relay with message limits (`Model/C16RelayLim.lean`).

* `within_limits_same_as_unlimited`: when every message the two ends send is within the configured limits
  (`Serve.Limits.reqOK` / `repOK`), the relay with limits moves exactly like the relay without — so every theorem
  of `Props/C16Relay.lean` and `Props/C16RelayLive.lean` holds for it (`limited_finished_call_is_transparent`).
* a message over a limit is *reported*: the step that meets it ends the call with `ResourceExhausted`, it is not
  dropped silently (`oversized_*`), as `c16.serve` demands of the real binary.
-/
namespace Fabio.Props.C16RelayLim
open Fabio.Model.C16 Fabio.Model.C16.Spec Fabio.Model.C16.Relay Fabio.Model.C16.Serve Fabio.Model.C16.RelayLim
open Fabio.Props.C16Relay

/-- everything in flight towards a limit check is within that limit -/
def Small (l : Limits) (s : St) : Prop :=
  (∀ m ∈ s.qA, l.reqOK (size m) = true) ∧ (∀ m ∈ s.qC, l.repOK (size m) = true) ∧
  (∀ m ∈ s.c2s.held, l.repOK (size m) = true)

theorem small_init (l : Limits) (method : String) (md : SMD) : Small l (init method md) := by
  refine ⟨?_, ?_, ?_⟩ <;> intro m h <;> simp [init, C2S.held] at h

/-- with everything in flight small, a step of the limited relay is a step of the unlimited one -/
theorem stepL_eq_step (l : Limits) (s : St) (e : Ev) (h : Small l s) : stepL l s e = step s e := by
  obtain ⟨ha, hc, hh⟩ := h
  cases e with
  | s2cStep =>
    simp only [stepL]
    split
    · rename_i m r hs hq
      have : l.reqOK (size m) = true := ha m (by rw [hq]; exact List.mem_cons_self)
      simp [this]
    · rfl
  | c2sStep =>
    cases hs : s.c2s with
    | recv =>
      cases hq : s.qC with
      | nil => simp [stepL, hs, hq]
      | cons m r =>
        have : l.repOK (size m) = true := hc m (by rw [hq]; exact List.mem_cons_self)
        simp only [Limits.repOK, Bool.and_eq_true, decide_eq_true_eq] at this
        simp [stepL, hs, hq, this.1]
    | send m =>
      have : l.repOK (size m) = true := hh m (by rw [hs]; simp [C2S.held])
      simp only [Limits.repOK, Bool.and_eq_true, decide_eq_true_eq] at this
      cases hq : s.qC <;> simp [stepL, hs, hq, this.2]
    | hdr m => cases hq : s.qC <;> simp [stepL, hs, hq]
    | done tr st => cases hq : s.qC <;> simp [stepL, hs, hq]
  | callerSend m => rfl
  | callerClose => rfl
  | callerRecv => rfl
  | backendRecv => rfl
  | backendHeader hd => rfl
  | backendSend m => rfl
  | backendFinish tr st => rfl
  | selS2C => rfl
  | selC2S => rfl

/-- the two ends' event is within the limits -/
def evOK (l : Limits) : Ev → Bool
  | .callerSend m => l.reqOK (size m)
  | .backendSend m => l.repOK (size m)
  | _ => true

theorem small_step (l : Limits) (s : St) (e : Ev) (h : Small l s) (he : evOK l e = true) : Small l (step s e) := by
  obtain ⟨ha, hc, hh⟩ := h
  cases e with
  | callerSend m =>
    simp only [step]; split
    · exact ⟨ha, hc, hh⟩
    · refine ⟨?_, hc, hh⟩
      intro x hx
      rcases List.mem_append.mp hx with hx | hx
      · exact ha x hx
      · simp at hx; subst hx; exact he
  | backendSend m =>
    simp only [step]; split
    · exact ⟨ha, hc, hh⟩
    · refine ⟨ha, ?_, hh⟩
      intro x hx
      rcases List.mem_append.mp hx with hx | hx
      · exact hc x hx
      · simp at hx; subst hx; exact he
  | s2cStep =>
    simp only [step]
    split
    · split
      · exact ⟨ha, hc, hh⟩
      · split
        · rename_i m r hq
          exact ⟨fun x hx => ha x (by rw [hq]; exact List.mem_cons_of_mem _ hx), hc, hh⟩
        · split <;> exact ⟨ha, hc, hh⟩
    · exact ⟨ha, hc, hh⟩
    · exact ⟨ha, hc, hh⟩
    · exact ⟨ha, hc, hh⟩
  | c2sStep =>
    simp only [step]
    split
    · split
      · rename_i hs m r hq
        have hm : l.repOK (size m) = true := hc m (by rw [hq]; exact List.mem_cons_self)
        refine ⟨ha, fun x hx => hc x (by rw [hq]; exact List.mem_cons_of_mem _ hx), ?_⟩
        intro x hx
        split at hx <;> (simp [C2S.held] at hx; subst hx; exact hm)
      · split
        · exact ⟨ha, hc, by intro x hx; simp [C2S.held] at hx⟩
        · exact ⟨ha, hc, hh⟩
    · rename_i m hs
      exact ⟨ha, hc, by intro x hx; simp [C2S.held] at hx; subst hx; exact hh x (by rw [hs]; simp [C2S.held])⟩
    · exact ⟨ha, hc, by intro x hx; simp [C2S.held] at hx⟩
    · exact ⟨ha, hc, hh⟩
  | callerClose => exact ⟨ha, hc, hh⟩
  | callerRecv =>
    simp only [step]; repeat' split
    all_goals exact ⟨ha, hc, hh⟩
  | backendRecv =>
    simp only [step]; repeat' split
    all_goals exact ⟨ha, hc, hh⟩
  | backendHeader hd =>
    simp only [step]; split <;> exact ⟨ha, hc, hh⟩
  | backendFinish tr st =>
    simp only [step]; split <;> exact ⟨ha, hc, hh⟩
  | selS2C =>
    simp only [step]; split <;> exact ⟨ha, hc, hh⟩
  | selC2S =>
    simp only [step]; repeat' split
    all_goals exact ⟨ha, hc, hh⟩

/-- **Within the limits the limits are invisible**: for every event list whose messages are within the limits
the relay with limits reaches exactly the state the relay without limits reaches. -/
theorem within_limits_same_as_unlimited (l : Limits) (s : St) (es : List Ev) (hs : Small l s)
    (hw : es.all (evOK l) = true) : runL l s es = run s es ∧ Small l (run s es) := by
  induction es generalizing s with
  | nil => exact ⟨rfl, hs⟩
  | cons e es ih =>
    simp only [List.all_cons, Bool.and_eq_true] at hw
    have h1 := stepL_eq_step l s e hs
    have h2 := small_step l s e hs hw.1
    obtain ⟨a, b⟩ := ih (step s e) h2 hw.2
    refine ⟨?_, b⟩
    simp only [runL, run, List.foldl_cons] at a ⊢
    rw [h1]; exact a

/-- … so a finished call of the limited relay whose messages were within the limits is transparent. -/
theorem limited_finished_call_is_transparent (l : Limits) (method : String) (md : SMD) (es : List Ev)
    (hw : es.all (evOK l) = true) (tr : SMD) (st : Status)
    (h : (runL l (init method md) es).cFin = some (tr, st)) :
    ∃ st0, (runL l (init method md) es).bFin = some (tr, st0) ∧ st = st0.norm ∧
      (runL l (init method md) es).cGot = (runL l (init method md) es).bSent ∧
      ((runL l (init method md) es).bSent ≠ [] → (runL l (init method md) es).cHdr = some (runL l (init method md) es).bHdr) ∧
      ((runL l (init method md) es).bSent = [] → (runL l (init method md) es).cHdr = none) := by
  obtain ⟨e, _⟩ := within_limits_same_as_unlimited l (init method md) es (small_init l method md) hw
  rw [e] at h ⊢
  exact finished_call_is_transparent method md es tr st h

/-! ### over a limit: reported, not dropped -/

/-- a caller message over `rx` met by the forwarder: the call is answered `ResourceExhausted` at that step -/
theorem oversized_request_reported (l : Limits) (s : St) (m : Msg) (r : List Msg)
    (hs : s.s2c = .recv) (hq : s.qA = m :: r) (hd : s.dFin = none) (hm : l.rx < size m) :
    (stepL l s .s2cStep).dFin = some ([], exhausted) ∧ (stepL l s .s2cStep).qB = s.qB := by
  have : l.reqOK (size m) = false := by simp [Limits.reqOK]; omega
  simp [stepL, hs, hq, hd, this]

/-- a backend message over `rx` met by the forwarder: the backend's stream ends with `ResourceExhausted`, which
the handler hands to the caller like any backend status; nothing of the message reaches the caller -/
theorem oversized_reply_reported_rx (l : Limits) (s : St) (m : Msg) (r : List Msg)
    (hs : s.c2s = .recv) (hq : s.qC = m :: r) (hm : l.rx < size m) :
    (stepL l s .c2sStep).c2s = .done [] exhausted ∧ (stepL l s .c2sStep).qD = s.qD := by
  have : ¬ size m ≤ l.rx := by omega
  simp [stepL, hs, hq, this]

/-- a backend message over `tx` at the send to the caller: answered `ResourceExhausted`, not sent -/
theorem oversized_reply_reported_tx (l : Limits) (s : St) (m : Msg)
    (hs : s.c2s = .send m) (hd : s.dFin = none) (hm : l.tx < size m) :
    (stepL l s .c2sStep).dFin = some ([], exhausted) ∧ (stepL l s .c2sStep).qD = s.qD := by
  have : ¬ size m ≤ l.tx := by omega
  cases hq : s.qC <;> simp [stepL, hs, hq, hd, this]

/-! ### non-vacuity -/

/-- rx = 4, tx = 2 bytes: a 4-byte request and a 2-byte reply pass and the call is transparent; a 5-byte request
ends the call with `ResourceExhausted` before the backend sees it; a 3-byte reply ends it at the send -/
example :
    let l : Limits := { rx := 4, tx := 2 }
    let up : List Ev := [.callerSend "01020304", .callerClose] ++ settle 3
    up.all (evOK l) = true ∧ (runL l (init "/m" []) up).bGot = ["01020304"] ∧ (runL l (init "/m" []) up).bEOF = true := by decide

example :
    let l : Limits := { rx := 4, tx := 2 }
    let dn : List Ev := [.backendSend "0a0b", .backendFinish [] {}] ++ settle 4
    dn.all (evOK l) = true ∧ (runL l (init "/m" []) dn).cFin = some ([], {}) ∧ (runL l (init "/m" []) dn).cGot = ["0a0b"] := by decide

example :
    let l : Limits := { rx := 4, tx := 2 }
    let big : List Ev := [.callerSend "0102030405", .callerClose] ++ settle 2
    (runL l (init "/m" []) big).cFin = some ([], exhausted) ∧ (runL l (init "/m" []) big).bGot = [] := by decide

example :
    let l : Limits := { rx := 4, tx := 2 }
    let big : List Ev := [.backendSend "0a0b0c", .backendFinish [] {}] ++ settle 4
    (runL l (init "/m" []) big).cFin = some ([], exhausted) ∧ (runL l (init "/m" []) big).cGot = [] := by decide

end Fabio.Props.C16RelayLim
