import Fabio.Lemmas.C16
/-!
C16 — gRPC calls are proxied transparently to a matching backend: property theorems.

The sentences of the property that logic can carry are about (1) which request the interceptor hands to the
routing table, (2) what happens when the table has no route, (3) the connection pool: reuse per backend and
dropping once the backend has left the table.  The relay of messages, metadata, trailers and status is done
by `mwitkow/grpc-proxy` and grpc-go; it is exercised by the correspondence (`c16.call`), not modelled, and
the specification predicates evaluated there are `Model.C16.Spec.forwardOK/backwardOK`.

Parameters throughout: `pp` = `url.ParseRequestURI(·).Path`, `lookup` = `route.Table.Lookup` under the
current table, answering with the chosen target's `URL.String()` (property C03 is about that function; the
regenerated facts pin that the interceptor calls exactly it with `Host` and `URL` built as modelled).
-/
namespace Fabio.Props.C16
open Fabio.Model.Route (Str Table)
open Fabio.Model.C16 Fabio.Lemmas.C16

/-! ### 1. the arguments of the lookup -/

/-- The host handed to the table is the `dsthost` value iff the key carries exactly one value; with no value
and with two or more values it is the empty host. -/
theorem dsthost_exactly_one (md : MD) :
    (∀ h, mdGet md dsthostKey = [h] → dstHost md = h) ∧
    (mdGet md dsthostKey = [] → dstHost md = []) ∧
    (∀ a b r, mdGet md dsthostKey = a :: b :: r → dstHost md = []) := by
  refine ⟨?_, ?_, ?_⟩
  · intro h e; simp [dstHost, e]
  · intro e; simp [dstHost, e]
  · intro a b r e; simp [dstHost, e]

/-- **Link to C03.** The interceptor consults the table exactly once, with host = `dstHost md` and path =
the parsed path of the full method name; nothing else of the call reaches the decision: two lookups that
agree on that one argument pair lead to the same outcome, and the outcome is the lookup's answer. -/
theorem grpc_lookup_args {T} (pp : Str → Option Str) (md : MD) (method p : Str) (hp : pp method = some p) :
    (∀ lookup : Str → Str → Option T,
      intercept pp lookup true md method =
        match lookup (dstHost md) p with
        | none => .notFound
        | some t => .forward t) ∧
    (∀ l₁ l₂ : Str → Str → Option T, l₁ (dstHost md) p = l₂ (dstHost md) p →
      intercept pp l₁ true md method = intercept pp l₂ true md method) := by
  constructor
  · intro lookup
    cases h : lookup (dstHost md) p <;> simp [intercept, synthReq, hp, h]
  · intro l₁ l₂ h; simp [intercept, synthReq, hp, h]

/-- For a method name over `[-A-Za-z0-9._/]` and a parser that is the identity there (checked against
`net/url` by the correspondence) the path is the full method name itself. -/
theorem grpc_lookup_args_plain {T} (pp : Str → Option Str) (hpp : ∀ m, plainMethod m = true → pp m = some m)
    (lookup : Str → Str → Option T) (md : MD) (method : Str) (hm : plainMethod method = true) :
    intercept pp lookup true md method =
      match lookup (dstHost md) method with
      | none => .notFound
      | some t => .forward t :=
  (grpc_lookup_args pp md method method (hpp method hm)).1 lookup

/-- Without metadata or with an unparsable method the call is answered `Internal` and the table is not
consulted at all. -/
theorem bad_request_internal {T} (pp : Str → Option Str) (lookup : Str → Str → Option T) (hasMD : Bool)
    (md : MD) (method : Str) (h : hasMD = false ∨ pp method = none) :
    intercept pp lookup hasMD md method = .internal := by
  rcases h with h | h
  · simp [intercept, synthReq, h]
  · cases hasMD <;> simp [intercept, synthReq, h]

/-! ### 2. no route -/

/-- No matching route ⇒ the caller gets `NotFound`, the pool is untouched, nothing is dialled (the whole
world is unchanged: the handler, and with it director and pool, are never reached). -/
theorem noroute_notfound_no_backend (pp : Str → Option Str) (lookup : Table → Str → Str → Option Str)
    (w : World) (md : MD) (method p : Str) (dialOk : Bool)
    (hp : pp method = some p) (hno : lookup w.table (dstHost md) p = none) :
    w.call pp lookup true md method dialOk = (w, .status codeNotFound) := by
  have := (grpc_lookup_args (T := Str) pp md method p hp).1 (lookup w.table)
  simp [World.call, this, hno]

/-- … and conversely the pool is reached only with the key of the target the lookup returned. -/
theorem route_reaches_pool_with_target (pp : Str → Option Str) (lookup : Table → Str → Str → Option Str)
    (w : World) (md : MD) (method p k : Str) (dialOk : Bool)
    (hp : pp method = some p) (hk : lookup w.table (dstHost md) p = some k) :
    w.call pp lookup true md method dialOk = ((w.get k dialOk).1, .proxied k (w.get k dialOk).2) := by
  have := (grpc_lookup_args (T := Str) pp md method p hp).1 (lookup w.table)
  simp [World.call, this, hk]

/-! ### 3. the pool -/

/-- A live pooled connection for the target key is returned and nothing is dialled; otherwise the dialler is
called exactly once and, when it succeeds, the fresh connection is what the caller gets and what the pool
holds afterwards for that key (when it fails the pool is unchanged). -/
theorem pool_reuse (w : World) (k : Str) (d : Bool) :
    (∀ c, w.pool.find k = some c → c.shut = false →
        w.get k d = (w, .reused c.id)) ∧
    ((∀ c, w.pool.find k = some c → c.shut = true) →
        (w.get k d).1.dialLog = k :: w.dialLog ∧
        (d = true → (w.get k d).2 = .dialled w.next ∧
                    (w.get k d).1.pool.find k = some { id := w.next, shut := false } ∧
                    (w.get k d).1.next = w.next + 1) ∧
        (d = false → (w.get k d).2 = .error ∧ (w.get k d).1.pool = w.pool)) := by
  constructor
  · intro c hf hl; exact get_hit w k d c hf hl
  · intro hm
    cases d
    · rw [get_miss_err w k hm]; simp
    · rw [get_miss_ok w k hm]; simp [find_put_same]

/-- `get` never touches another key's entry. -/
theorem get_other_key (w : World) (k k' : Str) (d : Bool) (h : k' ≠ k) :
    (w.get k d).1.pool.find k' = w.pool.find k' := by
  rcases get_cases w k d with ⟨c, _, _, e⟩ | ⟨_, _, e⟩ | ⟨_, _, e⟩
  · rw [e]
  · rw [e]; exact find_put_other w.pool k k' _ h
  · rw [e]

/-- After a cleanup against table `t` every pool key is a target URL of `t` and no remaining connection is
shut down; what goes to the closer was live and is *not* a target of `t`. -/
theorem cleanup_drops_absent (p : Pool) (t : Table) :
    (∀ k ∈ (p.cleanup (tableURLs t)).keys, k ∈ tableURLs t) ∧
    (∀ kc ∈ p.cleanup (tableURLs t), kc.2.shut = false) ∧
    (∀ kc ∈ p.cleanup (tableURLs t), kc ∈ p) := by
  refine ⟨?_, ?_, ?_⟩
  · intro k hk
    simp only [Pool.keys, List.mem_map] at hk
    obtain ⟨kc, hm, rfl⟩ := hk
    exact (mem_cleanup hm).2.2
  · intro kc hm; exact (mem_cleanup hm).2.1
  · intro kc hm; exact (mem_cleanup hm).1

/-- A live connection whose backend is still in the table survives the cleanup. -/
theorem cleanup_keeps_present (p : Pool) (t : Table) (k : Str) (c : Conn)
    (hf : p.find k = some c) (hl : c.shut = false) (hk : (tableURLs t).contains k = true) :
    (p.cleanup (tableURLs t)).find k = some c :=
  find_cleanup p _ k c hf hl hk

/-- Only live connections of absent backends are handed to the closer. -/
theorem cleanup_closes_only_absent (p : Pool) (urls : List Str) :
    ∀ c ∈ p.toClose urls, ∃ k, (k, c) ∈ p ∧ c.shut = false ∧ k ∉ urls := by
  intro c hc
  simp only [Pool.toClose, List.mem_map, List.mem_filter] at hc
  obtain ⟨⟨k, c'⟩, ⟨hm, hcond⟩, rfl⟩ := hc
  simp only [Bool.and_eq_true, Bool.not_eq_true', List.contains_eq_mem, decide_eq_false_iff_not] at hcond
  exact ⟨k, hm, hcond.1, hcond.2⟩

/-- The pool invariant: keys are unique and every pooled connection id was handed out by a dial. -/
def Inv (w : World) : Prop := w.pool.keys.Nodup ∧ ∀ kc ∈ w.pool, kc.2.id < w.next

theorem inv_get (w : World) (k : Str) (d : Bool) (h : Inv w) : Inv (w.get k d).1 := by
  rcases get_cases w k d with ⟨c, _, _, e⟩ | ⟨_, _, e⟩ | ⟨_, _, e⟩
  · rw [e]; exact h
  · rw [e]
    refine ⟨nodup_keys_put _ _ _ h.1, ?_⟩
    intro kc hm
    have hb : ∀ (p : Pool), (∀ kc ∈ p, kc.2.id < w.next) → ∀ kc ∈ p.put k { id := w.next }, kc.2.id < w.next + 1 := by
      intro p
      induction p with
      | nil => intro _ kc hm; simp [Pool.put] at hm; subst hm; simp
      | cons x r ih =>
        intro hp kc hm
        obtain ⟨k0, c0⟩ := x
        by_cases h0 : k0 = k
        · simp [Pool.put, h0] at hm
          rcases hm with rfl | hm
          · simp
          · exact Nat.lt_succ_of_lt (hp kc (List.mem_cons_of_mem _ hm))
        · simp [Pool.put, h0] at hm
          rcases hm with rfl | hm
          · exact Nat.lt_succ_of_lt (hp _ List.mem_cons_self)
          · exact ih (fun kc h => hp kc (List.mem_cons_of_mem _ h)) kc hm
    exact hb w.pool h.2 kc hm
  · rw [e]; exact h

/-- Any sequence of calls, direct gets, connection shutdowns, table changes and cleanups keeps the pool's
keys unique (one connection per target URL) and its connection ids below the dial counter. -/
theorem pool_inv (pp : Str → Option Str) (lookup : Table → Str → Str → Option Str) :
    ∀ (evs : List Event) (w : World), Inv w → Inv (w.run pp lookup evs).1 := by
  intro evs
  induction evs with
  | nil => intro w h; exact h
  | cons e es ih =>
    intro w h
    have hs : Inv (w.step pp lookup e).1 := by
      cases e with
      | call hm md m d =>
        simp only [World.step, World.call]
        cases intercept pp (lookup w.table) hm md m with
        | internal => exact h
        | notFound => exact h
        | forward k => exact inv_get w k d h
      | get k d => exact inv_get w k d h
      | shut k =>
        refine ⟨by simpa [World.step, keys_shutKey] using h.1, ?_⟩
        intro kc hm
        simp only [World.step, Pool.shutKey, List.mem_map] at hm
        obtain ⟨kc0, hm0, rfl⟩ := hm
        have := h.2 kc0 hm0
        simp only [World.step]
        split <;> simpa using this
      | setTable t => exact h
      | cleanup =>
        refine ⟨nodup_keys_cleanup _ _ h.1, ?_⟩
        intro kc hm
        exact h.2 kc (mem_cleanup hm).1
    simpa [World.run] using ih _ hs

/-! ### 4. reuse until the backend leaves -/

/-- One step of a history that keeps backend `k` leaves its pooled live connection in place, answers a call
or get for `k` with that very connection, and dials nothing for `k`. -/
theorem step_keeps (pp : Str → Option Str) (lookup : Table → Str → Str → Option Str)
    (k : Str) (c : Nat) (w : World) (e : Event)
    (hf : w.pool.find k = some { id := c, shut := false })
    (hk : match e with
          | .cleanup => (tableURLs w.table).contains k = true
          | .shut k' => k' ≠ k
          | _ => True) :
    (w.step pp lookup e).1.pool.find k = some { id := c, shut := false } ∧
    (∀ r, (w.step pp lookup e).2.poolRes = some (k, r) → r = .reused c) ∧
    (∃ l, (w.step pp lookup e).1.dialLog = l ++ w.dialLog ∧ k ∉ l) := by
  have hget : ∀ k' d,
      (w.get k' d).1.pool.find k = some { id := c, shut := false } ∧
      (k' = k → (w.get k' d).2 = .reused c) ∧
      (∃ l, (w.get k' d).1.dialLog = l ++ w.dialLog ∧ k ∉ l) := by
    intro k' d
    by_cases hkk : k' = k
    · subst hkk
      rw [get_hit w k' d _ hf rfl]
      exact ⟨hf, fun _ => rfl, [], rfl, by simp⟩
    · refine ⟨by rw [get_other_key w k' k d (fun e => hkk e.symm)]; exact hf, fun e => absurd e hkk, ?_⟩
      rcases get_cases w k' d with ⟨c', _, _, e⟩ | ⟨_, _, e⟩ | ⟨_, _, e⟩
      · rw [e]; exact ⟨[], rfl, by simp⟩
      · rw [e]; exact ⟨[k'], rfl, by simpa using fun e => hkk e.symm⟩
      · rw [e]; exact ⟨[k'], rfl, by simpa using fun e => hkk e.symm⟩
  cases e with
  | call hm md m d =>
    simp only [World.step, World.call]
    cases intercept pp (lookup w.table) hm md m with
    | internal => exact ⟨hf, by intro r h; simp [Obs.poolRes] at h, [], rfl, by simp⟩
    | notFound => exact ⟨hf, by intro r h; simp [Obs.poolRes] at h, [], rfl, by simp⟩
    | forward k' =>
      obtain ⟨h1, h2, h3⟩ := hget k' d
      refine ⟨h1, ?_, h3⟩
      intro r h
      simp only [Obs.poolRes, Option.some.injEq, Prod.mk.injEq] at h
      rw [← h.2]; exact h2 h.1
  | get k' d =>
    obtain ⟨h1, h2, h3⟩ := hget k' d
    refine ⟨h1, ?_, h3⟩
    intro r h
    simp only [World.step, Obs.poolRes, Option.some.injEq, Prod.mk.injEq] at h
    rw [← h.2]; exact h2 h.1
  | shut k' =>
    refine ⟨?_, by intro r h; simp [World.step, Obs.poolRes] at h, [], rfl, by simp⟩
    simp only [World.step]
    rw [find_shutKey_other _ _ _ hk]; exact hf
  | setTable t => exact ⟨hf, by intro r h; simp [World.step, Obs.poolRes] at h, [], rfl, by simp⟩
  | cleanup =>
    refine ⟨?_, by intro r h; simp [World.step, Obs.poolRes] at h, [], rfl, by simp⟩
    exact find_cleanup _ _ _ _ hf rfl hk

/-- **Reuse until removed.** Take any history of calls (to any method, with any metadata), table changes,
cleanups and connection shutdowns.  If backend `k` has a live pooled connection `c` at the start and is in
the table whenever a cleanup looks (and nobody closes `c`), then every call that is routed to `k` during the
history is served by that one connection `c`, nothing is dialled for `k`, and `c` is still pooled at the end. -/
theorem reuse_until_removed (pp : Str → Option Str) (lookup : Table → Str → Str → Option Str)
    (k : Str) (c : Nat) :
    ∀ (evs : List Event) (w : World),
      w.pool.find k = some { id := c, shut := false } →
      keeps pp lookup k w evs →
      (w.run pp lookup evs).1.pool.find k = some { id := c, shut := false } ∧
      (∀ o ∈ (w.run pp lookup evs).2, ∀ r, o.poolRes = some (k, r) → r = .reused c) ∧
      (∃ l, (w.run pp lookup evs).1.dialLog = l ++ w.dialLog ∧ k ∉ l) := by
  intro evs
  induction evs with
  | nil => intro w hf _; exact ⟨hf, (by intro o h; cases h), [], rfl, (by simp)⟩
  | cons e es ih =>
    intro w hf hk
    obtain ⟨hk1, hk2⟩ := hk
    obtain ⟨s1, s2, l1, s3, s4⟩ := step_keeps pp lookup k c w e hf hk1
    obtain ⟨r1, r2, l2, r3, r4⟩ := ih _ s1 hk2
    refine ⟨by simpa [World.run] using r1, ?_, l2 ++ l1, ?_, ?_⟩
    · intro o ho r hr
      simp only [World.run, List.mem_cons] at ho
      rcases ho with rfl | ho
      · exact s2 r hr
      · exact r2 o ho r hr
    · simp only [World.run]; rw [r3, s3, List.append_assoc]
    · simp only [List.mem_append, not_or]; exact ⟨r4, s4⟩

/-- The first call to a backend that is not pooled dials exactly once; from then on, as long as the backend
stays, every call routed to it gets that same connection (the two halves of "connections are reused per
backend"). -/
theorem first_call_then_reuse (pp : Str → Option Str) (lookup : Table → Str → Str → Option Str)
    (k : Str) (w : World) (hmiss : ∀ c, w.pool.find k = some c → c.shut = true)
    (evs : List Event) (hk : keeps pp lookup k (w.get k true).1 evs) :
    (w.get k true).2 = .dialled w.next ∧
    (∀ o ∈ ((w.get k true).1.run pp lookup evs).2, ∀ r, o.poolRes = some (k, r) → r = .reused w.next) ∧
    (∃ l, ((w.get k true).1.run pp lookup evs).1.dialLog = l ++ k :: w.dialLog ∧ k ∉ l) := by
  obtain ⟨h1, h2, _⟩ := ((pool_reuse w k true).2 hmiss).2.1 rfl
  obtain ⟨_, r2, l, r3, r4⟩ := reuse_until_removed pp lookup k w.next evs _ h2 hk
  refine ⟨h1, r2, l, ?_, r4⟩
  rw [r3, ((pool_reuse w k true).2 hmiss).1]

/-- Once the backend has left the table, the next cleanup removes its connection from the pool and hands it
to the closer (if it was still live), and a later call to that key (after the backend came back) dials anew. -/
theorem dropped_once_removed (w : World) (k : Str) (c : Conn)
    (hf : w.pool.find k = some c) (habs : (tableURLs w.table).contains k = false) :
    (w.pool.cleanup (tableURLs w.table)).find k = none ∧
    (c.shut = false → c ∈ w.pool.toClose (tableURLs w.table)) := by
  constructor
  · apply find_none_of_not_mem_keys
    intro hm
    have := (cleanup_drops_absent w.pool w.table).1 k hm
    have hc : (tableURLs w.table).contains k = true := by simpa using this
    rw [habs] at hc; cases hc
  · intro hl
    have hnm : k ∉ tableURLs w.table := by
      intro hm
      have hc : (tableURLs w.table).contains k = true := by simpa using hm
      rw [habs] at hc; cases hc
    simp only [Pool.toClose, List.mem_map, List.mem_filter]
    exact ⟨(k, c), ⟨find_mem hf, by simp [hl, hnm]⟩, rfl⟩

/-! ### 5. two first calls racing (the pool's `Get` is read–dial–set, not atomic) -/

open Race in
/-- Whatever the interleaving of two complete first `Get`s for one key: both callers hold the *same*
connection, it is the one live connection the pool has for the key, at most two dials happen, and a
connection dialled in vain has been closed — no open connection exists outside the pool. -/
theorem race_outcomes :
    ∀ s ∈ schedules 6,
      (isDone (final "k".toList s).a && isDone (final "k".toList s).b) = true →
        (connOf (final "k".toList s).a).isSome = true ∧
        connOf (final "k".toList s).a = connOf (final "k".toList s).b ∧
        (final "k".toList s).pool.length = 1 ∧
        (∀ kc ∈ (final "k".toList s).pool, kc.1 = "k".toList ∧ kc.2.shut = false ∧
            some kc.2.id = connOf (final "k".toList s).a) ∧
        1 ≤ (final "k".toList s).next ∧ (final "k".toList s).next ≤ 2 ∧
        orphans (final "k".toList s) = [] := by
  decide

open Race in
/-- Both callers may still dial (the overlap is not prevented), but the loser's connection is closed by
`Set` and the loser is handed the pooled one. -/
theorem race_double_dial_loser_closed :
    final "k".toList [false, true, false, true, false, true] =
      { pool := [("k".toList, { id := 0 })], next := 2, closed := [1],
        a := .done (.dialled 0), b := .done (.reused 0) } := by
  decide

open Race in
/-- **The leak that was repaired (defect F1).** With the original unconditional `Set` there is an
interleaving in which both callers dial and the second `Set` overwrites the first: connection 0 stays open,
is in no pool, and no cleanup will ever close it — "dropped once the backend leaves the table" fails for it.
The failing input is replayed on the real code by `c16.race` (corpus). -/
theorem race_unfixed_orphan :
    finalOld "k".toList [false, true, false, true, false, true] =
      { pool := [("k".toList, { id := 1 })], next := 2, closed := [],
        a := .done (.dialled 0), b := .done (.dialled 1) } ∧
    orphans (finalOld "k".toList [false, true, false, true, false, true]) = [0] := by
  decide

open Race in
/-- Run one after the other the two calls share a connection with either `Set`. -/
theorem sequential_no_orphan :
    (final "k".toList [false, false, false, true, true, true]).b = .done (.reused 0) ∧
    orphans (final "k".toList [false, false, false, true, true, true]) = [] ∧
    orphans (finalOld "k".toList [false, false, false, true, true, true]) = [] := by
  decide

/-! ### non-vacuity -/

example : dstHost [("dsthost".toList, ["beta".toList])] = "beta".toList := by decide
example : dstHost [("dsthost".toList, ["a".toList, "b".toList])] = [] := by decide
example : dstHost [("other".toList, ["x".toList])] = [] := by decide
example : plainMethod "/grpc.health.v1.Health/Check".toList = true := by decide
example : plainMethod "/a.B/C%41".toList = false := by decide

/-- a table lookup for the examples: host "beta" → backend b, empty host → backend a, only under /svc. -/
private def exLookup : Table → Str → Str → Option Str := fun _ h p =>
  if "/svc".toList.isPrefixOf p then (if h = "beta".toList then some "grpc://b".toList else some "grpc://a".toList) else none

example : ({} : World).call some exLookup true [] "/other/M".toList true = ({}, .status codeNotFound) := by decide

example :
    (World.run some exLookup {} [.call true [("dsthost".toList, ["beta".toList])] "/svc/M".toList true,
                                 .call true [("dsthost".toList, ["beta".toList])] "/svc/N".toList true,
                                 .call true [] "/svc/M".toList true]).2 =
      [.call (.proxied "grpc://b".toList (.dialled 0)), .call (.proxied "grpc://b".toList (.reused 0)),
       .call (.proxied "grpc://a".toList (.dialled 1))] := by decide

/-- `keeps` is satisfiable on a history with a table change and a cleanup, and fails when the cleanup sees a
table without the backend. -/
private def exTable (u : String) : Table :=
  [([], [{ host := [], path := "/svc".toList,
           targets := [{ service := "s".toList, tags := [], opts := [], url := u.toList, fixedWeight := 0 }] }])]

example : tableURLs (exTable "grpc://a") = ["grpc://a".toList] := by decide

example :
    let w : World := { pool := [("grpc://a".toList, { id := 0 })], next := 1, table := exTable "grpc://a" }
    keeps some exLookup "grpc://a".toList w [.setTable [], .setTable (exTable "grpc://a"), .cleanup, .get "grpc://a".toList true] := by
  simp [keeps, World.step, tableURLs, exTable]

example :
    let w : World := { pool := [("grpc://a".toList, { id := 0 })], next := 1, table := exTable "grpc://a" }
    (World.run some exLookup w [.setTable (exTable "grpc://b"), .cleanup, .setTable (exTable "grpc://a"),
                                .get "grpc://a".toList true]).2 =
      [.none, .closed [{ id := 0 }], .none, .get "grpc://a".toList (.dialled 1)] := by decide

/-! the message comparison of the correspondence: same field sequence ⇔ same message -/
open Spec.Wire in
example : canon "0801" = some [1, 0, 1] := by decide
open Spec.Wire in
/-- a non-minimal tag (88 00) and a non-minimal varint value (81 00) denote the same field -/
example : sameMsg "88008100" "0801" = true := by decide
open Spec.Wire in
/-- altered, dropped, duplicated and reordered fields are different messages -/
example : sameMsg "0801" "0802" = false ∧ sameMsg "08011002" "0801" = false ∧
    sameMsg "0801" "08010801" = false ∧ sameMsg "08011002" "10020801" = false := by decide
open Spec.Wire in
/-- length-delimited payloads and groups are part of the value; bytes that are not wire format fall back to
byte equality -/
example : sameMsg "0a0161" "0a0162" = false ∧ canon "0b08010c" = some [1, 3, 1, 0, 1, 1, 4] ∧
    canon "0b0801" = none ∧ sameMsg "ff" "ff" = true ∧ sameMsg "ff" "fe" = false := by decide

end Fabio.Props.C16
