import Fabio.Generated.C10
import Fabio.Model.C10
/-!
C10 — the tie by translation. `Fabio.Generated.C10.XBufSize` and `XUnmarshal` are produced on every run by the
Go→Lean translator (`tools/factgen/xlate.go`) from the current `proxy/tcp/tls_clienthello.go`; they are what the
code says now. The theorems below prove them equal — for every input — to the hand-written model
(`Model/C10.lean`) that the property theorems of `Props/C10.lean` are about, so those theorems hold of the
translated source. A change to the Go functions changes the generated definitions and these proofs are re-checked
against it (`lake build` on every run).

Only the classification is compared for rejections (the model names a rejection by its site, the code by its
error text); values and panics are compared exactly.
-/
namespace Fabio.Props.C10Xlate
open Fabio Fabio.Xlate Fabio.Model.C10 Fabio.Generated.C10

/-- Common observation type of both sides. -/
inductive Obs (α : Type) where
  | val (a : α)
  | rejected
  | panicked
deriving DecidableEq, Repr

def obsModel {α} : R α → Obs α
  | .ok a => .val a
  | .reject _ => .rejected
  | .panic _ => .panicked

/-- `clientHelloBufferSize` returns `(n, nil)` or `(0, err)`. -/
def obsBufSize : V (XBufSize.Rho × XBufSize.St) → Obs Nat
  | .ok ((n, none), _) => if 0 ≤ n then .val n.toNat else .panicked
  | .ok ((_, some _), _) => .rejected
  | .panic _ => .panicked

@[simp] theorem orI_ofNat (a b : Nat) : orI (Int.ofNat a) (Int.ofNat b) = Int.ofNat (a ||| b) := by
  simp [orI]

@[simp] theorem shlI_ofNat (a k : Nat) : shlI (Int.ofNat a) k = Int.ofNat (a <<< k) := by
  simp [shlI, Nat.shiftLeft_eq]

theorem idxN_lt (d : List UInt8) (i : Nat) (h : i < d.length) : idxN d i = .ok d[i] := by
  simp [idxN, List.getElem?_eq_getElem h]

theorem midx_lt (d : List UInt8) (i : Nat) (h : i < d.length) : Model.C10.idx d i = .ok d[i] := by
  simp [Model.C10.idx, List.getElem?_eq_getElem h]

@[simp] theorem orI_be16 (a b : UInt8) : orI (shlI (↑a.toNat) 8) (↑b.toNat) = ((be16 a b : Nat) : Int) := by
  simp [be16, orI, shlI, Nat.shiftLeft_eq]; rfl

@[simp] theorem orI_be24 (a b c : UInt8) :
    orI (orI (shlI (↑a.toNat) 16) (shlI (↑b.toNat) 8)) (↑c.toNat) = ((be24 a b c : Nat) : Int) := by
  simp [be24, orI, shlI, Nat.shiftLeft_eq]; rfl

@[simp] theorem R_bind_ok {α β} (a : α) (f : α → R β) : (R.ok a >>= f) = f a := rfl
@[simp] theorem R_bind_reject {α β} (w : String) (f : α → R β) : ((R.reject w : R α) >>= f) = .reject w := rfl
@[simp] theorem R_bind_panic {α β} (w : String) (f : α → R β) : ((R.panic w : R α) >>= f) = .panic w := rfl

attribute [local simp] seq ifS Xlate.ret assign skip Xlate.len Xlate.idx obsModel

theorem xbufsize_eq_model (data : List UInt8) :
    obsBufSize (XBufSize.run { data := data }) = obsModel (clientHelloBufferSize data) := by
  unfold XBufSize.run Xlate.run XBufSize.body clientHelloBufferSize
  by_cases h9 : data.length < 9
  · have h9' : (data.length : Int) < 9 := by omega
    simp [h9, h9', obsBufSize, peekLen]
  · have h9' : ¬ (data.length : Int) < 9 := by omega
    have i0 := idxN_lt data 0 (by omega); have i3 := idxN_lt data 3 (by omega); have i4 := idxN_lt data 4 (by omega)
    have i5 := idxN_lt data 5 (by omega); have i6 := idxN_lt data 6 (by omega); have i7 := idxN_lt data 7 (by omega)
    have i8 := idxN_lt data 8 (by omega)
    have m0 := midx_lt data 0 (by omega); have m3 := midx_lt data 3 (by omega); have m4 := midx_lt data 4 (by omega)
    have m5 := midx_lt data 5 (by omega); have m6 := midx_lt data 6 (by omega); have m7 := midx_lt data 7 (by omega)
    have m8 := midx_lt data 8 (by omega)
    simp [*, peekLen, Model.C10.recTypeHandshake, Model.C10.hsTypeClientHello, Model.C10.maxRecordLen, Model.C10.hsHdrLen, obsBufSize]
    cases hb0 : (data[0] != 22) <;> simp [hb0, *] <;> simp_all
    generalize hr : be16 data[3] data[4] = r
    cases hb1 : (decide (r = 0) || decide (16384 < (r : Int))) <;> simp [hb1, *] <;> simp_all
    · rw [if_neg (by omega)]
      cases hb2 : (data[5] != 1) <;> simp [hb2, *] <;> simp_all
      generalize hh : be24 data[6] data[7] data[8] = hs
      cases hb3 : (decide (hs = 0) || decide ((r : Int) - 4 < (hs : Int))) <;> simp [hb3, *] <;> simp_all
      rw [if_neg (show ¬ ((r : Int) - 4 < (hs : Int)) by omega), if_pos (show (0 : Int) ≤ (hs : Int) + 9 by omega)]
      simp
      omega
    · rw [if_pos (by omega)]

/-! ### `unmarshal` -/

theorem xsliceFrom_nat (d : List UInt8) (n : Nat) (h : n ≤ d.length) :
    Xlate.sliceFrom d (n : Int) = .ok (d.drop n) := by
  simp [Xlate.sliceFrom]; omega

theorem xsliceTo_nat (d : List UInt8) (n : Nat) (h : n ≤ d.length) :
    Xlate.sliceTo d (n : Int) = .ok (d.take n) := by
  simp [Xlate.sliceTo]; omega

theorem xslice_nat (d : List UInt8) (a b : Nat) (h : a ≤ b ∧ b ≤ d.length) :
    Xlate.slice d (a : Int) (b : Int) = .ok ((d.take b).drop a) := by
  simp [Xlate.slice]; omega

theorem msliceFrom (d : List UInt8) (n : Nat) (h : n ≤ d.length) : Model.C10.sliceFrom d n = .ok (d.drop n) := by
  simp [Model.C10.sliceFrom, h]

theorem msliceTo (d : List UInt8) (n : Nat) (h : n ≤ d.length) : Model.C10.sliceTo d n = .ok (d.take n) := by
  simp [Model.C10.sliceTo, h]

theorem mslice (d : List UInt8) (a b : Nat) (h : a ≤ b ∧ b ≤ d.length) :
    Model.C10.slice d a b = .ok ((d.take b).drop a) := by
  simp [Model.C10.slice, h]

namespace U
open XUnmarshal

/-- The fields of the translated state that are dead at the end of an iteration of the name loop (each is assigned
before it is read again): erased before comparing states. -/
def core1 (s : St) : St := { s with d := [], nameType := 0, nameLen := 0 }

/-- Observation of a flow: states up to the dead fields, the state of a `return` and the text of a panic dropped. -/
def erase (core : St → St) : Flow Bool St → Flow Bool St
  | .next s => .next (core s)
  | .brk s => .brk (core s)
  | .cont s => .cont (core s)
  | .ret r _ => .ret r {}
  | .panic _ => .panic ""

/-- What the model's `nameLoop` result means for the translated state. -/
def exp1 (s : St) : R (Option (List UInt8)) → Flow Bool St
  | .ok (some nm) => .next (core1 { s with m_serverName := nm })
  | .ok none => .next (core1 s)
  | .reject _ => .ret false {}
  | .panic _ => .panic ""

/-- One round of the name loop in closed form. -/
theorem loop1Body_eq (s : St) (h3 : 3 ≤ s.d.length) : loop1Body s =
    (if s.d.length - 3 < be16 s.d[1] s.d[2] then
      .ret false { s with nameType := s.d[0], nameLen := (be16 s.d[1] s.d[2] : Nat), d := s.d.drop 3 }
    else if s.d[0] = 0 then
      .brk { s with nameType := s.d[0], nameLen := (be16 s.d[1] s.d[2] : Nat), d := s.d.drop 3,
                    m_serverName := (s.d.drop 3).take (be16 s.d[1] s.d[2]) }
    else
      .next { s with nameType := s.d[0], nameLen := (be16 s.d[1] s.d[2] : Nat),
                     d := (s.d.drop 3).drop (be16 s.d[1] s.d[2]) }) := by
  have h3' : ¬ (s.d.length : Int) < 3 := by omega
  have i0 := idxN_lt s.d 0 (by omega); have i1 := idxN_lt s.d 1 (by omega); have i2 := idxN_lt s.d 2 (by omega)
  have sf := xsliceFrom_nat s.d 3 (by omega)
  simp at sf
  unfold loop1Body
  simp [*]
  generalize be16 s.d[1] s.d[2] = nl
  by_cases hl : s.d.length - 3 < nl
  · simp [hl]
  · have st := xsliceTo_nat (s.d.drop 3) nl (by simp; omega)
    have sf2 := xsliceFrom_nat (s.d.drop 3) nl (by simp; omega)
    by_cases ht : s.d[0] = 0
    · simp [hl, ht, st, brk]
    · have hb : (s.d[0] == 0) = false := by simp [ht]
      simp [hl, ht, hb, sf2]

/-- The name loop (`for len(d) > 0`): run from any state, the translated loop agrees with the model's `nameLoop`
on the state's `d`; it touches only `d`, `nameType`, `nameLen` and, when a host_name entry is found, `m.serverName`. -/
theorem loop1_spec (n : Nat) (s : St) :
    erase core1 (loopN loop1Cond loop1Body n s) = exp1 s (nameLoop n s.d) := by
  induction n generalizing s with
  | zero => simp [nameLoop, loopN, erase, exp1]
  | succ n ih =>
    unfold nameLoop loopN
    by_cases h0 : s.d.length = 0
    · have : ¬ (0 : Int) < s.d.length := by omega
      simp [h0, loop1Cond, this, erase, exp1]
    · have h0' : (0 : Int) < s.d.length := by omega
      simp only [h0, h0', loop1Cond, Xlate.len, decide_true, if_false]
      by_cases h3 : s.d.length < 3
      · have h3' : (s.d.length : Int) < 3 := by omega
        simp [h3, h3', loop1Body, erase, exp1]
      · have m0 := midx_lt s.d 0 (by omega); have m1 := midx_lt s.d 1 (by omega); have m2 := midx_lt s.d 2 (by omega)
        have msf := msliceFrom s.d 3 (by omega)
        rw [loop1Body_eq s (by omega)]
        simp only [h3, if_false, m0, m1, m2, msf, R_bind_ok, List.length_drop]
        generalize be16 s.d[1] s.d[2] = nl
        by_cases hl : s.d.length - 3 < nl
        · simp [hl, erase, exp1]
        · have mst := msliceTo (s.d.drop 3) nl (by simp; omega)
          have msf2 := msliceFrom (s.d.drop 3) nl (by simp; omega)
          by_cases ht : s.d[0] = 0
          · simp [hl, ht, mst, erase, exp1, Model.C10.nameTypeHost, core1]
          · simp only [hl, ht, if_false, msf2, R_bind_ok, Model.C10.nameTypeHost]
            rw [ih]
            simp [exp1, core1]

end U

end Fabio.Props.C10Xlate
