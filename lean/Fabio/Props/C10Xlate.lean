import Fabio.Generated.C10
import Fabio.Model.C10
import Fabio.Props.C10
/-!
C10 — the tie by translation. `Fabio.Generated.C10.XBufSize` and `XUnmarshal` are produced on every run by the
Go→Lean translator (`tools/factgen/xlate.go`) from the current `proxy/tcp/tls_clienthello.go`; they are what the
code says now. The theorems below prove them equal — for every input — to the hand-written model
(`Model/C10.lean`) that the property theorems of `Props/C10.lean` are about, so those theorems hold of the
translated source. A change to the Go functions changes the generated definitions and these proofs are re-checked
against it (`lake build` on every run).

Only the classification is compared for rejections (the model names a rejection by its site, the code by its
error text); values and panics are compared exactly.
-/
namespace Fabio.Props.C10Xlate
open Fabio Fabio.Xlate Fabio.Model.C10 Fabio.Generated.C10

/-- Common observation type of both sides. -/
inductive Obs (α : Type) where
  | val (a : α)
  | rejected
  | panicked
deriving DecidableEq, Repr

def obsModel {α} : R α → Obs α
  | .ok a => .val a
  | .reject _ => .rejected
  | .panic _ => .panicked

/-- `clientHelloBufferSize` returns `(n, nil)` or `(0, err)`. -/
def obsBufSize : V (XBufSize.Rho × XBufSize.St) → Obs Nat
  | .ok ((n, none), _) => if 0 ≤ n then .val n.toNat else .panicked
  | .ok ((_, some _), _) => .rejected
  | .panic _ => .panicked

@[simp] theorem orI_ofNat (a b : Nat) : orI (Int.ofNat a) (Int.ofNat b) = Int.ofNat (a ||| b) := by
  simp [orI]

@[simp] theorem shlI_ofNat (a k : Nat) : shlI (Int.ofNat a) k = Int.ofNat (a <<< k) := by
  simp [shlI, Nat.shiftLeft_eq]

theorem idxN_lt (d : List UInt8) (i : Nat) (h : i < d.length) : idxN d i = .ok d[i] := by
  simp [idxN, List.getElem?_eq_getElem h]

theorem midx_lt (d : List UInt8) (i : Nat) (h : i < d.length) : Model.C10.idx d i = .ok d[i] := by
  simp [Model.C10.idx, List.getElem?_eq_getElem h]

@[simp] theorem orI_be16 (a b : UInt8) : orI (shlI (↑a.toNat) 8) (↑b.toNat) = ((be16 a b : Nat) : Int) := by
  simp [be16, orI, shlI, Nat.shiftLeft_eq]; rfl

@[simp] theorem orI_be24 (a b c : UInt8) :
    orI (orI (shlI (↑a.toNat) 16) (shlI (↑b.toNat) 8)) (↑c.toNat) = ((be24 a b c : Nat) : Int) := by
  simp [be24, orI, shlI, Nat.shiftLeft_eq]; rfl

@[simp] theorem R_bind_ok {α β} (a : α) (f : α → R β) : (R.ok a >>= f) = f a := rfl
@[simp] theorem R_bind_reject {α β} (w : String) (f : α → R β) : ((R.reject w : R α) >>= f) = .reject w := rfl
@[simp] theorem R_bind_panic {α β} (w : String) (f : α → R β) : ((R.panic w : R α) >>= f) = .panic w := rfl

attribute [local simp] seq ifS Xlate.ret assign skip Xlate.len Xlate.idx obsModel

theorem xbufsize_eq_model (data : List UInt8) :
    obsBufSize (XBufSize.run { p0 := data }) = obsModel (clientHelloBufferSize data) := by
  unfold XBufSize.run Xlate.run XBufSize.body clientHelloBufferSize
  by_cases h9 : data.length < 9
  · have h9' : (data.length : Int) < 9 := by omega
    simp [h9, h9', obsBufSize, peekLen]
  · have h9' : ¬ (data.length : Int) < 9 := by omega
    have i0 := idxN_lt data 0 (by omega); have i3 := idxN_lt data 3 (by omega); have i4 := idxN_lt data 4 (by omega)
    have i5 := idxN_lt data 5 (by omega); have i6 := idxN_lt data 6 (by omega); have i7 := idxN_lt data 7 (by omega)
    have i8 := idxN_lt data 8 (by omega)
    have m0 := midx_lt data 0 (by omega); have m3 := midx_lt data 3 (by omega); have m4 := midx_lt data 4 (by omega)
    have m5 := midx_lt data 5 (by omega); have m6 := midx_lt data 6 (by omega); have m7 := midx_lt data 7 (by omega)
    have m8 := midx_lt data 8 (by omega)
    simp [*, peekLen, Model.C10.recTypeHandshake, Model.C10.hsTypeClientHello, Model.C10.maxRecordLen, Model.C10.hsHdrLen, obsBufSize]
    cases hb0 : (data[0] != 22) <;> simp [hb0, *] <;> simp_all
    generalize hr : be16 data[3] data[4] = r
    cases hb1 : (decide (r = 0) || decide (16384 < (r : Int))) <;> simp [hb1, *] <;> simp_all
    · rw [if_neg (by omega)]
      cases hb2 : (data[5] != 1) <;> simp [hb2, *] <;> simp_all
      generalize hh : be24 data[6] data[7] data[8] = hs
      cases hb3 : (decide (hs = 0) || decide ((r : Int) - 4 < (hs : Int))) <;> simp [hb3, *] <;> simp_all
      rw [if_neg (show ¬ ((r : Int) - 4 < (hs : Int)) by omega), if_pos (show (0 : Int) ≤ (hs : Int) + 9 by omega)]
      simp
      omega
    · rw [if_pos (by omega)]

/-! ### `unmarshal` -/

theorem xsliceFrom_nat (d : List UInt8) (n : Nat) (h : n ≤ d.length) :
    Xlate.sliceFrom d (n : Int) = .ok (d.drop n) := by
  simp [Xlate.sliceFrom]; omega

theorem xsliceTo_nat (d : List UInt8) (n : Nat) (h : n ≤ d.length) :
    Xlate.sliceTo d (n : Int) = .ok (d.take n) := by
  simp [Xlate.sliceTo]; omega

theorem xslice_nat (d : List UInt8) (a b : Nat) (h : a ≤ b ∧ b ≤ d.length) :
    Xlate.slice d (a : Int) (b : Int) = .ok ((d.take b).drop a) := by
  simp [Xlate.slice]; omega

theorem msliceFrom (d : List UInt8) (n : Nat) (h : n ≤ d.length) : Model.C10.sliceFrom d n = .ok (d.drop n) := by
  simp [Model.C10.sliceFrom, h]

theorem msliceTo (d : List UInt8) (n : Nat) (h : n ≤ d.length) : Model.C10.sliceTo d n = .ok (d.take n) := by
  simp [Model.C10.sliceTo, h]

theorem mslice (d : List UInt8) (a b : Nat) (h : a ≤ b ∧ b ≤ d.length) :
    Model.C10.slice d a b = .ok ((d.take b).drop a) := by
  simp [Model.C10.slice, h]

namespace U
open XUnmarshal

/-- The fields of the translated state that are dead at the end of an iteration of the name loop (each is assigned
before it is read again): erased before comparing states. -/
def core1 (s : St) : St := { s with l6 := [], l8 := 0, l9 := 0 }

/-- Observation of a flow: states up to the dead fields, the state of a `return` and the text of a panic dropped. -/
def erase (core : St → St) : Flow Bool St → Flow Bool St
  | .next s => .next (core s)
  | .brk s => .brk (core s)
  | .cont s => .cont (core s)
  | .ret r _ => .ret r {}
  | .panic _ => .panic ""

/-- What the model's `nameLoop` result means for the translated state. -/
def exp1 (s : St) : R (Option (List UInt8)) → Flow Bool St
  | .ok (some nm) => .next (core1 { s with m_serverName := nm })
  | .ok none => .next (core1 s)
  | .reject _ => .ret false {}
  | .panic _ => .panic ""

/-- One round of the name loop in closed form. -/
theorem loop1Body_eq (s : St) (h3 : 3 ≤ s.l6.length) : loop1Body s =
    (if s.l6.length - 3 < be16 s.l6[1] s.l6[2] then
      .ret false { s with l8 := s.l6[0], l9 := (be16 s.l6[1] s.l6[2] : Nat), l6 := s.l6.drop 3 }
    else if s.l6[0] = 0 then
      .brk { s with l8 := s.l6[0], l9 := (be16 s.l6[1] s.l6[2] : Nat), l6 := s.l6.drop 3,
                    m_serverName := (s.l6.drop 3).take (be16 s.l6[1] s.l6[2]) }
    else
      .next { s with l8 := s.l6[0], l9 := (be16 s.l6[1] s.l6[2] : Nat),
                     l6 := (s.l6.drop 3).drop (be16 s.l6[1] s.l6[2]) }) := by
  have h3' : ¬ (s.l6.length : Int) < 3 := by omega
  have i0 := idxN_lt s.l6 0 (by omega); have i1 := idxN_lt s.l6 1 (by omega); have i2 := idxN_lt s.l6 2 (by omega)
  have sf := xsliceFrom_nat s.l6 3 (by omega)
  simp at sf
  unfold loop1Body
  simp [*]
  generalize be16 s.l6[1] s.l6[2] = nl
  by_cases hl : s.l6.length - 3 < nl
  · simp [hl]
  · have st := xsliceTo_nat (s.l6.drop 3) nl (by simp; omega)
    have sf2 := xsliceFrom_nat (s.l6.drop 3) nl (by simp; omega)
    by_cases ht : s.l6[0] = 0
    · simp [hl, ht, st, brk]
    · have hb : (s.l6[0] == 0) = false := by simp [ht]
      simp [hl, ht, hb, sf2]

/-- The name loop (`for len(d) > 0`): run from any state, the translated loop agrees with the model's `nameLoop`
on the state's `d`; it touches only `d`, `nameType`, `nameLen` and, when a host_name entry is found, `m.serverName`. -/
theorem loop1_spec (n : Nat) (s : St) :
    erase core1 (loopN loop1Cond loop1Body n s) = exp1 s (nameLoop n s.l6) := by
  induction n generalizing s with
  | zero => simp [nameLoop, loopN, erase, exp1]
  | succ n ih =>
    unfold nameLoop loopN
    by_cases h0 : s.l6.length = 0
    · have : ¬ (0 : Int) < s.l6.length := by omega
      simp [h0, loop1Cond, this, erase, exp1]
    · have h0' : (0 : Int) < s.l6.length := by omega
      have hc : loop1Cond s = V.ok true := by simp [loop1Cond]; omega
      simp only [h0, if_false, hc]
      by_cases h3 : s.l6.length < 3
      · have h3' : (s.l6.length : Int) < 3 := by omega
        simp [h3, h3', loop1Body, erase, exp1]
      · have m0 := midx_lt s.l6 0 (by omega); have m1 := midx_lt s.l6 1 (by omega); have m2 := midx_lt s.l6 2 (by omega)
        have msf := msliceFrom s.l6 3 (by omega)
        rw [loop1Body_eq s (by omega)]
        simp only [h3, if_false, m0, m1, m2, msf, R_bind_ok, List.length_drop]
        generalize be16 s.l6[1] s.l6[2] = nl
        by_cases hl : s.l6.length - 3 < nl
        · simp [hl, erase, exp1]
        · have mst := msliceTo (s.l6.drop 3) nl (by simp; omega)
          have msf2 := msliceFrom (s.l6.drop 3) nl (by simp; omega)
          by_cases ht : s.l6[0] = 0
          · simp [hl, ht, mst, erase, exp1, Model.C10.nameTypeHost, core1]
          · simp only [hl, ht, if_false, msf2, R_bind_ok, Model.C10.nameTypeHost]
            rw [ih]
            simp [exp1, core1]

theorem ext16_toNat (a b : UInt8) : ((a.toUInt16 <<< (8 : UInt16)) ||| b.toUInt16).toNat = be16 a b := by
  have ha := a.toNat_lt
  have : a.toNat * 256 % 65536 = a.toNat * 256 := by omega
  simp [be16, UInt16.toNat_or, UInt16.toNat_shiftLeft, Nat.shiftLeft_eq, this]

theorem ext16_zero (a b : UInt8) :
    ((a.toUInt16 <<< (8 : UInt16)) ||| b.toUInt16 == (0 : UInt16)) = decide (be16 a b = 0) := by
  rw [← ext16_toNat]
  generalize ((a.toUInt16 <<< (8 : UInt16)) ||| b.toUInt16) = x
  cases h : (x == (0 : UInt16)) <;> simp_all [← UInt16.toNat_inj]

/-- `loop1_spec` by cases, in the form the proof about the enclosing loop consumes. -/
theorem loop1_cases (n : Nat) (s : St) :
    (∃ nm s', nameLoop n s.l6 = .ok (some nm) ∧ loopN loop1Cond loop1Body n s = .next s' ∧
        core1 s' = core1 { s with m_serverName := nm }) ∨
    (∃ s', nameLoop n s.l6 = .ok none ∧ loopN loop1Cond loop1Body n s = .next s' ∧ core1 s' = core1 s) ∨
    (∃ site s', nameLoop n s.l6 = .reject site ∧ loopN loop1Cond loop1Body n s = .ret false s') ∨
    (∃ w w', nameLoop n s.l6 = .panic w ∧ loopN loop1Cond loop1Body n s = .panic w') := by
  have h := loop1_spec n s
  cases hm : nameLoop n s.l6 with
  | ok o =>
    cases o with
    | some nm =>
      left
      rw [hm] at h
      cases hl : loopN loop1Cond loop1Body n s <;> simp [hl, erase, exp1] at h
      exact ⟨nm, _, rfl, rfl, h⟩
    | none =>
      right; left
      rw [hm] at h
      cases hl : loopN loop1Cond loop1Body n s <;> simp [hl, erase, exp1] at h
      exact ⟨_, rfl, rfl, h⟩
  | reject site =>
    right; right; left
    rw [hm] at h
    cases hl : loopN loop1Cond loop1Body n s <;> simp [hl, erase, exp1] at h
    subst h
    exact ⟨site, _, rfl, rfl⟩
  | panic w =>
    right; right; right
    rw [hm] at h
    cases hl : loopN loop1Cond loop1Body n s <;> simp [hl, erase, exp1] at h
    exact ⟨w, _, rfl, rfl⟩

theorem loop1_cases' {n : Nat} {s : St} {fl : Flow Bool St} (hk : loopN loop1Cond loop1Body n s = fl) :
    (∃ nm s', nameLoop n s.l6 = .ok (some nm) ∧ fl = .next s' ∧ core1 s' = core1 { s with m_serverName := nm }) ∨
    (∃ s', nameLoop n s.l6 = .ok none ∧ fl = .next s' ∧ core1 s' = core1 s) ∨
    (∃ site s', nameLoop n s.l6 = .reject site ∧ fl = .ret false s') ∨
    (∃ w w', nameLoop n s.l6 = .panic w ∧ fl = .panic w') := by
  subst hk; exact loop1_cases n s

/-- What the enclosing code can see of a flow of the extension loop: the rebound `data` and `m.serverName` of a
state it falls through with, a `return false`, a panic. -/
inductive Out where
  | next (data name : List UInt8)
  | retFalse
  | panicked
  | other
deriving DecidableEq

def out0 : Flow Bool St → Out
  | .next s => .next s.p0 s.m_serverName
  | .ret false _ => .retFalse
  | .panic _ => .panicked
  | _ => .other

def outR (data : List UInt8) : R (List UInt8) → Out
  | .ok cur => .next data cur
  | .reject _ => .retFalse
  | .panic _ => .panicked

/-- What one round of the extension loop does, in terms of the model (`serverNameExt` on the extension body when
the extension number is 0). -/
theorem loop0Body_spec (s : St) (h4 : 4 ≤ s.p0.length) :
    out0 (loop0Body s) =
      (if (s.p0.drop 4).length < be16 s.p0[2] s.p0[3] then Out.retFalse
       else outR ((s.p0.drop 4).drop (be16 s.p0[2] s.p0[3]))
         (if be16 s.p0[0] s.p0[1] = 0 then
            serverNameExt ((s.p0.drop 4).take (be16 s.p0[2] s.p0[3])) s.m_serverName
          else R.ok s.m_serverName)) := by
  have h4' : ¬ (s.p0.length : Int) < 4 := by omega
  have i0 := idxN_lt s.p0 0 (by omega); have i1 := idxN_lt s.p0 1 (by omega)
  have i2 := idxN_lt s.p0 2 (by omega); have i3 := idxN_lt s.p0 3 (by omega)
  have sf := xsliceFrom_nat s.p0 4 (by omega)
  simp at sf
  unfold loop0Body
  generalize hlen : be16 s.p0[2] s.p0[3] = len
  by_cases hl : s.p0.length - 4 < len
  · simp [*, out0]
  · have st := xsliceTo_nat (s.p0.drop 4) len (by simp; omega)
    have sf2 := xsliceFrom_nat (s.p0.drop 4) len (by simp; omega)
    have hmin : min len (s.p0.length - 4) = len := by omega
    by_cases he : be16 s.p0[0] s.p0[1] = 0
    · simp [*, ext16_zero]
      generalize hd : List.take len (List.drop 4 s.p0) = d
      have hdl : d.length = len := by subst hd; simp; omega
      unfold serverNameExt
      by_cases h2 : len < 2
      · have : (len : Int) < 2 := by omega
        simp [h2, this, out0, outR, hdl]
      · have h2i : ¬ (len : Int) < 2 := by omega
        have j0 := idxN_lt d 0 (by omega); have j1 := idxN_lt d 1 (by omega)
        have n0 := midx_lt d 0 (by omega); have n1 := midx_lt d 1 (by omega)
        have sfd := xsliceFrom_nat d 2 (by omega); have msfd := msliceFrom d 2 (by omega)
        simp at sfd
        simp [h2, h2i, hdl, j0, j1, n0, n1, sfd, msfd]
        generalize hnl : be16 d[0] d[1] = namesLen
        by_cases hn : len - 2 = namesLen
        · have : ((len : Int) - 2 != (namesLen : Int)) = false := by simp; omega
          have hn' : ((d.length : Int) - 2 != (namesLen : Int)) = false := by simp; omega
          simp [hn, this, hn', hdl, loop]
          generalize hk : loopN loop1Cond loop1Body _ _ = fl
          rcases loop1_cases' hk with ⟨nm, s', hm, rfl, hc⟩ | ⟨s', hm, rfl, hc⟩ | ⟨site, s', hm, rfl⟩ | ⟨w, w', hm, rfl⟩
          · simp at hm
            simp [core1] at hc
            simp [hm, hc, sf2, out0, outR]
          · simp at hm
            simp [core1] at hc
            simp [hm, hc, sf2, out0, outR]
          · simp at hm
            simp [hm, out0, outR]
          · simp at hm
            simp [hm, out0, outR]
        · have : ((len : Int) - 2 != (namesLen : Int)) = true := by simp; omega
          have this2 : (((len - 2 : Nat) : Int) != (namesLen : Int)) = true := by simp; omega
          simp [hn, this, this2, hdl, out0, outR]
    · simp [*, ext16_zero, out0, outR]

theorem loop0Body_short (s : St) (h : s.p0.length < 4) : ∃ s', loop0Body s = .ret false s' := by
  have h' : (s.p0.length : Int) < 4 := by omega
  unfold loop0Body
  simp [h']

/-- Observation of the extension loop as a whole: `m.serverName` when it runs to completion. -/
def obsLoop0 : Flow Bool St → Option (Obs (List UInt8))
  | .next s => some (.val s.m_serverName)
  | .ret false _ => some .rejected
  | .panic _ => some .panicked
  | _ => none

/-- The extension loop (`for len(data) != 0`) agrees with the model's `extLoop` on the state's `data` and
`m.serverName`, for every fuel. -/
theorem loop0_spec (n : Nat) (s : St) :
    obsLoop0 (loopN loop0Cond loop0Body n s) = some (obsModel (extLoop n s.p0 s.m_serverName)) := by
  induction n generalizing s with
  | zero => simp [extLoop, loopN, obsLoop0]
  | succ n ih =>
    unfold extLoop loopN
    by_cases h0 : s.p0.length = 0
    · have : ((s.p0.length : Int) != 0) = false := by
        have : s.p0 = [] := List.length_eq_zero_iff.mp h0
        simp [this]
      simp [h0, loop0Cond, this, obsLoop0]
    · have h0' : ((s.p0.length : Int) != 0) = true := by
        simp; intro h; simp [h] at h0
      simp only [h0, loop0Cond, Xlate.len, h0', if_false]
      by_cases h4 : s.p0.length < 4
      · obtain ⟨s', hs'⟩ := loop0Body_short s h4
        simp [h4, hs', obsLoop0]
      · have hb := loop0Body_spec s (by omega)
        have m0 := midx_lt s.p0 0 (by omega); have m1 := midx_lt s.p0 1 (by omega)
        have m2 := midx_lt s.p0 2 (by omega); have m3 := midx_lt s.p0 3 (by omega)
        have msf := msliceFrom s.p0 4 (by omega)
        simp only [h4, if_false, m0, m1, m2, m3, msf, R_bind_ok, List.length_drop] at hb ⊢
        generalize hlen : be16 s.p0[2] s.p0[3] = len at hb ⊢
        by_cases hl : s.p0.length - 4 < len
        · simp only [hl, if_true] at hb ⊢
          cases hf : loop0Body s <;> simp [hf, out0] at hb
          · rename_i r s'
            cases r <;> simp at hb
            simp [obsLoop0]
        · simp only [hl, if_false] at hb ⊢
          have mst := msliceTo (s.p0.drop 4) len (by simp; omega)
          have msf2 := msliceFrom (s.p0.drop 4) len (by simp; omega)
          have hX : (if be16 s.p0[0] s.p0[1] = Model.C10.extensionServerName then do
                let d ← Model.C10.sliceTo (List.drop 4 s.p0) len
                serverNameExt d s.m_serverName
              else R.ok s.m_serverName) =
              (if be16 s.p0[0] s.p0[1] = 0 then serverNameExt (List.take len (List.drop 4 s.p0)) s.m_serverName
               else R.ok s.m_serverName) := by
            simp [Model.C10.extensionServerName, mst]
          rw [hX]
          generalize (if be16 s.p0[0] s.p0[1] = 0 then serverNameExt (List.take len (List.drop 4 s.p0)) s.m_serverName
               else R.ok s.m_serverName) = X at hb ⊢
          cases X with
          | ok cur =>
            simp only [outR] at hb
            cases hf : loop0Body s <;> simp [hf, out0] at hb
            · rename_i s'
              simp only [R_bind_ok, msf2]
              rw [ih s', hb.1, hb.2, List.drop_drop]
            · rename_i r s'
              cases r <;> simp at hb
          | reject site =>
            simp only [outR] at hb
            cases hf : loop0Body s <;> simp [hf, out0] at hb
            · rename_i r s'
              cases r <;> simp at hb
              simp [obsLoop0]
          | panic w =>
            simp only [outR] at hb
            cases hf : loop0Body s <;> simp [hf, out0] at hb
            · rename_i r s'
              cases r <;> simp at hb
            · simp [obsLoop0]

theorem loop0_spec' {n : Nat} {s : St} {fl : Flow Bool St} (hk : loopN loop0Cond loop0Body n s = fl) :
    obsLoop0 fl = some (obsModel (extLoop n s.p0 s.m_serverName)) := by
  subst hk; exact loop0_spec n s

/-- `m.unmarshal(data)` returns `true` with `m.serverName` set, or `false`. -/
def obsUnmarshal : V (Bool × St) → Obs (List UInt8)
  | .ok (true, s) => .val s.m_serverName
  | .ok (false, _) => .rejected
  | .panic _ => .panicked

/-- **The translated `clientHelloMsg.unmarshal` equals the model's `unmarshal`, for every input.** -/
theorem xunmarshal_eq_model (data : List UInt8) :
    obsUnmarshal (XUnmarshal.run { p0 := data }) = obsModel (unmarshal data) := by
  unfold XUnmarshal.run Xlate.run XUnmarshal.body unmarshal parseHead
  by_cases h42 : data.length < 42
  · have h42' : (data.length : Int) < 42 := by omega
    simp [h42, h42', obsUnmarshal, Model.C10.minHelloLen]
  · have h42' : ¬ (data.length : Int) < 42 := by omega
    have i4 := idxN_lt data 4 (by omega); have i5 := idxN_lt data 5 (by omega); have i38 := idxN_lt data 38 (by omega)
    have m4 := midx_lt data 4 (by omega); have m5 := midx_lt data 5 (by omega); have m38 := midx_lt data 38 (by omega)
    have sl := xslice_nat data 6 38 (by omega); have msl := mslice data 6 38 (by omega)
    simp at sl
    generalize hsid : data[38].toNat = sid
    have hsid8 : sid < 256 := by subst hsid; exact data[38].toNat_lt
    simp [h42, h42', i4, i5, i38, m4, m5, m38, sl, msl, hsid, Model.C10.minHelloLen, Model.C10.randomOff,
      Model.C10.sidLenOff, Model.C10.sidOff, Model.C10.maxSidLen, obsUnmarshal]
    cases hb : (decide ((32 : Int) < sid) || decide ((data.length : Int) < 39 + (sid : Int))) <;> simp [hb] <;> simp at hb
    · have hs2 : ¬ (32 < sid ∨ data.length < 39 + sid) := by omega
      have sl2 := xslice_nat data 39 (39 + sid) (by omega); have msl2 := mslice data 39 (39 + sid) (by omega)
      have sf1 := xsliceFrom_nat data (39 + sid) (by omega); have msf1 := msliceFrom data (39 + sid) (by omega)
      simp at sl2 sf1
      simp [sl2, sf1, msl2, msf1, hs2]
      generalize hd1 : List.drop (39 + sid) data = d1
      have hl1 : d1.length = data.length - (39 + sid) := by subst hd1; simp
      rw [← hl1]
      clear hb hs2 sl2 msl2 sf1 msf1 sl msl i4 i5 i38 m4 m5 m38 hl1 hd1 hsid hsid8 h42'
      -- cipher suites
      unfold parseCiphers
      by_cases c2 : d1.length < 2
      · have c2' : (d1.length : Int) < 2 := by omega
        simp [c2, c2']
      · have c2' : ¬ (d1.length : Int) < 2 := by omega
        have j0 := idxN_lt d1 0 (by omega); have j1 := idxN_lt d1 1 (by omega)
        have n0 := midx_lt d1 0 (by omega); have n1 := midx_lt d1 1 (by omega)
        simp [c2, c2', j0, j1, n0, n1]
        generalize be16 d1[0] d1[1] = csl
        have htm : ((csl : Int).tmod 2 == 1) = decide (csl % 2 = 1) := by
          have : (csl : Int).tmod 2 = ((csl % 2 : Nat) : Int) := by
            rw [Int.tmod_eq_emod_of_nonneg (by omega)]; omega
          rw [this]
          cases h : decide (csl % 2 = 1) <;> simp at h ⊢ <;> omega
        cases hb : ((csl : Int).tmod 2 == 1 || decide ((d1.length : Int) < 2 + (csl : Int))) <;> simp [hb] <;>
          rw [htm] at hb <;> simp at hb
        · have c3 : ¬ (csl % 2 = 1 ∨ d1.length < 2 + csl) := by omega
          have sf2 := xsliceFrom_nat d1 (2 + csl) (by omega); have msf2 := msliceFrom d1 (2 + csl) (by omega)
          simp at sf2
          simp [c3, sf2, msf2]
          generalize hd2 : List.drop (2 + csl) d1 = d2
          have hl2 : d2.length = d1.length - (2 + csl) := by subst hd2; simp
          rw [← hl2]
          clear hb c3 sf2 msf2 htm j0 j1 n0 n1 c2 c2' hl2 hd2
          -- compression methods
          unfold parseCompression
          by_cases c4 : d2.length < 1
          · have c4' : (d2.length : Int) < 1 := by omega
            simp [c4, c4']
          · have c4' : ¬ (d2.length : Int) < 1 := by omega
            have k0 := idxN_lt d2 0 (by omega); have o0 := midx_lt d2 0 (by omega)
            simp [c4, c4', k0, o0]
            generalize d2[0].toNat = cml
            by_cases c5 : d2.length < 1 + cml
            · have c5' : (d2.length : Int) < 1 + (cml : Int) := by omega
              simp [c5, c5']
            · have c5' : ¬ (d2.length : Int) < 1 + (cml : Int) := by omega
              have sl3 := xslice_nat d2 1 (1 + cml) (by omega); have msl3 := mslice d2 1 (1 + cml) (by omega)
              have sf3 := xsliceFrom_nat d2 (1 + cml) (by omega); have msf3 := msliceFrom d2 (1 + cml) (by omega)
              simp at sl3 sf3
              simp [c5, c5', sl3, sf3, msl3, msf3]
              generalize hd3 : List.drop (1 + cml) d2 = d3
              have hl3 : d3.length = d2.length - (1 + cml) := by subst hd3; simp
              rw [← hl3]
              clear sl3 msl3 sf3 msf3 c5 c5' k0 o0 c4 c4' hl3 hd3
              -- extension block
              unfold parseExtensions
              by_cases c6 : d3.length = 0
              · have c6' : ((d3.length : Int) == 0) = true := by simp [c6]
                simp [c6, c6']
              · have c6' : ((d3.length : Int) == 0) = false := by simp [c6]
                by_cases c7 : d3.length < 2
                · have c7' : (d3.length : Int) < 2 := by omega
                  simp [c6, c6', c7, c7']
                · have c7' : ¬ (d3.length : Int) < 2 := by omega
                  have p0 := idxN_lt d3 0 (by omega); have p1 := idxN_lt d3 1 (by omega)
                  have q0 := midx_lt d3 0 (by omega); have q1 := midx_lt d3 1 (by omega)
                  have sf4 := xsliceFrom_nat d3 2 (by omega); have msf4 := msliceFrom d3 2 (by omega)
                  simp at sf4
                  simp [c6, c6', c7, c7', p0, p1, q0, q1, sf4, msf4]
                  generalize be16 d3[0] d3[1] = el
                  cases hb : ((el : Int) != ((d3.length - 2 : Nat) : Int)) <;> simp [hb] <;> simp at hb
                  · have c8 : el = d3.length - 2 := by omega
                    simp only [loop]
                    generalize hk : loopN loop0Cond loop0Body _ _ = fl
                    have h := loop0_spec' hk
                    simp at h
                    simp [c8]
                    cases fl <;> simp [obsLoop0] at h
                    · rename_i s'
                      simp [← h]
                    · rename_i r s'
                      cases r <;> simp at h
                      simp [← h]
                    · simp [← h]
                  · have c8 : ¬ el = d3.length - 2 := by omega
                    simp [c8]
        · have c3 : csl % 2 = 1 ∨ d1.length < 2 + csl := by omega
          simp [c3]
    · have hs2 : 32 < sid ∨ data.length < 39 + sid := by omega
      simp [hs2]

end U

/-! ### The property theorems, transferred to the translated source

`Props/C10.lean` proves the property of the hand-written model. By the two equalities above the same statements
hold of the definitions translated from the current Go source. -/

open U in
/-- No input makes the translated `unmarshal` panic — in particular neither loop runs out of the fuel
(`len + 1`) the translator was told to supply: both loops terminate. -/
theorem xunmarshal_no_panic (data : List UInt8) (w : String) : XUnmarshal.run { p0 := data } ≠ .panic w := by
  intro h
  have e := xunmarshal_eq_model data
  have np := Props.C10.unmarshal_no_panic data
  rw [h] at e
  cases hm : unmarshal data <;> simp [hm, obsUnmarshal, obsModel, R.isPanic] at e np

/-- No input makes the translated `clientHelloBufferSize` panic. -/
theorem xbufsize_no_panic (data : List UInt8) (w : String) : XBufSize.run { p0 := data } ≠ .panic w := by
  intro h
  have e := xbufsize_eq_model data
  have np := Props.C10.bufsize_no_panic data
  rw [h] at e
  cases hm : clientHelloBufferSize data <;> simp [hm, obsBufSize, obsModel, R.isPanic] at e np

open U in
/-- For every well-formed hello the translated `unmarshal` returns `true` with `m.serverName = sniOf h`
(`parse_encode` of the model, at full strength: every extension list). -/
theorem xparse_encode (h : Hello) (hw : WellFormed h) :
    ∃ s, XUnmarshal.run { p0 := encode h } = .ok (true, s) ∧ s.m_serverName = sniOf h := by
  have e := xunmarshal_eq_model (encode h)
  have pe := Props.C10.parse_encode h hw
  have hm : unmarshal (encode h) = .ok (sniOf h) := by
    unfold readServerName at pe
    cases hu : unmarshal (encode h) <;> simp [hu] at pe
    simp [pe]
  rw [hm] at e
  cases hr : XUnmarshal.run { p0 := encode h } with
  | panic w => simp [hr, obsUnmarshal, obsModel] at e
  | ok p =>
    obtain ⟨r, s⟩ := p
    cases r <;> simp [hr, obsUnmarshal, obsModel] at e
    exact ⟨s, rfl, e⟩

/-- The size the translated `clientHelloBufferSize` answers never exceeds the first TLS record
(5-byte header + record length, the record length being at most 16384), and is at least 10. -/
theorem xbufsize_le_record (data : List UInt8) (n : Int) (s : XBufSize.St)
    (h : XBufSize.run { p0 := data } = .ok ((n, none), s)) :
    ∃ h9 : 9 ≤ data.length, 10 ≤ n ∧ n ≤ (be16 data[3] data[4] : Nat) + 5 ∧ be16 data[3] data[4] ≤ 16384 := by
  have e := xbufsize_eq_model data
  rw [h] at e
  by_cases hn : 0 ≤ n
  · simp [obsBufSize, hn] at e
    cases hm : clientHelloBufferSize data <;> simp [hm, obsModel] at e
    obtain ⟨h9, _, h10, hle, hmax, _⟩ := Props.C10.bufsize_le_record data _ hm
    exact ⟨h9, by omega, by omega, hmax⟩
  · simp [obsBufSize, hn] at e
    have np := Props.C10.bufsize_no_panic data
    cases hm : clientHelloBufferSize data <;> simp [hm, obsModel, R.isPanic] at e np

/-- Non-vacuity: a concrete hello header on which the translated function answers a size. -/
example : ∃ s, XBufSize.run { p0 := [0x16, 3, 1, 0, 50, 1, 0, 0, 46] } = .ok ((55, none), s) := ⟨_, rfl⟩

/-! ### Shape pins (change detectors, moved here from `C10Facts.lean` in round 4)

Constants and ordered check lists of `clientHelloBufferSize` and of the parser, as extracted by `tools/factgen/c10.go`
(helpers inlined, hoisted offset locals resolved, `for { if C { break } … }` read as `for !C`, names erased). They notice
that the functions were edited; what the edit *means* is decided by the streams. A pattern the extractor no longer finds
leaves its constant undefined (`Generated.C10.shapeNotes`), and this module stops building. -/

theorem shape_found : Generated.C10.shapeNotes = [] := by decide

/-- `len(data) < 9`, `Peek(9)` and `return handshakeLength + 9` are the model's `peekLen`. -/
theorem bufsize_peek_pinned :
    Generated.C10.peekMin = Model.C10.peekLen ∧ Generated.C10.bufsizeAdd = Model.C10.peekLen := by decide

/-- `readServerName(buf[5:])`: the record header that is skipped; 9 = 5 + 4. -/
theorem record_header_pinned :
    Generated.C10.hsHdrLen = Model.C10.hsHdrLen ∧ Model.C10.recHdrLen + Model.C10.hsHdrLen = Model.C10.peekLen := by decide

/-- Record type 0x16 at offset 0, client_hello 0x01 at offset 5, record length limit 16384. -/
theorem header_constants_pinned :
    Generated.C10.recTypeOff = 0 ∧ Generated.C10.recTypeHandshake = Model.C10.recTypeHandshake.toNat ∧
    Generated.C10.hsTypeOff = 5 ∧ Generated.C10.hsTypeClientHello = Model.C10.hsTypeClientHello.toNat ∧
    Generated.C10.maxRecordLen = Model.C10.maxRecordLen := by decide

/-- The two big-endian length fields are read from bytes 3,4 and 6,7,8 with the shifts of `be16`/`be24`. -/
theorem length_fields_pinned :
    (Generated.C10.recLenHiOff, Generated.C10.recLenShift, Generated.C10.recLenLoOff) = (3, 8, 4) ∧
    (Generated.C10.hsLenOff0, Generated.C10.hsLenShift0, Generated.C10.hsLenOff1, Generated.C10.hsLenShift1,
      Generated.C10.hsLenOff2) = (6, 16, 7, 8, 8) := by decide

/-- The fixed offsets of `unmarshal`. -/
theorem unmarshal_offsets_pinned :
    Generated.C10.minHelloLen = Model.C10.minHelloLen ∧ Generated.C10.randomOff = Model.C10.randomOff ∧
    Generated.C10.randomEnd = Model.C10.sidLenOff ∧ Generated.C10.sidLenOff = Model.C10.sidLenOff ∧
    Generated.C10.maxSidLen = Model.C10.maxSidLen ∧ Generated.C10.sidOff = Model.C10.sidOff ∧
    Generated.C10.sidRebindOff = Model.C10.sidOff ∧ Generated.C10.cipherRebindOff = 2 ∧
    Generated.C10.compressionRebindOff = 1 := by decide

/-- The store of the server name is guarded by exactly two tests: extension type `== 0` (outermost) and
name type `== 0` (innermost, followed by `break`); no other extension is looked at. -/
theorem sni_constants_pinned :
    Generated.C10.extensionServerName = Model.C10.extensionServerName ∧
    Generated.C10.nameTypeHost = Model.C10.nameTypeHost.toNat ∧
    Generated.C10.nameStoreGuards = ["if _ == 0 [name]", "if _ == 0 [name] -> break"] := by decide

/-- The checks of `clientHelloBufferSize` as normalised events, in order (the model has one branch per `if`). -/
theorem bufsize_checks_pinned : Generated.C10.bufsizeEvents =
    ["if len(_) < 9 -> return 0, …", "if _[0] != 22 -> return 0, …", "let (int(_[3])<<8)|int(_[4])",
     "if _ == 0 || 16384 < _ -> return 0, …", "if _[5] != 1 -> return 0, …",
     "let ((int(_[6])<<16)|(int(_[7])<<8))|int(_[8])", "if _ == 0 || _ < _+4 -> return 0, …"] := by decide

/-- The checks, loops, byte reads and re-slicings of the parser `readServerName` calls (helpers inlined,
variable names erased, conditions in normal form), in order: the model has one branch per `if`/`for`, one
`idx` per byte read and one `sliceFrom` per `advance`. -/
theorem unmarshal_checks_pinned : Generated.C10.unmarshalEvents =
    ["if len(_) < 42 -> return false", "slice _[6:38]", "let int(_[38])",
     "if 32 < _ || len(_) < _+39 -> return false", "advance _[_+39:]",
     "if len(_) < 2 -> return false", "let (int(_[0])<<8)|int(_[1])",
     "if _&1 != 0 || len(_) < _+2 -> return false", "advance _[_+2:]",
     "if len(_) == 0 -> return false", "let int(_[0])", "if len(_) < _+1 -> return false", "advance _[_+1:]",
     "if len(_) == 0 -> return true", "if len(_) < 2 -> return false", "let (int(_[0])<<8)|int(_[1])",
     "advance _[2:]", "if _ != len(_) -> return false",
     "for len(_) != 0", "if len(_) < 4 -> return false", "let (uint16(_[0])<<8)|uint16(_[1])",
     "let (int(_[2])<<8)|int(_[3])", "advance _[4:]", "if len(_) < _ -> return false",
     "if _ == 0 [name]", "if len(_) < 2 -> return false", "let (int(_[0])<<8)|int(_[1])", "advance _[2:]",
     "if _ != len(_) -> return false", "for len(_) != 0", "if len(_) < 3 -> return false", "let _[0]",
     "let (int(_[1])<<8)|int(_[2])", "advance _[3:]", "if len(_) < _ -> return false",
     "if _ == 0 [name] -> break", "advance _[_:]", "advance _[_:]"] := by decide

end Fabio.Props.C10Xlate
