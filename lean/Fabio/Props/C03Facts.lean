import Fabio.Generated.C03
import Fabio.Model.C03
/-! C03 — obligations over the facts regenerated from `/repo` on every run: what the model in
`Model/C03.lean` (and `Model/Route.lean`'s `pathLt`) silently assumes about the source. -/
namespace Fabio.Props.C03Facts
open Fabio Fabio.Model.C03 Fabio.Generated.C03

/-- the three configurable matchers and the functions behind them (`MatcherKind`) -/
theorem matcher_table : matcherTable = ["glob=globMatcher", "iprefix=iPrefixMatcher", "prefix=prefixMatcher"] := by decide

/-- `prefixMatcher` is `HasPrefix(uri, r.Path)`; `iPrefixMatcher` lower-cases both sides first;
`globMatcher` asks the route's compiled glob (`pathMatch`) through `globMatch`, which is `g.Match(s)` with a
panic of the library turned into "no match" (the model's glob parameters are total functions) -/
theorem matcher_bodies :
    prefixMatcherReturns = ["strings.HasPrefix(uri, r.Path)"] ∧ prefixMatcherAssigns = [] ∧
    iPrefixMatcherReturns = ["strings.HasPrefix(lowerURI, lowerPath)"] ∧
    iPrefixMatcherAssigns = ["lowerURI := strings.ToLower(uri)", "lowerPath := strings.ToLower(r.Path)"] ∧
    globMatcherReturns = ["globMatch(r.Glob, uri)"] ∧ globMatcherAssigns = [] ∧
    globMatchReturns = ["g.Match(s)"] ∧ globMatchAssigns = ["ok = false"] ∧ globMatchRecovers = 1 := by decide

/-- `Routes.Less(i,j)` = `pathLt rt[j].Path rt[i].Path`: lower-cased paths first, then the paths -/
theorem routes_less :
    lessAssigns = ["li, lj := strings.ToLower(rt[i].Path), strings.ToLower(rt[j].Path)"] ∧
    lessReturns = ["lj < li", "rt[j].Path < rt[i].Path"] := by decide

/-- the default ports and their TLS conditions are the model's `port80` / `port443` -/
theorem default_ports :
    defaultPortConds = ["!tls && strings.HasSuffix(host, \"" ++ String.ofList port80 ++ "\")",
                        "tls && strings.HasSuffix(host, \"" ++ String.ofList port443 ++ "\")"] ∧
    defaultPortReturns = ["host[:len(host)-len(\":80\")]", "host[:len(host)-len(\":443\")]", "host"] ∧
    normalizeHostReturns = ["strings.ToLower(normalizeHostNoLower(host, tls))"] := by decide

/-- both host selections normalise the request host and the pattern with `normalizeHost` (D05), compare
as the model does, sort with `sortHostsReverseHostPort`, and never call `MustCompile` (D03) -/
theorem host_selection :
    matchingHostsAssigns = ["host := normalizeHost(req.Host, req.TLS != nil)", "normpat := normalizeHost(pattern, req.TLS != nil)",
      "g, err := globCache.Get(normpat)", "hosts = append(hosts, pattern)", "hosts = sortHostsReverseHostPort(hosts)"] ∧
    matchingHostsConds = ["err != nil", "globMatch(g, host)"] ∧ matchingHostsMustCompile = 0 ∧
    matchingHostNoGlobAssigns = ["host := normalizeHost(req.Host, req.TLS != nil)", "normpat := normalizeHost(pattern, req.TLS != nil)",
      "hosts = append(hosts, strings.ToLower(pattern))", "hosts = sortHostsReverseHostPort(hosts)"] ∧
    matchingHostNoGlobConds = ["normpat == host"] ∧ matchingHostNoGlobMustCompile = 0 := by decide

/-- the host order: by reversed name descending, ties by the key (`hostBefore`); then host names before
patterns, stably (`sortHosts`); the pattern test is `isGlobPat` -/
theorem host_order :
    sortHostsSortCalls = ["sort.Slice", "sort.SliceStable"] ∧
    sortHostsAssigns = ["rev := make(map[string]string, len(hosts))", "rev[h] = ReverseHostPort(h)", "ri, rj := rev[hosts[i]], rev[hosts[j]]"] ∧
    sortHostsReturns = ["hosts", "ri > rj", "hosts[i] > hosts[j]", "!isHostPattern(hosts[i]) && isHostPattern(hosts[j])", "hosts"] ∧
    isHostPatternReturns = ["host == \"\" || strings.ContainsAny(host, \"*?[{\\\\\")"] := by decide

/-- the metacharacters of `isHostPattern` are exactly those of the model's `isGlobPat` -/
theorem glob_metacharacters :
    "*?[{\\".toList.all (fun c => isGlobPat [c]) = true ∧ isGlobPat "az09.-:]}!,".toList = false ∧ isGlobPat [] = true := by decide

/-- `Lookup` appends the host-less fallback `""` once, after the host selection and before the loop;
chooses the selection by `globDisabled`; looks every host up with the request path and the configured
matcher; `lookup` lower-cases the host and walks `t[host]` in order; `LookupHost` is `lookup` with the
prefix matcher on "/" -/
theorem lookup_shape :
    lookupFallbackAppendedLast = true ∧
    lookupGlobSwitch = ["globDisabled => hosts = t.matchingHostNoGlob(req)"] ∧
    lookupCalls = ["t.lookup(h, req.URL.Path, trace, pick, match)"] ∧
    lookupFirstStmt = "host = strings.ToLower(host)" ∧ lookupRanges = ["t[host]"] ∧
    lookupHostReturns = ["t.lookup(host, \"/\", \"\", pick, prefixMatcher)"] := by decide

/-- the HTTP handler (main.go) and the gRPC interceptor hand `Lookup` the configured picker, matcher, glob
cache and `GlobMatchingDisabled` -/
theorem lookup_callers :
    lookupCallers = ["route.GetTable(): pick, match, g.GlobCache, g.Config.GlobMatchingDisabled",
                     "route.GetTable(): pick, match, globCache, cfg.GlobMatchingDisabled"] := by decide

end Fabio.Props.C03Facts
