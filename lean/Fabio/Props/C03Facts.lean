import Fabio.Generated.C03
import Fabio.Model.C03
/-! C03 — obligations over the facts regenerated from `/repo` on every run: what the model in
`Model/C03.lean` (and `Model/Route.lean`'s `pathLt`) silently assumes about the source.

The facts are *canonical guarded events* (tools/factgen/c03canon.go): receiver `recv`, parameters `p0 p1 …`,
named results `res0 …`, single-assignment locals replaced by their defining expression, locals from a
multi-value call named after the callee (`Get.0`, `Get.1`), range variables `key(X)`/`val(X)`, other locals
`var0 …`; single-`return` helpers are inlined, other unexported helpers are looked into; each event lists
(sorted, after `|`) the conditions under which it is reached, including the negations contributed by earlier
guard clauses; named constants are folded and switches rewritten to if-chains. So the obligations below pin
what the code does, not how it is spelled. `scanHost` is the role name of `Table.lookup` ("the method
`LookupHost` returns a call of"), `matcher:prefix` of `prefixMatcher` ("the value of `route.Matcher["prefix"]`). -/
namespace Fabio.Props.C03Facts
open Fabio Fabio.Model.C03 Fabio.Generated.C03

/-- the three configurable matchers and what each returns for (uri = `p0`, route = `p1`): `pathMatch` -/
theorem matcher_table : matcherTable =
    ["glob => return globMatch(p1.Glob, p0)",
      "iprefix => return strings.HasPrefix(strings.ToLower(p0), strings.ToLower(p1.Path))",
      "prefix => return strings.HasPrefix(p0, p1.Path)"] := by decide +kernel

/-- `globMatch(g, s)` is `g.Match(s)`, with a panic of the library turned into "no match" (the model's glob
parameters are total functions) -/
theorem glob_match_recovers : globMatchEvents =
    ["call recover()",
      "assign res0 = false | nil != recover()",
      "return p0.Match(p1)"] := by decide +kernel

/-- default ports: `:80` is stripped exactly when the TLS flag (2nd parameter) is false, `:443` exactly when
it is true — in either of the equivalent forms `if c && HasSuffix(h,s) { return h[:len(h)-len(s)] }` /
`strings.TrimSuffix(h, s)`; every other return gives the host back unchanged. The literals are the model's
`port80` / `port443`. `normalizeHost` lower-cases the result. -/
theorem default_ports :
    defaultPortRules = ["plain strip \"" ++ String.ofList port80 ++ "\"", "tls strip \"" ++ String.ofList port443 ++ "\""] ∧
    (defaultPortOtherReturns = [] ∨ defaultPortOtherReturns = ["p0"]) ∧
    normalizeHostEvents = ["return strings.ToLower(normalizeHostNoLower(p0, p1))"] := by decide +kernel

/-- `matchingHosts`: walks the table's keys; compiles the *normalised* key through the glob cache; a key is
appended only if it compiled (`Get.1 == nil`: D03 — and no `MustCompile` event exists) and `globMatch`es the
normalised request host; the list is sorted by `sortHostsReverseHostPort` -/
theorem host_selection_glob : matchingHostsEvents =
    ["range recv",
      "call p1.Get(strings.ToLower(normalizeHostNoLower(key(recv), nil != p0.TLS)))",
      "assign res0 = append(res0, key(recv)) | Get.1 == nil & globMatch(Get.0, strings.ToLower(normalizeHostNoLower(p0.Host, nil != p0.TLS)))",
      "assign res0 = sortHostsReverseHostPort(res0)",
      "return "] := by decide +kernel

/-- `matchingHostNoGlob`: the lower-cased key is appended iff its normalised form equals the normalised
request host (D05: both sides go through `normalizeHost`) -/
theorem host_selection_noglob : matchingHostNoGlobEvents =
    ["range recv",
      "assign res0 = append(res0, strings.ToLower(key(recv))) | strings.ToLower(normalizeHostNoLower(key(recv), nil != p0.TLS)) == strings.ToLower(normalizeHostNoLower(p0.Host, nil != p0.TLS))",
      "assign res0 = sortHostsReverseHostPort(res0)",
      "return "] := by decide +kernel

/-- the metacharacters of the pattern test are exactly those of the model's `isGlobPat` -/
theorem glob_metacharacters :
    "*?[{\\".toList.all (fun c => isGlobPat [c]) = true ∧ isGlobPat "az09.-:]}!,".toList = false ∧ isGlobPat [] = true := by decide +kernel

/-- `Lookup`: `matchingHostNoGlob(req)` when `globDisabled` (6th parameter), else `matchingHosts(req, globCache)`;
then `""` is appended to that list; then every host of the list is scanned in order with the request path, the
configured picker and matcher; the function returns its result variable -/
theorem lookup_shape : lookupEvents =
    ["call recv.matchingHostNoGlob(p0) | p5",
      "call recv.matchingHosts(p0, p4) | !p5",
      "call append(var0, \"\")",
      "range var0",
      "call recv.scanHost(val(var0), p0.URL.Path, p1, p2, p3)",
      "return res0"] := by decide +kernel

/-- `LookupHost` is the scan with the prefix matcher on "/" -/
theorem lookup_host : lookupHostEvents =
    ["return recv.scanHost(p0, \"/\", \"\", p1, matcher:prefix)"] := by decide +kernel

/-- the HTTP handler (main.go) and the gRPC interceptor hand `Lookup` the configured picker, matcher, glob
cache and `GlobMatchingDisabled` -/
theorem lookup_callers : lookupCallers =
    ["route.Picker[p0.Proxy.Strategy], route.Matcher[p0.Proxy.Matcher], route.NewGlobCache(p0.GlobCacheSize), p0.GlobMatchingDisabled",
      "route.Picker[recv.Config.Proxy.Strategy], route.Matcher[recv.Config.Proxy.Matcher], recv.GlobCache, recv.Config.GlobMatchingDisabled"] := by decide +kernel

end Fabio.Props.C03Facts
