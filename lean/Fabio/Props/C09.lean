import Fabio.Lemmas.C09
/-!
C09 — TCP, TCP+SNI and WebSocket tunnels are transparent byte streams.

Theorems over the model in `Fabio/Model/C09.lean` (helper lemmas in `Fabio/Lemmas/C09.lean`).
`Bytes` are arbitrary, scripts (= segmentations and endings) are arbitrary, histories are arbitrary lists
of events: nothing is bounded.
-/
namespace Fabio.Props.C09
open Fabio.Model.C09 Fabio.Lemmas.C09

/-! ## copyBuffer -/

/-- `copyBuffer` is transparent for every segmentation of the source and every behaviour of the
destination: what the destination accepted is a prefix of the source's stream (each byte once, in order,
none invented), the metrics counter counts exactly those bytes, and unless the *destination* failed
(error or short write) it is the whole stream up to the source's EOF/error, the returned error being the
source's. The loop never spins. -/
theorem copy_transparent (cap : Nat) (hcap : 0 < cap) (s : Script) (w : WScript) :
    let r := copyBuffer cap s w
    r.err ≠ .stuck ∧
    r.written <+: streamOf s ∧
    r.counter = r.written.length ∧
    ((r.err = .none ∨ r.err = .read) → r.written = streamOf s ∧ r.err = .ofRd (endOf s)) ∧
    (w = [] → r.written = streamOf s) := by
  have h := copyBuffer_ok cap hcap s w
  exact ⟨h.notStuck, h.pref, h.counter, h.clean, fun hw => (h.clean (h.fullWriter hw)).1⟩

/-- The segmentation is invisible at the destination. -/
theorem copy_segmentation_independent (cap : Nat) (hcap : 0 < cap) (s₁ s₂ : Script)
    (h : streamOf s₁ = streamOf s₂) :
    (copyBuffer cap s₁ []).written = (copyBuffer cap s₂ []).written := by
  rw [(copy_transparent cap hcap s₁ []).2.2.2.2 rfl, (copy_transparent cap hcap s₂ []).2.2.2.2 rfl, h]

example : (copyBuffer 4 [.chunk [1, 2, 3, 4, 5, 6], .chunk [7], .eof, .chunk [9]] []).written = [1, 2, 3, 4, 5, 6, 7] := by decide
example : (copyBuffer 4 [.chunk [1, 2, 3, 4, 5, 6], .err] [.full, .short 1]).written = [1, 2, 3, 4, 5] ∧
          (copyBuffer 4 [.chunk [1, 2, 3, 4, 5, 6], .err] [.full, .short 1]).err = .shortWrite := by decide

/-! ## bufio.Reader -/

/-- `Peek`'s fill loop terminates: `n + 1` rounds are enough, i.e. after them the loop condition of
`bufio.Reader.Peek` is false (every `fill` with room in the buffer adds a byte or records an error). -/
theorem bufio_peek_terminates (n : Nat) (b : BufReader) :
    let b' := BufReader.peekLoop n (n + 1) b
    ¬ (b'.buf.length < n ∧ b'.buf.length < b'.size ∧ b'.err = none) := by
  have key : ∀ (fuel : Nat) (b : BufReader), n < fuel + b.buf.length →
      ¬ ((BufReader.peekLoop n fuel b).buf.length < n ∧
         (BufReader.peekLoop n fuel b).buf.length < (BufReader.peekLoop n fuel b).size ∧
         (BufReader.peekLoop n fuel b).err = none) := by
    intro fuel
    induction fuel with
    | zero => intro b hb; simp only [BufReader.peekLoop]; omega
    | succ f ih =>
      intro b hb
      simp only [BufReader.peekLoop]
      split
      · next hc =>
        -- one fill: either an error is recorded (loop over) or the buffer grew
        by_cases he : b.fill.err = none
        · have hgrow : b.buf.length < b.fill.buf.length := by
            unfold BufReader.fill at he ⊢
            rcases hcr : connRead (b.size - b.buf.length) b.conn with ⟨bs, e, c'⟩
            rw [hcr] at he
            simp only at he ⊢
            have hen : e = none := by cases e <;> simp_all
            have := connRead_progress (b.size - b.buf.length) (by omega) b.conn (by rw [hcr]; exact hen)
            rw [hcr] at this
            have : 0 < bs.length := List.length_pos_iff.mpr this
            simp; omega
          exact ih b.fill (by omega)
        · -- the recorded error ends the loop at once
          cases f with
          | zero => simp only [BufReader.peekLoop]; intro h; exact he h.2.2
          | succ f' =>
            simp only [BufReader.peekLoop]
            split
            · next hc' => exact absurd hc'.2.2 he
            · intro h; exact he h.2.2
      · next hc => exact hc
  exact key (n + 1) b (by omega)

/-- Nothing is lost between socket, buffer and caller: after `Peek(n)` and `ReadFull(want)` the stream is
what was handed out, then what sits in the buffer, then what is still in the socket. -/
theorem bufio_conserves (s : Script) (n want : Nat) :
    let b1 := ((BufReader.new s).peek n).2.2
    let r := b1.readFull want
    streamOf s = r.1 ++ r.2.2.buf ++ streamOf r.2.2.conn := by
  have hp := peek_ok n (BufReader.new s) (wf_new s _)
  have hf := readFull_ok want ((BufReader.new s).peek n).2.2 hp.1
  rw [rest_new] at hp
  simp only
  rw [← hp.2, ← hf.2]
  simp [rest, List.append_assoc]

/-! ## What the upstream receives -/

/-- Plain TCP and tcp-dynamic: the upstream receives the PROXY line (if any) and then the client's stream
from its first byte, for every segmentation. -/
theorem upstream_prefix_tcp (line : Bytes) (s : Script) :
    (tcpServe line s).1 = line ++ streamOf s := by
  simp [tcpServe, copy_full_writer]

/-- TCP+SNI, copying from the buffered reader (the D13 repair): unconditional. -/
theorem upstream_prefix_sni_buffered (line : Bytes) (s : Script) (routed : Bool)
    (h : (sniServe .buffered routed line s).stage = .tunnel) :
    (sniServe .buffered routed line s).upstream = line ++ streamOf s := by
  obtain ⟨tail, h1, h2⟩ := sni_split .buffered routed line s h
  rw [h2, h1]; simp [List.append_assoc]

/-- TCP+SNI, copying from the raw connection (the code before the repair): the upstream receives the
client's stream **iff** the bufio reader holds no excess after `ReadFull`. -/
theorem upstream_prefix_sni_raw_iff (line : Bytes) (s : Script) (routed : Bool)
    (h : (sniServe .rawConn routed line s).stage = .tunnel) :
    (sniServe .rawConn routed line s).upstream = line ++ streamOf s ↔
    (sniServe .rawConn routed line s).excess = [] := by
  obtain ⟨tail, h1, h2⟩ := sni_split .rawConn routed line s h
  rw [h2, h1]
  simp only [List.append_assoc, List.append_cancel_left_eq]
  constructor
  · intro he
    have := congrArg List.length he
    simp only [List.length_append] at this
    exact List.eq_nil_of_length_eq_zero (by omega)
  · intro he; rw [he]; rfl

/-- The code in the current tree (`codeCopySrc` is pinned against the source by `C09Facts`). -/
theorem upstream_prefix_sni_code (line : Bytes) (s : Script) (routed : Bool)
    (h : (sniServe codeCopySrc routed line s).stage = .tunnel) :
    (sniServe codeCopySrc routed line s).upstream = line ++ streamOf s :=
  upstream_prefix_sni_buffered line s routed h

/-- A 10-byte ClientHello record (`16 03 01 00 05 | 01 00 00 01 | 2a`). -/
def tinyHello : Bytes := [0x16, 3, 1, 0, 5, 1, 0, 0, 1, 0x2a]

/-- D13, the witness: ClientHello and two more bytes arrive in one segment, a third byte later. Copying
from the raw connection the upstream gets the hello and the third byte; the two bytes that travelled with
the hello stay in the bufio buffer for ever. -/
theorem sni_current_drops_excess :
    let s : Script := [.chunk (tinyHello ++ [0xAA, 0xBB]), .chunk [0xCC], .eof]
    (sniServe .rawConn true [] s).stage = .tunnel ∧
    (sniServe .rawConn true [] s).excess = [0xAA, 0xBB] ∧
    (sniServe .rawConn true [] s).upstream = tinyHello ++ [0xCC] ∧
    (sniServe .rawConn true [] s).upstream ≠ streamOf s ∧
    (sniServe .buffered true [] s).upstream = streamOf s := by
  decide

example : (sniServe .buffered true [0x50] [.chunk (tinyHello.take 3), .chunk (tinyHello.drop 3 ++ [7]), .chunk [8]]).upstream
    = [0x50] ++ tinyHello ++ [7, 8] := by decide
example : (sniServe .rawConn true [] [.chunk tinyHello, .chunk [7]]).excess = [] := by decide

/-! ## The two-direction tunnel -/

/-- Whichever side finishes first has had all of its data delivered — in both modes, for every history:
a copy direction that has ended has forwarded everything its side ever sent, and the tunnel is torn down
only when (at least) one direction has ended that way. -/
theorem first_finisher_delivered (m : Mode) (pre : Bytes) (h : List Ev) :
    let s := run m (Tun.init pre) h
    (s.c2uDone = true → s.cFin = true ∧ s.upSaw = pre ++ s.cSent) ∧
    (s.u2cDone = true → s.uFin = true ∧ s.clSaw = s.uSent) ∧
    (s.torn = true → (s.cFin = true ∧ s.upSaw = pre ++ s.cSent) ∨ (s.uFin = true ∧ s.clSaw = s.uSent)) ∧
    s.upSaw <+: pre ++ s.cSent ∧ s.clSaw <+: s.uSent := by
  have hi := run_inv m pre h _ (inv_init pre)
  have hc : (run m (Tun.init pre) h).c2uDone = true →
      (run m (Tun.init pre) h).cFin = true ∧ (run m (Tun.init pre) h).upSaw = pre ++ (run m (Tun.init pre) h).cSent := by
    intro hd; have := hi.c2uDone hd
    exact ⟨this.1, by rw [hi.up, this.2, List.take_length]⟩
  have hu : (run m (Tun.init pre) h).u2cDone = true →
      (run m (Tun.init pre) h).uFin = true ∧ (run m (Tun.init pre) h).clSaw = (run m (Tun.init pre) h).uSent := by
    intro hd; have := hi.u2cDone hd
    exact ⟨this.1, by rw [hi.cl, this.2, List.take_length]⟩
  refine ⟨hc, hu, ?_, ?_, ?_⟩
  · intro ht
    cases m with
    | firstEnds =>
      rcases (run_invFirst h _ (invFirst_init pre)).torn ht with hd | hd
      · exact Or.inl (hc hd)
      · exact Or.inr (hu hd)
    | halfClose =>
      exact Or.inl (hc ((run_invHalf h _ (invHalf_init pre)).torn ht).1)
    | clientHalf =>
      exact Or.inr (hu ((run_invCH h _ (invCH_init pre)).torn ht))
  · rw [hi.up]; exact (List.prefix_append_right_inj pre).mpr (List.take_prefix _ _)
  · rw [hi.cl]; exact List.take_prefix _ _

example : (run .firstEnds (Tun.init [9]) [.clientSend [1, 2], .upSend [5], .fwdC2U, .clientFin, .c2uEOF, .finish]).upSaw = [9, 1, 2]
    ∧ (run .firstEnds (Tun.init [9]) [.clientSend [1, 2], .upSend [5], .fwdC2U, .clientFin, .c2uEOF, .finish]).torn = true := by decide

/-
The property's last sentence, as a statement about the tunnel (`m` = the mode of the code):

  theorem half_close_reply_delivered (pre : Bytes) (h : List Ev) :
      let s := run m (Tun.init pre) h
      quiescent m s → s.cFin = true → s.uFin = true → s.clSaw = s.uSent ∧ s.upSaw = pre ++ s.cSent

"when both sides have finished and the proxy has nothing left to do, each side has received everything the
other sent" — in particular a reply the upstream sends after it has seen the client's EOF.
It is FALSE for the code's mode `firstEnds` (D14; `half_close_reply_lost_firstEnds` and the witness
below), TRUE for mode `halfClose` (`half_close_reply_delivered_halfClose`), and true for the code's mode
under the forced extra hypothesis that the upstream's direction is the one that ended by EOF
(`half_close_reply_delivered_partial`).
-/

/-- D14 in general: in the code's mode the upstream sees the client's EOF only through the teardown, so
whatever it sends after having seen EOF is never delivered, whatever happens afterwards. -/
theorem half_close_reply_lost_firstEnds (pre : Bytes) (h h' : List Ev) (reply : Bytes)
    (hr : reply ≠ []) :
    let s := run .firstEnds (Tun.init pre) h
    s.upEOF = true → s.uFin = false →
    (run .firstEnds s (.upSend reply :: h')).clSaw ≠ (run .firstEnds s (.upSend reply :: h')).uSent := by
  intro s hEOF hFin
  have hi := run_inv .firstEnds pre h _ (inv_init pre)
  have ht : s.torn = true := (run_invFirst h _ (invFirst_init pre)).upEOF hEOF
  have h1 := torn_run .firstEnds (.upSend reply :: h') s ht
  have h2 : (step .firstEnds s (.upSend reply)).uSent.length = s.uSent.length + reply.length := by
    simp [step, hFin]
  have h3 := uSent_run .firstEnds h' (step .firstEnds s (.upSend reply))
  have h4 : s.clSaw.length ≤ s.uSent.length := by
    have : s.clSaw = s.uSent.take s.u2c := hi.cl
    rw [this, List.length_take]; omega
  have h5 : 0 < reply.length := List.length_pos_iff.mpr hr
  intro heq
  have := congrArg List.length heq
  rw [h1.2.1] at this
  have h6 : (run .firstEnds s (.upSend reply :: h')).uSent.length ≥ s.uSent.length + reply.length := by
    show (run .firstEnds (step .firstEnds s (.upSend reply)) h').uSent.length ≥ _
    omega
  omega

/-- D14, the witness history (the one the check replays on sockets): the client sends `HELLO` and
half-closes, the upstream answers `REPLY` when it sees EOF — the client receives nothing. With the
half-close-aware mode it receives the reply. -/
theorem half_close_reply_witness :
    let hello : Bytes := [72, 69, 76, 76, 79]
    let reply : Bytes := [82, 69, 80, 76, 89]
    (scenario .firstEnds [] hello [] reply .halfClose).upSaw = hello ∧
    (scenario .firstEnds [] hello [] reply .halfClose).clSaw = [] ∧
    (scenario .firstEnds [] hello [] reply .halfClose).uSent = reply ∧
    (scenario .halfClose [] hello [] reply .halfClose).clSaw = reply := by
  decide

/-- The statement restricted to what the code's mode can deliver: if the upstream→client direction is
the one that ended by EOF (the upstream did not wait for the client's EOF before finishing), the client
has everything the upstream sent. -/
theorem half_close_reply_delivered_partial (pre : Bytes) (h : List Ev) :
    let s := run .firstEnds (Tun.init pre) h
    s.u2cDone = true → s.clSaw = s.uSent :=
  fun hd => ((first_finisher_delivered .firstEnds pre h).2.1 hd).2

/-- The full statement holds for the half-close-aware mode (the repair that was evaluated, see
`design/C09.md`): for every history, once both sides have finished and the proxy is quiescent, both ends
have received everything. -/
theorem half_close_reply_delivered_halfClose (pre : Bytes) (h : List Ev) :
    let s := run .halfClose (Tun.init pre) h
    quiescent .halfClose s → s.cFin = true → s.uFin = true →
    s.clSaw = s.uSent ∧ s.upSaw = pre ++ s.cSent := by
  have hff := first_finisher_delivered .halfClose pre h
  have hhalf := run_invHalf h _ (invHalf_init pre)
  simp only at hff ⊢
  generalize run .halfClose (Tun.init pre) h = s at *
  intro hq hc hu
  have dc : s.c2uDone = true := by
    cases hd : s.c2uDone with
    | true => rfl
    | false =>
      exfalso
      have htorn : s.torn = false := by
        cases ht : s.torn with
        | false => rfl
        | true => have := (hhalf.torn ht).1; simp_all
      have h1 := hq .fwdC2U (by simp [proxyEvs])
      have h2 := hq .c2uEOF (by simp [proxyEvs])
      simp only [step, htorn, hd, Bool.false_eq_true, or_self, if_false] at h1
      have hlen : s.cSent.length = s.c2u := congrArg Tun.c2u h1
      simp only [step, htorn, hd, hc, hlen, Bool.false_eq_true, Bool.not_true, Nat.lt_irrefl, or_self, if_false] at h2
      have := congrArg Tun.c2uDone h2
      simp [hd] at this
  have du : s.u2cDone = true := by
    cases hd : s.u2cDone with
    | true => rfl
    | false =>
      exfalso
      have htorn : s.torn = false := by
        cases ht : s.torn with
        | false => rfl
        | true => have := (hhalf.torn ht).2; simp_all
      have h1 := hq .fwdU2C (by simp [proxyEvs])
      have h2 := hq .u2cEOF (by simp [proxyEvs])
      simp only [step, htorn, hd, Bool.false_eq_true, or_self, if_false] at h1
      have hlen : s.uSent.length = s.u2c := congrArg Tun.u2c h1
      simp only [step, htorn, hd, hu, hlen, Bool.false_eq_true, Bool.not_true, Nat.lt_irrefl, or_self, if_false] at h2
      have := congrArg Tun.u2cDone h2
      simp [hd] at this
  exact ⟨(hff.2.1 du).2, (hff.1 dc).2⟩

example : quiescent .halfClose (scenario .halfClose [] [1] [2] [3] .halfClose) := by decide

/-- **The property's last sentence for the repaired teardown rule** (`clientHalf`: on the client's EOF the
upstream is half-closed and the tunnel lives on until the upstream→client direction ends). For every history:
once the upstream has finished and the proxy has nothing left to do, the client has received *everything* the
upstream sent — in particular a reply sent after the upstream saw the client's EOF — and, if the client has
finished too, the upstream has the client's whole stream unless the upstream's direction ended (and tore the
tunnel down) before the client's did: then the upstream was the side that finished first. -/
theorem half_close_reply_delivered_clientHalf (pre : Bytes) (h : List Ev) :
    let s := run .clientHalf (Tun.init pre) h
    quiescent .clientHalf s → s.uFin = true →
    s.clSaw = s.uSent ∧
    (s.cFin = true → s.upSaw = pre ++ s.cSent ∨ (s.torn = true ∧ s.c2uDone = false)) := by
  have hff := first_finisher_delivered .clientHalf pre h
  have hch := run_invCH h _ (invCH_init pre)
  simp only at hff ⊢
  generalize run .clientHalf (Tun.init pre) h = s at *
  intro hq hu
  have du : s.u2cDone = true := by
    cases hd : s.u2cDone with
    | true => rfl
    | false =>
      exfalso
      have htorn : s.torn = false := by
        cases ht : s.torn with
        | false => rfl
        | true => have := hch.torn ht; simp_all
      have h1 := hq .fwdU2C (by simp [proxyEvs])
      have h2 := hq .u2cEOF (by simp [proxyEvs])
      simp only [step, htorn, hd, Bool.false_eq_true, or_self, if_false] at h1
      have hlen : s.uSent.length = s.u2c := congrArg Tun.u2c h1
      simp only [step, htorn, hd, hu, hlen, Bool.false_eq_true, Bool.not_true, Nat.lt_irrefl, or_self, if_false] at h2
      have := congrArg Tun.u2cDone h2
      simp [hd] at this
  refine ⟨(hff.2.1 du).2, ?_⟩
  intro hc
  cases hd : s.c2uDone with
  | true => exact Or.inl (hff.1 hd).2
  | false =>
    cases ht : s.torn with
    | true => exact Or.inr ⟨rfl, rfl⟩
    | false =>
      exfalso
      have h1 := hq .fwdC2U (by simp [proxyEvs])
      have h2 := hq .c2uEOF (by simp [proxyEvs])
      simp only [step, ht, hd, Bool.false_eq_true, or_self, if_false] at h1
      have hlen : s.cSent.length = s.c2u := congrArg Tun.c2u h1
      simp only [step, ht, hd, hc, hlen, Bool.false_eq_true, Bool.not_true, Nat.lt_irrefl, or_self, if_false] at h2
      have := congrArg Tun.c2uDone h2
      simp [hd] at this

example : quiescent .clientHalf (scenario .clientHalf [] [1] [2] [3] .halfClose) ∧
    (scenario .clientHalf [] [1] [2] [3] .halfClose).uFin = true := by decide

/-- The half-close history on the repaired rule: the upstream has `HELLO`, the client has `REPLY`. -/
theorem half_close_reply_witness_clientHalf :
    let hello : Bytes := [72, 69, 76, 76, 79]
    let reply : Bytes := [82, 69, 80, 76, 89]
    (scenario .clientHalf [] hello [] reply .halfClose).upSaw = hello ∧
    (scenario .clientHalf [] hello [] reply .halfClose).clSaw = reply ∧
    (scenario .clientHalf [] hello [] reply .halfClose).torn = true := by
  decide

/-! ## The server closing the inbound connection (`Server.Shutdown` → `closeConns`) -/

/-- In the modes the code has had — before the D14 repair and after it — the server closing the tunnel's inbound
connection ends the tunnel, whatever has happened before (in particular after a client half-close with an idle
upstream): `Server.Shutdown` bounds the lifetime of every tunnel. After that nothing is delivered any more. -/
theorem server_close_ends_tunnel (m : Mode) (hm : m = .firstEnds ∨ m = .clientHalf) (pre : Bytes) (h h' : List Ev) :
    let s := serverClose m (run m (Tun.init pre) h)
    s.torn = true ∧ (run m s h').torn = true ∧ (run m s h').clSaw = s.clSaw ∧ (run m s h').upSaw = s.upSaw := by
  intro s
  have ht : s.torn = true := by rcases hm with rfl | rfl <;> rfl
  exact ⟨ht, torn_run m h' s ht⟩

example : (serverClose .clientHalf (run .clientHalf (Tun.init []) [.clientSend [1], .fwdC2U, .clientFin, .c2uEOF])).torn = true ∧
    (run .clientHalf (Tun.init []) [.clientSend [1], .fwdC2U, .clientFin, .c2uEOF]).torn = false := by decide

/-- Why the symmetric repair (`halfClose`: propagate the EOF, wait for both directions) was rejected: after a
client half-close, with an upstream that stays idle, the server closing the inbound connection does **not** end
the tunnel, whatever the proxy does afterwards — handler and outbound socket outlive `Server.Shutdown`. -/
theorem naive_half_close_survives_shutdown (h' : List Ev) (hp : ∀ e ∈ h', e ∈ proxyEvs) :
    let s := serverClose .halfClose (run .halfClose (Tun.init []) [.clientSend [1], .fwdC2U, .clientFin, .c2uEOF])
    (run .halfClose s h').torn = false ∧ (run .halfClose s h').upSaw = [1] := by
  intro s
  have key : ∀ (l : List Ev) (t : Tun), (∀ e ∈ l, e ∈ proxyEvs) →
      t.torn = false → t.u2cDone = false → t.uFin = false → t.c2uDone = true → t.upSaw = [1] →
      (run .halfClose t l).torn = false ∧ (run .halfClose t l).upSaw = [1] := by
    intro l
    induction l with
    | nil => intro t _ a _ _ _ e; exact ⟨a, e⟩
    | cons e l ih =>
      intro t hl a b c d f
      have he : e ∈ proxyEvs := hl e (by simp)
      have hl' : ∀ x ∈ l, x ∈ proxyEvs := fun x hx => hl x (by simp [hx])
      simp only [proxyEvs, List.mem_cons, List.not_mem_nil, or_false] at he
      show (run .halfClose (step .halfClose t e) l).torn = false ∧ _
      rcases he with rfl | rfl | rfl | rfl | rfl <;>
        (apply ih _ hl' <;> simp [step, a, b, c, d, f])
  exact key h' s hp (by decide) (by decide) (by decide) (by decide) (by decide)

/-- The closing orders the socket streams run (`scenario`, used by the driver as the prediction): with
either side closing first after the barrier both ends have everything; with a client half-close the code's
mode loses exactly the reply. -/
theorem scenario_outcomes (m : Mode) (pre c u reply : Bytes) :
    ((scenario m pre c u reply .client).upSaw = pre ++ c ∧ (scenario m pre c u reply .client).clSaw = u) ∧
    ((scenario m pre c u reply .upstream).upSaw = pre ++ c ∧ (scenario m pre c u reply .upstream).clSaw = u) ∧
    (scenario .firstEnds pre c u reply .halfClose).upSaw = pre ++ c ∧
    (scenario .firstEnds pre c u reply .halfClose).clSaw = u ∧
    (scenario .halfClose pre c u reply .halfClose).clSaw = u ++ reply ∧
    (scenario .clientHalf pre c u reply .halfClose).upSaw = pre ++ c ∧
    (scenario .clientHalf pre c u reply .halfClose).clSaw = u ++ reply := by
  cases m <;> simp [scenario, closeHistory, run, step, Tun.init]

/-- The closing order "client half-closes, the upstream answers and stays idle, the server closes the client
connection" (`c09.tunnel`, order `halfidle`): on the repaired rule the client has the reply, the upstream the whole
stream, and the handler has ended; the rule before the repair loses the reply; the rejected symmetric rule
delivers it but the handler does not end. -/
theorem scenario_half_idle (pre c u reply : Bytes) :
    ((scenario .clientHalf pre c u reply .halfIdle).upSaw = pre ++ c ∧
     (scenario .clientHalf pre c u reply .halfIdle).clSaw = u ++ reply ∧
     (scenario .clientHalf pre c u reply .halfIdle).torn = true) ∧
    ((scenario .firstEnds pre c u reply .halfIdle).clSaw = u ∧
     (scenario .firstEnds pre c u reply .halfIdle).torn = true) ∧
    ((scenario .halfClose pre c u reply .halfIdle).clSaw = u ++ reply ∧
     (scenario .halfClose pre c u reply .halfIdle).torn = false) := by
  simp [scenario, closeHistory, run, step, Tun.init, serverClose]

/-! ## Listener timeouts (`conn` wrapper of `tcp.Server`) -/

/-- With the wrapper as coded (the deadline is armed by every call) no write of a tunnel ever times out unless it
is itself blocked for a whole timeout — whatever the times at which the writes are issued, from whatever state,
however long the tunnel lives. This discharges, for the wrapper, the assumption of the tunnel theorems under
`wt=`/`rt=`: "no single read or write blocks for a whole timeout" is the *only* way to lose the tunnel to a
timeout. -/
theorem conn_write_never_times_out (wt : Nat) (hwt : 0 < wt) (c : ConnW) (ws : List (Nat × Nat))
    (h : ∀ w ∈ ws, w.2 < wt) :
    ∀ ok ∈ ConnW.writes .everyCall wt c ws, ok = true := by
  induction ws generalizing c with
  | nil => intro ok hok; simp [ConnW.writes] at hok
  | cons w r ih =>
    obtain ⟨t, d⟩ := w
    intro ok hok
    simp only [ConnW.writes, List.mem_cons] at hok
    rcases hok with rfl | hok
    · have hw : d < wt := h (t, d) (by simp)
      have h0 : wt ≠ 0 := by omega
      simp only [ConnW.write, h0, if_false]
      simp; omega
    · exact ih _ (fun w hw => h w (by simp [hw])) ok hok

/-- Without a configured timeout the wrapper arms nothing: no write of a fresh connection times out. -/
theorem conn_write_no_timeout_configured (a : Arming) (c : ConnW) (hc : c.deadline = none) (ws : List (Nat × Nat)) :
    ∀ ok ∈ ConnW.writes a 0 c ws, ok = true := by
  induction ws generalizing c with
  | nil => intro ok hok; simp [ConnW.writes] at hok
  | cons w r ih =>
    obtain ⟨t, d⟩ := w
    intro ok hok
    simp only [ConnW.writes, List.mem_cons] at hok
    rcases hok with rfl | hok
    · simp [ConnW.write, hc]
    · exact ih _ (by simp [ConnW.write, hc]) ok hok

example : ConnW.writes .everyCall 400 {} [(1000, 0), (1420, 399), (5000, 10)] = [true, true, true] := by decide

/-- The counter-model (seeded change m10, replayed on the real code by the class `*-timeouts`): arming "only after a
quarter of the timeout" against the remembered *deadline* lets a write that does not block at all fail, 20 ticks
after the first deadline has passed. -/
theorem lazy_arming_times_out_unblocked_write :
    ConnW.writes .lazy 400 {} [(1000, 0), (1420, 0)] = [true, false] := by decide

/-! ## PROXY protocol header -/

/-- The line `WriteProxyHeader` writes, as coded: `PROXY`, the family chosen from the *client* address
alone, client address, server address, client port, server port, CRLF. -/
theorem proxy_header_format (ca cp sa sp : List Char) :
    proxyHeader ca cp sa sp =
      "PROXY ".toList ++ (if isIPv4Text ca then "TCP4".toList else "TCP6".toList) ++
      " ".toList ++ ca ++ " ".toList ++ sa ++ " ".toList ++ cp ++ " ".toList ++ sp ++ "\r\n".toList ∧
    (proxyHeader ca cp sa sp).length = ca.length + sa.length + cp.length + sp.length + 16 := by
  constructor
  · rfl
  · unfold proxyHeader; split <;> simp <;> omega

example : String.ofList (proxyHeader "1.2.3.4".toList "5555".toList "10.0.0.1".toList "7000".toList)
    = "PROXY TCP4 1.2.3.4 10.0.0.1 5555 7000\r\n" := by decide
example : String.ofList (proxyHeader "2001:db8::1".toList "9".toList "::1".toList "443".toList)
    = "PROXY TCP6 2001:db8::1 ::1 9 443\r\n" := by decide
example : isIPv4Text "256.1.1.1".toList = false ∧ isIPv4Text "01.1.1.1".toList = false ∧ isIPv4Text "0.0.0.0".toList = true := by decide

end Fabio.Props.C09
