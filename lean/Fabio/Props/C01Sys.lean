import Fabio.Props.C01Compose
import Fabio.Model.C01Sys
import Fabio.Lemmas.C01Sys
/-!
C01 round 4 — end-to-end statements: registry states and KV contents in, active table out.

The watchers are sequential producers (`watchTexts`, `watchKVRun`), the `select` of `watchBackend` sees some
interleaving (`Merge`), the step machine of `Model/C01.lean` consumes it.

* `merge_lastSvc`, `merge_lastMan`   — an interleaving does not change which text of each producer is the last one.
* `watchKV_publishes_latest`         — whatever the indexes do, the last text `watchKV` published is the value of
                                        its last answer (or nothing was ever published and that value is empty).
* `system_quiescent`                 — **first sentence, generic**: for every sequence of observed registry states,
                                        every sequence of KV answers and every interleaving, the active table is
                                        `build (compute lastState ++ "\n" ++ lastKVValue)`.
* `system_installed_from_observed`   — every table ever installed was built from the text of a state the monitor
                                        had observed and a value the KV watcher had published (or the initial "").
* `unhealthy_absent_from_then_on`    — **second sentence, across later service events**: a table property that every
                                        table built from the text of state k, k+1, … has holds of every table
                                        installed at or after the iteration that consumed the text of state k.
* `register_outcome_irrelevant`      — the outcome of the alias registration does not reach the table.
* `abort_on_register_error_freezes_table` — the negation for the other design: with a registration that fails the
                                        table never changes again (witness for seeded change m10).
* `nonblocking_handover_loses_final_state` — the negation for a non-blocking hand-over in `Watch` (m11).
* `monotone_index_test_loses_final_value`  — the negation for an ordering test on the KV index (m6).
* `manual_text_commands_per_key_partial`   — `route.Parse (listKV …)` = the commands of the values, in key order;
                                        forced hypothesis: a key holds no newline (negation: `key_with_newline_injects`).
* composed with C14 / Parse / Route: `end_to_end_operator_on_top`, `end_to_end_iff_healthy`,
  `end_to_end_unhealthy_absent`, and — with arbitrary catalog lookups failing in every round —
  `end_to_end_sound_at_every_table`.
-/
namespace Fabio.Props.C01Sys
open Fabio Fabio.Model.C01 Fabio.Model.C01Sys Fabio.Props.C01

/-! ### interleavings -/

def fSvc (acc : Option Str) (e : Event) : Option Str := match e with | .svc t => some t | .man _ => acc
def fMan (acc : Option Str) (e : Event) : Option Str := match e with | .man t => some t | .svc _ => acc

theorem lastSvc_eq (es : List Event) : lastSvc es = es.foldl fSvc none := rfl
theorem lastMan_eq (es : List Event) : lastMan es = es.foldl fMan none := rfl

theorem foldl_fSvc_merge {es a b : List Event} (h : Merge es a b) (hb : ∀ e ∈ b, ∃ t, e = Event.man t) :
    ∀ acc, es.foldl fSvc acc = a.foldl fSvc acc := by
  induction h with
  | nil => intro acc; rfl
  | left _ ih => intro acc; exact ih hb _
  | @right x l a b _ ih =>
    intro acc
    obtain ⟨t, rfl⟩ := hb x (by simp)
    exact ih (fun e he => hb e (List.mem_cons_of_mem _ he)) acc

theorem foldl_fMan_merge {es a b : List Event} (h : Merge es a b) (ha : ∀ e ∈ a, ∃ t, e = Event.svc t) :
    ∀ acc, es.foldl fMan acc = b.foldl fMan acc := by
  induction h with
  | nil => intro acc; rfl
  | @left x l a b _ ih =>
    intro acc
    obtain ⟨t, rfl⟩ := ha x (by simp)
    exact ih (fun e he => ha e (List.mem_cons_of_mem _ he)) acc
  | right _ ih => intro acc; exact ih ha _

theorem svcEvents_svc (ts : List Str) : ∀ e ∈ svcEvents ts, ∃ t, e = Event.svc t := by
  intro e he
  obtain ⟨t, _, rfl⟩ := List.mem_map.1 he
  exact ⟨t, rfl⟩

theorem manEvents_man (ts : List Str) : ∀ e ∈ manEvents ts, ∃ t, e = Event.man t := by
  intro e he
  obtain ⟨t, _, rfl⟩ := List.mem_map.1 he
  exact ⟨t, rfl⟩

/-- the last service text the table loop received is the last one the monitor handed over, whatever the
interleaving with the manual events -/
theorem merge_lastSvc {es : List Event} {S M : List Str} (h : Merge es (svcEvents S) (manEvents M)) :
    lastSvc es = lastSvc (svcEvents S) := by
  rw [lastSvc_eq, lastSvc_eq]
  exact foldl_fSvc_merge h (manEvents_man M) none

theorem merge_lastMan {es : List Event} {S M : List Str} (h : Merge es (svcEvents S) (manEvents M)) :
    lastMan es = lastMan (manEvents M) := by
  rw [lastMan_eq, lastMan_eq]
  exact foldl_fMan_merge h (svcEvents_svc S) none

theorem lastSvc_svcEvents_snoc (pre : List Str) (S : Str) : lastSvc (svcEvents (pre ++ [S])) = some S := by
  rw [lastSvc_eq]
  unfold svcEvents
  rw [List.map_append, List.foldl_append]
  rfl

theorem foldl_fMan_manEvents (ts : List Str) : ∀ acc d, ((manEvents ts).foldl fMan acc).getD d =
    ((manEvents ts).foldl fMan none).getD (acc.getD d) := by
  induction ts with
  | nil => intro acc d; rfl
  | cons t ts ih =>
    intro acc d
    show ((manEvents ts).foldl fMan (some t)).getD d = ((manEvents ts).foldl fMan (some t)).getD (acc.getD d)
    rw [ih (some t) d, ih (some t) (acc.getD d)]
    rfl

theorem merge_ne_nil {α} {es a b : List α} (h : Merge es a b) (ha : a ≠ []) : es ≠ [] := by
  cases h with
  | nil => exact absurd rfl ha
  | left _ => simp
  | right _ => simp

/-! ### `watchKV`: the last published text is the latest value -/

theorem watchKVRound_value (s : KVWatch) (v : Str) (i : Nat) : (watchKVRound s v i).1.lastValue = v := by
  unfold watchKVRound
  split
  · rfl
  · next h =>
    simp only [Bool.or_eq_true, not_or, bne_iff_ne, ne_eq, Decidable.not_not] at h
    exact h.1.symm

/-- invariant of the loop: the text the table loop saw last from this watcher (or the initial empty `mancfg`
if it saw none) is the remembered value -/
theorem watchKV_published_is_remembered (answers : List (Str × Nat)) : ∀ s : KVWatch,
    (lastMan (manEvents (watchKVRun s answers))).getD s.lastValue = (watchKVFinal s answers).lastValue := by
  induction answers with
  | nil => intro s; rfl
  | cons a rest ih =>
    intro s
    obtain ⟨v, i⟩ := a
    have hv := watchKVRound_value s v i
    simp only [watchKVRun, watchKVFinal]
    cases hp : (watchKVRound s v i).2 with
    | none =>
      simp only
      -- nothing published: the state is unchanged
      have hst : (watchKVRound s v i).1 = s := by
        unfold watchKVRound at hp ⊢
        split at hp
        · cases hp
        · next h => simp [h]
      rw [hst]
      exact ih s
    | some p =>
      simp only
      have hpv : p = v := by
        unfold watchKVRound at hp
        split at hp
        · simpa using hp.symm
        · cases hp
      subst hpv
      rw [lastMan_eq]
      show ((manEvents (watchKVRun (watchKVRound s p i).1 rest)).foldl fMan (some p)).getD s.lastValue = _
      rw [foldl_fMan_manEvents _ (some p) s.lastValue, ← lastMan_eq]
      have := ih (watchKVRound s p i).1
      rw [hv] at this
      exact this

theorem watchKVFinal_snoc (pre : List (Str × Nat)) (v : Str) (i : Nat) : ∀ s : KVWatch,
    (watchKVFinal s (pre ++ [(v, i)])).lastValue = v := by
  induction pre with
  | nil => intro s; exact watchKVRound_value s v i
  | cons a pre ih => intro s; obtain ⟨w, j⟩ := a; exact ih _

/-- **`watchKV` hands the latest value to the table loop**, whatever the indexes did (equal, growing, jumping
backwards) and whatever was published before: after the answers `pre ++ [(v, i)]` the last text the table loop got
from it — or the initial empty `mancfg` when nothing was ever published — is `v`. -/
theorem watchKV_publishes_latest (pre : List (Str × Nat)) (v : Str) (i : Nat) :
    (lastMan (manEvents (watchKVRun {} (pre ++ [(v, i)])))).getD [] = v := by
  have := watchKV_published_is_remembered (pre ++ [(v, i)]) {}
  rw [watchKVFinal_snoc] at this
  exact this

/-! ### the system: producers, `select`, table loop -/

section system
variable {T ρ : Type} (build : Str → Option T) (compute : ρ → Str)

/-- **Once the registry's view stops changing** (generic in the table type): the monitor observed the registry
states `pre ++ [R]` in this order (each answered health query gives one; `R` is the final one), the KV watcher got
the answers `kvPre ++ [(M, idx)]`, the `select` of the table loop saw *some* interleaving `es` of what the two handed
over. If `compute R ++ "\n" ++ M` builds, the active table is that table — whatever stale, failing or repeated
texts came before. -/
theorem system_quiescent (t0 : T) (pre : List ρ) (R : ρ) (kvPre : List (Str × Nat)) (M : Str) (idx : Nat)
    (es : List Event)
    (hm : Merge es (svcEvents (watchTexts compute (pre ++ [R]))) (manEvents (watchKVRun {} (kvPre ++ [(M, idx)]))))
    (t : T) (hb : build (concatCfg (compute R) M) = some t) :
    (run build (init t0) es).active = t := by
  have hne : es ≠ [] := merge_ne_nil hm (by simp [svcEvents, watchTexts])
  apply quiescent_table build (init t0) es (compute R) M t (init_inv build t0) hne _ _ hb
  · rw [merge_lastSvc hm]
    unfold watchTexts
    rw [List.map_append, List.map_singleton, lastSvc_svcEvents_snoc]
    rfl
  · rw [merge_lastMan hm]
    exact watchKV_publishes_latest kvPre M idx

theorem lastSvc_mem_aux (es : List Event) : ∀ acc : Option Str, ∀ S, es.foldl fSvc acc = some S →
    acc = some S ∨ Event.svc S ∈ es := by
  induction es with
  | nil => intro acc S h; exact Or.inl h
  | cons e es ih =>
    intro acc S h
    rcases ih _ S h with h1 | h1
    · cases e with
      | svc t => right; simp only [fSvc, Option.some.injEq] at h1; simp [h1]
      | man t => left; exact h1
    · right; exact List.mem_cons_of_mem _ h1

theorem lastMan_mem_aux (es : List Event) : ∀ acc : Option Str, ∀ S, es.foldl fMan acc = some S →
    acc = some S ∨ Event.man S ∈ es := by
  induction es with
  | nil => intro acc S h; exact Or.inl h
  | cons e es ih =>
    intro acc S h
    rcases ih _ S h with h1 | h1
    · cases e with
      | man t => right; simp only [fMan, Option.some.injEq] at h1; simp [h1]
      | svc t => left; exact h1
    · right; exact List.mem_cons_of_mem _ h1

theorem mem_of_merge_left {α} {es a b : List α} (h : Merge es a b) (x : α) (hx : x ∈ es) : x ∈ a ∨ x ∈ b := by
  induction h with
  | nil => cases hx
  | left _ ih =>
    rcases List.mem_cons.1 hx with rfl | hx
    · left; simp
    · rcases ih hx with h | h
      · left; exact List.mem_cons_of_mem _ h
      · right; exact h
  | right _ ih =>
    rcases List.mem_cons.1 hx with rfl | hx
    · right; simp
    · rcases ih hx with h | h
      · left; exact h
      · right; exact List.mem_cons_of_mem _ h

/-- **Nothing is invented on the way.** Every table handed to `SetTable` — at any point of any interleaving, not
only at the end — was built from the text of a registry state the monitor had observed (or the initial empty text)
and a value the KV watcher had published (or the initial empty text). -/
theorem system_installed_from_observed (t0 : T) (obs : List ρ) (kvTexts : List Str) (es : List Event) (e : Event)
    (hm : Merge (es ++ [e]) (svcEvents (watchTexts compute obs)) (manEvents kvTexts)) (t : T)
    (h : (stepOut build (run build (init t0) es) e).2 = some t) :
    ∃ S M, (S = [] ∨ ∃ R ∈ obs, S = compute R) ∧ (M = [] ∨ M ∈ kvTexts) ∧ build (concatCfg S M) = some t := by
  obtain ⟨hb, _, _⟩ := installed_from_latest build (init t0) es e t h
  refine ⟨_, _, ?_, ?_, hb⟩
  · cases hs : lastSvc (es ++ [e]) with
    | none => left; rfl
    | some S =>
      right
      rw [lastSvc_eq] at hs
      rcases lastSvc_mem_aux _ none S hs with h0 | h0
      · cases h0
      · rcases mem_of_merge_left hm _ h0 with h1 | h1
        · obtain ⟨s, hs1, hs2⟩ := List.mem_map.1 h1
          obtain ⟨R, hR, rfl⟩ := List.mem_map.1 hs1
          exact ⟨R, hR, by simpa using hs2.symm⟩
        · obtain ⟨s, _, hs2⟩ := List.mem_map.1 h1
          cases hs2
  · cases hs : lastMan (es ++ [e]) with
    | none => left; rfl
    | some M =>
      right
      rw [lastMan_eq] at hs
      rcases lastMan_mem_aux _ none M hs with h0 | h0
      · cases h0
      · rcases mem_of_merge_left hm _ h0 with h1 | h1
        · obtain ⟨s, _, hs2⟩ := List.mem_map.1 h1
          cases hs2
        · obtain ⟨s, hs1, hs2⟩ := List.mem_map.1 h1
          cases hs2
          exact hs1

/-- **An instance that has become unhealthy is absent from every table installed after that state was observed**
— across later service events too. The table loop consumed `before`, then the text `S` of the state in which the
instance is unhealthy, then `later` (service texts of later states and manual texts in any order), then `e`. If
`absent` is a property that every table built from `S` and from every service text handed over after it has (the
instance stays unhealthy in those states), every table installed from the consumption of `S` on has it. -/
theorem unhealthy_absent_from_then_on (absent : T → Prop) (s0 : State T) (before later : List Event) (e : Event)
    (S : Str) (t : T)
    (hS : ∀ S', (S' = S ∨ Event.svc S' ∈ later ++ [e]) → ∀ M t, build (concatCfg S' M) = some t → absent t)
    (h : (stepOut build (run build s0 (before ++ [Event.svc S] ++ later)) e).2 = some t) :
    absent t := by
  obtain ⟨hb, _, _⟩ := installed_from_latest build s0 _ e t h
  have hl : ∃ S', lastSvc (before ++ [Event.svc S] ++ later ++ [e]) = some S' ∧
      (S' = S ∨ Event.svc S' ∈ later ++ [e]) := by
    rw [lastSvc_eq, List.append_assoc, List.append_assoc, List.foldl_append, List.foldl_append]
    show ∃ S', (later ++ [e]).foldl fSvc (some S) = some S' ∧ _
    cases hx : (later ++ [e]).foldl fSvc (some S) with
    | none =>
      exfalso
      have : ∀ (l : List Event) (a : Str), l.foldl fSvc (some a) ≠ none := by
        intro l
        induction l with
        | nil => intro a h; cases h
        | cons x xs ih => intro a; cases x <;> exact ih _
      exact this _ _ hx
    | some S' =>
      refine ⟨S', rfl, ?_⟩
      rcases lastSvc_mem_aux _ _ S' hx with h1 | h1
      · left; exact (Option.some.inj h1).symm
      · right; exact h1
  obtain ⟨S', hl1, hl2⟩ := hl
  rw [hl1] at hb
  exact hS S' hl2 _ t hb

end system

/-! ### the alias registration -/

/-- The result of `registry.Default.Register(aliases)` does not reach the table: the iteration with the
registration spelled out installs, remembers and activates exactly what the iteration of `Model/C01.lean` does,
for every registration outcome. -/
theorem register_outcome_irrelevant {T} (register : Str → Bool) (build : Str → Option T) (s : State T) (e : Event) :
    ((stepOutReg register build s e).1, (stepOutReg register build s e).2.1) = stepOut build s e := by
  unfold stepOutReg stepOut
  simp only
  split
  · rfl
  · cases build (concatCfg (receive s e).svccfg (receive s e).mancfg) <;> rfl

/-- the registration is attempted exactly when the text changed — before the table is built, and whether or not it
then builds -/
theorem register_called_iff_text_changed {T} (register : Str → Bool) (build : Str → Option T) (s : State T)
    (e : Event) :
    (stepOutReg register build s e).2.2.isSome = (textAfter s e != (receive s e).lastTable) := by
  unfold stepOutReg textAfter
  simp only
  split
  · next h => simpa using h
  · next h => split <;> simpa using h

/-- **The negation for the other design** (skip the table when the alias registration fails): while the
registration fails — e.g. `register.addr` without a port and any route with a `register=` option — no event changes
the active table any more, whatever the registry does. -/
theorem abort_on_register_error_freezes_table {T} (build : Str → Option T) (s : State T) (es : List Event) :
    (es.foldl (stepAbortOnRegisterError (fun _ => false) build) s).active = s.active := by
  induction es generalizing s with
  | nil => rfl
  | cons e es ih =>
    rw [List.foldl_cons, ih]
    unfold stepAbortOnRegisterError
    simp only
    split
    · cases e <;> rfl
    · cases e <;> rfl

/-- … while the code's iteration follows the registry under the same failing registration (concrete witness) -/
theorem abort_design_differs :
    (([Event.svc "a b".toList, Event.svc "c".toList].foldl
        (stepAbortOnRegisterError (fun _ => false) toyBuild) (init [])).active = [] ∧
     ([Event.svc "a b".toList, Event.svc "c".toList].foldl
        (fun s e => (stepOutReg (fun _ => false) toyBuild s e).1) (init [])).active = "c\n".toList) := by decide

/-! ### the negations for the other hand-over designs -/

/-- **A non-blocking hand-over in `Watch` loses the final state**: two observed states, the table loop busy when
the second text is ready — the active table stays the one of the first state although the registry's view has
stopped changing. With the blocking send (`system_quiescent`) it is the table of the second. -/
theorem nonblocking_handover_loses_final_state :
    let texts := watchTexts (fun r : Str => r) ["both".toList, "one".toList]
    let es := svcEvents (handOverNonBlocking [true, false] texts)
    (run toyBuild (init []) es).active = "both\n".toList ∧
    (run toyBuild (init []) (svcEvents texts)).active = "one\n".toList := by decide

/-- **An ordering test on the KV index loses the final value** when the index goes backwards (snapshot restore):
`watchKV`'s change test publishes it (`watchKV_publishes_latest`). -/
theorem monotone_index_test_loses_final_value :
    (watchKVRoundMonotone { lastValue := "old".toList, lastIndex := 1000 } "new".toList 100).2 = none ∧
    (watchKVRound { lastValue := "old".toList, lastIndex := 1000 } "new".toList 100).2 = some "new".toList := by
  decide

/-! ### non-vacuity -/

example : Merge [Event.svc "a".toList, Event.man "m".toList, Event.svc "b".toList]
    (svcEvents ["a".toList, "b".toList]) (manEvents ["m".toList]) :=
  Merge.left (Merge.right (Merge.left Merge.nil))

example : -- indexes equal, growing, jumping backwards; a repeated value with a new index is published again
    watchKVRun {} [("".toList, 0), ("x".toList, 1000), ("x".toList, 1000), ("x".toList, 100), ("y".toList, 101)] =
      ["x".toList, "x".toList, "y".toList] := by decide

example : -- `system_quiescent` on a toy: stale and failing texts first, the final ones last
    let es := [Event.svc "a!".toList, Event.man "x".toList, Event.svc "b".toList]
    isMerge es (svcEvents (watchTexts (fun r : Str => r) (["a!".toList] ++ ["b".toList])))
      (manEvents (watchKVRun {} ([] ++ [("x".toList, 7)]))) = true ∧
    (run toyBuild (init []) es).active = "b\nx".toList := by decide

example : -- `unhealthy_absent_from_then_on`: later service events are allowed
    (stepOut toyBuild (run toyBuild (init []) ([] ++ [Event.svc "S".toList] ++ [Event.man "m".toList, Event.svc "S2".toList]))
      (Event.man "k".toList)).2 = some "S2\nk".toList := by decide

example : (stepOutReg (fun _ => false) toyBuild (init []) (Event.svc "a".toList)).2 = (some "a\n".toList, some false) := by
  decide

/-! ### the manual text `listKV` assembles, read by `route.Parse` -/

section manual
open Fabio.Model.Route (RouteDef)
open Fabio.Model.Parse (parse ParseFloat trimSpace join byteLen maxToken)
open Fabio.Lemmas.C01Sys

/- Full statement: "for every list of KV pairs, `route.Parse (listKV pairs)` is the concatenation, in key order, of
what `route.Parse` reads from each (trimmed) value". It fails for a key that holds a newline: what follows the
newline in the key is read as a line of its own (`key_with_newline_injects`; the KV tree below the configured path is
the operator's, who can write any command anyway, so this costs the property nothing). -/

/-- **The operator's commands are the commands of the KV values, in key order.** Forced hypothesis: no key holds a
newline (and the comment line naming it fits into a scanner token). -/
theorem manual_text_commands_per_key_partial (pf : ParseFloat) (pairs : List (Str × Str))
    (ds : Str → List RouteDef)
    (hkey : ∀ kv ∈ pairs, '\n' ∉ kv.1 ∧ byteLen (kvHeader ++ kv.1) < maxToken)
    (hval : ∀ kv ∈ pairs, parse pf (trimSpace kv.2) = .ok (ds (trimSpace kv.2))) :
    parse pf (listKVText true pairs) = .ok (pairs.flatMap (fun kv => ds (trimSpace kv.2))) := by
  unfold listKVText
  rw [join_blank_line]
  -- what `route.Parse` reads from one item / from the empty line between two items
  let dsI : Str → List RouteDef := fun c => match parse pf c with | .ok d => d | .error _ => []
  have hitem : ∀ kv ∈ pairs, parse pf (kvItem true kv) = .ok (ds (trimSpace kv.2)) := by
    intro kv hkv
    obtain ⟨hnl, hlen⟩ := hkey kv hkv
    have hhdr : parse pf (kvHeader ++ kv.1) = .ok [] :=
      comment_line_parses_empty pf _ rfl (by
        intro hm
        rcases List.mem_append.1 hm with h | h
        · revert h; decide
        · exact hnl h) hlen
    have : kvItem true kv = concatCfg (kvHeader ++ kv.1) (trimSpace kv.2) := by
      simp [kvItem, concatCfg]
    rw [this]
    exact (Fabio.Lemmas.C01Compose.parse_concat_iff pf _ _ _).2 ⟨[], _, hhdr, hval kv hkv, rfl⟩
  have hall : ∀ c ∈ (pairs.map (kvItem true)).intersperse [], parse pf c = .ok (dsI c) := by
    intro c hc
    have hc' : c = [] ∨ c ∈ pairs.map (kvItem true) := mem_intersperse_nil _ c hc
    rcases hc' with rfl | hc'
    · rfl
    · obtain ⟨kv, hkv, rfl⟩ := List.mem_map.1 hc'
      simp only [dsI, hitem kv hkv]
  rw [Fabio.Lemmas.C14.parse_join pf _ dsI hall, flatMap_intersperse_nil _ dsI rfl, List.flatMap_map]
  congr 1
  apply flatMap_congr'
  intro kv hkv
  simp only [dsI, hitem kv hkv]

/-- the negation of the full statement: a key that holds a newline puts a command into the manual text although
every value is empty -/
theorem key_with_newline_injects :
    ∃ pairs : List (Str × Str), (∀ kv ∈ pairs, trimSpace kv.2 = []) ∧
      (parse (fun _ => none) (listKVText true pairs)).toOption.map List.length = some 1 :=
  ⟨[("k\nroute del web".toList, [])], by decide, by decide⟩

example : -- non-vacuity: two keys, values with white space around them, a comment and an empty line inside
    listKVText true [("fabio/config/a".toList, " route del web \n".toList), ("fabio/config/b".toList, "# c\n\nroute del s /a".toList)] =
      "# --- fabio/config/a\nroute del web\n\n# --- fabio/config/b\n# c\n\nroute del s /a".toList ∧
    (parse (fun _ => none) (listKVText true [("fabio/config/a".toList, " route del web \n".toList),
        ("fabio/config/b".toList, "# c\n\nroute del s /a".toList)])).toOption.map List.length = some 2 := by decide

end manual

/-! ### composed with C14's `build`, the command parser and the route table -/

section composed
open Fabio.Model.C01Compose Fabio.Props.C01Compose
open Fabio.Model.Route (Env RouteDef Table Target)
open Fabio.Model.C05Spec (abs key newTarget specApply Spec)
open Fabio.Model.C14 (Cfg intents expressibleB wantDef)
open Fabio.Model.Parse (parse loadTable ParseFloat)
open Fabio.Lemmas.C14 (core)

/-- a registry state as one answer of `/v1/health/state/any` plus the catalog describe it -/
structure RegState where
  checks : List Check
  catalog : Str → List Instance

variable (env : Env) (pf : ParseFloat) (cfg : Cfg) (st : List Str) (strict : Bool)

/-- the text `Watch` computes from an observed state (a round without failing catalog lookups) -/
def textOf (R : RegState) : Str := svcText env pf cfg st strict R.checks R.catalog

/-- **First sentence, end to end, with the operator's commands.** The monitor observed the registry states
`pre ++ [R]` (any states before the final `R`), the KV watcher got the answers `kvPre ++ [(listKV pairs, idx)]` (any
values and indexes before the final content `pairs`), the table loop saw some interleaving of what they handed
over. If the final KV content parses to commands that apply to the service table of `R`, the active table routes
exactly what those commands leave of the service table of `R`. -/
theorem end_to_end_operator_on_top (pre : List RegState) (R : RegState) (kvPre : List (Str × Nat))
    (pairs : List (Str × Str)) (idx : Nat) (es : List Event)
    (hm : Merge es (svcEvents (watchTexts (textOf env pf cfg st strict) (pre ++ [R])))
      (manEvents (watchKVRun {} (kvPre ++ [(listKVText true pairs, idx)]))))
    (tS : Table) (hS : loadTable env pf (textOf env pf cfg st strict R) = .ok tS)
    (dsM : List RouteDef) (S' : Spec) (hM : parse pf (listKVText true pairs) = .ok dsM)
    (hf : dsM.foldlM (specApply env) (abs tS) = .ok S') :
    abs (run (loadOpt env pf) (init ([] : Table)) es).active = S' := by
  obtain ⟨t, ht, habs⟩ := operator_on_top_loads env pf _ _ tS hS dsM S' hM hf
  rw [system_quiescent (loadOpt env pf) (textOf env pf cfg st strict) ([] : Table) pre R kvPre _ idx es hm t
    ((loadOpt_some env pf _ t).2 ht)]
  exact habs

/-- **First sentence, end to end**: … and when the KV tree holds no command (no keys, or comments only), the active
table has a target under (host, path) iff an instance that is eligible in the final state `R` — registered, with a
service check, healthy under the configured rule over all checks — offers it with one of its routing tags. -/
theorem end_to_end_iff_healthy (pre : List RegState) (R : RegState) (kvPre : List (Str × Nat))
    (pairs : List (Str × Str)) (idx : Nat) (es : List Event)
    (wf : WellFormed cfg R.checks R.catalog)
    (hexp : ∀ name, ∀ i ∈ R.catalog name, ∀ it ∈ intents cfg (regOf i), expressibleB env pf it = true)
    (hm : Merge es (svcEvents (watchTexts (textOf env pf cfg st strict) (pre ++ [R])))
      (manEvents (watchKVRun {} (kvPre ++ [(listKVText true pairs, idx)]))))
    (hM : parse pf (listKVText true pairs) = .ok [])
    (h p : Str) (x : Target) :
    (∃ y ∈ abs (run (loadOpt env pf) (init ([] : Table)) es).active h p, SameTarget y x) ↔
      ∃ i, Eligible st strict R.checks R.catalog i ∧ Offers env pf cfg i h p x := by
  obtain ⟨tS, hS⟩ := svcText_loads env pf cfg st strict R.checks R.catalog wf.byName
  rw [end_to_end_operator_on_top env pf cfg st strict pre R kvPre pairs idx es hm tS hS [] (abs tS) hM rfl]
  exact table_iff_healthy env pf cfg st strict R.checks R.catalog wf tS hS hexp h p x

/-- **Second sentence, end to end.** The table loop consumed the text of state `R`; after it, service texts of the
states `Rs` (in any order, interleaved with manual texts) arrive. Every table installed from the consumption of `R`'s
text on is: operator commands applied on top of the service table of one of the states `R :: Rs`, and that service
table has targets only for instances eligible *in that state*. An instance that is unhealthy in `R` and stays so
contributes no target to any of them. -/
theorem end_to_end_unhealthy_absent (s0 : State Table) (before later : List Event) (e : Event)
    (R : RegState) (Rs : List RegState)
    (wf : ∀ R' ∈ R :: Rs, WellFormed cfg R'.checks R'.catalog)
    (hlater : ∀ S', Event.svc S' ∈ later ++ [e] → ∃ R' ∈ Rs, S' = textOf env pf cfg st strict R')
    (t : Table)
    (hinst : (stepOut (loadOpt env pf) (run (loadOpt env pf) s0
      (before ++ [Event.svc (textOf env pf cfg st strict R)] ++ later)) e).2 = some t) :
    ∃ R' ∈ R :: Rs, ∃ tS, loadTable env pf (textOf env pf cfg st strict R') = .ok tS ∧
      (∃ dsM : List RouteDef, dsM.foldlM (specApply env) (abs tS) = .ok (abs t)) ∧
      (∀ h p y, y ∈ abs tS h p → ∃ i, Eligible st strict R'.checks R'.catalog i ∧
        ∃ it ∈ intents cfg (regOf i), ∃ d u, wantDef pf it = some d ∧ env.normURL d.dst = some u ∧
          key d.src = (h, p) ∧ core y = core (newTarget d u)) := by
  apply unhealthy_absent_from_then_on (loadOpt env pf)
    (fun t => ∃ R' ∈ R :: Rs, ∃ tS, loadTable env pf (textOf env pf cfg st strict R') = .ok tS ∧
      (∃ dsM : List RouteDef, dsM.foldlM (specApply env) (abs tS) = .ok (abs t)) ∧
      (∀ h p y, y ∈ abs tS h p → ∃ i, Eligible st strict R'.checks R'.catalog i ∧
        ∃ it ∈ intents cfg (regOf i), ∃ d u, wantDef pf it = some d ∧ env.normURL d.dst = some u ∧
          key d.src = (h, p) ∧ core y = core (newTarget d u)))
    s0 before later e (textOf env pf cfg st strict R) t ?_ hinst
  intro S' hS' M t' hb
  have hR' : ∃ R' ∈ R :: Rs, S' = textOf env pf cfg st strict R' := by
    rcases hS' with rfl | hS'
    · exact ⟨R, by simp, rfl⟩
    · obtain ⟨R', hR', rfl⟩ := hlater S' hS'
      exact ⟨R', List.mem_cons_of_mem _ hR', rfl⟩
  obtain ⟨R', hmem, rfl⟩ := hR'
  have wf' := wf R' hmem
  obtain ⟨tS, hS⟩ := svcText_loads env pf cfg st strict R'.checks R'.catalog wf'.byName
  obtain ⟨dsM, _, hf⟩ := operator_on_top env pf _ M tS t' hS ((loadOpt_some env pf _ t').1 hb)
  exact ⟨R', hmem, tS, hS, ⟨dsM, hf⟩, table_sound env pf cfg st strict R'.checks R'.catalog wf' tS hS⟩

end composed

/-! ### failing catalog lookups: soundness of every table ever installed -/

section faults
open Fabio.Model.C01Compose Fabio.Props.C01Compose
open Fabio.Model.Route (Env RouteDef Table Target)
open Fabio.Model.C05Spec (abs key newTarget specApply Spec)
open Fabio.Model.C14 (Cfg intents expressibleB wantDef)
open Fabio.Model.Parse (parse loadTable ParseFloat)
open Fabio.Lemmas.C14 (core)
variable (env : Env) (pf : ParseFloat) (cfg : Cfg) (st : List Str) (strict : Bool)

/-- the catalog as a round sees it in which the lookups `fails` selects fail: `serviceConfig` returns nil for them -/
def restrict (fails : Str → Bool) (catalog : Str → List Instance) : Str → List Instance :=
  fun n => if fails n then [] else catalog n

/-- a round of `Watch`: the state the health answer describes and the catalog lookups that fail in it -/
abbrev Round := RegState × (Str → Bool)

/-- the text of a round -/
def roundText (r : Round) : Str := joinLines (svcLinesF env pf cfg st strict r.1.checks r.1.catalog r.2)

theorem svcLinesF_eq_restrict (checks : List Check) (catalog : Str → List Instance) (fails : Str → Bool) :
    svcLinesF env pf cfg st strict checks catalog fails =
      svcLines env pf cfg st strict checks (restrict fails catalog) := by
  unfold svcLinesF svcLines watchOnceF watchOnce makeConfigLinesF makeConfigLines
  congr 1
  apply Fabio.Lemmas.C01Sys.flatMap_congr'
  intro name _
  congr 1
  unfold joinedF joined restrict
  by_cases hf : fails name = true
  · simp [hf]
  · simp [hf]

theorem roundText_eq (r : Round) :
    roundText env pf cfg st strict r =
      textOf env pf cfg st strict { checks := r.1.checks, catalog := restrict r.2 r.1.catalog } := by
  unfold roundText textOf svcText
  rw [svcLinesF_eq_restrict]

theorem wf_restrict {checks : List Check} {catalog : Str → List Instance} (wf : WellFormed cfg checks catalog)
    (fails : Str → Bool) : WellFormed cfg checks (restrict fails catalog) where
  byName := by
    intro name i hi
    unfold restrict at hi
    split at hi
    · cases hi
    · exact wf.byName name i hi
  tags := by
    intro c hc name i hi
    unfold restrict at hi
    split at hi
    · cases hi
    · exact wf.tags c hc name i hi

theorem eligible_of_restrict {checks : List Check} {catalog : Str → List Instance} (fails : Str → Bool)
    (i : Instance) (h : Eligible st strict checks (restrict fails catalog) i) : Eligible st strict checks catalog i := by
  obtain ⟨h1, h2, h3, h4⟩ := h
  refine ⟨h1, ?_, h3, h4⟩
  unfold restrict at h2
  split at h2
  · cases h2
  · exact h2

/-- **Soundness of every table ever installed, failing lookups included.** Rounds `obs` of the monitor — each a
registry state and an arbitrary set of catalog lookups that fail in that round — and texts `kvTexts` of the KV
watcher, interleaved in any way. Every table handed to `SetTable` at any point is: commands of the manual text current
then, applied on top of a service table each of whose targets is what a routing tag of an instance asks for that is
`Eligible` — healthy under the configured rule — *in the registry state of one of the observed rounds*. Whatever
fails, no table ever holds a service target that no observed state justifies. (What the stream `c01.pipeline` demands
at every observation point, class `unhealthy-target-after-observation`.) -/
theorem end_to_end_sound_at_every_table (obs : List Round) (kvTexts : List Str)
    (wf : ∀ r ∈ obs, WellFormed cfg r.1.checks r.1.catalog)
    (es : List Event) (e : Event)
    (hm : Merge (es ++ [e]) (svcEvents (watchTexts (roundText env pf cfg st strict) obs)) (manEvents kvTexts))
    (t : Table)
    (hinst : (stepOut (loadOpt env pf) (run (loadOpt env pf) (init ([] : Table)) es) e).2 = some t) :
    ∃ tS, (∃ dsM : List RouteDef, dsM.foldlM (specApply env) (abs tS) = .ok (abs t)) ∧
      ∀ h p y, y ∈ abs tS h p → ∃ r ∈ obs, ∃ i, Eligible st strict r.1.checks r.1.catalog i ∧
        ∃ it ∈ intents cfg (regOf i), ∃ d u, wantDef pf it = some d ∧ env.normURL d.dst = some u ∧
          key d.src = (h, p) ∧ core y = core (newTarget d u) := by
  obtain ⟨S, M, hS, _, hb⟩ :=
    system_installed_from_observed (loadOpt env pf) (roundText env pf cfg st strict) ([] : Table) obs kvTexts es e hm t hinst
  have hb' := (loadOpt_some env pf _ t).1 hb
  rcases hS with rfl | ⟨r, hr, rfl⟩
  · -- the initial empty service text: the text of the empty registry
    have hempty : ([] : Str) = svcText env pf cfg st strict [] (fun _ => []) := by rfl
    have wfE : WellFormed cfg [] (fun _ => ([] : List Instance)) :=
      ⟨fun _ _ h => absurd h List.not_mem_nil, fun _ h => absurd h List.not_mem_nil⟩
    obtain ⟨tS, hload⟩ := svcText_loads env pf cfg st strict [] (fun _ => []) wfE.byName
    rw [← hempty] at hload
    obtain ⟨dsM, _, hf⟩ := operator_on_top env pf _ M tS t hload hb'
    refine ⟨tS, ⟨dsM, hf⟩, ?_⟩
    intro h p y hy
    rw [hempty] at hload
    obtain ⟨i, ⟨_, hcat, _⟩, _⟩ := table_sound env pf cfg st strict [] (fun _ => []) wfE tS hload h p y hy
    cases hcat
  · rw [roundText_eq] at hb'
    have wf' := wf_restrict cfg (wf r hr) r.2
    obtain ⟨tS, hload⟩ := svcText_loads env pf cfg st strict r.1.checks (restrict r.2 r.1.catalog) wf'.byName
    obtain ⟨dsM, _, hf⟩ := operator_on_top env pf _ M tS t hload hb'
    refine ⟨tS, ⟨dsM, hf⟩, ?_⟩
    intro h p y hy
    obtain ⟨i, hel, rest⟩ := table_sound env pf cfg st strict r.1.checks (restrict r.2 r.1.catalog) wf' tS hload h p y hy
    exact ⟨r, hr, i, eligible_of_restrict st strict r.2 i hel, rest⟩

end faults

/-! non-vacuity of the composed statements: the two-node registry of `Props/C01Compose.lean` (`web-1` on `n1`
passing, `web-2` on `n2` critical) as the final state, a state with no checks at all before it -/

section witness
open Fabio.Props.C14 (envW pfW cfgW)
open Fabio.Props.C01Compose (checksW catalogW stW)
open Fabio.Model.C01Compose (loadOpt)
open Fabio.Model.Route (Table)

def stateW : RegState := { checks := checksW, catalog := catalogW }
def stateEmpty : RegState := { checks := [], catalog := fun _ => [] }

example : -- the hypotheses of `end_to_end_operator_on_top` hold for a concrete interleaving, and the table is the expected one
    let es := [Event.svc (textOf envW pfW cfgW stW false stateEmpty), Event.man "".toList,
               Event.svc (textOf envW pfW cfgW stW false stateW),
               Event.man (listKVText true [("fabio/config/a".toList, "route add static /s http://10.9.9.9:80/\n".toList)])]
    isMerge es (svcEvents (watchTexts (textOf envW pfW cfgW stW false) ([stateEmpty] ++ [stateW])))
      (manEvents (watchKVRun {} ([("".toList, 1000)] ++
        [(listKVText true [("fabio/config/a".toList, "route add static /s http://10.9.9.9:80/\n".toList)], 1001)]))) = true ∧
    (run (loadOpt envW pfW) (init ([] : Table)) es).active.map
        (fun kv => (kv.1, kv.2.map (fun r => (r.path, r.targets.map (·.url))))) =
      [("foo.com".toList, [("/".toList, ["http://10.0.0.1:8000/".toList])]),
       ("".toList, [("/s".toList, ["http://10.9.9.9:80/".toList])])] := by decide

example : -- rounds with failing lookups: the failing service contributes nothing, another name changes nothing
    roundText envW pfW cfgW stW false (stateW, fun n => n == "web".toList) = [] ∧
    roundText envW pfW cfgW stW false (stateW, fun n => n == "db".toList) = textOf envW pfW cfgW stW false stateW := by
  decide

end witness

end Fabio.Props.C01Sys
