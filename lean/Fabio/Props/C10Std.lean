import Fabio.Model.C10Std
import Fabio.Lemmas.C10Std
import Fabio.Props.C10
/-!
C10, round 4 — agreement with a standard TLS server **for every byte string**, and the rest of `ServeTCP`.

`Props/C10.lean` states the first sentence of the property over the abstract `Hello` and its RFC encoding. Here
the other side of that sentence ("the name a standard TLS server receives from the same bytes") is a model of its
own (`Model/C10Std.lean`: `frame`, `stdName`, `stdServerName`, `stdRoute`, written over a vector reader in the
style of crypto/tls's parser), and the statements quantify over byte strings: whatever bytes a standard server
accepts as a ClientHello with name `n`, fabio's parser returns `n` for, and the proxy routes by `n`.
Nothing is bounded; the helper lemmas are in `Lemmas/C10Std.lean` (core Lean).
-/
namespace Fabio.Props.C10Std
open Fabio Fabio.Model.C10

/-! ### fabio's parser is the vector reader followed by a lenient reading of the parts -/

/-- For every byte string that `frame` can take apart (all length-prefixed vectors nest exactly), fabio's
`unmarshal` is `fabioView` of the parts: same name, or the same rejection. -/
theorem unmarshal_factors (b : Bytes) (rh : RawHello) (h : frame b = some rh) : unmarshal b = fabioView rh :=
  Lemmas.C10.unmarshal_frame_some b rh h

/-
"It is rejected instead", read as "whatever a standard TLS server refuses, fabio refuses", is FALSE for the code
(`malformed_accepted_exception_*` below): inside a `server_name` extension fabio stops at the first `host_name`
and does not look at the rest of the list, it does not refuse duplicate extensions, empty names or a trailing dot.

theorem malformed_rejected_full (b : Bytes) (h : stdServerName 255 b = none) :
    readServerName b = .ok ([], false)
-/

/-- Malformed *framing* is rejected: a byte string whose vectors do not nest exactly (truncated anywhere but
behind the compression methods, a length that runs past its container, trailing bytes, an odd cipher-suite
vector, a dangling extension header, …) is refused by `readServerName` — whatever precedes the damage, in
particular a complete `server_name` extension. The hypothesis is the one the code forces: the damage must
concern the framing, not the inside of an extension body. -/
theorem malformed_rejected_partial (b : Bytes) (h : frame b = none) : readServerName b = .ok ([], false) := by
  have := Lemmas.C10.unmarshal_frame_none b h
  unfold readServerName
  cases hu : unmarshal b with
  | ok nm => rw [hu] at this; cases this
  | reject s => rfl
  | panic w => rw [hu] at this; cases this

/-- The same as a statement about what is accepted: every byte string fabio accepts is an exactly framed
ClientHello with a session id of at most 32 bytes, and the name is the lenient reading of its extensions. -/
theorem accepted_is_framed (b name : Bytes) (h : readServerName b = .ok (name, true)) :
    ∃ rh, frame b = some rh ∧ rh.sessionId.length ≤ 32 ∧ viewExts rh.extensions = .ok name := by
  unfold readServerName at h
  cases hu : unmarshal b with
  | reject s => rw [hu] at h; cases h
  | panic w => rw [hu] at h; cases h
  | ok nm =>
    rw [hu] at h
    simp only [Outcome.ok.injEq, Prod.mk.injEq, and_true] at h
    subst h
    cases hf : frame b with
    | none =>
      have := Lemmas.C10.unmarshal_frame_none b hf
      rw [hu] at this; cases this
    | some rh =>
      have hv := Lemmas.C10.unmarshal_frame_some b rh hf
      rw [hu] at hv
      unfold fabioView at hv
      split at hv
      · cases hv
      · rename_i hs
        simp only [maxSidLen] at hs
        exact ⟨rh, rfl, by omega, hv.symm⟩

/-- `frame` loses nothing: the parts it returns, written out again with their length prefixes
(`Lemmas.C10.reassemble`: fixed part, 8-bit session-id vector, 16-bit cipher-suite vector, 8-bit compression
vector, optional 16-bit extension block of `type, 16-bit body` entries), are the message, byte for byte. So
"exactly framed" means what it says, and with `accepted_is_framed`: every byte string fabio accepts *is* such a
concatenation. -/
theorem framed_is_reassembled (b : Bytes) (rh : RawHello) (h : frame b = some rh) :
    Lemmas.C10.reassemble rh = b :=
  Lemmas.C10.frame_reassemble b rh h

theorem accepted_is_reassembled (b name : Bytes) (h : readServerName b = .ok (name, true)) :
    ∃ rh, Lemmas.C10.reassemble rh = b ∧ rh.sessionId.length ≤ 32 ∧ viewExts rh.extensions = .ok name := by
  obtain ⟨rh, hf, hs, hv⟩ := accepted_is_framed b name h
  exact ⟨rh, framed_is_reassembled b rh hf, hs, hv⟩

/-! ### Whatever a standard TLS server accepts, fabio reads the same name from -/

/-- For **every byte string**: if the strict reader (RFC 5246/6066/8446: exact framing, session id ≤ 32,
extension types pairwise distinct, `server_name` with a non-empty list of non-empty names, at most one
`host_name`, no trailing dot) accepts it with server name `name` — `""` when there is no `server_name`
extension or no extension block —, then `readServerName` returns `(name, true)`. -/
theorem std_accepts_agree (b name : Bytes) (h : stdServerName 32 b = some name) :
    readServerName b = .ok (name, true) := by
  unfold stdServerName at h
  cases hf : frame b with
  | none => rw [hf] at h; cases h
  | some rh =>
    rw [hf] at h
    have := Lemmas.C10.std_agree_of_sid 32 b name rh hf h (Lemmas.C10.stdName_sid _ _ _ h)
    unfold readServerName
    rw [this]

/-- crypto/tls's own reading (`maxSid = 255`: its `unmarshal` does not bound the session id): for every byte
string it accepts with name `name`, fabio returns the same name — or the session id is longer than 32 bytes and
fabio rejects. That is the only disagreement on input the TLS stack accepts (the false alarm of round 1, now a
theorem); such a hello is not well-formed (RFC 5246 §7.4.1.2 `SessionID<0..32>`). -/
theorem tls_accepts_agree (b name : Bytes) (h : stdServerName 255 b = some name) :
    readServerName b = .ok (name, true) ∨
      (∃ rh, frame b = some rh ∧ 32 < rh.sessionId.length ∧ readServerName b = .ok ([], false)) := by
  unfold stdServerName at h
  cases hf : frame b with
  | none => rw [hf] at h; cases h
  | some rh =>
    rw [hf] at h
    by_cases hs : rh.sessionId.length ≤ 32
    · left
      have := Lemmas.C10.std_agree_of_sid 255 b name rh hf h hs
      unfold readServerName
      rw [this]
    · right
      refine ⟨rh, rfl, by omega, ?_⟩
      have hv := Lemmas.C10.unmarshal_frame_some b rh hf
      unfold fabioView at hv
      rw [if_pos (by simp only [maxSidLen]; omega)] at hv
      unfold readServerName
      rw [hv]

/-- At the proxy, for **every byte stream**: if a standard server accepts the client's first flight (one
handshake record of 1..16384 bytes, fully present, holding a complete ClientHello the strict reader accepts)
with server name `name`, the start of `ServeTCP` arrives at exactly that name. -/
theorem std_route_agree (s name : Bytes) (h : stdRoute s = some name) : sniRoute s = .ok name :=
  Lemmas.C10.sniRoute_std s name h

/-- The same with crypto/tls's reading of the message (`stdServerName 255`: no bound on the session id, the
bodies of the other extensions opaque): if the first record holds a complete message which that reading accepts
with name `name`, and the session id has at most the 32 bytes RFC 5246 allows, `ServeTCP` arrives at `name`. -/
theorem tls_route_agree (s msg name : Bytes) (rh : RawHello) (hm : firstMessage maxRecordLen s = some msg)
    (hf : frame msg = some rh) (h : stdServerName 255 msg = some name) (hsid : rh.sessionId.length ≤ 32) :
    sniRoute s = .ok name := by
  unfold stdServerName at h
  rw [hf] at h
  exact Lemmas.C10.sniRoute_of_message 255 s msg name rh hm hf h hsid

/-- The strict reader is not vacuous: it accepts the encoding of **every** well-formed hello (extension lists
of any length and sizes), with the hello's server name. Together with `std_accepts_agree` this is a second,
independent route to `Props.C10.parse_encode`. -/
theorem std_encode (h : Hello) (hw : WellFormed h) : stdServerName 32 (encode h) = some (sniOf h) := by
  obtain ⟨rh, hf, hsid, hext⟩ := Lemmas.C10.frame_encode h hw
  unfold stdServerName
  rw [hf]
  exact Lemmas.C10.stdName_encode h hw rh hsid hext

/-- … and a standard server in front of the client's first flight reads that name. -/
theorem std_route_record (vMaj vMin : UInt8) (h : Hello) (hw : WellFormed h) (hf : FitsRecord h) (rest : Bytes) :
    stdRoute (record vMaj vMin h ++ rest) = some (sniOf h) := by
  unfold stdRoute
  rw [Lemmas.C10.firstMessage_record vMaj vMin h hf rest]
  exact std_encode h hw

/-- **Truncated input: fabio and a standard server agree at every cut.** For a well-formed hello and every strict
prefix of its encoding, either both refuse it, or the cut is the one behind the compression methods and both read
it as a complete hello without extensions (name `""`) — the exception of `Props.C10.truncation_exception` is not
a disagreement with the TLS stack. -/
theorem truncation_agreement (h : Hello) (hw : WellFormed h) (k : Nat) (hk : k < (encode h).length) :
    (stdServerName 32 ((encode h).take k) = none ∧ readServerName ((encode h).take k) = .ok ([], false)) ∨
    (k = cutAfterCompression h ∧ stdServerName 32 ((encode h).take k) = some [] ∧
      readServerName ((encode h).take k) = .ok ([], true)) := by
  by_cases hne : k = cutAfterCompression h
  · right
    subst hne
    cases he : h.extensions with
    | none =>
      -- without an extension block the cut is the whole message: not a strict prefix
      exfalso
      rw [Lemmas.C10.cut_eq, Lemmas.C10.encode_split, he] at hk
      simp only [List.length_append, encExtBlock, List.length_nil] at hk
      omega
    | some es =>
      exact ⟨rfl, Lemmas.C10.std_cut h hw, (Props.C10.truncation_exception h hw es he).2⟩
  · left
    have hr := Props.C10.truncation_rejected_partial h hw k hk hne
    refine ⟨?_, hr⟩
    cases hs : stdServerName 32 ((encode h).take k) with
    | none => rfl
    | some n =>
      have := std_accepts_agree _ _ hs
      rw [hr] at this
      cases this

/-! ### `ServeTCP` up to the dial: what is looked up and what is replayed -/

/-- `ServeTCP` never reaches a panic point before it dials, whatever the client sends. -/
theorem serve_no_panic (s : Bytes) (w : String) : serveTCP s ≠ .panic w := by
  rw [Lemmas.C10.serveTCP_eq]
  have := Props.C10.sniRoute_no_panic s
  cases hr : sniRoute s with
  | panic e => rw [hr] at this; cases this
  | reject e => simp
  | ok host => simp only; split <;> simp

/-- A standard server's non-empty name is the argument of `Lookup`; the bytes replayed to the upstream are the
first `bufSizeOf s` bytes of the stream, the rest stays in the reader. -/
theorem serve_std (s name : Bytes) (h : stdRoute s = some name) (hne : name ≠ []) :
    serveTCP s = .lookup name (s.take (bufSizeOf s)) (s.drop (bufSizeOf s)) := by
  rw [Lemmas.C10.serveTCP_eq, Lemmas.C10.sniRoute_std s name h]
  have : ¬ name.length = 0 := fun h0 => hne (List.eq_nil_of_length_eq_zero h0)
  simp only [if_neg this]

/-- "Empty when the extension is absent" at the proxy: a hello a standard server reads no name from is never
looked up (`server_name missing`). -/
theorem serve_std_no_name (s : Bytes) (h : stdRoute s = some []) : serveTCP s = .drop "server-name-missing" := by
  rw [Lemmas.C10.serveTCP_eq, Lemmas.C10.sniRoute_std s [] h]
  rfl

/-- Whenever `Lookup` is called: the host is non-empty and is `unmarshal` of the replayed bytes without the
record header; the replayed bytes and the rest are the stream, cut at the size computed from the first 9 bytes
(nothing lost, nothing duplicated, nothing beyond the first record buffered). -/
theorem serve_lookup_exact (s host hello rest : Bytes) (h : serveTCP s = .lookup host hello rest) :
    host ≠ [] ∧ hello ++ rest = s ∧ clientHelloBufferSize (s.take 9) = .ok hello.length ∧
      unmarshal (hello.drop 5) = .ok host := by
  rw [Lemmas.C10.serveTCP_eq] at h
  cases hr : sniRoute s with
  | panic e => rw [hr] at h; cases h
  | reject e => rw [hr] at h; cases h
  | ok nm =>
    rw [hr] at h
    simp only at h
    split at h
    · cases h
    rename_i hne
    simp only [Decision.lookup.injEq] at h
    obtain ⟨h1, h2, h3⟩ := h
    subst h1 h2 h3
    obtain ⟨n, hb, _, hn, _, hu⟩ := Props.C10.sni_reads_exact s nm hr
    have hbs : bufSizeOf s = n := by unfold bufSizeOf; simp only [peekLen]; rw [hb]
    rw [hbs]
    refine ⟨fun h0 => hne (by rw [h0]; rfl), List.take_append_drop n s, ?_, hu⟩
    rw [hb, List.length_take, Nat.min_eq_left hn]

/-- A connection that ends before the announced record is complete is dropped without a lookup. -/
theorem serve_truncated (vMaj vMin : UInt8) (h : Hello) (hf : FitsRecord h) (k : Nat)
    (hk : k < (record vMaj vMin h).length) : ∃ site, serveTCP ((record vMaj vMin h).take k) = .drop site := by
  rw [Lemmas.C10.serveTCP_eq]
  have := Props.C10.truncation_rejected vMaj vMin h hf k hk
  cases hr : sniRoute ((record vMaj vMin h).take k) with
  | panic e => rw [hr] at this; cases this
  | ok nm => rw [hr] at this; cases this
  | reject e => exact ⟨e, rfl⟩

/-- **The first two sentences of the property, end to end.** A client sends one record carrying a well-formed
ClientHello that fits it, followed by anything. Then: a standard TLS server reads the server name `sniOf h` from
those bytes; `ServeTCP` arrives at the same name; and if the name is non-empty it calls `Lookup` with it having
buffered exactly the first record — the record is what it replays to the upstream, everything behind it is still
in the reader. (With an empty name, i.e. no `server_name` extension, it drops the connection: `serve_std_no_name`.) -/
theorem wellformed_end_to_end (vMaj vMin : UInt8) (h : Hello) (hw : WellFormed h) (hf : FitsRecord h) (rest : Bytes) :
    stdRoute (record vMaj vMin h ++ rest) = some (sniOf h) ∧
    sniRoute (record vMaj vMin h ++ rest) = .ok (sniOf h) ∧
    (sniOf h ≠ [] → serveTCP (record vMaj vMin h ++ rest) = .lookup (sniOf h) (record vMaj vMin h) rest) := by
  have hs := std_route_record vMaj vMin h hw hf rest
  refine ⟨hs, std_route_agree _ _ hs, fun hne => ?_⟩
  rw [serve_std _ _ hs hne]
  have hb : bufSizeOf (record vMaj vMin h ++ rest) = (record vMaj vMin h).length := by
    unfold bufSizeOf
    simp only [peekLen]
    rw [Props.C10.bufsize_exact vMaj vMin h hf rest]
  rw [hb, List.take_left' rfl, List.drop_left' rfl]

/-! ### Non-vacuity and the exceptions, on concrete bytes -/

open Fabio.Props.C10 (exHello exName)

/-- the strict reader accepts the example hello of `Props/C10.lean` (five extensions, an unknown name type in
front of the host name) with its name: the hypothesis of `std_accepts_agree` is satisfiable -/
example : stdServerName 32 (encode exHello) = some exName := by decide +kernel
example : readServerName (encode exHello) = .ok (exName, true) :=
  std_accepts_agree _ _ (by decide +kernel)
example : stdRoute (record 3 1 exHello ++ [0x14, 3, 3, 0, 1, 1]) = some exName := by decide +kernel
example : serveTCP (record 3 1 exHello ++ [0x14, 3, 3, 0, 1, 1]) =
    .lookup exName (record 3 1 exHello) [0x14, 3, 3, 0, 1, 1] := by decide +kernel
example : stdServerName 32 (encode exHello) = some exName := std_encode exHello (by decide +kernel)
example : serveTCP (record 3 1 exHello ++ [0x14, 3, 3, 0, 1, 1]) =
    .lookup exName (record 3 1 exHello) [0x14, 3, 3, 0, 1, 1] :=
  (wellformed_end_to_end 3 1 exHello (by decide +kernel) (by decide +kernel) _).2.2 (by decide)
example : stdServerName 32 (encode { exHello with extensions := none }) = some [] := by decide +kernel
example : serveTCP (record 3 1 { exHello with extensions := none }) = .drop "server-name-missing" :=
  serve_std_no_name _ (by decide +kernel)

/-- a 33-byte session id: crypto/tls's reading accepts, the strict reader and fabio refuse
(the second alternative of `tls_accepts_agree`) -/
def exLongSid : Hello := { exHello with sessionId := List.replicate 33 1 }
example : stdServerName 255 (encode exLongSid) = some exName ∧ stdServerName 32 (encode exLongSid) = none ∧
    readServerName (encode exLongSid) = .ok ([], false) := by decide +kernel

/-- damaged framing behind a complete `server_name` extension (the last extension announces one byte more than
there is): refused, `malformed_rejected_partial` applies -/
def exOverrun : Bytes := (encode exHello).set 168 11
example : frame exOverrun = none ∧ readServerName exOverrun = .ok ([], false) := by decide +kernel
example : readServerName exOverrun = .ok ([], false) := malformed_rejected_partial _ (by decide +kernel)

/-- Exception 1 (negation of `malformed_rejected_full`): two bytes of garbage behind the `host_name` entry,
inside the ServerNameList, all outer lengths consistent. A standard server refuses; fabio answers the name. -/
def exGarbageInList : Hello :=
  { exHello with extensions := some [.other 10 [0, 2, 0, 29],
      .other 0 ([0, 16, 0, 0, 11] ++ exName ++ [0xde, 0xad]), .other 21 [0, 0]] }
theorem malformed_accepted_exception_list :
    stdServerName 255 (encode exGarbageInList) = none ∧
    readServerName (encode exGarbageInList) = .ok (exName, true) := by decide +kernel

/-- Exception 2: two `server_name` extensions — a standard server refuses the duplicate, fabio answers the
second name. -/
def exDupSni : Hello :=
  { exHello with extensions := some [.serverName [(0, exName)], .other 10 [0, 2, 0, 29], .serverName [(0, [0x62])]] }
theorem malformed_accepted_exception_dup :
    stdServerName 255 (encode exDupSni) = none ∧ readServerName (encode exDupSni) = .ok ([0x62], true) := by
  decide +kernel

/-- Exception 3: a host name with a trailing dot (RFC 6066 §3 forbids it, crypto/tls refuses the hello). -/
def exTrailingDot : Hello := { exHello with extensions := some [.serverName [(0, exName ++ [0x2e])]] }
theorem malformed_accepted_exception_dot :
    stdServerName 255 (encode exTrailingDot) = none ∧
    readServerName (encode exTrailingDot) = .ok (exName ++ [0x2e], true) := by decide +kernel

/-- Exception 4: an empty host name. fabio accepts it as "no name"; the proxy then drops the connection
(`server_name missing`), so nothing is routed. -/
def exEmptyName : Hello := { exHello with extensions := some [.serverName [(0, [])]] }
theorem malformed_accepted_exception_empty :
    stdServerName 255 (encode exEmptyName) = none ∧ readServerName (encode exEmptyName) = .ok ([], true) ∧
    serveTCP (record 3 1 exEmptyName) = .drop "server-name-missing" := by decide +kernel

end Fabio.Props.C10Std
