import Fabio.Generated.C20
import Fabio.Model.C20Spec
import Fabio.Model.C20Log
/-!
Obligations over the facts regenerated from `/repo` on every run (`tools/factgen/c20.go`): the tables and
constants the model of the access logger depends on, and the call shapes behind "UTC", "never nil",
"read only". Core only, `decide`/`rfl`.
-/
namespace Fabio.Props.C20Facts
open Fabio Fabio.Model.C20
set_option maxRecDepth 8000

/-- The `fields` map of logger/pattern.go has exactly the names of the model's table. -/
theorem field_table_pinned :
    Generated.C20.fieldNames.all (fieldNames.contains ·) = true ∧
    fieldNames.all (Generated.C20.fieldNames.contains ·) = true ∧
    Generated.C20.fieldNames.length = fieldNames.length := by decide

/-- The package comment of logger/logger.go lists `$header.<name>` and the fields of the specification. -/
theorem documented_fields_pinned :
    Generated.C20.docFields = "$header.<name>" :: Spec.documentedFields := by decide

/-- Every documented field exists; the only undocumented one is `$upstream_service`. -/
theorem documented_fields_known :
    Spec.documentedFields.all (Generated.C20.fieldNames.contains ·) = true ∧
    Generated.C20.fieldNames.filter (fun n => !Spec.documentedFields.contains n) = ["$upstream_service"] := by decide

/-- Both predefined formats parse (in the model) into known fields only. -/
theorem common_format_parses :
    (match parse Generated.C20.CommonFormat.toList with | .ok (.ok p) => p.length | _ => 0) = 9 := by decide
theorem combined_format_parses :
    (match parse Generated.C20.CombinedFormat.toList with | .ok (.ok p) => p.length | _ => 0) = 14 := by decide

theorem month_names_pinned : Generated.C20.shortMonthNames.map String.toList = shortMonthNames := by decide

/-- `atoi`: 128-byte scratch array; every pad argument in the package leaves room for digits and sign. -/
theorem atoi_buffer_pinned : Generated.C20.atoiBufLen = 128 := by decide
theorem atoi_pads_pinned : Generated.C20.atoiPads = [0, 2, 3, 4, 6, 9] ∧ Generated.C20.atoiPads.all (· ≤ 127) = true := by decide

theorem i32toa_buffer_pinned : Generated.C20.i32toaBufLen = 11 := by decide

theorem digit16_pinned : Generated.C20.digit16 = "0123456789abcdef" ∧ Generated.C20.digit16.toList = digit16 := by decide

/-- `uint16base16`: "0x0000" with digit k taken from `(n & mask) >> shift`, as in the model. -/
theorem uint16_digits_pinned :
    Generated.C20.uint16Template = "0x0000" ∧
    Generated.C20.uint16Digits = [(2, 0xf000, 12), (3, 0x0f00, 8), (4, 0x00f0, 4), (5, 0x000f, 0)] := by decide

/-- `uuid.ToString`: position table, dash positions, hex table and buffer size are the model's. -/
theorem uuid_tables_pinned :
    Generated.C20.uuidIdx = uuidIdx ∧ Generated.C20.uuidDashes = uuidDashes ∧
    Generated.C20.halfbyte2hexchar.map Char.ofNat = halfbyte2hexchar ∧ Generated.C20.uuidBufLen = 36 := by decide

/-- D25: every calendar accessor (Year … Nanosecond) in the five wall-clock renderers is applied to
`e.End.UTC()`; no other field touches the calendar; `End` is otherwise used through `Sub` and `UnixNano`
only (location independent). -/
theorem time_fields_use_utc :
    Generated.C20.calendarAccessorsNotOnUTC = [] ∧
    Generated.C20.timeFieldAccessorCalls =
      [("$time_common", 6), ("$time_rfc3339", 6), ("$time_rfc3339_ms", 7), ("$time_rfc3339_ns", 7), ("$time_rfc3339_us", 7)] ∧
    Generated.C20.methodsCalledOnEnd = ["Sub", "UTC", "UnixNano"] := by
  decide

/-- The field functions never assign through the event (logging cannot alter request or response). -/
theorem renderers_read_only : Generated.C20.rendererWritesToEvent = [] := by decide

/-- `pattern.write`: one newline call, skipped when the buffer is empty (the model's `write`; D26). -/
theorem write_shape_pinned :
    Generated.C20.writeReturnsEarlyOnEmptyBuffer = true ∧ Generated.C20.writeNewlineCalls = 1 := by decide

/-- The only call site builds the event with a non-nil `Response` literal, `UpstreamAddr = targetURL.Host`
(which has no port for a route to `http://backend/`), and the request it served. -/
theorem call_site_pinned :
    Generated.C20.eventSite.lookup "Response" = some "&http.Response{…}" ∧
    Generated.C20.eventSite.lookup "UpstreamAddr" = some "targetURL.Host" ∧
    Generated.C20.eventSite.lookup "Request" = some "r" ∧
    Generated.C20.eventSite.lookup "End" = some "end" ∧
    Generated.C20.eventSite.lookup "Start" = some "start" := by decide

/-- which micro-step of the `Log` model a call in `Log` stands for -/
def opOfCall : String → Option Model.C20Log.Op
  | "pool.Get" => some .get
  | "l.p.write" => some .render
  | "l.mu.Lock" => some .lock
  | "l.w.Write" => some .write
  | "l.mu.Unlock" => some .unlock
  | "pool.Put" => some .put
  | _ => none

/-- `Log` performs get, render, lock, write, unlock, put in exactly the order of the model's `goodProg`
(in particular `pool.Put` comes after `l.w.Write`), the bytes handed to the writer are taken from the
buffer inside the `Write` call itself (`b.Bytes()` under the mutex, no alias taken earlier), nothing is
deferred or spawned; the logger's own state is the pattern, the mutex and the writer, the buffers live in
a package-level `sync.Pool`. -/
theorem log_call_order_pinned :
    Generated.C20.logCalls.filterMap opOfCall = Model.C20Log.goodProg ∧
    Generated.C20.logCalls = ["pool.Get", "b.Reset", "l.p.write", "l.mu.Lock", "l.w.Write", "b.Bytes", "l.mu.Unlock", "pool.Put"] ∧
    Generated.C20.logWriteArg = "b.Bytes()" ∧ Generated.C20.logUsesDeferOrGo = false ∧
    Generated.C20.loggerStructFields = ["p pattern", "mu sync.Mutex", "w io.Writer"] ∧
    Generated.C20.poolType = "sync.Pool" := by decide

end Fabio.Props.C20Facts
