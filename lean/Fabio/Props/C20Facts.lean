import Fabio.Generated.C20
import Fabio.Model.C20Spec
import Fabio.Model.C20Log
/-!
Obligations over the facts regenerated from `/repo` on every run (`tools/factgen/c20.go`): the tables and
constants the model of the access logger depends on, and the call shapes behind "UTC", "never nil",
"read only". Core only, `decide`/`rfl`.
-/
namespace Fabio.Props.C20Facts
open Fabio Fabio.Model.C20
set_option maxRecDepth 8000

/-- The `fields` map of logger/pattern.go has exactly the names of the model's table. -/
theorem field_table_pinned :
    Generated.C20.fieldNames.all (fieldNames.contains ·) = true ∧
    fieldNames.all (Generated.C20.fieldNames.contains ·) = true ∧
    Generated.C20.fieldNames.length = fieldNames.length := by decide

/-- The package comment of logger/logger.go lists `$header.<name>` and the fields of the specification. -/
theorem documented_fields_pinned :
    Generated.C20.docFields = "$header.<name>" :: Spec.documentedFields := by decide

/-- Every documented field exists; the only undocumented one is `$upstream_service`. -/
theorem documented_fields_known :
    Spec.documentedFields.all (Generated.C20.fieldNames.contains ·) = true ∧
    Generated.C20.fieldNames.filter (fun n => !Spec.documentedFields.contains n) = ["$upstream_service"] := by decide

/-- Both predefined formats parse (in the model) into known fields only. -/
theorem common_format_parses :
    (match parse Generated.C20.CommonFormat.toList with | .ok (.ok p) => p.length | _ => 0) = 9 := by decide
theorem combined_format_parses :
    (match parse Generated.C20.CombinedFormat.toList with | .ok (.ok p) => p.length | _ => 0) = 14 := by decide

theorem month_names_pinned : Generated.C20.shortMonthNames.map String.toList = shortMonthNames := by decide

/-- `atoi`: 128-byte scratch array; every pad argument in the package leaves room for digits and sign. -/
theorem atoi_buffer_pinned : Generated.C20.atoiBufLen = 128 := by decide
theorem atoi_pads_pinned : Generated.C20.atoiPads = [0, 2, 3, 4, 6, 9] ∧ Generated.C20.atoiPads.all (· ≤ 127) = true := by decide

theorem i32toa_buffer_pinned : Generated.C20.i32toaBufLen = 11 := by decide

theorem digit16_pinned : Generated.C20.digit16 = "0123456789abcdef" ∧ Generated.C20.digit16.toList = digit16 := by decide

/-- `uint16base16`: template "0x0000", the digit at position 2..5 shows the 4-bit group 3..0 of `n` (most
significant first), whichever of the equivalent mask/shift spellings the source uses. -/
theorem uint16_digits_pinned :
    Generated.C20.uint16Template = "0x0000" ∧
    Generated.C20.uint16Nibbles = [(2, 3), (3, 2), (4, 1), (5, 0)] := by decide

/-- `uuid.ToString`: position table, dash positions, hex table and buffer size are the model's. -/
theorem uuid_tables_pinned :
    Generated.C20.uuidIdx = uuidIdx ∧ Generated.C20.uuidDashes = uuidDashes ∧
    Generated.C20.halfbyte2hexchar.map Char.ofNat = halfbyte2hexchar ∧ Generated.C20.uuidBufLen = 36 := by decide

/-- D25: every location-dependent `time.Time` method (Year … Nanosecond, Date, Clock, Format, …) reached from
the five wall-clock renderers — through helpers as well — is applied to a value that is `End.UTC()`; each of
the five reaches at least one; no other field touches the calendar; `End` itself is otherwise only used
through location-independent methods. -/
theorem time_fields_use_utc :
    Generated.C20.calendarAccessorsNotOnUTC = [] ∧
    Generated.C20.timeFieldAccessorCalls.map (·.1) =
      ["$time_common", "$time_rfc3339", "$time_rfc3339_ms", "$time_rfc3339_ns", "$time_rfc3339_us"] ∧
    Generated.C20.timeFieldAccessorCalls.all (fun p => decide (1 ≤ p.2)) = true ∧
    Generated.C20.methodsCalledOnEnd.all
      (["Sub", "UTC", "UnixNano", "Unix", "UnixMilli", "UnixMicro", "Equal", "Before", "After", "IsZero"].contains ·) = true := by
  decide

/-- The field functions never assign through the event (logging cannot alter request or response). -/
theorem renderers_read_only : Generated.C20.rendererWritesToEvent = [] := by decide

/-- `pattern.write`: one newline call, skipped when the buffer is empty (the model's `write`; D26). -/
theorem write_shape_pinned :
    Generated.C20.writeReturnsEarlyOnEmptyBuffer = true ∧ Generated.C20.writeNewlineCalls = 1 := by decide

/-- The only call site builds the event with a non-nil `Response` literal, `UpstreamAddr` = the `Host` of the
very URL passed as `UpstreamURL` (no port for a route to `http://backend/`), and the request parameter of
the handler. -/
theorem call_site_pinned :
    Generated.C20.eventSiteResponseIsLiteral = true ∧
    Generated.C20.eventSiteUpstreamAddrIsHostOfUpstreamURL = true ∧
    Generated.C20.eventSiteRequestIsHandlerParam = true ∧
    ["End", "Request", "Response", "Start", "UpstreamAddr"].all (Generated.C20.eventSiteKeys.contains ·) = true := by decide

/-- which micro-step of the `Log` model an event of `Log` stands for (events are named by method / callee,
`Pool.*` = on a package-level `sync.Pool`; helpers are followed) -/
def opOfCall : String → Option Model.C20Log.Op
  | "Pool.Get" => some .get
  | "render" => some .render
  | "Lock" => some .lock
  | "Write" => some .write
  | "Unlock" => some .unlock
  | "Pool.Put" => some .put
  | _ => none

/-- `Log` performs get, render, lock, write, unlock, put in exactly the order of the model's `goodProg`
(in particular `Pool.Put` comes after `Write`), the buffer is reset, the bytes handed to the writer are taken
from the buffer inside the `Write` call itself (no alias taken earlier), nothing is deferred or spawned; the
logger's own state is three fields, among them one mutex and one writer; the buffers live in one
package-level `sync.Pool`. -/
theorem log_call_order_pinned :
    Generated.C20.logCalls.filterMap opOfCall = Model.C20Log.goodProg ∧
    Generated.C20.logCalls.contains "Reset" = true ∧
    Generated.C20.logWriteArg = "Bytes() of a buffer, evaluated in the call" ∧ Generated.C20.logUsesDeferOrGo = false ∧
    Generated.C20.loggerStdFieldTypes = ["io.Writer", "sync.Mutex"] ∧ Generated.C20.loggerFieldCount = 3 ∧
    Generated.C20.syncPoolVars = 1 := by decide

end Fabio.Props.C20Facts
