import Fabio.Generated.C20
import Fabio.Model.C20
/-! Obligations over the facts regenerated from `/repo` on every run. -/
namespace Fabio.Props.C20Facts
open Fabio

/-- The access-log field table is the documented one. -/
theorem field_table_pinned : Generated.C20.fieldNames.length = 31 := by decide

end Fabio.Props.C20Facts
