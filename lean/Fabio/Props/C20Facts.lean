import Fabio.Generated.C20
import Fabio.Model.C20Spec
import Fabio.Model.C20Log
/-!
OBLIGATIONS over the facts regenerated from `/repo` on every run (`tools/factgen/c20.go`): statements the proof
chain needs and that no correspondence stream can establish by running the code. Each names the breaking
change it is there to exclude and is stated over the weakest syntactic observation that still excludes it.
Pins of sequential code that the streams compare with the model on every run live in `C20Pins.lean`
(change detectors). Core only, `decide`.
-/
namespace Fabio.Props.C20Facts
open Fabio Fabio.Model.C20
set_option maxRecDepth 8000

/-- The domain of the property ("every format string over the documented fields") is read from the package
comment of logger/logger.go: it lists `$header.<name>` and exactly the fields the specification renders.
Excludes: a field documented (and implemented) that the model, the specification and therefore every
generator does not know. No stream reads comments. -/
theorem documented_fields_pinned :
    Generated.C20.docFields = "$header.<name>" :: Spec.documentedFields := by decide

/-- … and every documented field exists in the table (the only undocumented one is `$upstream_service`).
Excludes: a documented field removed from / never added to the `fields` map (a valid documented format would
be refused at start-up). -/
theorem documented_fields_known :
    Spec.documentedFields.all (Generated.C20.fieldNames.contains ·) = true ∧
    Generated.C20.fieldNames.filter (fun n => !Spec.documentedFields.contains n) = ["$upstream_service"] := by decide

/-- "Logging never alters the request or the response": no field function (helpers followed) assigns through
the event or calls a mutating method (`Set`, `Add`, `Del`, `Read`, `Close`, …) on a value reached through it.
Excludes: e.g. `e.Request.Header.Del("Authorization")` before rendering, or draining `e.Request.Body` —
the render stream compares only the request fields it generated. -/
theorem renderers_read_only : Generated.C20.rendererWritesToEvent = [] := by decide

/-- which micro-step of the `Log` model an event of `Log` stands for (events are named by method / callee,
`Pool.*` = on a package-level `sync.Pool`; helpers are followed) -/
def opOfCall : String → Option Model.C20Log.Op
  | "Pool.Get" => some .get
  | "render" => some .render
  | "Lock" => some .lock
  | "Write" => some .write
  | "Unlock" => some .unlock
  | "Pool.Put" => some .put
  | _ => none

/-- `Log` performs get, render, lock, write, unlock, put in the order of the model's `goodProg` — in particular
`Pool.Put` comes after `Write` — the bytes handed to the writer are the result of `Bytes()` of the buffer, taken in the
`Write` call itself or earlier with nothing in between that could change or give away the buffer (no `Reset`,
render, `Pool.Put`, `Pool.Get` between the `Bytes()` and the `Write`; events in evaluation order, unexported helpers
and methods followed with their parameters bound to the arguments), nothing is deferred or spawned. This is the hypothesis of
`log_lines_intact_any_schedule`.
Excludes: handing the pooled buffer back before the line is written (seeded change m4), writing outside the
mutex, an asynchronous write: orders under concurrency that a stream can only hit by luck. -/
theorem log_call_order_pinned :
    Generated.C20.logCalls.filterMap opOfCall = Model.C20Log.goodProg ∧
    Generated.C20.logWriteArg = "Bytes() of a buffer, untouched until the Write" ∧
    Generated.C20.logUsesDeferOrGo = false := by decide

/-- The hand-written formatters (`atoi`, `hostport`, `lex`, `i32toa`, `uint16base16`, `uuid.ToString`) assign to
nothing but their own locals: no package-level variable and no local that merely aliases a package-level
slice or map (helpers followed). They run on many request goroutines at once; the theorems about them are
about one call.
Excludes: a shared scratch buffer or template (seeded change m8: `b := template` with a package-level
`[]byte`), which is correct for every single call and wrong only under an interleaving. -/
theorem formatters_write_only_locals : Generated.C20.formatterSharedWrites = [] := by decide

/-- `main.go` (no harness runs it): the function that builds the `proxy.HTTPProxy` literal passes the result of
`logger.New(w, format)` as `Logger`, `format` being the configured access format with the two names `common` /
`combined` replaced by the constants of the same name; it sets neither `UUID` nor `Time`, so the request id
on the request path is `uuid.NewUUID` (`ToString` of the generator's value: `uuid_text_injective`,
`uuid_format`) and `End` is `time.Now()`.
Excludes: the two aliases swapped or pointing at another format, a logger other than the verified one (or one
built from another format string) put into the proxy, a home-made id function in place of the UUID formatter. -/
theorem main_wiring :
    Generated.C20.mainFormatAliases = ["combined=CombinedFormat", "common=CommonFormat"] ∧
    Generated.C20.mainLoggerFromNew = true ∧
    Generated.C20.mainProxyKeys.contains "Logger" = true ∧
    Generated.C20.mainProxyKeys.contains "UUID" = false ∧ Generated.C20.mainProxyKeys.contains "Time" = false := by decide

end Fabio.Props.C20Facts
