import Fabio.Generated.C03
import Fabio.Model.C03
/-!
C03 — the tie by translation for `lessSpecificHost` (`route/table.go`), the comparison the host order rests on
since the round-4 repairs. `Fabio.Generated.C03.XLessSpecificHost` is produced on every run by the Go→Lean
translator (`tools/factgen/xlate.go`) from the current source; `xlate_lessSpecificHost` proves that it returns
`lessB a b` — a structural recursion on the two byte strings — for every input below 2^62 bytes, without a panic
and within the fuel `len(a)+1` (termination). `lessB_ascii` connects `lessB` with the character-level model
`Model.C03.lessSpecificHost` on ASCII strings (beyond ASCII the two are tied by the stream `c03.reverse`, which
draws non-ASCII keys). A change to the Go function changes the generated definition and these proofs are re-checked
against it (`lake build` on every run; configured as the change detector of C03: when it stops building the
streams run at five times the budget with a second seed).
-/
set_option linter.unusedSimpArgs false
set_option linter.unusedVariables false
namespace Fabio.Props.C03Xlate
open Fabio Fabio.Xlate Fabio.Model.Route Fabio.Model.C03 Fabio.Generated.C03

/-- `lessSpecificHost` on bytes, as a structural recursion: at the first difference `*` (42) is below every
other byte, otherwise the bytes decide; a proper prefix is below its extensions. -/
def lessB : Bytes → Bytes → Bool
  | [], [] => false
  | [], _ :: _ => true
  | _ :: _, [] => false
  | x :: xs, y :: ys =>
    if x != y then (if x == 42 || y == 42 then x == 42 else decide (x < y)) else lessB xs ys


/-- the scan of the loop: the verdict at the first difference, `none` when the shorter string is exhausted -/
def walk : Bytes → Bytes → Option Bool
  | x :: xs, y :: ys =>
    if x != y then some (if x == 42 || y == 42 then x == 42 else decide (x < y)) else walk xs ys
  | _, _ => none

theorem lessB_eq_walk (a b : Bytes) :
    lessB a b = (match walk a b with | some r => r | none => decide (a.length < b.length)) := by
  induction a generalizing b with
  | nil => cases b <;> simp [lessB, walk]
  | cons x xs ih =>
    cases b with
    | nil => simp [lessB, walk]
    | cons y ys =>
      simp only [lessB, walk]
      by_cases h : x = y
      · simp [h, ih ys]
      · simp [h]

theorem drop_cons_of_lt (d : Bytes) (i : Nat) (h : i < d.length) : d.drop i = d[i] :: d.drop (i + 1) := by
  exact List.drop_eq_getElem_cons h

theorem idx_nat (d : Bytes) (i : Nat) (h : i < d.length) : idx d (i : Int) = .ok d[i] := by
  simp [idx, idxN, List.getElem?_eq_getElem h]

theorem wrapI_small (x : Int) (h0 : 0 ≤ x) (h1 : x < 4611686018427387904) : wrapI 64 x = x := by
  rw [wrapI_64]; omega

open XLessSpecificHost in
/-- one round of the loop at an index inside both strings -/
theorem body_at (a b : Bytes) (hlen : a.length < 4611686018427387904) (i : Nat) (ha : i < a.length) (hb : i < b.length) :
    loop0Body ⟨a, b, (i : Int)⟩ =
      (if a[i] != b[i] then Flow.ret (if a[i] == 42 || b[i] == 42 then a[i] == 42 else decide (a[i] < b[i])) ⟨a, b, (i : Int)⟩
       else Flow.next ⟨a, b, (i : Int) + 1⟩) := by
  have hw : wrapI 64 ((i : Int) + 1) = (i : Int) + 1 := by
    rw [wrapI_small] <;> omega
  have e1 := idx_nat a i ha
  have e2 := idx_nat b i hb
  by_cases hxy : a[i] = b[i]
  · have n1 : (a[i] != b[i]) = false := by simpa using hxy
    simp only [loop0Body, seq, ifS, Xlate.ret, skip, assign, e1, e2, V.bind_ok, V.pure_eq, n1, hw]
    simp
  · have n1 : (a[i] != b[i]) = true := by simpa using hxy
    by_cases hx : a[i] = 42
    · have hx' : (a[i] == 42) = true := by simpa using hx
      simp only [loop0Body, seq, ifS, Xlate.ret, skip, assign, e1, e2, V.bind_ok, V.pure_eq, n1, hx']
      simp only [hx, if_true, e1, V.bind_ok, beq_self_eq_true, Bool.true_or]
    · have hx' : (a[i] == 42) = false := by simpa using hx
      by_cases hy : b[i] = 42
      · have hy' : (b[i] == 42) = true := by simpa using hy
        simp only [loop0Body, seq, ifS, Xlate.ret, skip, assign, e1, e2, V.bind_ok, V.pure_eq, n1, hx', hy', hx]
        simp
      · have hy' : (b[i] == 42) = false := by simpa using hy
        simp only [loop0Body, seq, ifS, Xlate.ret, skip, assign, e1, e2, V.bind_ok, V.pure_eq, n1, hx', hy', hx]
        simp [e1, e2]

open XLessSpecificHost in
/-- the loop of `lessSpecificHost` from index `i`, with enough fuel -/
theorem loop_eq (a b : Bytes) (hlen : a.length < 4611686018427387904) (n i : Nat)
    (hia : i ≤ a.length) (hib : i ≤ b.length) (hn : a.length - i + 1 ≤ n) :
    ∃ j : Int, loopN loop0Cond loop0Body n ⟨a, b, (i : Int)⟩ =
      (match walk (a.drop i) (b.drop i) with
       | some r => Flow.ret r ⟨a, b, j⟩
       | none => Flow.next ⟨a, b, j⟩) := by
  induction n generalizing i with
  | zero => omega
  | succ n ih =>
    by_cases ha : i < a.length
    · by_cases hb : i < b.length
      · rw [drop_cons_of_lt a i ha, drop_cons_of_lt b i hb]
        have hc : loop0Cond ⟨a, b, (i : Int)⟩ = .ok true := by
          simp [loop0Cond, len, ha, hb]
        simp only [loopN, hc, walk, body_at a b hlen i ha hb]
        by_cases hne : a[i] = b[i]
        · simp only [hne, bne_self_eq_false, Bool.false_eq_true, if_false]
          have := ih (i + 1) (by omega) (by omega) (by omega)
          have e : ((i + 1 : Nat) : Int) = (i : Int) + 1 := by omega
          rw [e] at this; exact this
        · have hne' : (a[i] != b[i]) = true := by simpa using hne
          exact ⟨(i : Int), by simp only [hne', if_true]⟩
      · have hb' : b.drop i = [] := List.drop_eq_nil_of_le (by omega)
        have hc : loop0Cond ⟨a, b, (i : Int)⟩ = .ok false := by
          simp [loop0Cond, len, hb]
        refine ⟨(i : Int), ?_⟩
        simp only [loopN, hc, hb']
        cases a.drop i <;> simp [walk]
    · have ha' : a.drop i = [] := List.drop_eq_nil_of_le (by omega)
      have hc : loop0Cond ⟨a, b, (i : Int)⟩ = .ok false := by
        simp [loop0Cond, len, ha]
      refine ⟨(i : Int), ?_⟩
      simp only [loopN, hc, ha']
      simp [walk]

/-- what the caller of `run` sees -/
def result {σ} : V (Bool × σ) → Option Bool
  | .ok (r, _) => some r
  | .panic _ => none

open XLessSpecificHost in
/-- **xlate_lessSpecificHost.** The function `lessSpecificHost` of the current `route/table.go`, translated on
this run, returns `lessB a b` for all byte strings below 2^62 bytes — no panic, and the fuel `len(a)+1` suffices
(termination). -/
theorem xlate_lessSpecificHost (a b : Bytes) (i0 : Int) (hlen : a.length < 4611686018427387904) :
    result (XLessSpecificHost.run ⟨a, b, i0⟩) = some (lessB a b) := by
  obtain ⟨j, hj⟩ := loop_eq a b hlen (a.length + 1) 0 (by omega) (by omega) (by omega)
  simp only [List.drop_zero] at hj
  rw [lessB_eq_walk]
  simp only [XLessSpecificHost.run, Fabio.Xlate.run, XLessSpecificHost.body, seq, assign, loop]
  have : ((0 : Nat) : Int) = (0 : Int) := rfl
  rw [this] at hj
  rw [hj]
  cases walk a b with
  | some r => simp [result]
  | none => simp [result, Xlate.ret, len]

/-- the byte of an ASCII character -/
def toB (c : Char) : UInt8 := UInt8.ofNat c.toNat

theorem toB_toNat (c : Char) (h : c.toNat < 128) : (toB c).toNat = c.toNat := by
  simp [toB]; omega

theorem toB_eq_iff (x y : Char) (hx : x.toNat < 128) (hy : y.toNat < 128) : toB x = toB y ↔ x = y := by
  constructor
  · intro h
    have := congrArg UInt8.toNat h
    rw [toB_toNat x hx, toB_toNat y hy] at this
    exact Char.ext (by
      have h1 : x.val.toNat = y.val.toNat := this
      exact UInt32.toNat_inj.1 h1)
  · intro h; rw [h]

theorem toB_star (x : Char) (hx : x.toNat < 128) : toB x = 42 ↔ x = '*' := by
  have : (42 : UInt8) = toB '*' := by decide
  rw [this]; exact toB_eq_iff x '*' hx (by decide)

theorem toB_lt (x y : Char) (hx : x.toNat < 128) (hy : y.toNat < 128) : toB x < toB y ↔ x.toNat < y.toNat := by
  rw [UInt8.lt_iff_toNat_lt, toB_toNat x hx, toB_toNat y hy]

/-- **lessB_ascii.** On ASCII strings the character-level model of the comparison is the byte-level function
the translated Go code computes. -/
theorem lessB_ascii (a b : Str) (ha : ∀ c ∈ a, c.toNat < 128) (hb : ∀ c ∈ b, c.toNat < 128) :
    lessSpecificHost a b = lessB (a.map toB) (b.map toB) := by
  unfold lessSpecificHost
  induction a generalizing b with
  | nil => cases b <;> simp [ltBy, lessB]
  | cons x xs ih =>
    cases b with
    | nil => simp [ltBy, lessB]
    | cons y ys =>
      have hx := ha x (by simp)
      have hy := hb y (by simp)
      have ih' := ih ys (fun c hc => ha c (by simp [hc])) (fun c hc => hb c (by simp [hc]))
      simp only [ltBy, List.map_cons, lessB]
      by_cases hxy : x = y
      · subst hxy; simp [ih']
      · have hne : ¬ toB x = toB y := fun h => hxy ((toB_eq_iff x y hx hy).1 h)
        have hne' : (toB x != toB y) = true := by simpa using hne
        simp only [hne', if_true]
        by_cases hxs : x = '*'
        · subst hxs
          have hys : ¬ y = '*' := fun h => hxy h.symm
          have : (toB '*' == 42) = true := by decide
          simp [starRank, hys, this]
        · have hxb : (toB x == 42) = false := by
            simpa using fun h => hxs ((toB_star x hx).1 h)
          by_cases hys : y = '*'
          · subst hys
            have : (toB '*' == 42) = true := by decide
            simp [starRank, hxs, hxb, this]
          · have hyb : (toB y == 42) = false := by
              simpa using fun h => hys ((toB_star y hy).1 h)
            have hlt := toB_lt x y hx hy
            have hlt' := toB_lt y x hy hx
            have hnn : x.toNat ≠ y.toNat := fun h => hxy (Char.ext (UInt32.toNat_inj.1 h))
            simp only [starRank, hxb, hyb, Bool.or_self, Bool.false_eq_true, if_false]
            have e1 : (x == '*') = false := by simpa using hxs
            have e2 : (y == '*') = false := by simpa using hys
            simp only [e1, e2, Bool.false_eq_true, if_false]
            by_cases hl : x.toNat < y.toNat
            · have : toB x < toB y := hlt.2 hl
              simp [hl, this]
            · have hg : y.toNat < x.toNat := by omega
              have : ¬ toB x < toB y := fun h => hl (hlt.1 h)
              simp [hl, hg, this]

/-! ### non-vacuity -/

-- the translated function itself, evaluated: `*` below `.`, a proper prefix below its extension, `!` above `*`
example : result (XLessSpecificHost.run ⟨[109, 111, 99, 46, 42], [109, 111, 99, 46, 42, 46, 42], 0⟩) = some true := by decide
example : result (XLessSpecificHost.run ⟨[46, 42], [46, 33, 42], 7⟩) = some true := by decide
example : result (XLessSpecificHost.run ⟨[46, 33, 42], [46, 42], 0⟩) = some false := by decide
example : lessSpecificHost "moc.oof.*".toList "moc.oof.!*".toList = lessB ("moc.oof.*".toList.map toB) ("moc.oof.!*".toList.map toB) :=
  lessB_ascii _ _ (by decide) (by decide)

end Fabio.Props.C03Xlate
