import Fabio.Lemmas.C03
/-!
C03 — a request is routed to the most specific matching route: property theorems over the model
`Fabio.Model.C03` (for every table, request, host-glob function, path matcher, picker; both values of
`globDisabled`). Helper lemmas live in `Fabio/Lemmas/C03.lean`.
-/
set_option linter.unusedSimpArgs false
namespace Fabio.Props.C03
open Fabio Fabio.Model.Route Fabio.Model.C03 Fabio.Lemmas.C03

/-! ### vocabulary -/

/-- the host keys `Lookup` tries before the host-less fallback, most specific first -/
def matched (cfg : Cfg) (t : Table) (req : Req) : List Str :=
  if cfg.globDisabled then matchingHostNoGlob t req.host req.tls
  else matchingHosts cfg.globMatch t req.host req.tls

/-- `t.lookup(h, req.URL.Path, …)` -/
def look (cfg : Cfg) (t : Table) (req : Req) (h : Str) : Option (Route × Target) :=
  lookup cfg.pathMatch cfg.pick t h req.path

/-- "the route's host pattern matches the request host (case-insensitively, default port removed)":
with host globbing the key's normalised form, compiled as a glob, matches the normalised request host;
without it the two normalised strings are equal. -/
def HostMatches (cfg : Cfg) (t : Table) (req : Req) (h : Str) : Prop :=
  if cfg.globDisabled then
    ∃ pat ∈ keys t, h = lowerL pat ∧ normalizeHost pat req.tls = normalizeHost req.host req.tls
  else h ∈ keys t ∧ cfg.globMatch (normalizeHost h req.tls) (normalizeHost req.host req.tls) = true

/-- the picker returns one of the route's targets (`rndPicker`, `rrPicker` index into the ring of the
route, whose entries are the route's targets: C04) -/
def PickOK (pick : Route → Target) : Prop := ∀ r, r.targets ≠ [] → pick r ∈ r.targets

/-- every route has a target (reachable tables: `addRoute` adds one, `delRoute` prunes empty routes; C05) -/
def NoEmptyRoutes (t : Table) : Prop := ∀ k, ∀ r ∈ t.get k, r.targets ≠ []

/-- no redirect self-skip for this request (C13 owns the skip) -/
def NoSkip (cfg : Cfg) : Prop := cfg.skip = fun _ => false

/-- every host's routes are in the order `newTable` establishes -/
def TableSorted (t : Table) : Prop := ∀ k, RoutesSorted (t.get k)

theorem hostList_eq (cfg : Cfg) (t : Table) (req : Req) : hostList cfg t req = matched cfg t req ++ [[]] := by
  unfold hostList matched; split <;> rfl

theorem mem_matched_iff {cfg : Cfg} {t : Table} {req : Req} {h : Str} :
    h ∈ matched cfg t req ↔ HostMatches cfg t req h := by
  unfold matched HostMatches
  split
  · simp only [matchingHostNoGlob, mem_sortHosts, List.mem_map, List.mem_filter, beq_iff_eq]
    constructor
    · rintro ⟨pat, ⟨hp, he⟩, rfl⟩; exact ⟨pat, hp, rfl, he⟩
    · rintro ⟨pat, hp, rfl, he⟩; exact ⟨pat, ⟨hp, he⟩, rfl⟩
  · simp only [matchingHosts, mem_sortHosts, List.mem_filter]

theorem matched_pairwise (cfg : Cfg) (t : Table) (req : Req) : (matched cfg t req).Pairwise hostOrd := by
  unfold matched matchingHostNoGlob matchingHosts; split <;> exact sortHosts_pairwise _

/-! ### soundness: only a matching route is used -/

/-- **lookup_sound.** Whatever `Lookup` returns comes from a route whose host key is empty or matches the
request host, which is a route of that key, whose path matches under the configured matcher, and the
target is one of the route's targets. Holds with and without the redirect skip. -/
theorem lookup_sound (cfg : Cfg) (t : Table) (req : Req) (hpick : PickOK cfg.pick)
    {h : Str} {r : Route} {tg : Target} (hres : Lookup cfg t req = some (h, r, tg)) :
    (h = [] ∨ HostMatches cfg t req h) ∧ r ∈ t.get (lowerL h) ∧
      cfg.pathMatch req.path r.path = true ∧ tg ∈ r.targets := by
  unfold Lookup at hres
  rcases lookupHosts_sound hres with h0 | ⟨hmem, hl⟩
  · cases h0
  · rw [hostList_eq, List.mem_append] at hmem
    obtain ⟨pre, post, e, _, hm, hne, htg⟩ := lookupRoutes_some hl
    refine ⟨?_, ?_, hm, ?_⟩
    · rcases hmem with hmem | hmem
      · exact Or.inr (mem_matched_iff.1 hmem)
      · left; simpa using hmem
    · rw [e]; simp
    · rcases htg with htg | rfl
      · exact htg
      · exact hpick r hne

/-- **skipped_redirect_never_returned.** A target rejected by the redirect self-skip is never the answer
(since the C13 repair b42ae83; before it a skip on the last host tried was still returned). -/
theorem skipped_redirect_never_returned (cfg : Cfg) (t : Table) (req : Req)
    {h : Str} {r : Route} {tg : Target} (hres : Lookup cfg t req = some (h, r, tg)) : cfg.skip tg = false := by
  unfold Lookup at hres
  generalize hostList cfg t req = hs at hres
  induction hs with
  | nil => simp [lookupHosts] at hres
  | cons x xs ih =>
    simp only [lookupHosts] at hres
    split at hres
    · exact ih hres
    · split at hres
      · exact ih hres
      · rename_i hsk
        simp at hres
        obtain ⟨_, _, rfl⟩ := hres
        simpa using hsk

/-! ### completeness: if any candidate exists the request is routed -/

/-- **lookup_complete.** If some route with a matching path exists under a key that is empty or matches
the request host, a target is returned (every route of a reachable table has a target; without the
redirect skip). -/
theorem lookup_complete (cfg : Cfg) (t : Table) (req : Req) (hns : NoSkip cfg) (hne : NoEmptyRoutes t)
    {k : Str} (hk : k = [] ∨ HostMatches cfg t req k) {r : Route} (hr : r ∈ t.get (lowerL k))
    (hm : cfg.pathMatch req.path r.path = true) : (Lookup cfg t req).isSome = true := by
  unfold Lookup; rw [hns]
  apply lookupHosts_noskip_isSome (k := k)
  · rw [hostList_eq, List.mem_append]
    rcases hk with rfl | hk
    · right; simp
    · exact Or.inl (mem_matched_iff.2 hk)
  · exact lookupRoutes_isSome (hne _) hr hm

/-! ### specificity of the host -/

/-- core of the host order: the answer's key is a matched key, and every other matched key that could have
answered stands after it in the specificity order. -/
theorem lookup_host_order (cfg : Cfg) (t : Table) (req : Req) (hns : NoSkip cfg)
    {h : Str} {r : Route} {tg : Target} (hres : Lookup cfg t req = some (h, r, tg))
    {k : Str} (hk : k ∈ matched cfg t req) (hcand : (look cfg t req k).isSome = true) :
    h ∈ matched cfg t req ∧ (k = h ∨ hostOrd h k) := by
  unfold Lookup at hres; rw [hns] at hres
  rcases lookupHosts_noskip_some hres with ⟨_, h0⟩ | ⟨pre, post, e, hpre, _⟩
  · cases h0
  · rw [hostList_eq, List.append_eq_append_iff] at e
    have notpre : k ∉ pre := fun hkp => by
      have := hpre k hkp; unfold look at hcand; rw [this] at hcand; cases hcand
    rcases e with ⟨as, e1, _⟩ | ⟨bs, e1, e2⟩
    · exact absurd (by rw [e1]; exact List.mem_append_left _ hk) notpre
    · cases bs with
      | nil => simp at e1; exact absurd (e1 ▸ hk) notpre
      | cons b bs' =>
        simp at e2
        obtain ⟨rfl, _⟩ := e2
        have hp := matched_pairwise cfg t req
        rw [e1] at hp hk ⊢
        refine ⟨by simp, ?_⟩
        rcases List.mem_append.1 hk with hk | hk
        · exact absurd hk notpre
        · rcases List.mem_cons.1 hk with rfl | hk
          · exact Or.inl rfl
          · right
            exact (List.pairwise_cons.1 (List.pairwise_append.1 hp).2.1).1 k hk

/-- **host_less_only_as_fallback.** If some matched host key has a route whose path matches, the answer
comes from a matched host key — the host-less routes (the trailing `""` of the host list) are not used. -/
theorem host_less_only_as_fallback (cfg : Cfg) (t : Table) (req : Req) (hns : NoSkip cfg)
    {h : Str} {r : Route} {tg : Target} (hres : Lookup cfg t req = some (h, r, tg))
    {k : Str} (hk : HostMatches cfg t req k) (hcand : (look cfg t req k).isSome = true) :
    HostMatches cfg t req h :=
  mem_matched_iff.1 (lookup_host_order cfg t req hns hres (mem_matched_iff.2 hk) hcand).1

/-- **exact_beats_wildcard.** If an exact host key (no glob metacharacter, not empty) matches and has a
route whose path matches, the answer does not come from a pattern key. (For every pattern syntax: holds
since the repair of D06b; before it `*foo.com`, `{a,b}.foo.com`, `a?.com` beat `foo.com`, `a.foo.com`,
`a1.com`.) -/
theorem exact_beats_wildcard (cfg : Cfg) (t : Table) (req : Req) (hns : NoSkip cfg)
    {h : Str} {r : Route} {tg : Target} (hres : Lookup cfg t req = some (h, r, tg))
    {k : Str} (hk : HostMatches cfg t req k) (hexact : isGlobPat k = false)
    (hcand : (look cfg t req k).isSome = true) : isGlobPat h = false := by
  rcases (lookup_host_order cfg t req hns hres (mem_matched_iff.2 hk) hcand).2 with rfl | ho
  · exact hexact
  · rcases ho with ⟨_, hb⟩ | ⟨he, _⟩
    · rw [hexact] at hb; cases hb
    · rw [he]; exact hexact

theorem lastIndexOf_go_not_mem (c : Char) (s : List Char) (i : Nat) (b : Option Nat) (h : c ∉ s) :
    lastIndexOf.go c i b s = b := by
  induction s generalizing i b with
  | nil => rfl
  | cons x xs ih =>
    simp only [lastIndexOf.go]
    have hx : (x == c) = false := by
      simp only [List.mem_cons, not_or] at h
      simpa using fun e => h.1 e.symm
    rw [hx]; exact ih _ _ (fun hm => h (List.mem_cons_of_mem _ hm))

theorem splitHostPort_no_colon (s : Str) (h : ':' ∉ s) : splitHostPort s = none := by
  unfold splitHostPort lastIndexOf
  rw [lastIndexOf_go_not_mem ':' s 0 none h]

/-- without a colon the whole key is the host part -/
theorem hostPart_no_colon (s : Str) (h : ':' ∉ s) : hostPart s = s := by
  simp [hostPart, splitHostPort_no_colon s h]

/-- without a colon `ReverseHostPort` is plain reversal -/
theorem reverseHostPort_no_colon (s : Str) (h : ':' ∉ s) : reverseHostPort s = s.reverse := by
  simp [reverseHostPort, portPart, hostPart, splitHostPort_no_colon s h]

theorem lastIndexOf_go_append (c : Char) (xs ys : List Char) (i : Nat) (b : Option Nat) :
    lastIndexOf.go c i b (xs ++ ys) = lastIndexOf.go c (i + xs.length) (lastIndexOf.go c i b xs) ys := by
  induction xs generalizing i b with
  | nil => rfl
  | cons x xs ih =>
    simp only [List.cons_append, lastIndexOf.go, List.length_cons]
    rw [ih]; congr 1; omega

theorem lastIndexOf_host_port (h p : Str) (hh : ':' ∉ h) (hp : ':' ∉ p) :
    lastIndexOf ':' (h ++ ':' :: p) = some h.length := by
  unfold lastIndexOf
  rw [lastIndexOf_go_append, lastIndexOf_go_not_mem ':' h 0 none hh]
  simp only [lastIndexOf.go, beq_self_eq_true, if_true]
  rw [lastIndexOf_go_not_mem ':' p _ _ hp]; simp

/-- `net.SplitHostPort` on `host:port` without further colons or brackets -/
theorem splitHostPort_host_port (h p : Str) (hh : ∀ c ∈ h, c ≠ ':' ∧ c ≠ '[' ∧ c ≠ ']')
    (hp : ∀ c ∈ p, c ≠ ':' ∧ c ≠ '[' ∧ c ≠ ']') : splitHostPort (h ++ ':' :: p) = some (h, p) := by
  have hc : ':' ∉ h := fun m => (hh _ m).1 rfl
  have pc : ':' ∉ p := fun m => (hp _ m).1 rfl
  have hd : (h ++ ':' :: p).head? ≠ some '[' := by
    cases h with
    | nil => simp
    | cons x xs => simpa using (hh x (by simp)).2.1
  have nb : ∀ c, (c = '[' ∨ c = ']') → (h ++ ':' :: p).contains c = false := by
    intro c hcc
    rw [Bool.eq_false_iff]; intro hm
    rw [List.contains_iff_mem, List.mem_append, List.mem_cons] at hm
    rcases hm with hm | rfl | hm
    · rcases hcc with rfl | rfl
      · exact (hh _ hm).2.1 rfl
      · exact (hh _ hm).2.2 rfl
    · rcases hcc with hcc | hcc <;> cases hcc
    · rcases hcc with rfl | rfl
      · exact (hp _ hm).2.1 rfl
      · exact (hp _ hm).2.2 rfl
  have tk : (h ++ ':' :: p).take h.length = h := by simp
  have dr : (h ++ ':' :: p).drop (h.length + 1) = p := by
    rw [← List.drop_drop]; simp
  have hcont : h.contains ':' = false := by
    rw [Bool.eq_false_iff]; intro hm; exact hc (List.contains_iff_mem.1 hm)
  unfold splitHostPort
  rw [lastIndexOf_host_port h p hc pc]
  have : ((h ++ ':' :: p).head? == some '[') = false := by
    rw [beq_eq_false_iff_ne]; exact hd
  simp only [this, Bool.false_eq_true, ↓reduceIte, tk, dr, hcont, nb '[' (Or.inl rfl), nb ']' (Or.inr rfl)]

theorem hostPart_host_port (h p : Str) (hne : h ≠ []) (hh : ∀ c ∈ h, c ≠ ':' ∧ c ≠ '[' ∧ c ≠ ']')
    (hp : ∀ c ∈ p, c ≠ ':' ∧ c ≠ '[' ∧ c ≠ ']') : hostPart (h ++ ':' :: p) = h := by
  unfold hostPart
  rw [splitHostPort_host_port h p hh hp]
  cases h with
  | nil => exact absurd rfl hne
  | cons x xs => simp

/-- core of "a longer host suffix beats a shorter one", on two keys: when the host parts (what
`net.SplitHostPort` leaves of the key, the whole key without a port) are `Y ++ T` and `*` ++ `T` with `Y` at
least two characters, the longer key is sorted in front — whatever the characters of `Y` (since the repair
"`*` below every other character"; before it `*!.foo.com` lost to `*.foo.com`), whatever the ports (since the
repair "host part first, then the port"; before it `*.*.foo.com:8080` lost to `*.foo.com:8080`). -/
theorem hostBefore_of_longer_suffix (a b Y T : Str) (hY : 2 ≤ Y.length)
    (ha : hostPart a = Y ++ T) (hb : hostPart b = '*' :: T) : hostBefore a b = true := by
  obtain ⟨c, u, hu, hune⟩ : ∃ c u, Y.reverse = c :: u ∧ u ≠ [] := by
    cases hx : Y.reverse with
    | nil =>
      have h1 : Y.reverse.length = 0 := by rw [hx]; rfl
      rw [List.length_reverse] at h1; omega
    | cons c u =>
      refine ⟨c, u, rfl, ?_⟩
      intro e
      have h1 : Y.reverse.length = 1 := by rw [hx, e]; rfl
      rw [List.length_reverse] at h1; omega
  have hlt : lessSpecificHost (revParts b).1 (revParts a).1 = true := by
    simp only [revParts, ha, hb, List.reverse_cons, List.reverse_append, hu, lessSpecificHost]
    rw [ltBy_append_left]
    cases u with
    | nil => exact absurd rfl hune
    | cons d u' =>
      simp only [List.cons_append, List.nil_append, ltBy, starRank]
      by_cases hc : c = '*'
      · subst hc; simp [ltBy]
      · have : (c == '*') = false := by simpa using hc
        simp [this]
  have hne : (revParts a).1 ≠ (revParts b).1 := by
    intro e; rw [e] at hlt; rw [lessSpecificHost, ltBy_irrefl] at hlt; cases hlt
  unfold hostBefore
  simp [hne, hlt]

/-- **longer_suffix_beats_shorter_partial.** The full statement — *for all pattern keys `Y ++ S` and
`*` ++ `S` with `Y` of at least two characters: if the longer one matches and has a route whose path
matches, the answer does not come from the shorter one* — fails for keys whose port `net.SplitHostPort`
does not recognise in one of the two (`longer_suffix_full_statement_fails`: `[ab].foo.com:8080` against
`*.foo.com:8080`; recorded finding, replayed from `corpus/c03.lookup.jsonl`). Forced hypothesis: the host
parts of the two keys (`hostPart`: the host of `net.SplitHostPort`, the whole key without a port) are
`Y ++ T` and `*` ++ `T`. The two corollaries below discharge it for keys without a colon and for keys
`host:port` with one port. -/
theorem longer_suffix_beats_shorter_partial (cfg : Cfg) (t : Table) (req : Req) (hns : NoSkip cfg)
    (a b Y T : Str) (hY : 2 ≤ Y.length) (ha : hostPart a = Y ++ T) (hb : hostPart b = '*' :: T)
    (hpat : isGlobPat b = true) (hk : HostMatches cfg t req a)
    (hcand : (look cfg t req a).isSome = true) (r : Route) (tg : Target) :
    Lookup cfg t req ≠ some (b, r, tg) := by
  intro hres
  have hbef := hostBefore_of_longer_suffix a b Y T hY ha hb
  rcases (lookup_host_order cfg t req hns hres (mem_matched_iff.2 hk) hcand).2 with e | ho
  · rw [e, hb] at ha
    have := congrArg List.length ha
    simp only [List.length_cons, List.length_append] at this; omega
  · rcases ho with ⟨hf, _⟩ | ⟨_, hb'⟩
    · rw [hpat] at hf; cases hf
    · rw [hbef] at hb'; cases hb'

/-- **longer_suffix_beats_shorter** (keys without a port). Pattern keys `Y ++ S` and `*` ++ `S`, no `:` in
them, `Y` of at least two characters (`*.a` ++ `.foo.com`, `*.*` ++ `.foo.com`, `*-eu` ++ `.foo.com`,
`*!` ++ `.foo.com`, `{a,b}` ++ `.foo.com`): if the longer one matches and has a route whose path matches,
the answer does not come from the shorter one. No condition on the characters of `Y`. -/
theorem longer_suffix_beats_shorter (cfg : Cfg) (t : Table) (req : Req) (hns : NoSkip cfg)
    (S Y : Str) (hY : 2 ≤ Y.length) (hcolon : ':' ∉ Y ++ S)
    (hk : HostMatches cfg t req (Y ++ S))
    (hcand : (look cfg t req (Y ++ S)).isSome = true) (r : Route) (tg : Target) :
    Lookup cfg t req ≠ some ('*' :: S, r, tg) := by
  have c2 : ':' ∉ '*' :: S := by
    intro hm; rcases List.mem_cons.1 hm with e | hm
    · cases e
    · exact hcolon (List.mem_append_right _ hm)
  exact longer_suffix_beats_shorter_partial cfg t req hns (Y ++ S) ('*' :: S) Y S hY
    (hostPart_no_colon _ hcolon) (hostPart_no_colon _ c2) (by simp [isGlobPat]) hk hcand r tg

/-- **longer_suffix_beats_shorter_port** (keys with one explicit port). Pattern keys `Y ++ T ++ ":" ++ P`
and `*` ++ `T ++ ":" ++ P` (no further colon and no bracket in `Y`, `T`, `P`): the same. This is the class
the repair "host part first, then the port" made true: `*.*.foo.com:8080` and `*-*.foo.com:8080` lost to
`*.foo.com:8080` because the `:` in front of the port sorts above `.`, `-` and the digits. -/
theorem longer_suffix_beats_shorter_port (cfg : Cfg) (t : Table) (req : Req) (hns : NoSkip cfg)
    (T Y P : Str) (hY : 2 ≤ Y.length)
    (hYc : ∀ c ∈ Y, c ≠ ':' ∧ c ≠ '[' ∧ c ≠ ']') (hTc : ∀ c ∈ T, c ≠ ':' ∧ c ≠ '[' ∧ c ≠ ']')
    (hPc : ∀ c ∈ P, c ≠ ':' ∧ c ≠ '[' ∧ c ≠ ']')
    (hk : HostMatches cfg t req ((Y ++ T) ++ ':' :: P))
    (hcand : (look cfg t req ((Y ++ T) ++ ':' :: P)).isSome = true) (r : Route) (tg : Target) :
    Lookup cfg t req ≠ some (('*' :: T) ++ ':' :: P, r, tg) := by
  have hYT : ∀ c ∈ Y ++ T, c ≠ ':' ∧ c ≠ '[' ∧ c ≠ ']' := by
    intro c hc; rcases List.mem_append.1 hc with hc | hc
    · exact hYc c hc
    · exact hTc c hc
  have hsT : ∀ c ∈ '*' :: T, c ≠ ':' ∧ c ≠ '[' ∧ c ≠ ']' := by
    intro c hc; rcases List.mem_cons.1 hc with rfl | hc
    · decide
    · exact hTc c hc
  have hne : Y ++ T ≠ [] := by
    intro e; have := congrArg List.length e
    simp only [List.length_append, List.length_nil] at this; omega
  exact longer_suffix_beats_shorter_partial cfg t req hns _ _ Y T hY
    (hostPart_host_port (Y ++ T) P hne hYT hPc) (hostPart_host_port ('*' :: T) P (by simp) hsT hPc)
    (by simp [isGlobPat]) hk hcand r tg

/-! ### within a host: first match in table order; the longest path for prefix and iprefix -/

/-- **first_match_in_table_order** (every matcher, in particular glob): the answer's route is the first
route of its host, in table order, whose path matches. -/
theorem first_match_in_table_order (cfg : Cfg) (t : Table) (req : Req)
    {h : Str} {r : Route} {tg : Target} (hres : Lookup cfg t req = some (h, r, tg)) :
    ∃ pre post, t.get (lowerL h) = pre ++ r :: post ∧ ∀ x ∈ pre, cfg.pathMatch req.path x.path = false := by
  unfold Lookup at hres
  rcases lookupHosts_sound hres with h0 | ⟨_, hl⟩
  · cases h0
  · obtain ⟨pre, post, e, hpre, _⟩ := lookupRoutes_some hl
    exact ⟨pre, post, e, hpre⟩

theorem strLt_of_prefixes {p q u : Str} (hp : p <+: u) (hq : q <+: u) (hl : p.length < q.length) :
    strLt p q = true := by
  obtain ⟨w, rfl⟩ := List.prefix_of_prefix_length_le hp hq (Nat.le_of_lt hl)
  cases w with
  | nil => simp at hl
  | cons c w => exact strLt_proper_prefix p c w

/-- in a sorted route list, for a matcher that implies "the lower-cased route path is a prefix of the
lower-cased URI", the first match is a longest match -/
theorem first_match_is_longest {m : Str → Str → Bool} {uri : Str}
    (hm : ∀ p, m uri p = true → lowerL p <+: lowerL uri)
    {pick : Route → Target} {rs : List Route} (hs : RoutesSorted rs)
    {r : Route} {tg : Target} (hres : lookupRoutes m pick uri rs = some (r, tg))
    {r' : Route} (hr' : r' ∈ rs) (hm' : m uri r'.path = true) : r'.path.length ≤ r.path.length := by
  obtain ⟨pre, post, e, hpre, hmr, _⟩ := lookupRoutes_some hres
  rw [e] at hr' hs
  rcases List.mem_append.1 hr' with hin | hin
  · rw [hpre r' hin] at hm'; cases hm'
  · rcases List.mem_cons.1 hin with rfl | hin
    · exact Nat.le_refl _
    · have hsorted : pathLt r.path r'.path = false :=
        (List.pairwise_cons.1 (List.pairwise_append.1 hs).2.1).1 r' hin
      apply Nat.le_of_not_lt
      intro hlt
      have hlt' : (lowerL r.path).length < (lowerL r'.path).length := by simpa [lowerL] using hlt
      have h1 := strLt_of_prefixes (hm _ hmr) (hm _ hm') hlt'
      have hne : lowerL r.path ≠ lowerL r'.path := by
        intro e'; rw [e', strLt_irrefl] at h1; cases h1
      unfold pathLt at hsorted
      simp [hne, h1] at hsorted

theorem pathMatch_lower_prefix (pg : Str → Str → Bool) {kind : MatcherKind} (hk : kind ≠ .glob) (uri p : Str)
    (h : pathMatch pg kind uri p = true) : lowerL p <+: lowerL uri := by
  cases kind with
  | glob => exact absurd rfl hk
  | pfx =>
    simp only [pathMatch, List.isPrefixOf_iff_prefix] at h
    obtain ⟨w, rfl⟩ := h
    exact ⟨lowerL w, by simp [lowerL]⟩
  | iprefix =>
    simpa only [pathMatch, List.isPrefixOf_iff_prefix] using h

/-- **longest_path_wins** (prefix and iprefix matchers; the latter holds since the repair of D06): in a
table whose routes are in `newTable`'s order, no route of the answer's host with a matching path has a
longer path than the answer's route. -/
theorem longest_path_wins (cfg : Cfg) (t : Table) (req : Req) (pg : Str → Str → Bool) (kind : MatcherKind)
    (hkind : kind ≠ .glob) (hcfg : cfg.pathMatch = pathMatch pg kind) (hsorted : TableSorted t)
    {h : Str} {r : Route} {tg : Target} (hres : Lookup cfg t req = some (h, r, tg))
    {r' : Route} (hr' : r' ∈ t.get (lowerL h)) (hm' : cfg.pathMatch req.path r'.path = true) :
    r'.path.length ≤ r.path.length := by
  unfold Lookup at hres
  rcases lookupHosts_sound hres with h0 | ⟨_, hl⟩
  · cases h0
  · unfold lookup at hl
    rw [hcfg] at hl hm'
    exact first_match_is_longest (fun p hp => pathMatch_lower_prefix pg hkind _ p hp) (hsorted _) hl hr' hm'

/-- for the prefix matcher the answer's path is *the* longest matching prefix: matching paths of equal
length are equal -/
theorem longest_path_wins_prefix_unique {uri p q : Str} (hp : p.isPrefixOf uri = true) (hq : q.isPrefixOf uri = true)
    (hl : p.length = q.length) : p = q := by
  rw [List.isPrefixOf_iff_prefix] at hp hq
  obtain ⟨w, rfl⟩ := List.prefix_of_prefix_length_le hp hq (Nat.le_of_eq hl)
  have : w = [] := by
    simp only [List.length_append] at hl
    exact List.eq_nil_of_length_eq_zero (by omega)
  simp [this]

theorem lookup_map_snd {β γ : Type} (f : β → γ) (k : Str) (l : List (Str × β)) :
    List.lookup k (l.map (fun kv => (kv.1, f kv.2))) = (List.lookup k l).map f := by
  induction l with
  | nil => rfl
  | cons x xs ih =>
    obtain ⟨a, b⟩ := x
    simp only [List.map_cons, List.lookup_cons]
    cases hk : (k == a) with
    | true => rfl
    | false => exact ih

/-- **newTable_sorted.** `NewTable`/`NewTableCustom` leave every host's routes sorted (`sortRoutes` is a
sorted permutation: `sortRoutes_sorted`, `sortRoutes_perm`). -/
theorem newTable_sorted (env : Env) (t0 : Table) (defs : List RouteDef) {t : Table}
    (h : buildFrom env t0 defs = .ok t) : TableSorted t := by
  unfold buildFrom at h
  split at h
  · cases h
  · rename_i t' _
    cases h
    intro k
    unfold Table.get
    rw [lookup_map_snd]
    cases List.lookup k t' with
    | none => exact List.Pairwise.nil
    | some rs => exact sortRoutes_sorted rs

theorem sortRoutes_is_sorted_permutation (rs : List Route) :
    RoutesSorted (sortRoutes rs) ∧ (sortRoutes rs).Perm rs := ⟨sortRoutes_sorted rs, sortRoutes_perm rs⟩

/-! ### the request host: letter case and default port -/

/-- `Lookup` sees the request host only through `normalizeHost` — with host globbing enabled and (since
the repair of D05) disabled. -/
theorem lookup_depends_on_normalized_host (cfg : Cfg) (t : Table) (h1 h2 : Str) (tls : Bool) (p : Str)
    (h : normalizeHost h1 tls = normalizeHost h2 tls) :
    Lookup cfg t ⟨h1, tls, p⟩ = Lookup cfg t ⟨h2, tls, p⟩ := by
  unfold Lookup hostList matchingHosts matchingHostNoGlob
  simp only [h]

/-- **host_case_insensitive.** The letter case of the request host does not matter: the lower-cased host
is routed exactly like the original, with host globbing enabled and disabled (the latter since the
repair of D05). ASCII case folding (`lowerL`). -/
theorem host_case_insensitive (cfg : Cfg) (t : Table) (h : Str) (tls : Bool) (p : Str) :
    Lookup cfg t ⟨lowerL h, tls, p⟩ = Lookup cfg t ⟨h, tls, p⟩ := by
  apply lookup_depends_on_normalized_host
  unfold normalizeHost
  rw [normalizeHostNoLower_lowerL, lowerL_idem]

/-- two spellings of one host are routed alike -/
theorem host_case_insensitive' (cfg : Cfg) (t : Table) (h h' : Str) (tls : Bool) (p : Str)
    (e : lowerL h = lowerL h') : Lookup cfg t ⟨h, tls, p⟩ = Lookup cfg t ⟨h', tls, p⟩ := by
  rw [← host_case_insensitive cfg t h, ← host_case_insensitive cfg t h', e]

theorem hasSuffix_append_self (h p : Str) : hasSuffix (h ++ p) p = true := by
  unfold hasSuffix List.isSuffixOf
  rw [List.reverse_append, List.isPrefixOf_iff_prefix]
  exact List.prefix_append _ _

theorem normalizeHostNoLower_port80 (h : Str) : normalizeHostNoLower (h ++ port80) false = h := by
  unfold normalizeHostNoLower
  simp [hasSuffix_append_self, port80]

theorem normalizeHostNoLower_port443 (h : Str) : normalizeHostNoLower (h ++ port443) true = h := by
  unfold normalizeHostNoLower
  simp [hasSuffix_append_self, port443]

/-- **default_port_removed** (plain HTTP): `host:80` is routed like `host`, for every configuration
(host globbing enabled or disabled). -/
theorem default_port_removed_plain (cfg : Cfg) (t : Table) (h p : Str) (hno : hasSuffix h port80 = false) :
    Lookup cfg t ⟨h ++ port80, false, p⟩ = Lookup cfg t ⟨h, false, p⟩ := by
  apply lookup_depends_on_normalized_host
  unfold normalizeHost
  rw [normalizeHostNoLower_port80]
  simp [normalizeHostNoLower, hno]

/-- **default_port_removed** (TLS): `host:443` is routed like `host`. -/
theorem default_port_removed_tls (cfg : Cfg) (t : Table) (h p : Str) (hno : hasSuffix h port443 = false) :
    Lookup cfg t ⟨h ++ port443, true, p⟩ = Lookup cfg t ⟨h, true, p⟩ := by
  apply lookup_depends_on_normalized_host
  unfold normalizeHost
  rw [normalizeHostNoLower_port443]
  simp [normalizeHostNoLower, hno]

/-- the other scheme's default port is *not* removed: `:443` on a plain request stays -/
theorem other_port_kept (h : Str) : normalizeHostNoLower (h ++ port443) false = h ++ port443 := by
  have : hasSuffix (h ++ port443) port80 = false := by
    unfold hasSuffix List.isSuffixOf
    simp [port443, port80, List.isPrefixOf]
  simp [normalizeHostNoLower, this]

/-! ### `LookupHost` -/

/-- **lookuphost_exact.** `LookupHost` answers only from the routes stored under exactly the lower-cased
host, with a path that is a prefix of "/". -/
theorem lookuphost_exact (pick : Route → Target) (t : Table) (host : Str) {r : Route} {tg : Target}
    (h : LookupHost pick t host = some (r, tg)) :
    r ∈ t.get (lowerL host) ∧ r.path.isPrefixOf ['/'] = true := by
  unfold LookupHost lookup at h
  obtain ⟨pre, post, e, _, hm, _⟩ := lookupRoutes_some h
  exact ⟨by rw [e]; simp, hm⟩

/-- a decidable sufficient condition for `NoEmptyRoutes` -/
theorem noEmptyRoutes_of_all (t : Table)
    (h : t.all (fun kv => kv.2.all (fun r => !r.targets.isEmpty)) = true) : NoEmptyRoutes t := by
  intro k r hr
  unfold Table.get at hr
  induction t with
  | nil => simp at hr
  | cons x xs ih =>
    obtain ⟨a, b⟩ := x
    simp only [List.lookup_cons] at hr
    simp only [List.all_cons, Bool.and_eq_true] at h
    cases hk : (k == a) with
    | true =>
      rw [hk] at hr
      have := List.all_eq_true.1 h.1 r (by simpa using hr)
      intro e; simp [e] at this
    | false => rw [hk] at hr; exact ih h.2 hr

end Fabio.Props.C03

/-! ### non-vacuity: the hypotheses of the theorems hold on a table with overlapping routes -/
namespace Fabio.Props.C03.Ex
open Fabio Fabio.Model.Route Fabio.Model.C03 Fabio.Lemmas.C03 Fabio.Props.C03

def tg (s : String) : Target := { service := s.toList, tags := [], opts := [], url := "http://a:1/".toList, fixedWeight := 0 }
def rt (h p s : String) : Route := { host := h.toList, path := p.toList, targets := [tg s] }

/-- `foo.com` {/foo/bar, /foo, /}, `*.foo.com` {/}, `*.a.foo.com` {/}, `*foo.com` {/}, host-less {/FOOBAR, /foo, /} -/
def T : Table :=
  [ ("*.foo.com".toList, [rt "*.foo.com" "/" "w1"]),
    ("foo.com".toList, [rt "foo.com" "/foo/bar" "e1", rt "foo.com" "/foo" "e2", rt "foo.com" "/" "e3"]),
    ("*foo.com".toList, [rt "*foo.com" "/" "w0"]),
    ("*.a.foo.com".toList, [rt "*.a.foo.com" "/" "w2"]),
    ([], [rt "" "/FOOBAR" "h1", rt "" "/foo" "h2", rt "" "/" "h3"]) ]

def cfg (kind : MatcherKind) (noglob : Bool) : Cfg :=
  { globMatch := globLib, pathMatch := pathMatch globLib kind, pick := fun r => r.targets.headD (tg "?"),
    globDisabled := noglob }

def answer (x : Option (Str × Route × Target)) : Option (String × String × String) :=
  x.map (fun a => (String.ofList a.1, String.ofList a.2.1.path, String.ofList a.2.2.service))

-- exact host beats `*foo.com` and `*.foo.com` would not match; longest path within the host
example : answer (Lookup (cfg .pfx false) T ⟨"FOO.com:80".toList, false, "/foo/bar/baz".toList⟩) = some ("foo.com", "/foo/bar", "e1") := by decide
-- longer suffix beats shorter: b.a.foo.com matches *.a.foo.com, *.foo.com and *foo.com
example : (matched (cfg .pfx false) T ⟨"b.a.foo.com".toList, false, "/".toList⟩).map String.ofList = ["*.a.foo.com", "*.foo.com", "*foo.com"] := by decide
example : answer (Lookup (cfg .pfx false) T ⟨"b.a.foo.com".toList, false, "/x".toList⟩) = some ("*.a.foo.com", "/", "w2") := by decide
-- host-less routes only as fallback; iprefix picks the longest path ignoring case
example : answer (Lookup (cfg .iprefix false) T ⟨"bar.com".toList, false, "/foobar".toList⟩) = some ("", "/FOOBAR", "h1") := by decide
-- host globbing disabled: upper-case request host still finds the exact key (D05 repaired); patterns do not match
example : answer (Lookup (cfg .pfx true) T ⟨"FOO.COM".toList, false, "/foo".toList⟩) = some ("foo.com", "/foo", "e2") := by decide
example : answer (Lookup (cfg .pfx true) T ⟨"a.foo.com".toList, false, "/foo".toList⟩) = some ("", "/foo", "h2") := by decide
-- the hypotheses of the theorems are satisfiable on this table
example : NoEmptyRoutes T := noEmptyRoutes_of_all T (by decide)
example : TableSorted (T.map (fun kv => (kv.1, sortRoutes kv.2))) :=
  newTable_sorted ⟨fun _ => none, fun _ => true⟩ T [] rfl
example : isGlobPat "foo.com".toList = false ∧ isGlobPat "*foo.com".toList = true ∧ isGlobPat [] = true := by decide
example : HostMatches (cfg .pfx false) T ⟨"b.a.foo.com".toList, false, "/".toList⟩ "*.a.foo.com".toList := by
  unfold HostMatches; decide
example : sortRoutes [rt "" "/foo" "a", rt "" "/FOOBAR" "b", rt "" "/" "c"] = [rt "" "/FOOBAR" "b", rt "" "/foo" "a", rt "" "/" "c"] := by decide
example : Lookup (cfg .pfx true) T ⟨"FOO.com".toList, false, "/".toList⟩ = Lookup (cfg .pfx true) T ⟨"foo.com".toList, false, "/".toList⟩ :=
  host_case_insensitive' _ _ _ _ _ _ (by decide)
example : reverseHostPort "foo.com:8443".toList = "moc.oof:8443".toList ∧ reverseHostPort ":1234".toList = "[4321:]:1234".toList := by decide

/-! the host order after the two round-4 repairs -/
-- with a port the longer key still goes first (before the repair `:` took part in the comparison)
example : hostBefore "*.*.foo.com:8080".toList "*.foo.com:8080".toList = true ∧
    hostBefore "*-*.foo.com:8080".toList "*.foo.com:8080".toList = true ∧
    hostBefore "*.*.foo.com".toList "*.foo.com:80".toList = true := by decide
-- `*` below every other character: a literal character under `*` (`!`, `$`, `&`, `'`, `(`, `)`) no longer loses
example : hostBefore "*!.foo.com".toList "*.foo.com".toList = true ∧ hostBefore "*.foo.com".toList "*!.foo.com".toList = false := by decide
example : (sortHosts ["*.foo.com:8080".toList, "*".toList, "*.*.foo.com:8080".toList, "*-eu.*.foo.com:8080".toList]).map String.ofList =
    ["*-eu.*.foo.com:8080", "*.*.foo.com:8080", "*.foo.com:8080", "*"] := by decide
-- the hypotheses of `longer_suffix_beats_shorter_partial` and of its two corollaries are satisfiable
example : hostPart "*.*.foo.com:8080".toList = "*.*".toList ++ ".foo.com".toList ∧
    hostPart "*.foo.com:8080".toList = '*' :: ".foo.com".toList ∧ portPart "*.foo.com:8080".toList = "8080".toList := by decide
def T2 : Table :=
  [ ("*.foo.com:8080".toList, [rt "*.foo.com:8080" "/" "short"]),
    ("*.*.foo.com:8080".toList, [rt "*.*.foo.com:8080" "/" "long"]) ]
example : answer (Lookup (cfg .pfx false) T2 ⟨"a.b.foo.com:8080".toList, false, "/x".toList⟩) = some ("*.*.foo.com:8080", "/", "long") := by decide
example : ∀ r tg, Lookup (cfg .pfx false) T2 ⟨"a.b.foo.com:8080".toList, false, "/x".toList⟩ ≠ some ("*.foo.com:8080".toList, r, tg) :=
  longer_suffix_beats_shorter_port (cfg .pfx false) T2 _ rfl ".foo.com".toList "*.*".toList "8080".toList (by decide)
    (by decide) (by decide) (by decide) (by unfold HostMatches; decide) (by decide)

-- recorded finding (second): the sort compares the keys as written, the match (and the specification) the keys with
-- the connection's default port removed. On a plain connection `*:80` is matched as `*`, so it matches `a:443`
-- next to `*:443`, and it is sorted in front (equal host parts, port "80" above "443"). The theorems above speak
-- about the keys as written (`hostPart`), so they do not cover the pair; the specification does.
example : (matched (cfg .pfx false) [("*:443".toList, [rt "*:443" "/" "long"]), ("*:80".toList, [rt "*:80" "/" "short"])]
    ⟨"a:443".toList, false, "/".toList⟩).map String.ofList = ["*:80", "*:443"] := by decide

/-- the excluded point of `longer_suffix_beats_shorter_partial`: `[ab].foo.com:8080` (for `net.SplitHostPort`
a bracketed host without a port: error, so the whole key is reversed, port first) against `*.foo.com:8080`
(host part `*.foo.com`). The host glob is a parameter; here: everything matches. -/
def TW : Table :=
  [ ("[ab].foo.com:8080".toList, [rt "[ab].foo.com:8080" "/" "long"]),
    ("*.foo.com:8080".toList, [rt "*.foo.com:8080" "/" "short"]) ]
def cfgW : Cfg := { globMatch := fun _ _ => true, pathMatch := pathMatch globLib .pfx, pick := fun r => r.targets.headD (tg "?") }
def reqW : Req := ⟨"a.foo.com:8080".toList, false, "/".toList⟩

example : hostPart "[ab].foo.com:8080".toList = "[ab].foo.com:8080".toList ∧ hostBefore "[ab].foo.com:8080".toList "*.foo.com:8080".toList = false := by decide

/-- **longer_suffix_full_statement_fails.** The statement without the hypothesis on the host parts is false
(recorded finding; the witness is replayed on the real code from `corpus/c03.lookup.jsonl`). -/
theorem longer_suffix_full_statement_fails :
    ¬ (∀ (cfg : Cfg) (t : Table) (req : Req), NoSkip cfg → ∀ (S Y : Str), 2 ≤ Y.length →
        HostMatches cfg t req (Y ++ S) → (look cfg t req (Y ++ S)).isSome = true →
        ∀ r tg, Lookup cfg t req ≠ some ('*' :: S, r, tg)) := by
  intro h
  exact h cfgW TW reqW rfl ".foo.com:8080".toList "[ab]".toList (by decide) (by unfold HostMatches; decide) (by decide)
    (rt "*.foo.com:8080" "/" "short") (tg "short") (by decide)

end Fabio.Props.C03.Ex
