import Fabio.Props.C09Compose
import Fabio.Props.C03
import Fabio.Props.C12
import Fabio.Props.ServeHTTP
import Fabio.Props.System
/-!
System-level composition for the **tcp+sni** path (round 4): `SNIProxy.ServeTCP` as ONE function over the route
table, with every stage being the owning property's model —

  bufio `Peek(9)` / `ReadFull` (C09) → `clientHelloBufferSize`, `readServerName` (C10) → `Table.LookupHost` (C03) →
  `Target.AccessDeniedTCP` (C12, rules as `addTarget` leaves them) → dial → optional PROXY line → hello → copy (C09).

* `sniSystem`                    — the composed model (statement order of `proxy/tcp/sni_proxy.go`: lookup, access, dial);
* `sni_tunnel_only_if`           — a connection is tunnelled ONLY IF a server name was extracted from the buffered record,
                                   `LookupHost` found a route stored under exactly that (lower-cased) name, the target's
                                   access rules admitted the peer, and then the upstream received the target's PROXY line
                                   (if any) followed by the client's stream from its first byte (`line ++ streamOf script`);
* `sni_denied_contacts_nobody`   — rules present and peer denied (or its address unknown): nothing is written upstream;
* `sni_unrouted_contacts_nobody` — no route for the extracted name: nothing is written upstream;
* `sni_system_end_to_end`        — for every well-formed ClientHello naming a routed host whose target admits the peer,
                                   every continuation and every segmentation: tunnel, lookup of exactly `sniOf h`, upstream =
                                   PROXY line ++ record ++ continuation.
-/
namespace Fabio.Props.SystemTCP
open Fabio Fabio.Model Fabio.Model.C09 Fabio.Model.C09Compose
open Fabio.Model.Route (Table Target Route)
open Fabio.Model.C10 (Hello WellFormed FitsRecord sniOf record)

/-- what the tcp+sni proxy needs of the configuration: the picker, the address parsers `ProcessAccessRules` uses,
and the PROXY header a target asks for (`[]` without `pxyproto`) -/
structure Cfg where
  pick : Route → Target
  http : ServeHTTP.Cfg                 -- only `parsers` is read: the rules are the ones the HTTP path enforces
  proxyLine : Target → Bytes

/-- the server name as the string handed to `Lookup` -/
def nameStr (nm : Bytes) : List Char := ServeHTTP.chars nm

/-- `t := p.Lookup(host); if t == nil → return; if t.AccessDeniedTCP(in) → return` -/
def gate (cfg : Cfg) (t : Table) (peer : C12.TCPPeer) (nm : Bytes) : Option Target :=
  match C03.LookupHost cfg.pick t (nameStr nm) with
  | some (_, tg) => if C12.accessDeniedTCP (ServeHTTP.rulesOf cfg.http tg) peer then none else some tg
  | none => none

/-- the bytes `io.ReadFull` returns do not depend on routing (same device as `C09Compose.sniProxy`) -/
def helloOf (script : Script) : Bytes := (sniServe codeCopySrc true [] script).hello

/-- `SNIProxy.ServeTCP` over the route table -/
def sniSystem (cfg : Cfg) (t : Table) (peer : C12.TCPPeer) (script : Script) : SniRes :=
  match (lookedUp (helloOf script)).bind (gate cfg t peer) with
  | some tg => sniServe codeCopySrc true (cfg.proxyLine tg) script
  | none => sniServe codeCopySrc false [] script

theorem hello_indep (src : CopySrc) (routed : Bool) (line : Bytes) (script : Script)
    (h : (sniServe src routed line script).stage = .tunnel ∨ (sniServe src routed line script).stage = .noRoute) :
    (sniServe src routed line script).hello = helloOf script := by
  have h1 := Fabio.Lemmas.C09Compose.sniServe_char src routed line script
  have h2 := Fabio.Lemmas.C09Compose.sniServe_char codeCopySrc true [] script
  simp only at h1 h2
  unfold helloOf
  by_cases h9 : 9 ≤ (streamOf script).length
  · cases hs : helloSize ((streamOf script).take 9) with
    | none =>
      have := (h1.2.1 h9 hs).1
      rcases h with h | h <;> rw [this] at h <;> cases h
    | some want =>
      by_cases hw : want ≤ (streamOf script).length
      · rw [((h1.2.2 h9 want hs).2 hw).1, ((h2.2.2 h9 want hs).2 hw).1]
      · have := ((h1.2.2 h9 want hs).1 (by omega)).1
        rcases h with h | h <;> rw [this] at h <;> cases h
  · have := (h1.1 (by omega)).1
    rcases h with h | h <;> rw [this] at h <;> cases h

theorem not_routed_no_tunnel (src : CopySrc) (line : Bytes) (script : Script) :
    (sniServe src false line script).stage ≠ .tunnel ∧ (sniServe src false line script).upstream = [] := by
  have h1 := Fabio.Lemmas.C09Compose.sniServe_char src false line script
  simp only at h1
  by_cases h9 : 9 ≤ (streamOf script).length
  · cases hs : helloSize ((streamOf script).take 9) with
    | none =>
      have := h1.2.1 h9 hs
      rw [this.1, this.2]; simp
    | some want =>
      by_cases hw : want ≤ (streamOf script).length
      · have := ((h1.2.2 h9 want hs).2 hw).2.1 trivial
        rw [this.1, this.2]; simp
      · have := (h1.2.2 h9 want hs).1 (by omega)
        rw [this.1, this.2]; simp
  · have := h1.1 (by omega)
    rw [this.1, this.2]; simp

/-- **sni_tunnel_only_if.** -/
theorem sni_tunnel_only_if (cfg : Cfg) (t : Table) (peer : C12.TCPPeer) (script : Script)
    (ht : (sniSystem cfg t peer script).stage = .tunnel) :
    ∃ nm ro tg, lookedUp (sniSystem cfg t peer script).hello = some nm ∧ nm ≠ [] ∧
      C03.LookupHost cfg.pick t (nameStr nm) = some (ro, tg) ∧
      ro ∈ t.get (lowerL (nameStr nm)) ∧ (tg ∈ ro.targets ∨ tg = cfg.pick ro) ∧
      C12.accessDeniedTCP (ServeHTTP.rulesOf cfg.http tg) peer = false ∧
      (sniSystem cfg t peer script).upstream = cfg.proxyLine tg ++ streamOf script := by
  cases hl : lookedUp (helloOf script) with
  | none =>
    unfold sniSystem at ht
    rw [hl] at ht
    exact absurd ht (not_routed_no_tunnel _ _ _).1
  | some nm =>
    cases hk : C03.LookupHost cfg.pick t (nameStr nm) with
    | none =>
      unfold sniSystem gate at ht
      rw [hl] at ht
      simp only [Option.bind_some, hk] at ht
      exact absurd ht (not_routed_no_tunnel _ _ _).1
    | some rt =>
      obtain ⟨ro, tg⟩ := rt
      cases hd : C12.accessDeniedTCP (ServeHTTP.rulesOf cfg.http tg) peer with
      | true =>
        unfold sniSystem gate at ht
        rw [hl] at ht
        simp only [Option.bind_some, hk, hd, if_true] at ht
        exact absurd ht (not_routed_no_tunnel _ _ _).1
      | false =>
        have hsys : sniSystem cfg t peer script = sniServe codeCopySrc true (cfg.proxyLine tg) script := by
          unfold sniSystem gate
          rw [hl]
          simp only [Option.bind_some, hk, hd, Bool.false_eq_true, if_false]
        rw [hsys] at ht ⊢
        have hne : nm ≠ [] := by
          intro e
          unfold lookedUp at hl
          split at hl
          · split at hl
            · cases hl
            · cases hl; contradiction
          · cases hl
        have hpick : tg ∈ ro.targets ∨ tg = cfg.pick ro := by
          have hk' := hk
          unfold C03.LookupHost C03.lookup at hk'
          obtain ⟨pre, post, _, _, _, _, hp⟩ := Fabio.Lemmas.C03.lookupRoutes_some hk'
          exact hp
        refine ⟨nm, ro, tg, ?_, hne, hk, (Props.C03.lookuphost_exact cfg.pick t _ hk).1, hpick, hd, ?_⟩
        · rw [hello_indep _ _ _ _ (Or.inl ht)]; exact hl
        · exact Props.C09.upstream_prefix_sni_code _ script true ht

/-- rules present and the peer denied: nothing reaches any upstream -/
theorem sni_denied_contacts_nobody (cfg : Cfg) (t : Table) (peer : C12.TCPPeer) (script : Script)
    (hden : ∀ nm ro tg, C03.LookupHost cfg.pick t (nameStr nm) = some (ro, tg) →
      C12.accessDeniedTCP (ServeHTTP.rulesOf cfg.http tg) peer = true) :
    (sniSystem cfg t peer script).stage ≠ .tunnel ∧ (sniSystem cfg t peer script).upstream = [] := by
  unfold sniSystem
  cases hl : lookedUp (helloOf script) with
  | none => simpa using not_routed_no_tunnel codeCopySrc [] script
  | some nm =>
    simp only [Option.bind_some]
    unfold gate
    cases hk : C03.LookupHost cfg.pick t (nameStr nm) with
    | none => simpa using not_routed_no_tunnel codeCopySrc [] script
    | some rt =>
      obtain ⟨ro, tg⟩ := rt
      simp only [hden nm ro tg hk, if_true]
      exact not_routed_no_tunnel codeCopySrc [] script

/-- no route for any name: nothing reaches any upstream -/
theorem sni_unrouted_contacts_nobody (cfg : Cfg) (t : Table) (peer : C12.TCPPeer) (script : Script)
    (hno : ∀ nm, C03.LookupHost cfg.pick t (nameStr nm) = none) :
    (sniSystem cfg t peer script).stage ≠ .tunnel ∧ (sniSystem cfg t peer script).upstream = [] := by
  unfold sniSystem
  cases hl : lookedUp (helloOf script) with
  | none => simpa using not_routed_no_tunnel codeCopySrc [] script
  | some nm =>
    simp only [Option.bind_some]
    unfold gate
    rw [hno nm]
    exact not_routed_no_tunnel codeCopySrc [] script

/-- **sni_system_end_to_end.** Every well-formed ClientHello `h` that fits a record and names a host for which the
table has a route whose target admits the peer; every continuation `s`; every script carrying `record h ++ s`
(any segmentation, any ending): the connection is tunnelled to that target, the name looked up is exactly
`sniOf h`, and the upstream receives the target's PROXY line (if any), the record, the continuation. -/
theorem sni_system_end_to_end (cfg : Cfg) (t : Table) (peer : C12.TCPPeer)
    (vMaj vMin : UInt8) (h : Hello) (hw : WellFormed h) (hf : FitsRecord h) (hne : sniOf h ≠ [])
    (ro : Route) (tg : Target) (hk : C03.LookupHost cfg.pick t (nameStr (sniOf h)) = some (ro, tg))
    (hadm : C12.accessDeniedTCP (ServeHTTP.rulesOf cfg.http tg) peer = false)
    (s : Bytes) (script : Script) (hs : streamOf script = record vMaj vMin h ++ s) :
    let r := sniSystem cfg t peer script
    r.stage = .tunnel ∧ r.hello = record vMaj vMin h ∧ lookedUp r.hello = some (sniOf h) ∧
      r.upstream = cfg.proxyLine tg ++ record vMaj vMin h ++ s := by
  -- the abstract-table theorem with the table that says yes to exactly this name
  have he := Props.C09Compose.sni_end_to_end vMaj vMin h hw hf (fun _ => true) hne rfl (cfg.proxyLine tg) s script hs
  have he0 := Props.C09Compose.sni_end_to_end vMaj vMin h hw hf (fun _ => true) hne rfl [] s script hs
  simp only at he he0
  have hprox : ∀ line, sniProxy codeCopySrc (fun _ => true) line script = sniServe codeCopySrc true line script := by
    intro line
    have hx := Props.C09Compose.sni_end_to_end vMaj vMin h hw hf (fun _ => true) hne rfl line s script hs
    simp only at hx
    unfold sniProxy routedBy
    have hh : (sniServe codeCopySrc true line script).hello = record vMaj vMin h := by
      have := hello_indep codeCopySrc true line script (Or.inl (by
        have h1 := Fabio.Lemmas.C09Compose.sniServe_char codeCopySrc true line script
        simp only at h1
        have h9 : 9 ≤ (streamOf script).length := by
          rw [hs, List.length_append, Fabio.Lemmas.C10.record_length vMaj vMin h]; omega
        have hsz : helloSize ((streamOf script).take 9) = some (record vMaj vMin h).length := by
          rw [Props.C09Compose.size_agrees, hs]; unfold sizeC10
          rw [Fabio.Props.C10.bufsize_exact vMaj vMin h hf s]
        exact ((h1.2.2 h9 _ hsz).2 (by rw [hs, List.length_append]; omega)).2.2 trivial))
      rw [this]
      have h0 := he0.2.1
      unfold sniProxy routedBy at h0
      -- helloOf script is the hello of the run with routed = true and no line
      unfold helloOf
      have hl0 : lookedUp (sniServe codeCopySrc true [] script).hello = some (sniOf h) → True := fun _ => trivial
      clear hl0
      -- evaluate the inner `routedBy` of `he0`
      cases hlk : lookedUp (sniServe codeCopySrc true [] script).hello with
      | none =>
        rw [hlk] at h0
        simp only at h0
        exact absurd (he0.1) (by
          unfold sniProxy routedBy
          rw [hlk]
          exact (not_routed_no_tunnel codeCopySrc [] script).1)
      | some nm =>
        rw [hlk] at h0
        simpa using h0
    rw [hh]
    have : lookedUp (record vMaj vMin h) = some (sniOf h) := by
      have := hx.2.2.1
      rw [hx.2.1] at this
      exact this
    rw [this]
  have hhello : helloOf script = record vMaj vMin h := by
    unfold helloOf
    rw [← hprox []]
    exact he0.2.1
  have hlook : lookedUp (record vMaj vMin h) = some (sniOf h) := by
    have := he0.2.2.1
    rw [he0.2.1] at this
    exact this
  simp only
  unfold sniSystem
  rw [hhello, hlook]
  simp only [Option.bind_some]
  unfold gate
  rw [hk]
  simp only [hadm, Bool.false_eq_true, if_false]
  rw [← hprox (cfg.proxyLine tg)]
  exact ⟨he.1, he.2.1, he.2.2.1, he.2.2.2.2⟩

/-! ### … and behind the registry pipeline (C01 ∘ C14 ∘ C05): only healthy instances are dialled -/
section
open Fabio.Model.Route (Env)
open Fabio.Model.C05Spec (key newTarget)
open Fabio.Model.C01 Fabio.Model.C01Compose Fabio.Props.C01Compose
open Fabio.Model.C14 (intents wantDef)
open Fabio.Model.Parse (loadTable ParseFloat)
open Fabio.Lemmas.C14 (core)
variable (env : Env) (pf : ParseFloat) (ccfg : Fabio.Model.C14.Cfg) (st : List (List Char)) (strict : Bool)
variable (checks : List Check) (catalog : List Char → List Instance)

/-- **sni_tunnelled_only_to_eligible_instance.** On the service table of registry state R: a tcp+sni connection is
tunnelled only to a target that is the `route add` of a routing tag of an instance eligible (healthy) in R, stored
under the server name the client sent (lower-cased), whose access rules admitted the peer. -/
theorem sni_tunnelled_only_to_eligible_instance (wf : WellFormed ccfg checks catalog) (t : Table)
    (hload : loadTable env pf (svcText env pf ccfg st strict checks catalog) = .ok t)
    (cfg : Cfg) (hpick : Props.C03.PickOK cfg.pick) (peer : C12.TCPPeer) (script : Script)
    (ht : (sniSystem cfg t peer script).stage = .tunnel) :
    ∃ nm ro tg, lookedUp (sniSystem cfg t peer script).hello = some nm ∧
      C03.LookupHost cfg.pick t (nameStr nm) = some (ro, tg) ∧
      C12.accessDeniedTCP (ServeHTTP.rulesOf cfg.http tg) peer = false ∧
      (sniSystem cfg t peer script).upstream = cfg.proxyLine tg ++ streamOf script ∧
      ∃ i, Eligible st strict checks catalog i ∧
        ∃ it ∈ intents ccfg (regOf i), ∃ d u, wantDef pf it = some d ∧ env.normURL d.dst = some u ∧
          key d.src = (lowerL (nameStr nm), ro.path) ∧ core tg = core (newTarget d u) := by
  obtain ⟨nm, ro, tg, hl, _, hk, hro, hpk, hadm, hup⟩ := sni_tunnel_only_if cfg t peer script ht
  have hinv := Props.System.inv_of_loadTable hload
  have hne : ro.targets ≠ [] := by
    rcases Fabio.Lemmas.C05Add.get_mem_or_nil t (lowerL (nameStr nm)) with h0 | hm
    · rw [h0] at hro; cases hro
    · exact (hinv.noEmpty _ hm).2 ro hro
  have htg : tg ∈ ro.targets := by
    rcases hpk with h | h
    · exact h
    · rw [h]; exact hpick ro hne
  have hin := Props.System.selected_target_in_abs hinv hro htg
  obtain ⟨i, he, it, hit, d, u, hw, hu, hkey, hc⟩ :=
    table_sound env pf ccfg st strict checks catalog wf t hload (lowerL (nameStr nm)) ro.path tg hin
  exact ⟨nm, ro, tg, hl, hk, hadm, hup, i, he, it, hit, d, u, hw, hu, hkey, hc⟩

end

/-! ### non-vacuity: C10's `exHello` ("example.com") against a table with an allow rule -/
namespace Demo
open Fabio.Props.C10 (exHello exName)

def tgW : Target :=
  { service := "tls".toList, tags := [], opts := [("allow".toList, "ip:10.0.0.0/8".toList), ("pxyproto".toList, "true".toList)],
    url := "tcp://10.9.9.9:443".toList, fixedWeight := 0 }

def tableW : Table := [("example.com".toList, [{ host := "example.com".toList, path := "/".toList, targets := [tgW] }])]

def cfgW : Cfg :=
  { pick := fun r => match r.targets with | x :: _ => x | [] => tgW,
    http := Props.ServeHTTP.Demo.cfg,
    proxyLine := fun tg => if (tg.opts.lookup "pxyproto".toList) = some "true".toList then "PROXY TCP4 10.1.2.3 10.0.0.1 5555 443\r\n".toUTF8.toList else [] }

def inside : C12.TCPPeer := .addr (C12.Parse.goParsers.parseIP "10.1.2.3".toList)
def outside : C12.TCPPeer := .addr (C12.Parse.goParsers.parseIP "192.168.0.7".toList)

/-- hello split across two segments, trailing bytes with its tail: admitted peer ⇒ tunnel with PROXY line, hello, rest -/
example :
    let rec_ := record 3 1 exHello
    let script : Script := [.chunk (rec_.take 40), .chunk (rec_.drop 40 ++ [0xAA, 0xBB]), .chunk [0xCC], .eof]
    (sniSystem cfgW tableW inside script).stage = .tunnel ∧
    (sniSystem cfgW tableW inside script).upstream = cfgW.proxyLine tgW ++ rec_ ++ [0xAA, 0xBB, 0xCC] := by
  decide +kernel

/-- the same hello from a peer outside the allow block: nothing is written upstream -/
example : (sniSystem cfgW tableW outside [.chunk (record 3 1 exHello ++ [7, 8]), .chunk [9]]).stage = .noRoute ∧
    (sniSystem cfgW tableW outside [.chunk (record 3 1 exHello ++ [7, 8]), .chunk [9]]).upstream = [] := by
  decide +kernel

/-- the hypotheses of `sni_system_end_to_end` hold here -/
example : WellFormed exHello ∧ FitsRecord exHello ∧ sniOf exHello ≠ [] ∧
    (C03.LookupHost cfgW.pick tableW (nameStr (sniOf exHello))).isSome = true ∧
    C12.accessDeniedTCP (ServeHTTP.rulesOf cfgW.http tgW) inside = false ∧
    C12.accessDeniedTCP (ServeHTTP.rulesOf cfgW.http tgW) outside = true := by
  refine ⟨by decide +kernel, by decide +kernel, by decide +kernel, by decide +kernel, by decide +kernel, by decide +kernel⟩

end Demo

end Fabio.Props.SystemTCP
