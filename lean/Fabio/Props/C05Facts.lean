import Fabio.Generated.C05
import Fabio.Model.Parse
/-!
C05 — OBLIGATIONS over the facts regenerated from `/repo` on every run (`tools/factgen/c05.go`): statements the
proof chain needs and that no correspondence stream can establish by running the code. Each names the breaking
change it is there to exclude. Everything that merely pins the shape of sequential code whose input/output
behaviour a stream compares with the model on every run lives in `C05Pins.lean` (change detectors).

The table commands, the rendering, `ParseAliases`, the option handling and the admin endpoint are sequential,
deterministic code driven in-process by the six streams: nothing about them is an obligation. Two things remain.
-/
namespace Fabio.Props.C05Facts
open Fabio Fabio.Generated.C05 Fabio.Model.Parse

/-- The regular expressions the tokenizer of `Model/Parse.lean` re-expresses, one per tokenizer function:
`isComment`, `isBlank`, the three dispatch heads (`head kAdd|kDel|kWeight`), `matchAdd`, `matchDel`,
`matchDelSvcTags`, `matchDelTags`, `matchWeightSvc`, `matchWeightSrc` (flexible-space replacement applied). The
argument that Go's leftmost-first backtracking has at most one successful path on them — every `\s+`/`\S+` is
followed by something of the other class, every optional group starts with `\s+` and a distinct keyword — was made
for exactly these sources. -/
def grammarSources : List String :=
  ["match:^(#|//)", "match:^\\s*$",
   "match:^route\\s+add", "match:^route\\s+del", "match:^route\\s+weight",
   "find:^route\\s+add\\s+(\\S+)\\s+(\\S+)\\s+(\\S+)(\\s+weight\\s+(\\S+))?(\\s+tags\\s+\"([^\"]*)\")?(\\s+opts\\s+\"([^\"]*)\")?$",
   "find:^route\\s+del\\s+(\\S+)(\\s+(\\S+)(\\s+(\\S+))?)?$",
   "find:^route\\s+del\\s+(\\S+)\\s+tags\\s+\"([^\"]*)\"$",
   "find:^route\\s+del\\s+tags\\s+\"([^\"]*)\"$",
   "find:^route\\s+weight\\s+(\\S+)\\s+(\\S+)\\s+weight\\s+(\\S+)(\\s+tags\\s+\"([^\"]*)\")?$",
   "find:^route\\s+weight\\s+(\\S+)\\s+weight\\s+(\\S+)\\s+tags\\s+\"([^\"]*)\"$"]

/-- `Parse` (the three command parsers followed, the compile helper evaluated) consults exactly the regular
expressions the tokenizer stands for — as a set; the order in which they are tried is a change detector.
Excludes: an edit to a regular expression. A regular expression denotes an infinite language of which the
streams see a sample: `[^"]*` → `.*?`, `(\S+)` → `([^\s"]+)` for one token, `\s+` → `\s*` before a keyword differ
from the pinned sources only on lines (a quote inside a token, a token that ends in a keyword) the generators
draw rarely or never, and the equivalence argument above would no longer be about the code. -/
theorem grammar_regexes_pinned :
    regexSources.all (grammarSources.contains ·) = true ∧ grammarSources.all (regexSources.contains ·) = true := by
  decide

/-- `Parse` carries no state from line to line: at most three variables live across iterations (the current
definition, the line counter, the scanner — besides the named results), the only `continue` is guarded by the
comment / blank-line regular expressions alone, and at most one `append` exists (the line's definition to the
result). This is what `parseLines` (a map over the lines) assumes.
Excludes: any memory of earlier lines — seeded change m2 skipped a `route add` line byte-identical to an earlier one
("add is idempotent"), which is wrong only after an intervening `del`/`weight` of that target, a coincidence the
streams did not draw until a generator class was built for it; the next such state may key on something else. -/
theorem parse_stateless :
    parseLoopCarriedVars ≤ 3 ∧ parseContinues ≤ 1 ∧
    parseContinueGuards.all (["g.MatchString(_) || g.MatchString(_)"].contains ·) = true ∧
    parseAppends.length ≤ 1 := by decide

end Fabio.Props.C05Facts
