import Fabio.Generated.C05
import Fabio.Model.Parse
/-!
C05 — obligations over the facts regenerated from `/repo` on every run.

The facts pin meaning, not spelling (see the header of `tools/factgen/c05.go`): functions are found by role from
the exported entry points, bodies are walked with calls into unexported helpers followed, expressions are
printed as shapes (`_` = any local/parameter/receiver, `ƒ` = an unexported same-package callee, `g` = a
package-level variable), constants are inlined and `switch` is an if-chain. Renaming locals or unexported
functions, extracting/inlining helpers, if/else ↔ switch, named constants and `Replace(…, -1)` ↔ `ReplaceAll`
leave every fact unchanged.
-/
namespace Fabio.Props.C05Facts
open Fabio Fabio.Generated.C05 Fabio.Model.Parse

/-- closes conjunctions of closed equalities between literals -/
syntax "pin" : tactic
macro_rules | `(tactic| pin) => `(tactic| first | rfl | (apply And.intro <;> pin))

/-! ### the command language -/

/-- The regular expressions `Parse` consults, in order, with the calls into the three command parsers followed
and the flexible-space replacement applied: comment, blank, `route add` (then `reAdd`), `route del` (then the
service+tags, tags-only, plain forms in that order), `route weight` (then the service form, then the source
form). These are the strings the tokenizer of `Model/Parse.lean` was validated for (stream `c05.line`), and the
order is the order of `parseLine` / `parseRouteDel` / `parseRouteWeight`. -/
theorem regex_events : regexEvents =
    ["match:^(#|//)", "match:^\\s*$",
     "match:^route\\s+add",
     "find:^route\\s+add\\s+(\\S+)\\s+(\\S+)\\s+(\\S+)(\\s+weight\\s+(\\S+))?(\\s+tags\\s+\"([^\"]*)\")?(\\s+opts\\s+\"([^\"]*)\")?$",
     "match:^route\\s+del",
     "find:^route\\s+del\\s+(\\S+)\\s+tags\\s+\"([^\"]*)\"$",
     "find:^route\\s+del\\s+tags\\s+\"([^\"]*)\"$",
     "find:^route\\s+del\\s+(\\S+)(\\s+(\\S+)(\\s+(\\S+))?)?$",
     "match:^route\\s+weight",
     "find:^route\\s+weight\\s+(\\S+)\\s+(\\S+)\\s+weight\\s+(\\S+)(\\s+tags\\s+\"([^\"]*)\")?$",
     "find:^route\\s+weight\\s+(\\S+)\\s+weight\\s+(\\S+)\\s+tags\\s+\"([^\"]*)\"$"] := by pin

/-- the keywords of the tokenizer are the literals of the pinned regexes -/
theorem keywords : kRoute = "route".toList ∧ kAdd = "add".toList ∧ kDel = "del".toList ∧
    kWeight = "weight".toList ∧ kTags = "tags".toList ∧ kOpts = "opts".toList := by decide

/-- the string functions reached from `Parse` (set): `TrimSpace` for the line and the tags, `Split` on `,`,
`Fields` and `SplitN(·, "=", 2)` for the options, `ParseFloat(·, 64)` for the weight -/
theorem parse_lib_calls : parseLibCalls =
    ["strconv.ParseFloat(_, 64)", "strings.Fields(_)", "strings.Split(_, \",\")", "strings.SplitN(_, \"=\", 2)",
     "strings.TrimSpace(_)"] := by pin

/-- `Parse` trims each line once, reads with a default `bufio.Scanner` (64 KiB tokens, `Model.Parse.maxToken`) and
reports the scanner's error (D29 repaired). -/
theorem scanner_facts :
    parseUsesNewScanner = true ∧ parseTrimsSpace = true ∧ parseSetsScannerBuffer = false ∧
    parseChecksScannerErr = true ∧ maxScanTokenSize = maxToken := by pin

/-- `Parse` is stateless from line to line: three variables live across iterations (the current definition, the
line counter, the scanner — besides the named results), the only `continue` is the one guarded by the comment /
blank-line regexes, and the only `append` adds the line's definition to the result. -/
theorem parse_stateless :
    parseLoopCarriedVars = 3 ∧ parseContinues = 1 ∧
    parseContinueGuards = ["g.MatchString(_) || g.MatchString(_)"] ∧ parseAppends = ["append(_, _)"] := by pin

/-! ### table commands (handlers found from `NewTable` by the command they serve) -/

/-- all three commands lower-case the host somewhere on their path (D04 repaired); `NewTable` sorts at the end -/
theorem hosts_lowered : addLowersHost = true ∧ delLowersHost = true ∧ weightLowersHost = true ∧ newTableSorts = true := by pin

theorem hostpath_shape :
    hostpathCalls = ["strings.HasPrefix(_, \":\")", "strings.SplitN(_, \"/\", 2)"] := by pin

/-- the four forms of `route del`, what each removes, and that hosts are deleted from the table -/
theorem del_shape :
    delCases = ["len(_.Tags) > 0", "_.Src == \"\" && _.Dst == \"\"", "_.Dst == \"\""] ∧
    delPredicates = ["(_.Service == \"\" || _.Service == _.Service) && ƒ(_.Tags, _.Tags)",
      "_.Service == _.Service", "_.Service == _.Service",
      "_.Service == _.Service && _.URL.String() == _.String()"] ∧
    delDeletesHosts = true := by pin

/-- `route add`: negative weights are clamped, then the de-duplication on service, URL string, fixed weight, tags -/
theorem add_shape :
    addClampAndDedup = ["_ < 0",
      "_.Service == _ && _.URL.String() == _.String() && _.FixedWeight == _ && reflect.DeepEqual(_.Tags, _)"] := by pin

/-- `route weight`: which targets match, and the share is divided by their number -/
theorem weight_shape :
    weightMatchConds = ["_ != \"\" && _.Service != _", "len(_) > 0 && !ƒ(_.Tags, _)"] ∧
    weightDividesByMatches = true := by pin

/-- `Routes.Less(i, j)`: lower-cased paths descending (`v0` = lower path of `i`, `v1` = of `j`), ties by the raw
path descending — `Model.Route.pathLt` -/
theorem less_shape : lessEvents =
    ["v0, v1 := strings.ToLower(recv[p0].Path), strings.ToLower(recv[p1].Path)", "if v0 != v1",
     "return v1 < v0", "return recv[p1].Path < recv[p0].Path"] := by pin

/-! ### rendering -/

/-- `TargetConfig`: `%.4f` for the fixed weight when it is > 0, plain quotes for tags (D07 repaired) and options,
keys sorted -/
theorem targetConfig_shape :
    targetConfigFormats = ["route add %s %s %s", " weight %2.4f", " weight %.4f", " tags \"%s\"", " opts \"%s\""] ∧
    targetConfigGuards = ["_", "_.FixedWeight > 0", "len(_.Tags) > 0", "len(_.Opts) > 0"] ∧
    targetConfigSortsKeys = true := by pin

/-- `Table.String()`: hosts in reverse order, lines joined by `\n`, rendered without effective weights
(`false`), targets without traffic share left out only in the weighted display -/
theorem string_shape :
    tableStringJoins = ["strings.Join(_.ƒ(false), \"\\n\")"] ∧
    tableStringSorts = ["sort.Sort(sort.Reverse(sort.StringSlice(_)))"] ∧
    tableStringSkips = ["_ && _.Weight <= 0"] := by pin

end Fabio.Props.C05Facts
