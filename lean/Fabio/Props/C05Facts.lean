import Fabio.Generated.C05
import Fabio.Model.Parse
/-!
C05 — obligations over the facts regenerated from `/repo` on every run: the regex sources the tokenizer of
`Model/Parse.lean` was validated for (stream `c05.line`), the order in which the parsers try them, the
flexible-space replacement, and the constants / call shapes the table and rendering models mirror.
-/
namespace Fabio.Props.C05Facts
open Fabio Fabio.Generated.C05 Fabio.Model.Parse

/-- closes conjunctions of closed equalities between literals -/
syntax "pin" : tactic
macro_rules | `(tactic| pin) => `(tactic| first | rfl | (apply And.intro <;> pin))

/-- `strings.Replace(re, from, to, -1)` for a one-character `from` -/
def flex (from_ : Char) (to : List Char) (re : String) : String :=
  String.ofList (re.toList.flatMap (fun c => if c == from_ then to else [c]))

/-! ### the dispatch regexes of `Parse` and their order -/

theorem dispatch_regexes :
    reComment = "^(#|//)" ∧ reBlankLine = "^\\s*$" ∧ reRouteAdd = "^route\\s+add" ∧
    reRouteDel = "^route\\s+del" ∧ reRouteWeight = "^route\\s+weight" := by pin

theorem dispatch_order :
    parseDispatch = ["reComment", "reBlankLine", "reRouteAdd", "reRouteDel", "reRouteWeight"] := by pin

/-- `Parse` trims each line with `strings.TrimSpace`, uses the default scanner buffer (64 KiB tokens) and
reports the scanner's error (D29 repaired) — `Model.Parse.maxToken` is that limit. -/
theorem scanner_facts :
    parseTrimsSpace = true ∧ parseSetsScannerBuffer = false ∧ parseChecksScannerErr = true ∧
    maxScanTokenSize = maxToken := by pin

/-- `Parse` is stateless from line to line: the only things it assigns are the current definition, its error,
the trimmed line, the line counter, the scanner and the result list; the only `continue` is the one for
comments/blank lines; every other line appends exactly one definition; nothing is allocated to remember
earlier lines. (`Model.Parse.parseLines` maps each line independently.) -/
theorem parse_stateless :
    parseAssigned = ["def", "defs", "err", "i", "result", "scanner"] ∧
    parseContinues = 1 ∧ parseAllocations = 0 ∧ parseAppends = ["append(defs, def)"] := by pin

/-! ### the grammars: flexible space, sources, order of attempts -/

theorem flexible_space : flexFrom = " " ∧ flexTo = "\\s+" ∧ flexCount = "-1" ∧ flexCompiles = 1 := by pin

theorem reAdd_pinned : flex ' ' flexTo.toList reAdd =
    "^route\\s+add\\s+(\\S+)\\s+(\\S+)\\s+(\\S+)(\\s+weight\\s+(\\S+))?(\\s+tags\\s+\"([^\"]*)\")?(\\s+opts\\s+\"([^\"]*)\")?$" := by decide

theorem reDelSvcTags_pinned : flex ' ' flexTo.toList reDelSvcTags =
    "^route\\s+del\\s+(\\S+)\\s+tags\\s+\"([^\"]*)\"$" := by decide

theorem reDelTags_pinned : flex ' ' flexTo.toList reDelTags = "^route\\s+del\\s+tags\\s+\"([^\"]*)\"$" := by pin

theorem reDel_pinned : flex ' ' flexTo.toList reDel = "^route\\s+del\\s+(\\S+)(\\s+(\\S+)(\\s+(\\S+))?)?$" := by pin

theorem reWeightSvc_pinned : flex ' ' flexTo.toList reWeightSvc =
    "^route\\s+weight\\s+(\\S+)\\s+(\\S+)\\s+weight\\s+(\\S+)(\\s+tags\\s+\"([^\"]*)\")?$" := by decide

theorem reWeightSrc_pinned : flex ' ' flexTo.toList reWeightSrc =
    "^route\\s+weight\\s+(\\S+)\\s+weight\\s+(\\S+)\\s+tags\\s+\"([^\"]*)\"$" := by decide

/-- `parseRouteAdd` uses `reAdd`; `parseRouteDel` tries `reDelSvcTags`, `reDelTags`, `reDel` in that order;
`parseRouteWeight` tries `reWeightSvc`, then `reWeightSrc` — as `Model.Parse.parseRouteDel/Weight` do. -/
theorem try_order :
    addTries = ["reAdd"] ∧ delTries = ["reDelSvcTags", "reDelTags", "reDel"] ∧
    weightTries = ["reWeightSvc", "reWeightSrc"] := by pin

/-- the keywords of the tokenizer are the literals of the pinned regexes -/
theorem keywords : kRoute = "route".toList ∧ kAdd = "add".toList ∧ kDel = "del".toList ∧
    kWeight = "weight".toList ∧ kTags = "tags".toList ∧ kOpts = "opts".toList := by pin

theorem helpers_pinned :
    parseTagsCalls = ["strings.Split(s, \",\")", "strings.TrimSpace(t)"] ∧
    parseOptsCalls = ["strings.Fields(s)", "strings.SplitN(f, \"=\", 2)"] ∧
    parseWeightCalls = ["strconv.ParseFloat(s, 64)"] := by pin

/-! ### table commands -/

/-- all three commands lower-case the host (`del` through `Table.route`): D04 repaired -/
theorem hosts_lowered :
    addRouteLowersHost = true ∧ weighRouteLowersHost = true ∧ routeLowersHost = true ∧
    delRouteLookups = ["t.route(hostpath(d.Src))", "t.route(hostpath(d.Src))"] := by pin

theorem hostpath_shape :
    hostpathCalls = ["strings.HasPrefix(prefix, \":\")", "strings.SplitN(prefix, \"/\", 2)"] := by pin

/-- the four forms of `delRoute` and what each removes -/
theorem delRoute_shape :
    delRouteCases = ["len(d.Tags) > 0", "d.Src == \"\" && d.Dst == \"\"", "d.Dst == \"\"", "default"] ∧
    delRoutePredicates = ["(d.Service == \"\" || tg.Service == d.Service) && contains(tg.Tags, d.Tags)",
      "tg.Service == d.Service", "tg.Service == d.Service",
      "tg.Service == d.Service && tg.URL.String() == targetURL.String()"] := by pin

/-- `addTarget`: clamp of negative weights, de-duplication on service, URL string, fixed weight, tags -/
theorem addTarget_shape :
    addTargetFirstConds = ["fixedWeight < 0",
      "t.Service == service && t.URL.String() == targetURL.String() && t.FixedWeight == fixedWeight && reflect.DeepEqual(t.Tags, tags)"] := by pin

theorem setWeight_shape :
    setWeightConds = ["service != \"\" && t.Service != service", "len(tags) > 0 && !contains(t.Tags, tags)", "n > 0"] ∧
    setWeightDivisions = ["weight / float64(n)"] := by pin

/-- `Routes.Less`: lower-cased paths descending, ties by the raw path descending (`Model.Route.pathLt`) -/
theorem less_shape : lessReturns = ["lj < li", "rt[j].Path < rt[i].Path"] := by pin

/-! ### rendering -/

/-- `TargetConfig`: `%.4f` for the fixed weight, plain quotes for tags (D07 repaired) and options, keys sorted -/
theorem targetConfig_formats :
    targetConfigFormats = ["route add %s %s %s", " weight %2.4f", " weight %.4f", " tags \"%s\"", " opts \"%s\""] ∧
    targetConfigSorts = ["sort.Strings(keys)"] := by pin

/-- `Route.config` leaves out targets without traffic share only in the weighted display, never in `String()` -/
theorem config_shape :
    routeConfigSkips = ["addWeight && t.Weight <= 0"] ∧
    tableConfigSorts = ["sort.Sort(sort.Reverse(sort.StringSlice(hosts)))"] ∧
    tableStringJoins = ["strings.Join(t.config(false), \"\\n\")"] := by pin

end Fabio.Props.C05Facts
