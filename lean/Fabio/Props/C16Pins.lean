import Fabio.Generated.C16
import Fabio.Model.C16
/-!
CHANGE DETECTORS for C16 (`"pins_module"` in checks/C16.json): the shape of sequential, deterministic code whose
input/output behaviour a correspondence stream compares with the model on every run. When one of these stops
building nothing is claimed broken — the streams run at the widened budget and decide. Each names the stream
that carries the tie. The lists are *event lists in role names* (header of `tools/factgen/c16.go`): normalised
source, unexported helpers followed, variables named by role (`recv`, `p<i>`, `c<i>`, `looked`, `<callee>#<i>`,
`lit#T`, `made#T`, `rk/rv<n>`), `[g₁ && g₂] e` = event e under the conditions g₁, g₂.
-/
namespace Fabio.Props.C16Pins
open Fabio Fabio.Generated.C16

/-- the metadata key and the alternatives of `getDestinationHostFromMetadata` — `c16.call` (`dsthost` absent,
once, twice, empty, in other spellings; the model's `dstHost` selects among the table's answers) -/
theorem dsthost_key_pinned :
    dsthostKey.toList = Model.C16.dsthostKey ∧
    dsthostResults = ["[!(len(p0[\"dsthost\"]) == 1)] ret \"\"", "[len(p0[\"dsthost\"]) == 1] ret p0[\"dsthost\"][0]"] := ⟨by decide, rfl⟩

/-- the request built for the lookup and where its parts come from — `c16.call` (routing oracle per host) -/
theorem lookup_request_pinned :
    lookupRequest = ["lit http.Request {Header=_; Host=recv.getDestinationHostFromMetadata(FromIncomingContext#0); URL=ParseRequestURI#0}", "lit http.Request {Header=_}}"] ∧
    lookupInputs = ["call metadata.FromIncomingContext(p1.Context())", "call url.ParseRequestURI(p2.FullMethod)", "call metadata.FromIncomingContext(p1.Context())"] := ⟨rfl, rfl⟩

/-- the whole flow of `Stream` with guards, statuses and messages — `c16.call` (NotFound / Internal / forward),
`c16.serve` (access gate), C12's `c12.grpc` (auth gate); the order relation the proofs need is the obligation
`C16Facts.stream_gates_precede_the_handler` -/
theorem lookup_calls_table_lookup_once :
    streamFlow = ["call route.GetTable().Lookup(lit#http.Request, lit#http.Request.Header.Get(\"trace\"), route.Picker[recv.Config.Proxy.Strategy], route.Matcher[recv.Config.Proxy.Matcher], recv.GlobCache, recv.Config.GlobMatchingDisabled)", "[lookedErr != nil] ret status.Error(codes.Internal, \"internal error\")", "[!(lookedErr != nil) && looked == nil] ret status.Error(codes.NotFound, \"no route found\")", "[!(lookedErr != nil) && !(looked == nil) && looked.AccessDeniedAddr(remote)] ret status.Error(codes.PermissionDenied, \"access denied\")", "[!(lookedErr != nil) && !(looked == nil) && !(looked.AccessDeniedAddr(remote)) && looked.AuthScheme != \"\" && !looked.Authorized(lit#http.Request, nopResponseWriter{http.Header{}}, recv.AuthSchemes)] ret status.Error(codes.Unauthenticated, \"unauthorized\")", "[!(lookedErr != nil) && !(looked == nil) && !(looked.AccessDeniedAddr(remote))] call p3"] := rfl

theorem nil_target_returns_notfound_before_handler :
    streamHandlerCalls = 1 ∧ streamFlow.length = 6 := by decide

/-- the director's calls (metadata copied, pool asked with the context's target) and the pool key — `c16.call`
(metadata arrives unchanged), `c16.pool` (one address under several paths and schemes = several keys) -/
theorem director_copies_metadata_and_uses_pool :
    directorCalls = ["call metadata.FromIncomingContext(c0)", "call FromIncomingContext#0.Copy()", "call metadata.NewOutgoingContext(c0, FromIncomingContext#0.Copy())", "call c0.Value(key{})", "call made#*grpcConnectionPool.Get(metadata.NewOutgoingContext(c0, FromIncomingContext#0.Copy()), c0.Value(key{}).(*route.Target))"] ∧
    targetKeyReturns = ["ret p0.URL.String()"] := ⟨rfl, rfl⟩

/-- `Get` — `c16.pool` (hit / miss / dial error with connection ids); an edit that makes `Get` dial although a
live connection is pooled is invisible to callers (the repaired `Set` closes the newcomer and hands back the
pooled one): a change detector is all there can be -/
theorem pool_get_shape :
    poolGet = ["call recv.lock.RLock()", "call recv.lock.RUnlock()", "call recv.connections[makeGRPCTargetKey(p1)].GetState()", "[recv.connections[makeGRPCTargetKey(p1)] != nil && recv.connections[makeGRPCTargetKey(p1)].GetState() != connectivity.Shutdown] ret recv.connections[makeGRPCTargetKey(p1)], nil", "[!(recv.connections[makeGRPCTargetKey(p1)] != nil && recv.connections[makeGRPCTargetKey(p1)].GetState() != connectivity.Shutdown)] call grpc.DialContext(p0, p1.URL.Host)", "[!(recv.connections[makeGRPCTargetKey(p1)] != nil && recv.connections[makeGRPCTargetKey(p1)].GetState() != connectivity.Shutdown) && DialContext#1 == nil] call recv.Set(p1, DialContext#0)", "[!(recv.connections[makeGRPCTargetKey(p1)] != nil && recv.connections[makeGRPCTargetKey(p1)].GetState() != connectivity.Shutdown)] ret recv.Set(p1, DialContext#0), DialContext#1", "[!(recv.connections[makeGRPCTargetKey(p1)] != nil && recv.connections[makeGRPCTargetKey(p1)].GetState() != connectivity.Shutdown)] ret <inlined>"] := rfl

/-- `Set` — `c16.race` (2–8 concurrent first callers: one shared connection, nothing left open) -/
theorem pool_set_shape :
    poolSet = ["call recv.lock.Lock()", "defer recv.lock.Unlock()", "call recv.connections[makeGRPCTargetKey(p0)].GetState()", "[recv.connections[makeGRPCTargetKey(p0)] != nil && recv.connections[makeGRPCTargetKey(p0)] != p1 && recv.connections[makeGRPCTargetKey(p0)].GetState() != connectivity.Shutdown] call p1.Close()", "[recv.connections[makeGRPCTargetKey(p0)] != nil && recv.connections[makeGRPCTargetKey(p0)] != p1 && recv.connections[makeGRPCTargetKey(p0)].GetState() != connectivity.Shutdown] ret recv.connections[makeGRPCTargetKey(p0)]", "[!(recv.connections[makeGRPCTargetKey(p0)] != nil && recv.connections[makeGRPCTargetKey(p0)] != p1 && recv.connections[makeGRPCTargetKey(p0)].GetState() != connectivity.Shutdown)] store recv.connections[makeGRPCTargetKey(p0)] = p1", "[!(recv.connections[makeGRPCTargetKey(p0)] != nil && recv.connections[makeGRPCTargetKey(p0)] != p1 && recv.connections[makeGRPCTargetKey(p0)].GetState() != connectivity.Shutdown)] ret p1"] := rfl

/-- the cleanup loop, `hasTarget`, the interval and the single start — `c16.pool` (keys after every cleanup, which
connections the closer closed, over grpc / grpcs / http targets), `c16.live` (the real 5 s timer) -/
theorem cleanup_shape :
    poolCleanup = ["call recv.lock.Lock()", "call route.GetTable()", "range recv.connections", "call rv1.GetState()", "[rv1.GetState() == connectivity.Shutdown] call delete(recv.connections, rk1)", "[!(rv1.GetState() == connectivity.Shutdown)] range route.GetTable()", "[!(rv1.GetState() == connectivity.Shutdown)] range rv2", "[!(rv1.GetState() == connectivity.Shutdown)] range rv3.Targets", "[!(rv1.GetState() == connectivity.Shutdown) && !hasTarget(rk1, route.GetTable())] call rv1.WaitForStateChange(WithTimeout#0, rv1.GetState())", "[!(rv1.GetState() == connectivity.Shutdown) && !hasTarget(rk1, route.GetTable())] call rv1.Close()", "[!(rv1.GetState() == connectivity.Shutdown) && !hasTarget(rk1, route.GetTable())] call delete(recv.connections, rk1)", "call recv.lock.Unlock()", "call time.Sleep(recv.cleanupInterval)"] ∧
    hasTargetReturns = ["range p1", "range rv1", "range rv2.Targets", "[p0 == makeGRPCTargetKey(rv3)] ret true", "ret false"] ∧
    cleanupIntervalSeconds = 5 ∧
    cleanupGoroutinesStarted = 1 := ⟨rfl, rfl, rfl, rfl⟩

/-- `main.newGrpcProxy` and `ListenAndServeGRPC` — `c16.serve` executes them in the real binary (limits from
their own options, one director per listener built from that listener's TLS configuration) -/
theorem proxy_wiring_pinned :
    grpcServerOptions = ["grpc.CustomCodec(grpc_proxy.Codec())", "grpc.MaxRecvMsgSize(p0.Proxy.GRPCMaxRxMsgSize)", "grpc.MaxSendMsgSize(p0.Proxy.GRPCMaxTxMsgSize)", "grpc.StatsHandler(p2)", "grpc.StreamInterceptor(lit#proxy.GrpcProxyInterceptor.Stream)", "grpc.UnknownServiceHandler(grpc_proxy.TransparentHandler(proxy.GetGRPCDirector(p1, p0)))"] ∧
    grpcInterceptorLit = ["lit proxy.GrpcProxyInterceptor {AuthSchemes=LoadAuthSchemes#0; Config=p0; GlobCache=route.NewGlobCache(p0.GlobCacheSize); StatsHandler=p2}"] ∧
    grpcNewServer = ["[!(ListenTCP#1 != nil)] call grpc.NewServer(p1...)"] := ⟨rfl, rfl, rfl⟩

/-- the relay library: the operations on the two streams in grpc-proxy's two forwarding goroutines and in the
cases of its handler's `select`, read from the module version the repo's `go.mod` selects (module cache) — the
micro-steps `Model/C16Relay.lean` interleaves (`RecvMsg`; `Header` + `SendHeader` before the first `SendMsg`;
`CloseSend` on `io.EOF`, cancel + `Internal` otherwise; `SetTrailer(Trailer())` + the backend's error). `c16.call`
compares every forwarded call with that model. Empty lists = module source not found. -/
theorem relay_library_pinned :
    relayClientToServerOps = ["src.RecvMsg", "src.Header", "dst.SendHeader", "dst.SendMsg"] ∧
    relayServerToClientOps = ["src.RecvMsg", "dst.SendMsg"] ∧
    relaySelectCases = ["case s2cErr := <-s2cErrChan: clientStream.CloseSend; clientCancel; return status.Errorf(codes.Internal, \"failed proxying s2c: %v\", s2cErr)", "case c2sErr := <-c2sErrChan: serverStream.SetTrailer; clientStream.Trailer; return c2sErr; return nil"] := ⟨rfl, rfl, rfl⟩

end Fabio.Props.C16Pins
