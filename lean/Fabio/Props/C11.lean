import Fabio.Model.C11
/-!
C11 — TLS listeners present the best matching current certificate: property theorems.

Sections: (1) the name index and the decision logic of `getCertificate`; (2) normalisation of the requested
name; (3) handshakes racing with publications of new sets; (4) the watcher: bad material, no spinning;
(5) `loadCertificates` orders by file name. Every theorem quantifies over all sets / names / schedules /
scripts; nothing is bounded.
-/
namespace Fabio.Props.C11
open Fabio Fabio.Model.C11

/-! ## 1. The name index and the decision logic -/

theorem find_foldl_names (v : Cert) (ns : List Name) (m : Index) (k : Name) :
    ixFind (ns.foldl (fun m n => (keyOf n, v) :: m) m) k
      = if ns.any (fun n => keyOf n == k) then some v else ixFind m k := by
  induction ns generalizing m with
  | nil => simp
  | cons n ns ih =>
    simp only [List.foldl_cons, ih, List.any_cons]
    by_cases h : ns.any (fun n => keyOf n == k) = true
    · simp [h]
    · simp only [h, Bool.or_false]
      by_cases hk : keyOf n = k
      · subst hk; simp [ixFind]
      · have : (k == keyOf n) = false := by simpa using fun h => hk h.symm
        simp [ixFind, List.lookup_cons, this, hk]

theorem find_indexCert (m : Index) (c : Cert) (k : Name) :
    ixFind (indexCert m c) k = if hasKey k c then some c else ixFind m k := by
  unfold indexCert hasKey; exact find_foldl_names c c.names m k

theorem lastWith_cons (c : Cert) (cs : CertSet) (k : Name) :
    lastWith (c :: cs) k = match lastWith cs k with
      | some d => some d
      | none => if hasKey k c then some c else none := by
  unfold lastWith
  by_cases h : hasKey k c = true
  · rw [List.filter_cons_of_pos h, List.getLast?_cons]
    generalize (List.filter (hasKey k) cs).getLast? = o
    cases o <;> simp [h]
  · rw [List.filter_cons_of_neg h]
    generalize (List.filter (hasKey k) cs).getLast? = o
    cases o <;> simp [h]

theorem find_foldl_indexCert (cs : CertSet) (m : Index) (k : Name) :
    ixFind (cs.foldl indexCert m) k = match lastWith cs k with
      | some d => some d
      | none => ixFind m k := by
  induction cs generalizing m with
  | nil => simp [lastWith]
  | cons c cs ih =>
    simp only [List.foldl_cons, ih, lastWith_cons, find_indexCert]
    cases lastWith cs k <;> simp
    split <;> simp_all

/-- The index built by `BuildNameToCertificate` answers every key with the **last** certificate of the set
that carries it (later certificate overrides earlier for a shared name). -/
theorem find_buildNameIndex (cs : CertSet) (k : Name) : ixFind (buildNameIndex cs) k = lastWith cs k := by
  unfold buildNameIndex
  rw [find_foldl_indexCert]
  cases lastWith cs k <;> simp [ixFind]

theorem lastWith_none_iff (cs : CertSet) (k : Name) :
    lastWith cs k = none ↔ ∀ c ∈ cs, hasKey k c = false := by
  unfold lastWith; simp

/-- `lastWith cs k = some c` says: `c` is in the set, carries `k`, and no later certificate carries `k`. -/
theorem lastWith_some_iff (cs : CertSet) (k : Name) (c : Cert) :
    lastWith cs k = some c ↔
      ∃ pre post, cs = pre ++ c :: post ∧ hasKey k c = true ∧ ∀ d ∈ post, hasKey k d = false := by
  induction cs with
  | nil => simp [lastWith]
  | cons a cs ih =>
    rw [lastWith_cons]
    constructor
    · intro h
      cases hl : lastWith cs k with
      | some d =>
        rw [hl] at h; simp only [Option.some.injEq] at h; subst h
        obtain ⟨pre, post, e, hk, hp⟩ := ih.mp hl
        exact ⟨a :: pre, post, by simp [e], hk, hp⟩
      | none =>
        rw [hl] at h
        by_cases ha : hasKey k a = true
        · simp only [ha, if_true, Option.some.injEq] at h; subst h
          exact ⟨[], cs, rfl, ha, (lastWith_none_iff cs k).mp hl⟩
        · simp [ha] at h
    · rintro ⟨pre, post, e, hk, hp⟩
      cases pre with
      | nil =>
        simp only [List.nil_append, List.cons.injEq] at e
        obtain ⟨rfl, rfl⟩ := e
        rw [(lastWith_none_iff _ k).mpr hp]; simp [hk]
      | cons b pre =>
        simp only [List.cons_append, List.cons.injEq] at e
        obtain ⟨rfl, rfl⟩ := e
        rw [ih.mpr ⟨pre, post, rfl, hk, hp⟩]

theorem lastWith_singleton {c d : Cert} {k : Name} (h : lastWith [c] k = some d) : d = c := by
  rw [lastWith_cons] at h
  simp only [lastWith, List.filter_nil, List.getLast?_nil] at h
  split at h <;> simp_all

/-- The executable `getCertificate` (fold-built index, lookups, single-certificate shortcut) computes exactly
the declarative reference. In particular the shortcut for a one-certificate non-strict store is unobservable. -/
theorem getCertificate_eq_spec (cs : CertSet) (server : Name) (strict : Bool) :
    getCertificate cs server strict = specAnswer cs server strict := by
  unfold getCertificate getCertificateP specAnswer mkPublished
  cases cs with
  | nil => rfl
  | cons first rest =>
    have hf : ixFind (buildNameIndex (first :: rest)) = lastWith (first :: rest) := by
      funext k; exact find_buildNameIndex _ k
    simp only [hf]
    by_cases hs : (!strict && rest.isEmpty) = true
    · simp only [hs, if_true]
      simp only [Bool.and_eq_true, Bool.not_eq_true', List.isEmpty_iff] at hs
      obtain ⟨rfl, rfl⟩ := hs
      cases h1 : lastWith [first] (normName server) with
      | some c => simp [lastWith_singleton h1]
      | none =>
        simp only
        cases h2 : (candidates (splitDots (normName server))).findSome? (lastWith [first]) with
        | some c =>
          obtain ⟨a, _, ha⟩ := List.exists_of_findSome?_eq_some h2
          simp [lastWith_singleton ha]
        | none => simp
    · simp [hs]

theorem findSome?_first {α β} (f : α → Option β) (l : List α) (i : Nat) (hi : i < l.length) (b : β)
    (hlt : ∀ j (hj : j < i), f (l[j]'(Nat.lt_trans hj hi)) = none) (h : f l[i] = some b) :
    l.findSome? f = some b := by
  induction l generalizing i with
  | nil => simp at hi
  | cons a l ih =>
    cases i with
    | zero => simp at h; simp [h]
    | succ i =>
      have h0 : f a = none := hlt 0 (Nat.succ_pos _)
      simp only [List.findSome?_cons, h0]
      exact ih i (by simpa using hi) (fun j hj => by simpa using hlt (j+1) (by omega)) (by simpa using h)

/-- **Decision theorem.** For a non-empty set `first :: rest` and the normalised requested name:
(1) an exact match wins — also over any wildcard — and among several certificates carrying the name the last
one is presented; (2) otherwise the wildcard candidates `*.b.c`, `*.*.c`, … are tried in this order and the
first one that some certificate carries decides (again the last certificate carrying it); (3) otherwise a
strict listener presents no certificate and a non-strict one the first certificate of the set. An empty set
is the error `ErrNoCertsStored`. -/
theorem exact_then_wildcard_then_default (first : Cert) (rest : CertSet) (server : Name) (strict : Bool) :
    let cs := first :: rest
    let name := normName server
    let cands := candidates (splitDots name)
    (∀ c, lastWith cs name = some c → getCertificate cs server strict = .cert c) ∧
    (lastWith cs name = none →
      ∀ (i : Nat) (hi : i < cands.length) (c : Cert),
        (∀ j (hj : j < i), lastWith cs (cands[j]'(Nat.lt_trans hj hi)) = none) →
        lastWith cs cands[i] = some c → getCertificate cs server strict = .cert c) ∧
    (lastWith cs name = none → (∀ k ∈ cands, lastWith cs k = none) →
      getCertificate cs server strict = if strict then .noCert else .cert first) ∧
    getCertificate [] server strict = .errNoCerts := by
  intro cs name cands
  refine ⟨?_, ?_, ?_, rfl⟩
  · intro c h
    rw [getCertificate_eq_spec]; simp only [specAnswer]
    show (match lastWith cs name with | some c => _ | none => _) = _
    rw [h]
  · intro h i hi c hlt hc
    rw [getCertificate_eq_spec]; simp only [specAnswer]
    show (match lastWith cs name with | some c => _ | none => _) = _
    rw [h]; simp only
    show (match cands.findSome? (lastWith cs) with | some c => _ | none => _) = _
    rw [findSome?_first (lastWith cs) cands i hi c hlt hc]
  · intro h hall
    rw [getCertificate_eq_spec]; simp only [specAnswer]
    show (match lastWith cs name with | some c => _ | none => _) = _
    rw [h]; simp only
    show (match cands.findSome? (lastWith cs) with | some c => _ | none => _) = _
    rw [List.findSome?_eq_none_iff.mpr hall]

/-- Strict matching never falls back: whatever is presented carries the requested name or a covering
wildcard candidate. -/
theorem strict_presents_only_matches (cs : CertSet) (server : Name) (c : Cert)
    (h : getCertificate cs server true = .cert c) :
    c ∈ cs ∧ (hasKey (normName server) c = true ∨
      ∃ k ∈ candidates (splitDots (normName server)), hasKey k c = true) := by
  rw [getCertificate_eq_spec] at h
  cases cs with
  | nil => simp [specAnswer] at h
  | cons first rest =>
    simp only [specAnswer] at h
    split at h
    · rename_i d hd
      simp only [Answer.cert.injEq] at h; subst h
      obtain ⟨pre, post, e, hk, _⟩ := (lastWith_some_iff _ _ _).mp hd
      exact ⟨by rw [e]; simp, Or.inl hk⟩
    · split at h
      · rename_i d hd
        simp only [Answer.cert.injEq] at h; subst h
        obtain ⟨k, hk, hkd⟩ := List.exists_of_findSome?_eq_some hd
        obtain ⟨pre, post, e, hk2, _⟩ := (lastWith_some_iff _ _ _).mp hkd
        exact ⟨by rw [e]; simp, Or.inr ⟨k, hk, hk2⟩⟩
      · simp at h

/-- Whatever is presented is a member of the set the answer was computed from. -/
theorem answer_mem (cs : CertSet) (server : Name) (strict : Bool) (c : Cert)
    (h : getCertificate cs server strict = .cert c) : c ∈ cs := by
  rw [getCertificate_eq_spec] at h
  cases cs with
  | nil => simp [specAnswer] at h
  | cons first rest =>
    simp only [specAnswer] at h
    split at h
    · rename_i d hd
      simp only [Answer.cert.injEq] at h; subst h
      obtain ⟨pre, post, e, _, _⟩ := (lastWith_some_iff _ _ _).mp hd
      rw [e]; simp
    · split at h
      · rename_i d hd
        simp only [Answer.cert.injEq] at h; subst h
        obtain ⟨k, _, hkd⟩ := List.exists_of_findSome?_eq_some hd
        obtain ⟨pre, post, e, _, _⟩ := (lastWith_some_iff _ _ _).mp hkd
        rw [e]; simp
      · split at h
        · simp at h
        · simp only [Answer.cert.injEq] at h; subst h; simp

theorem candidates_length (ls : List Name) : (candidates ls).length = ls.length := by
  simp [candidates]

theorem candidates_getElem (ls : List Name) (i : Nat) (hi : i < (candidates ls).length) :
    (candidates ls)[i] = joinDots (List.replicate (i+1) ['*'] ++ ls.drop (i+1)) := by
  simp [candidates]

-- the order in which wildcard candidates are tried, and the absent name
example : candidates (splitDots "a.b.c".toList) = ["*.b.c".toList, "*.*.c".toList, "*.*.*".toList] := by decide
example : normName [] = [] ∧ candidates (splitDots []) = [['*']] := by decide

/-! ## 2. Normalisation of the requested name (any case, trailing dots, absent) -/

theorem lowerChar_ascii_facts : ∀ n, n < 128 →
    lowerChar (lowerChar (Char.ofNat n)) = lowerChar (Char.ofNat n) ∧
    ((lowerChar (Char.ofNat n) == '.') = (Char.ofNat n == '.')) := by decide

theorem upper_lt_128 (c : Char) (h : 'A' ≤ c ∧ c ≤ 'Z') : c.toNat < 128 := by
  have h2 : c.val ≤ ('Z' : Char).val := h.2
  have : c.val.toNat ≤ 90 := by
    have := UInt32.le_iff_toNat_le.mp h2; simpa using this
  show c.val.toNat < 128
  omega

theorem lowerChar_idem (c : Char) : lowerChar (lowerChar c) = lowerChar c := by
  by_cases h : 'A' ≤ c ∧ c ≤ 'Z'
  · have := (lowerChar_ascii_facts c.toNat (upper_lt_128 c h)).1
    rwa [Char.ofNat_toNat] at this
  · simp [lowerChar, h]

theorem lowerChar_eq_dot (c : Char) : (lowerChar c == '.') = (c == '.') := by
  by_cases h : 'A' ≤ c ∧ c ≤ 'Z'
  · have := (lowerChar_ascii_facts c.toNat (upper_lt_128 c h)).2
    rwa [Char.ofNat_toNat] at this
  · simp [lowerChar, h]

theorem lowerL_idem (s : Name) : lowerL (lowerL s) = lowerL s := by
  simp [lowerL, lowerChar_idem]

theorem lowerL_append (a b : Name) : lowerL (a ++ b) = lowerL a ++ lowerL b := by simp [lowerL]

theorem stripDots_append_dot (s : Name) : stripDots (s ++ ['.']) = stripDots s := by
  simp [stripDots]

theorem stripDots_append_dots (s : Name) (k : Nat) : stripDots (s ++ List.replicate k '.') = stripDots s := by
  induction k with
  | zero => simp
  | succ k ih =>
    rw [List.replicate_succ', ← List.append_assoc, stripDots_append_dot, ih]

theorem dropWhile_dot_map_lower (l : Name) :
    (l.map lowerChar).dropWhile (· == '.') = (l.dropWhile (· == '.')).map lowerChar := by
  induction l with
  | nil => rfl
  | cons a l ih =>
    simp only [List.map_cons, List.dropWhile_cons, lowerChar_eq_dot]
    split <;> simp [ih]

theorem stripDots_lowerL (s : Name) : stripDots (lowerL s) = lowerL (stripDots s) := by
  simp [stripDots, lowerL, ← List.map_reverse, dropWhile_dot_map_lower]

theorem stripDots_idem (s : Name) : stripDots (stripDots s) = stripDots s := by
  unfold stripDots
  rw [List.reverse_reverse]
  congr 1
  generalize s.reverse = l
  induction l with
  | nil => rfl
  | cons a l ih =>
    by_cases h : (a == '.') = true
    · simp [h, ih]
    · simp [h]

/-- The requested name is compared case-insensitively … -/
theorem normName_case_insensitive (a b : Name) (h : lowerL a = lowerL b) : normName a = normName b := by
  simp [normName, h]

theorem normName_lowerL (s : Name) : normName (lowerL s) = normName s := by
  simp [normName, lowerL_idem]

/-- … and any number of trailing dots is ignored. -/
theorem normName_trailing_dots (s : Name) (k : Nat) : normName (s ++ List.replicate k '.') = normName s := by
  have : lowerL (List.replicate k '.') = List.replicate k '.' := by
    simp [lowerL, List.map_replicate]; right; decide
  simp [normName, lowerL_append, this, stripDots_append_dots]

theorem normName_idem (s : Name) : normName (normName s) = normName s := by
  simp [normName, stripDots_lowerL, lowerL_idem, stripDots_idem]

/-- The normalised name never ends in a dot. -/
theorem normName_no_trailing_dot (s : Name) : (normName s).getLast? ≠ some '.' := by
  unfold normName stripDots
  rw [List.getLast?_reverse]
  have := List.head?_dropWhile_not (· == '.') (lowerL s).reverse
  intro h
  rw [h] at this
  simp at this

theorem getCertificate_congr (cs : CertSet) (a b : Name) (strict : Bool) (h : normName a = normName b) :
    getCertificate cs a strict = getCertificate cs b strict := by
  simp [getCertificate, getCertificateP, h]

/-- The answer does not depend on the case of the requested name. -/
theorem getCertificate_case_insensitive (cs : CertSet) (a b : Name) (strict : Bool)
    (h : lowerL a = lowerL b) : getCertificate cs a strict = getCertificate cs b strict :=
  getCertificate_congr cs a b strict (normName_case_insensitive a b h)

/-- The answer does not depend on trailing dots of the requested name. -/
theorem getCertificate_trailing_dots (cs : CertSet) (s : Name) (k : Nat) (strict : Bool) :
    getCertificate cs (s ++ List.replicate k '.') strict = getCertificate cs s strict :=
  getCertificate_congr cs _ _ strict (normName_trailing_dots s k)

/-- The spelling (case) of a certificate's own names does not matter either (D15b repaired): as soon as some
certificate of the set spells a name equal, up to case, to the normalised requested name, a certificate
carrying that name is presented — never the default, never nothing. -/
theorem cert_name_case_insensitive (cs : CertSet) (server : Name) (strict : Bool) (c : Cert) (n : Name)
    (hc : c ∈ cs) (hn : n ∈ c.names) (h : lowerL n = normName server) :
    ∃ d, getCertificate cs server strict = .cert d ∧ d ∈ cs ∧ hasKey (normName server) d = true := by
  have hk : hasKey (normName server) c = true := by
    simp only [hasKey, List.any_eq_true]; exact ⟨n, hn, by simp [keyOf, h]⟩
  cases hl : lastWith cs (normName server) with
  | none => have := (lastWith_none_iff cs _).mp hl c hc; simp [hk] at this
  | some d =>
    obtain ⟨pre, post, e, hkd, _⟩ := (lastWith_some_iff _ _ _).mp hl
    refine ⟨d, ?_, by rw [e]; simp, hkd⟩
    cases cs with
    | nil => simp at hc
    | cons first rest => exact (exact_then_wildcard_then_default first rest server strict).1 d hl

-- non-vacuity: mixed case and trailing dots on both sides
example : normName "EXAMPLE.com..".toList = "example.com".toList := by decide
example :
    let cs : CertSet := [⟨0, ["first.test".toList]⟩, ⟨1, ["Example.COM".toList, "*.Wild.example".toList]⟩,
                         ⟨2, ["example.com".toList]⟩]
    getCertificate cs "eXample.Com.".toList true = .cert ⟨2, ["example.com".toList]⟩ ∧        -- later overrides earlier
    getCertificate cs "a.WILD.example".toList true = .cert ⟨1, ["Example.COM".toList, "*.Wild.example".toList]⟩ ∧
    getCertificate cs "b.a.wild.example".toList true = .noCert ∧                                 -- `*.wild.example` ≠ `*.a.wild.example`
    getCertificate cs "b.a.wild.example".toList false = .cert ⟨0, ["first.test".toList]⟩ ∧
    getCertificate cs [] false = .cert ⟨0, ["first.test".toList]⟩ ∧
    getCertificate [] "example.com".toList false = .errNoCerts := by decide
-- exact beats wildcard even when the wildcard certificate comes later
example :
    getCertificate [⟨0, ["a.example.com".toList]⟩, ⟨1, ["*.example.com".toList]⟩] "a.example.com".toList true
      = .cert ⟨0, ["a.example.com".toList]⟩ := by decide

/-! ## 3. Handshakes racing with publications of new sets

The system (`Sys`) holds the atomic cell and, per handshake thread, the value that thread loaded. A schedule
is any list of `Op`s: publications, loads and answers of any number of handshake threads in any order. -/

theorem exec_append (strict : Bool) (s : Sys) (a b : List Op) :
    Sys.exec strict s (a ++ b) =
      ((Sys.exec strict (Sys.exec strict s a).1 b).1,
       (Sys.exec strict s a).2 ++ (Sys.exec strict (Sys.exec strict s a).1 b).2) := by
  induction a generalizing s with
  | nil => simp [Sys.exec]
  | cons op a ih => simp [Sys.exec, ih, List.append_assoc]

theorem exec_cell (strict : Bool) (s : Sys) (cs0 : CertSet) (ops : List Op) (h : s.cell = mkPublished cs0) :
    (Sys.exec strict s ops).1.cell = mkPublished (currentSet cs0 ops) := by
  induction ops generalizing s cs0 with
  | nil => simpa [Sys.exec, currentSet] using h
  | cons op ops ih =>
    cases op with
    | publish cs => simp only [Sys.exec, currentSet]; exact ih _ cs (by simp [Sys.step])
    | hsLoad t => simp only [Sys.exec, currentSet]; exact ih _ cs0 (by simpa [Sys.step] using h)
    | hsAnswer t sv =>
      simp only [Sys.exec, currentSet]
      refine ih _ cs0 ?_
      simp only [Sys.step]; split <;> exact h

theorem exec_snap_preserved (strict : Bool) (s : Sys) (t : Nat) (mid : List Op)
    (h : ∀ op ∈ mid, op ≠ .hsLoad t) :
    (Sys.exec strict s mid).1.snaps.lookup t = s.snaps.lookup t := by
  induction mid generalizing s with
  | nil => simp [Sys.exec]
  | cons op mid ih =>
    simp only [Sys.exec]
    rw [ih _ (fun o ho => h o (List.mem_cons_of_mem _ ho))]
    cases op with
    | publish cs => simp [Sys.step]
    | hsLoad t' =>
      have hne : t' ≠ t := fun e => h (.hsLoad t') (by simp) (by rw [e])
      have : (t == t') = false := by simpa using fun e => hne e.symm
      simp [Sys.step, List.lookup_cons, this]
    | hsAnswer t' sv => simp only [Sys.step]; split <;> rfl

/-- **A handshake never sees a mixture of two sets.** Take any schedule in which thread `t` loads the cell
(after an arbitrary prefix `pre`) and later answers (after arbitrary further steps `mid` of other threads and
of the publisher — sets may be replaced any number of times in between). Its answer is `getCertificate`
evaluated wholly on the one set that was current when it loaded: index and default certificate come from the
same set, and later replacements do not leak into it. -/
theorem handshake_sees_one_set (strict : Bool) (cs0 : CertSet) (pre mid : List Op) (t : Nat) (server : Name)
    (hmid : ∀ op ∈ mid, op ≠ .hsLoad t) :
    (Sys.exec strict ⟨mkPublished cs0, []⟩ (pre ++ .hsLoad t :: mid ++ [.hsAnswer t server])).2
      = (Sys.exec strict ⟨mkPublished cs0, []⟩ (pre ++ .hsLoad t :: mid)).2
          ++ [(t, getCertificate (currentSet cs0 pre) server strict)] := by
  have e : pre ++ .hsLoad t :: mid ++ [.hsAnswer t server] = (pre ++ .hsLoad t :: mid) ++ [.hsAnswer t server] := by
    simp
  rw [e, exec_append]
  simp only [List.append_cancel_left_eq]
  -- the state after `pre ++ hsLoad t :: mid`
  have hs : (Sys.exec strict ⟨mkPublished cs0, []⟩ (pre ++ .hsLoad t :: mid)).1.snaps.lookup t
      = some (mkPublished (currentSet cs0 pre)) := by
    rw [exec_append]
    simp only [Sys.exec]
    rw [exec_snap_preserved strict _ t mid hmid]
    simp [Sys.step, exec_cell strict ⟨mkPublished cs0, []⟩ cs0 pre rfl]
  simp [Sys.exec, Sys.step, hs, getCertificate]

theorem mem_of_lookup {α β} [BEq α] [LawfulBEq α] (l : List (α × β)) (k : α) (v : β)
    (h : l.lookup k = some v) : (k, v) ∈ l := by
  induction l with
  | nil => simp at h
  | cons a l ih =>
    obtain ⟨a1, a2⟩ := a
    rw [List.lookup_cons] at h
    by_cases hk : (k == a1) = true
    · simp [hk] at h; simp [eq_of_beq hk, h]
    · simp [hk] at h; exact List.mem_cons_of_mem _ (ih h)

theorem exec_answers_from (strict : Bool) (P : CertSet → Prop) (s : Sys) (ops : List Op)
    (hc : ∃ cs, P cs ∧ s.cell = mkPublished cs)
    (hs : ∀ x ∈ s.snaps, ∃ cs, P cs ∧ x.2 = mkPublished cs) :
    ∀ ta ∈ (Sys.exec strict s ops).2,
      ∃ cs, (P cs ∨ Op.publish cs ∈ ops) ∧ ∃ server, ta.2 = getCertificate cs server strict := by
  induction ops generalizing s P with
  | nil => simp [Sys.exec]
  | cons op ops ih =>
    intro ta hta
    simp only [Sys.exec, List.mem_append] at hta
    rcases hta with hta | hta
    · -- produced by this very step: only an answer step produces output
      cases op with
      | publish cs => simp [Sys.step] at hta
      | hsLoad t => simp [Sys.step] at hta
      | hsAnswer t sv =>
        simp only [Sys.step] at hta
        split at hta
        · rename_i p hp
          simp only [List.mem_singleton] at hta; subst hta
          obtain ⟨cs, hP, e⟩ := hs _ (mem_of_lookup _ _ _ hp)
          exact ⟨cs, Or.inl hP, sv, by simp [getCertificate, ← e]⟩
        · simp at hta
    · -- produced later: the invariant is re-established for the enlarged family of published sets
      have key := ih (fun cs => P cs ∨ Op.publish cs = op) (s.step strict op).1 ?_ ?_ ta hta
      · obtain ⟨cs, h, sv⟩ := key
        refine ⟨cs, ?_, sv⟩
        rcases h with (h | h) | h
        · exact Or.inl h
        · exact Or.inr (by rw [h]; simp)
        · exact Or.inr (List.mem_cons_of_mem _ h)
      · cases op with
        | publish cs => exact ⟨cs, Or.inr rfl, by simp [Sys.step]⟩
        | hsLoad t => obtain ⟨cs, h, e⟩ := hc; exact ⟨cs, Or.inl h, by simpa [Sys.step] using e⟩
        | hsAnswer t sv =>
          obtain ⟨cs, h, e⟩ := hc
          refine ⟨cs, Or.inl h, ?_⟩
          simp only [Sys.step]; split <;> exact e
      · intro x hx
        cases op with
        | publish cs =>
          obtain ⟨c, h, e⟩ := hs x (by simpa [Sys.step] using hx); exact ⟨c, Or.inl h, e⟩
        | hsLoad t =>
          simp only [Sys.step, List.mem_cons] at hx
          rcases hx with rfl | hx
          · obtain ⟨cs, h, e⟩ := hc; exact ⟨cs, Or.inl h, e⟩
          · obtain ⟨c, h, e⟩ := hs x hx; exact ⟨c, Or.inl h, e⟩
        | hsAnswer t sv =>
          have : x ∈ s.snaps := by
            simp only [Sys.step] at hx; split at hx <;> exact hx
          obtain ⟨c, h, e⟩ := hs x this; exact ⟨c, Or.inl h, e⟩

/-- The same for **every** schedule whatsoever (no well-formedness assumed): each answer any handshake thread
ever produces is `getCertificate` of one single set, and that set is the initial one or one that was published
in the schedule. -/
theorem every_answer_from_one_published_set (strict : Bool) (cs0 : CertSet) (ops : List Op) :
    ∀ ta ∈ (Sys.exec strict ⟨mkPublished cs0, []⟩ ops).2,
      ∃ cs, (cs = cs0 ∨ Op.publish cs ∈ ops) ∧ ∃ server, ta.2 = getCertificate cs server strict :=
  exec_answers_from strict (fun cs => cs = cs0) _ ops ⟨cs0, rfl, rfl⟩ (by simp)

theorem currentSet_append_publish (cs0 cs : CertSet) (pre gap : List Op)
    (hgap : ∀ op ∈ gap, ∀ x, op ≠ Op.publish x) :
    currentSet cs0 (pre ++ Op.publish cs :: gap) = cs := by
  induction pre generalizing cs0 with
  | nil =>
    simp only [List.nil_append, currentSet]
    induction gap with
    | nil => rfl
    | cons g gap ih =>
      cases g with
      | publish x => exact absurd rfl (hgap _ (by simp) x)
      | hsLoad t => simp only [currentSet]; exact ih (fun o ho => hgap o (List.mem_cons_of_mem _ ho))
      | hsAnswer t sv => simp only [currentSet]; exact ih (fun o ho => hgap o (List.mem_cons_of_mem _ ho))
  | cons p pre ih => cases p <;> simp only [List.cons_append, currentSet] <;> exact ih _

/-- **A newly published set takes effect for new handshakes without restart**: a handshake whose load comes
after the publication of `cs` (with no further publication before the load) answers from `cs` — whatever
happened before, whatever other threads do, and whatever is published after its load. -/
theorem new_set_effective_next_handshake (strict : Bool) (cs0 cs : CertSet) (pre gap mid : List Op)
    (t : Nat) (server : Name)
    (hgap : ∀ op ∈ gap, ∀ x, op ≠ Op.publish x) (hmid : ∀ op ∈ mid, op ≠ .hsLoad t) :
    (Sys.exec strict ⟨mkPublished cs0, []⟩
        ((pre ++ Op.publish cs :: gap) ++ .hsLoad t :: mid ++ [.hsAnswer t server])).2
      = (Sys.exec strict ⟨mkPublished cs0, []⟩ ((pre ++ Op.publish cs :: gap) ++ .hsLoad t :: mid)).2
          ++ [(t, getCertificate cs server strict)] := by
  rw [handshake_sees_one_set strict cs0 _ mid t server hmid, currentSet_append_publish cs0 cs pre gap hgap]

-- non-vacuity: thread 1 loads before the replacement and answers after it (old set, not a mixture);
-- thread 2 loads after the replacement (new set)
example :
    let a : Cert := ⟨0, ["a.test".toList]⟩
    let b : Cert := ⟨1, ["b.test".toList]⟩
    let c : Cert := ⟨2, ["a.test".toList]⟩
    (Sys.exec false ⟨mkPublished [a, b], []⟩
      [.hsLoad 1, .publish [b, c], .hsLoad 2, .hsAnswer 1 "a.test".toList, .hsAnswer 2 "a.test".toList,
       .hsAnswer 1 "zzz".toList, .hsAnswer 2 "zzz".toList]).2
      = [(1, .cert a), (2, .cert c), (1, .cert a), (2, .cert b)] := by decide

/-! ## 4. The watcher: unusable material neither removes the working set nor spins

`M` (material), `S` (set), the loader script and `mk` (`loadCertificates`, which may fail on any material) are
arbitrary throughout. -/

section watch
variable {M S : Type} [DecidableEq M]

theorem effRefresh_ge (refresh : Int) : second ≤ effRefresh refresh ∧ refresh ≤ effRefresh refresh := by
  unfold effRefresh; split <;> omega

/-- One iteration of the repaired loop: after the loader invocation there is a sleep of the (floored) refresh
interval, or a publication of material different from the previous one. -/
theorem step_sleeps_or_publishes_new (mk : M → Option S) (refresh : Int) (st : St M) (r : LoadResult M) :
    (step true mk refresh st r).2 = [.sleep (effRefresh refresh)] ∧ (step true mk refresh st r).1 = st
    ∨ ∃ m s, (step true mk refresh st r).2 = [.publish m s] ∧ m ≠ st.last ∧ mk m = some s ∧
        (step true mk refresh st r).1 = ⟨m, once refresh⟩ := by
  cases r with
  | err => left; simp [step]
  | blocks m =>
    by_cases h : m = st.last
    · left; simp [step, h]
    · cases hm : mk m with
      | none => left; simp [step, h, hm]
      | some s => right; exact ⟨m, s, by simp [step, h, hm], h, hm, by simp [step, h, hm]⟩

/-- **No spinning.** For every script of loader results, every `loadCertificates`, every starting state: in
the event trace of the (repaired) loop, between two consecutive loader invocations there is a sleep of at
least `max(refresh, 1s)` or the publication of material different from the previously published one
(`noSpin` is the monitor for exactly this). -/
theorem watch_no_spin (mk : M → Option S) (refresh : Int) (st : St M) (script : List (LoadResult M)) :
    noSpin (max refresh second) st.last false (trace true mk refresh st script) = true := by
  induction script generalizing st with
  | nil => simp [trace, noSpin]
  | cons r rs ih =>
    unfold trace
    by_cases hr : st.returned = true
    · simp [hr, noSpin]
    · simp only [hr, Bool.false_eq_true, if_false, noSpin, Bool.not_false, Bool.true_and]
      rcases step_sleeps_or_publishes_new mk refresh st r with ⟨ho, hs⟩ | ⟨m, s, ho, hne, _, hs⟩
      · rw [ho, hs]
        have hge := effRefresh_ge refresh
        have : ¬ (effRefresh refresh < max refresh second) := by omega
        simp [noSpin, this, ih st]
      · rw [ho, hs]
        simp only [List.map_cons, List.map_nil, List.cons_append, List.nil_append, noSpin, hne,
          decide_false, Bool.and_false]
        exact ih ⟨m, once refresh⟩

/-- Without the sleep on the `loadCertificates`-error branch (the tree before the repair of D15) the statement
is false: material that cannot be used makes consecutive loader invocations follow each other directly. -/
theorem watch_spins_without_sleep :
    ∃ (mk : Nat → Option Unit) (st : St Nat) (script : List (LoadResult Nat)),
      noSpin (max 0 second) st.last false (trace false mk 0 st script) = false :=
  ⟨fun _ => none, ⟨0, false⟩, [.blocks 1, .blocks 1], by decide⟩

/-- A load the watcher cannot use leaves its state alone and publishes nothing. -/
theorem bad_step_publishes_nothing (b : Bool) (mk : M → Option S) (refresh : Int) (st : St M) (r : LoadResult M)
    (hbad : badLoad mk r = true) :
    (step b mk refresh st r).1 = st ∧ ∀ o ∈ (step b mk refresh st r).2, ∃ d, o = .sleep d := by
  cases r with
  | err => simp [step]
  | blocks m =>
    have hm : mk m = none := by simpa [badLoad] using hbad
    by_cases h : m = st.last
    · simp [step, h]
    · cases b <;> simp [step, h, hm]

theorem applyOuts_sleeps {M : Type} (cell : Published) (os : List (Out M CertSet))
    (h : ∀ o ∈ os, ∃ d, o = .sleep d) : applyOuts cell os = cell := by
  induction os with
  | nil => rfl
  | cons o os ih =>
    obtain ⟨d, rfl⟩ := h o (by simp)
    simp only [applyOuts]; exact ih (fun o ho => h o (List.mem_cons_of_mem _ ho))

theorem applyOuts_append {M : Type} (cell : Published) (a b : List (Out M CertSet)) :
    applyOuts cell (a ++ b) = applyOuts (applyOuts cell a) b := by
  induction a generalizing cell with
  | nil => rfl
  | cons o a ih => cases o <;> simp [applyOuts, ih]

omit [DecidableEq M] in
theorem outsOf_append (a b : List (Ev M S)) : outsOf (a ++ b) = outsOf a ++ outsOf b := by
  induction a with
  | nil => rfl
  | cons e a ih => cases e <;> simp [outsOf, ih]

omit [DecidableEq M] in
theorem outsOf_map_out (os : List (Out M S)) : outsOf (os.map Ev.out) = os := by
  induction os with
  | nil => rfl
  | cons o os ih => simp [outsOf, ih]

/-- **Unusable material does not remove the working set.** Whatever history of failing loads the source goes
through (loader errors, unusable PEM material, in any order and number), the store keeps the value it had,
the watcher keeps its state (so it resumes normally afterwards), and every handshake is answered from the
working set exactly as before. Holds with or without the D15 repair. -/
theorem bad_material_keeps_working_set {M : Type} [DecidableEq M] (b : Bool) (mk : M → Option CertSet)
    (refresh : Int) (st : St M) (script : List (LoadResult M)) (cell : Published)
    (hbad : ∀ r ∈ script, badLoad mk r = true) :
    applyOuts cell (outsOf (trace b mk refresh st script)) = cell ∧
    runSt b mk refresh st script = st ∧
    ∀ server strict, getCertificateP (applyOuts cell (outsOf (trace b mk refresh st script))) server strict
        = getCertificateP cell server strict := by
  have h1 : applyOuts cell (outsOf (trace b mk refresh st script)) = cell ∧
      runSt b mk refresh st script = st := by
    induction script generalizing st with
    | nil => simp [trace, outsOf, applyOuts, runSt]
    | cons r rs ih =>
      obtain ⟨hst, hout⟩ := bad_step_publishes_nothing b mk refresh st r (hbad r (by simp))
      have ih' := ih st (fun r hr => hbad r (List.mem_cons_of_mem _ hr))
      unfold trace runSt
      by_cases hr : st.returned = true
      · simp [hr, outsOf, applyOuts]
      · simp only [hr, Bool.false_eq_true, if_false, outsOf, outsOf_append, outsOf_map_out, applyOuts_append,
          applyOuts_sleeps cell _ hout, hst]
        exact ih'
  exact ⟨h1.1, h1.2, fun _ _ => by rw [h1.1]⟩

/-- Only sets made from usable material are ever published. -/
theorem published_sets_are_usable (b : Bool) (mk : M → Option S) (refresh : Int) (st : St M)
    (script : List (LoadResult M)) :
    ∀ s ∈ publications (trace b mk refresh st script), ∃ m, LoadResult.blocks m ∈ script ∧ mk m = some s := by
  induction script generalizing st with
  | nil => simp [trace, publications]
  | cons r rs ih =>
    intro s hs
    unfold trace at hs
    by_cases hr : st.returned = true
    · simp [hr, publications] at hs
    · simp only [hr, Bool.false_eq_true, if_false, publications] at hs
      have tail : ∀ st', s ∈ publications (trace b mk refresh st' rs) →
          ∃ m, LoadResult.blocks m ∈ r :: rs ∧ mk m = some s := fun st' h => by
        obtain ⟨m, hm, e⟩ := ih st' s h; exact ⟨m, List.mem_cons_of_mem _ hm, e⟩
      cases r with
      | err => simp only [step, List.map_cons, List.map_nil, List.cons_append, List.nil_append, publications] at hs; exact tail _ hs
      | blocks m =>
        by_cases h : m = st.last
        · simp only [step, h, if_true, List.map_cons, List.map_nil, List.cons_append, List.nil_append, publications] at hs
          exact tail _ hs
        · cases hm : mk m with
          | none =>
            cases b <;>
              simp only [step, h, hm, if_false, if_true, Bool.false_eq_true, List.map_cons, List.map_nil, List.cons_append,
                List.nil_append, publications] at hs <;> exact tail _ hs
          | some s' =>
            simp only [step, h, hm, if_false, List.map_cons, List.map_nil, List.cons_append, List.nil_append,
              publications, List.mem_cons] at hs
            rcases hs with rfl | hs
            · exact ⟨m, by simp, hm⟩
            · exact tail _ hs

/-- After any number of failed loads the next usable, changed material is published at once (the watcher is
not wedged by the failures). -/
theorem good_material_after_bad_is_published (b : Bool) (mk : M → Option S) (refresh : Int) (st : St M)
    (bad : List (LoadResult M)) (m : M) (s : S) (hbad : ∀ r ∈ bad, badLoad mk r = true)
    (hm : mk m = some s) (hne : m ≠ st.last) :
    step b mk refresh (runSt b mk refresh st bad) (.blocks m) = (⟨m, once refresh⟩, [.publish m s]) := by
  have : runSt b mk refresh st bad = st := by
    induction bad generalizing st with
    | nil => rfl
    | cons r rs ih =>
      unfold runSt
      by_cases hr : st.returned = true
      · simp [hr]
      · simp only [hr, Bool.false_eq_true, if_false]
        rw [(bad_step_publishes_nothing b mk refresh st r (hbad r (by simp))).1]
        exact ih st (fun r h => hbad r (List.mem_cons_of_mem _ h)) hne
  rw [this]; simp [step, hne, hm]

/-! The same statement without the monitor: pick any two consecutive loader invocations of the trace. -/

theorem noSpin_split (floor : Int) (prev : M) (armed : Bool) (pre rest : List (Ev M S))
    (h : noSpin floor prev armed (pre ++ rest) = true) :
    ∃ armed', noSpin floor (lastPubM prev pre) armed' rest = true := by
  induction pre generalizing prev armed with
  | nil => exact ⟨armed, h⟩
  | cons e pre ih =>
    cases e with
    | load =>
      simp only [List.cons_append, noSpin, Bool.and_eq_true] at h
      exact ih prev true h.2
    | out o =>
      cases o with
      | sleep d => simp only [List.cons_append, noSpin] at h; exact ih prev _ h
      | publish m s => simp only [List.cons_append, noSpin] at h; exact ih m _ h

theorem noSpin_gap (floor : Int) (prev : M) (mid post : List (Ev M S))
    (hmid : ∀ e ∈ mid, e ≠ Ev.load)
    (h : noSpin floor prev true (mid ++ Ev.load :: post) = true) :
    (∃ d, Ev.out (Out.sleep d) ∈ mid ∧ floor ≤ d) ∨
    (∃ m s, Ev.out (Out.publish m s) ∈ mid ∧ ∃ a b, mid = a ++ Ev.out (Out.publish m s) :: b ∧ m ≠ lastPubM prev a) := by
  induction mid generalizing prev with
  | nil => simp [noSpin] at h
  | cons e mid ih =>
    have hm : ∀ e ∈ mid, e ≠ Ev.load := fun x hx => hmid x (List.mem_cons_of_mem _ hx)
    cases e with
    | load => exact absurd rfl (hmid _ (by simp))
    | out o =>
      cases o with
      | sleep d =>
        simp only [List.cons_append, noSpin, Bool.true_and] at h
        by_cases hd : d < floor
        · simp only [hd, decide_true] at h
          rcases ih prev hm h with ⟨d', hd', hf⟩ | ⟨m, s, hmem, a, b, e, hne⟩
          · exact Or.inl ⟨d', List.mem_cons_of_mem _ hd', hf⟩
          · exact Or.inr ⟨m, s, List.mem_cons_of_mem _ hmem, Ev.out (Out.sleep d) :: a, b, by simp [e], by simpa [lastPubM] using hne⟩
        · exact Or.inl ⟨d, by simp, by omega⟩
      | publish m s =>
        simp only [List.cons_append, noSpin, Bool.true_and] at h
        by_cases hp : m = prev
        · simp only [hp, decide_true] at h
          rcases ih prev hm h with ⟨d', hd', hf⟩ | ⟨m', s', hmem, a, b, e, hne⟩
          · exact Or.inl ⟨d', List.mem_cons_of_mem _ hd', hf⟩
          · exact Or.inr ⟨m', s', List.mem_cons_of_mem _ hmem, Ev.out (Out.publish m s) :: a, b, by simp [e],
              by simpa [lastPubM, hp] using hne⟩
        · exact Or.inr ⟨m, s, by simp, [], mid, rfl, by simpa [lastPubM] using hp⟩

/-- **No spinning, spelled out.** Split the trace of the repaired loop at any two consecutive loader
invocations (`mid` contains no invocation): in between there is a sleep of at least `max(refresh, 1s)`, or a
publication whose material differs from the material published last before it (from the watcher's `last`
if nothing was published before). -/
theorem watch_no_spin_between (mk : M → Option S) (refresh : Int) (st : St M) (script : List (LoadResult M))
    (pre mid post : List (Ev M S))
    (h : trace true mk refresh st script = pre ++ Ev.load :: (mid ++ Ev.load :: post))
    (hmid : ∀ e ∈ mid, e ≠ Ev.load) :
    (∃ d, Ev.out (Out.sleep d) ∈ mid ∧ max refresh second ≤ d) ∨
    (∃ m s a b, mid = a ++ Ev.out (Out.publish m s) :: b ∧ m ≠ lastPubM (lastPubM st.last pre) a) := by
  have hm := watch_no_spin mk refresh st script
  rw [h] at hm
  obtain ⟨armed', h2⟩ := noSpin_split _ _ _ pre _ hm
  simp only [noSpin, Bool.and_eq_true] at h2
  rcases noSpin_gap _ _ mid post hmid h2.2 with h3 | ⟨m, s, _, a, b, e, hne⟩
  · exact Or.inl h3
  · exact Or.inr ⟨m, s, a, b, e, hne⟩

end watch

-- non-vacuity: good, unchanged, unusable, loader error, good again — one loader call per step, a sleep or a
-- new publication after each; refresh 200 ms is floored to one second
example :
    trace true (fun m : Nat => if m = 7 then none else some [m]) 200000000 ⟨0, false⟩
      [.blocks 1, .blocks 1, .blocks 7, .err, .blocks 2]
      = [.load, .out (.publish 1 [1]), .load, .out (.sleep second), .load, .out (.sleep second),
         .load, .out (.sleep second), .load, .out (.publish 2 [2])] := by decide
example : once 0 = true ∧ once 1 = false ∧ effRefresh 0 = second ∧ effRefresh (3 * second) = 3 * second := by decide

/-! ## 5. `loadCertificates`: the default certificate is the first by file name -/

theorem lexLe_total (a b : Name) : (lexLe a b || lexLe b a) = true := by
  induction a generalizing b with
  | nil => simp [lexLe]
  | cons x xs ih =>
    cases b with
    | nil => simp [lexLe]
    | cons y ys =>
      have := ih ys
      simp only [lexLe, Bool.or_eq_true, Bool.and_eq_true, decide_eq_true_eq, beq_iff_eq] at this ⊢
      by_cases h1 : x.toNat < y.toNat
      · exact Or.inl (Or.inl h1)
      · by_cases h2 : y.toNat < x.toNat
        · exact Or.inr (Or.inl h2)
        · have e : x.toNat = y.toNat := by omega
          rcases this with h | h
          · exact Or.inl (Or.inr ⟨e, h⟩)
          · exact Or.inr (Or.inr ⟨e.symm, h⟩)

theorem lexLe_trans (a b c : Name) (h1 : lexLe a b = true) (h2 : lexLe b c = true) : lexLe a c = true := by
  induction a generalizing b c with
  | nil => simp [lexLe]
  | cons x xs ih =>
    cases b with
    | nil => simp [lexLe] at h1
    | cons y ys =>
      cases c with
      | nil => simp [lexLe] at h2
      | cons z zs =>
        simp only [lexLe, Bool.or_eq_true, Bool.and_eq_true, decide_eq_true_eq, beq_iff_eq] at h1 h2 ⊢
        rcases h1 with h1 | ⟨e1, h1⟩
        · rcases h2 with h2 | ⟨e2, _⟩
          · exact Or.inl (by omega)
          · exact Or.inl (by omega)
        · rcases h2 with h2 | ⟨e2, h2⟩
          · exact Or.inl (by omega)
          · exact Or.inr ⟨by omega, ih ys zs h1 h2⟩

theorem lexLe_antisymm (a b : Name) (h1 : lexLe a b = true) (h2 : lexLe b a = true) : a = b := by
  induction a generalizing b with
  | nil => cases b with
    | nil => rfl
    | cons y ys => simp [lexLe] at h2
  | cons x xs ih =>
    cases b with
    | nil => simp [lexLe] at h1
    | cons y ys =>
      simp only [lexLe, Bool.or_eq_true, Bool.and_eq_true, decide_eq_true_eq, beq_iff_eq] at h1 h2
      have e : x.toNat = y.toNat := by
        rcases h1 with h1 | ⟨e, _⟩ <;> rcases h2 with h2 | ⟨e', _⟩ <;> omega
      have hx : x = y := Char.toNat_inj.mp e
      rcases h1 with h1 | ⟨_, h1⟩
      · omega
      · rcases h2 with h2 | ⟨_, h2⟩
        · omega
        · rw [hx, ih ys h1 h2]

theorem mem_insertSorted {α : Type} (le : α → α → Bool) (x a : α) (l : List α) :
    a ∈ insertSorted le x l ↔ a = x ∨ a ∈ l := by
  induction l with
  | nil => simp [insertSorted]
  | cons y ys ih =>
    simp only [insertSorted]; split
    · simp
    · simp [ih]; constructor <;> (intro h; rcases h with h | h | h <;> simp [h])

theorem insertSorted_pairwise {α : Type} (le : α → α → Bool)
    (trans : ∀ a b c, le a b = true → le b c = true → le a c = true)
    (total : ∀ a b, (le a b || le b a) = true) (x : α) (l : List α)
    (h : l.Pairwise (fun a b => le a b = true)) : (insertSorted le x l).Pairwise (fun a b => le a b = true) := by
  induction l with
  | nil => simp [insertSorted]
  | cons y ys ih =>
    obtain ⟨hy, hys⟩ := List.pairwise_cons.mp h
    simp only [insertSorted]; split
    · rename_i hxy
      refine List.pairwise_cons.mpr ⟨?_, h⟩
      intro z hz
      rcases List.mem_cons.mp hz with rfl | hz
      · exact hxy
      · exact trans _ _ _ hxy (hy z hz)
    · rename_i hxy
      refine List.pairwise_cons.mpr ⟨?_, ih hys⟩
      intro z hz
      rcases (mem_insertSorted le x z ys).mp hz with rfl | hz
      · have := total z y; simp only [Bool.or_eq_true] at this; rcases this with h | h
        · exact absurd h hxy
        · exact h
      · exact hy z hz

theorem isort_pairwise {α : Type} (le : α → α → Bool)
    (trans : ∀ a b c, le a b = true → le b c = true → le a c = true)
    (total : ∀ a b, (le a b || le b a) = true) (l : List α) :
    (isort le l).Pairwise (fun a b => le a b = true) := by
  induction l with
  | nil => simp [isort]
  | cons x xs ih => exact insertSorted_pairwise le trans total x _ ih

theorem mem_isort {α : Type} (le : α → α → Bool) (a : α) (l : List α) : a ∈ isort le l ↔ a ∈ l := by
  induction l with
  | nil => simp [isort]
  | cons x xs ih => simp [isort, mem_insertSorted, ih]

/-- The certificates come out ordered by the name of their certificate file — for **every** iteration order of
the Go map. -/
theorem loadCertificates_sorted (blocks : Blocks) (order : List Name) (l : List (Name × Nat))
    (h : loadCertificates blocks order = some l) : l.Pairwise (fun a b => lexLe a.1 b.1 = true) := by
  unfold loadCertificates at h
  simp only at h
  split at h
  · simp at h
  · simp only [Option.some.injEq] at h; subst h
    exact isort_pairwise _ (fun a b c => lexLe_trans a.1 b.1 c.1) (fun a b => lexLe_total a.1 b.1) _

/-- **The default certificate is the first by file name**: the certificate a non-strict listener falls back
to (the head of the published list) belongs to the smallest certificate file name, whatever order the map was
iterated in; and a set with several certificates is never reordered by iteration order at its head. -/
theorem default_is_first_by_filename (blocks : Blocks) (order : List Name) (c : Name × Nat)
    (rest : List (Name × Nat)) (h : loadCertificates blocks order = some (c :: rest)) :
    ∀ d ∈ rest, lexLe c.1 d.1 = true := by
  have := loadCertificates_sorted blocks order _ h
  exact (List.pairwise_cons.mp this).1

example :
    let blocks : Blocks := [("z.pem".toList, ⟨some 1, some 1, 0⟩), ("a-key.pem".toList, ⟨none, some 0, 0⟩),
      ("B.pem".toList, ⟨some 2, some 2, 0⟩), ("a-cert.pem".toList, ⟨some 0, none, 0⟩), ("notes.txt".toList, ⟨none, none, 0⟩)]
    loadCertificates blocks (blocks.map (·.1)) = some [("B.pem".toList, 2), ("a-cert.pem".toList, 0), ("z.pem".toList, 1)] ∧
    loadCertificates blocks (blocks.map (·.1)).reverse = loadCertificates blocks (blocks.map (·.1)) ∧
    -- one unusable pair spoils the whole material: nothing is published
    loadCertificates (("q-cert.pem".toList, ⟨some 3, none, 0⟩) :: blocks) ("q-cert.pem".toList :: blocks.map (·.1)) = none := by
  decide

end Fabio.Props.C11
