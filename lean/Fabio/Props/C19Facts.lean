import Fabio.Generated.C19
import Fabio.Model.C19
import Fabio.Model.C19Load
/-!
C19 — obligations over the facts regenerated from `/repo` on every run (`tools/factgen/c19.go`).
They tie the model of `Fabio.Model.C19` to the source: which variable `SetConfig` assigns, which option feeds
which transport field, who builds transports and in which order `main` runs, and the error handler's table.
-/
namespace Fabio.Props.C19Facts
open Fabio Fabio.Model.C19

/-- the binding factgen reports for the left-hand side of the assignment in `SetConfig` -/
def lhsOfFact : String → Option Lhs
  | "packageVar" => some .packageVar
  | "param" => some .parameter
  | _ => none

/-- `SetConfig` has one parameter and its body is exactly one store: the parameter into the package-level
variable. (Before the repair of D23 the fact read `["param<-param"]`: `cfg = cfg` with `cfg` the parameter.) -/
theorem setConfig_assigns_package_variable :
    Generated.C19.setConfigParams = 1 ∧ Generated.C19.setConfigStores = ["packageVar<-param"] := by decide

/-- … and the variable it assigns is the one `NewTransport` reads, initialised to the zero configuration. -/
theorem setConfig_assigns_the_cell_NewTransport_reads :
    Generated.C19.setConfigLhsName = Generated.C19.cellVarName ∧ Generated.C19.cellInitIsZeroConfig = true := by decide

/-- Hence the source's `SetConfig` is the model's `setConfig`, and `transport_uses_config` is about the source. -/
theorem source_setConfig_is_model :
    ∀ lhs, lhsOfFact Generated.C19.setConfigLhs = some lhs →
      ∀ s cfg tls, Carries cfg (newTransport (setConfigWith lhs s cfg) tls) := by
  intro lhs h
  have : lhs = .packageVar := by
    have h' : lhsOfFact Generated.C19.setConfigLhs = some Lhs.packageVar := by decide
    rw [h'] at h; cases h; rfl
  subst this
  intro s cfg tls
  simp [Carries, newTransport, setConfigWith]

/-- the option → field pairing the model's `newTransport` encodes -/
def modelFields : List (String × String) :=
  [("Dial=net.Dialer.Dial:KeepAlive", "Proxy.KeepAliveTimeout"), ("Dial=net.Dialer.Dial:Timeout", "Proxy.DialTimeout"),
   ("IdleConnTimeout", "Proxy.IdleConnTimeout"), ("MaxIdleConnsPerHost", "Proxy.MaxConn"),
   ("ResponseHeaderTimeout", "Proxy.ResponseHeaderTimeout"), ("TLSClientConfig", "$param")]

/-- `NewTransport` is straight-line code returning an `http.Transport` whose fields — followed through hoisted
locals and extracted straight-line helpers to the expressions that define them — are fed exactly as in the model. -/
theorem newTransport_reads_the_five_options :
    Generated.C19.newTransportShape = "straight-line" ∧ Generated.C19.transportFields = modelFields := by decide

/-- The only builders of transports in the repository are the three call sites of the model (two in package main,
one in package route), each with the TLS argument the model gives it; `SetConfig` is called from `main` alone. -/
theorem transports_are_built_in_three_places :
    Generated.C19.newTransportCallSitePackages = ["main", "main", "route"] ∧
    Generated.C19.setConfigCallers = ["main.main"] ∧
    Generated.C19.transportImporters = ["main", "route"] := by decide

theorem transport_call_arguments :
    Generated.C19.newTransportArgs =
      [("main", "InsecureTransport", "&tls.Config{InsecureSkipVerify: true}"),
       ("main", "Transport", "nil"),
       ("route", "Transport", "&tls.Config{InsecureSkipVerify: .TLSSkipVerify, ServerName: .Host}")] := by decide

/-- The order fact: `SetConfig(cfg)` is an unconditional top-level statement of `main`, its argument is what
`config.Load` returned, and nothing that runs before it — no earlier statement of `main`, no `init` of package
main — can reach `NewTransport` (no fabio package used before it imports `transport`, directly or not). -/
theorem main_sets_config_before_anything_is_built :
    Generated.C19.mainSetConfigStmt = "top-level-unconditional" ∧
    Generated.C19.mainSetConfigArg = Generated.C19.mainLoadVar ∧ Generated.C19.mainLoadVar ≠ "" ∧
    Generated.C19.mainPkgsBeforeSetConfigReachingTransport = [] ∧
    Generated.C19.mainLocalFuncsBeforeSetConfig = [] ∧
    Generated.C19.mainInitFuncs = [] := by decide

/-- `main` as an event list: the statements before `SetConfig` build nothing (previous theorem), so every
transport built afterwards carries the configuration (the instance of `all_transports_use_config`'s shape at
the regenerated prefix length). -/
theorem main_prefix_builds_nothing :
    ∀ e ∈ List.replicate Generated.C19.mainSetConfigIndex Ev.other, e.builds = false ∧ e.isSet = false := by
  intro e he
  rw [List.eq_of_mem_replicate he]
  exact ⟨rfl, rfl⟩

/-- the path of conditions that selects each class in `httpProxyErrorHandler` -/
def classPath : Err → String
  | .netTimeout => "/net.Error/Timeout"
  | .netOther => "/net.Error/!Timeout"
  | .eof => "/!net.Error/io.EOF"
  | .canceled => "/!net.Error/!io.EOF/context.Canceled"
  | .other => "-"

/-- The handler's decision table is the model's `errorStatus`: 504 exactly under `net.Error` ∧ `Timeout()`. -/
theorem error_handler_table_is_model :
    ∀ e, errorStatus e = ((Generated.C19.errorHandlerTable.lookup (classPath e)).getD Generated.C19.errorHandlerDefault) := by
  intro e; cases e <;> decide

theorem error_handler_table_has_no_other_rows : Generated.C19.errorHandlerTable.length = 4 := by decide

/-- The function analysed above *is* the `ErrorHandler` of the one `httputil.ReverseProxy` literal of package proxy
(it is found through that literal, not by name), it writes the status it computed, and the literal's `Transport`
is a parameter of the function that builds it. -/
theorem error_handler_is_installed :
    Generated.C19.errorHandlerWritesStatusVar = true ∧
    Generated.C19.reverseProxyHasErrorHandler = true ∧
    Generated.C19.reverseProxyTransportIsParam = true := by decide

/-- No `http.Transport` is constructed or copied (`&http.Transport{…}`, `.Clone()`) in the packages on the request
path — proxy, proxy/gzip, route, main —: the only constructor is `transport.NewTransport`. -/
theorem no_transport_is_built_or_copied_outside_NewTransport :
    Generated.C19.transportConstructionsOnRequestPath = [] := by decide

/-- In `ServeHTTP` — variables named by role: `recv` the receiver, `target` the local assigned from `recv.Lookup(…)`,
`tr` the value handed to the reverse-proxy constructor as its transport parameter, `h` the variable whose
`ServeHTTP` is finally called — `tr` is only ever assigned the proxy's `Transport`/`InsecureTransport` or the
target's `Transport` (also when the choice is made in an extracted helper: its return expressions count), every
reverse-proxy constructor call receives `tr`, and `h` is only assigned another unexported constructor of the
package (the websocket tunnel, `local#1`), the reverse proxy and the gzip wrapper: the model's `handlerFor`
(`all_handler_paths_use_selected_transport` is about the source). Which of the three candidates is selected when
is not pinned here: every candidate carries the configuration (`selected_transport_uses_config`), and the
streams exercise the rule (a wrong choice fails the TLS upstreams). -/
theorem serveHTTP_handlers_get_the_selected_transport :
    Generated.C19.serveHTTPRolesFound = true ∧
    Generated.C19.serveHTTPTransportSources = ["recv.InsecureTransport", "recv.Transport", "target.Transport"] ∧
    Generated.C19.serveHTTPHandlerTransportArgs = ["tr", "tr"] ∧
    Generated.C19.serveHTTPHandlerAssignments =
      ["local#1", "local#1", "reverseProxy", "reverseProxy", "gzip.NewGzipHandler"] := by decide

/-- `ServeHTTP` passes on the request it received: no `context.With*`, no `WithContext`, no deadline or timeout
handler in `ServeHTTP`, the unexported helpers it calls, or the error handler, the request parameter is never
rebound, and it is the argument of `h.ServeHTTP` — the model's `requestDeadline = none`. -/
theorem serveHTTP_keeps_the_request_context :
    Generated.C19.serveHTTPContextDerivations = [] ∧
    Generated.C19.serveHTTPRequestRebinds = [] ∧
    Generated.C19.serveHTTPServeArgs = ["req"] ∧
    requestDeadline = none := by decide

/-- The `http.ResponseWriter` `ServeHTTP` hands the handler is either the server's own writer or a wrapper of
package proxy around it whose `WriteHeader` passes every call on, unconditionally, before anything else can
happen — the model's `RW.writeHeader` (`guard = false`). The streams run informational responses 102/103
followed by a stall; a writer that drops calls depending on the code or on headers they do not generate
(100 Continue, a particular `Link` value) is what this obligation excludes
(`Props.C19.first_call_only_writer_loses_504` says what dropping does). -/
theorem responseWriter_passes_every_WriteHeader_through :
    Generated.C19.serveHTTPWriterWriteHeader = "every-call-passed-through" ∧
    RW.writeHeader = RW.writeHeaderWith false := by
  exact ⟨by decide, rfl⟩

/-- `config/default.go` gives the five options the values the model's `Cfg.defaults` has. -/
theorem defaults_are_model :
    Generated.C19.defaultFiveUnevaluated = [] ∧
    Generated.C19.defaultFive =
      [("DialTimeout", Cfg.defaults.dialTimeout), ("ResponseHeaderTimeout", Cfg.defaults.responseHeaderTimeout),
       ("KeepAliveTimeout", Cfg.defaults.keepAliveTimeout), ("IdleConnTimeout", Cfg.defaults.idleConnTimeout),
       ("MaxConn", Cfg.defaults.maxConn)] := by decide

/-- Between the flag parser and `transport.SetConfig` nothing stores into the five options: package config and
package main contain no assignment to `….Proxy.{DialTimeout, ResponseHeaderTimeout, KeepAliveTimeout,
IdleConnTimeout, MaxConn}` and take their address only to register them as flags — so `load`'s result is what
`SetConfig` receives, whatever else is configured. (`c19.load` runs listener read/write/idle timeouts, the
global read/write timeouts, flush intervals and registry timeouts around the five; an adjustment that depends
on an option it does not generate is what this obligation excludes.) -/
theorem load_does_not_rewrite_the_five_options :
    Generated.C19.configWritesToTheFive = [] ∧
    Generated.C19.fiveFlagNames.length = 5 := by decide

end Fabio.Props.C19Facts
