import Fabio.Generated.C19
import Fabio.Model.C19
/-!
C19 — obligations over the facts regenerated from `/repo` on every run (`tools/factgen/c19.go`).
They tie the model of `Fabio.Model.C19` to the source: which variable `SetConfig` assigns, which option feeds
which transport field, who builds transports and in which order `main` runs, and the error handler's table.
-/
namespace Fabio.Props.C19Facts
open Fabio Fabio.Model.C19

/-- the binding factgen reports for the left-hand side of the assignment in `SetConfig` -/
def lhsOfFact : String → Option Lhs
  | "packageVar" => some .packageVar
  | "param" => some .parameter
  | _ => none

/-- `SetConfig` has one parameter and its body is exactly one store: the parameter into the package-level
variable. (Before the repair of D23 the fact read `["param<-param"]`: `cfg = cfg` with `cfg` the parameter.) -/
theorem setConfig_assigns_package_variable :
    Generated.C19.setConfigParams = 1 ∧ Generated.C19.setConfigStores = ["packageVar<-param"] := by decide

/-- … and the variable it assigns is the one `NewTransport` reads, initialised to the zero configuration. -/
theorem setConfig_assigns_the_cell_NewTransport_reads :
    Generated.C19.setConfigLhsName = Generated.C19.cellVarName ∧ Generated.C19.cellInit = "&config.Config{}" := by decide

/-- Hence the source's `SetConfig` is the model's `setConfig`, and `transport_uses_config` is about the source. -/
theorem source_setConfig_is_model :
    ∀ lhs, lhsOfFact Generated.C19.setConfigLhs = some lhs →
      ∀ s cfg tls, Carries cfg (newTransport (setConfigWith lhs s cfg) tls) := by
  intro lhs h
  have : lhs = .packageVar := by
    have h' : lhsOfFact Generated.C19.setConfigLhs = some Lhs.packageVar := by decide
    rw [h'] at h; cases h; rfl
  subst this
  intro s cfg tls
  simp [Carries, newTransport, setConfigWith]

/-- the option → field pairing the model's `newTransport` encodes -/
def modelFields : List (String × String) :=
  [("Dial=net.Dialer.Dial:KeepAlive", "Proxy.KeepAliveTimeout"), ("Dial=net.Dialer.Dial:Timeout", "Proxy.DialTimeout"),
   ("IdleConnTimeout", "Proxy.IdleConnTimeout"), ("MaxIdleConnsPerHost", "Proxy.MaxConn"),
   ("ResponseHeaderTimeout", "Proxy.ResponseHeaderTimeout"), ("TLSClientConfig", "$param")]

/-- `NewTransport` is a single `return &http.Transport{…}` whose fields are fed exactly as in the model. -/
theorem newTransport_reads_the_five_options : Generated.C19.transportFields = modelFields := by decide

/-- The only builders of transports in the repository are the three call sites of the model, each with the TLS
argument the model gives it; `SetConfig` is called from `main` alone. -/
theorem transports_are_built_in_three_places :
    Generated.C19.newTransportCallers = ["main.newHTTPProxy", "main.newHTTPProxy", "route.Route.addTarget"] ∧
    Generated.C19.setConfigCallers = ["main.main"] ∧
    Generated.C19.transportImporters = ["main", "route"] := by decide

theorem transport_call_arguments :
    Generated.C19.newTransportArgs =
      [("main.newHTTPProxy", "InsecureTransport", "&tls.Config{InsecureSkipVerify: true}"),
       ("main.newHTTPProxy", "Transport", "nil"),
       ("route.Route.addTarget", "t.Transport", "&tls.Config{ServerName: t.Host, InsecureSkipVerify: t.TLSSkipVerify}")] := by decide

/-- The order fact: `SetConfig(cfg)` is an unconditional top-level statement of `main`, its argument is what
`config.Load` returned, and nothing that runs before it — no earlier statement of `main`, no `init` of package
main — can reach `NewTransport` (no fabio package used before it imports `transport`, directly or not). -/
theorem main_sets_config_before_anything_is_built :
    Generated.C19.mainSetConfigStmt = "top-level-unconditional" ∧
    Generated.C19.mainSetConfigArg = Generated.C19.mainLoadVar ∧ Generated.C19.mainLoadVar ≠ "" ∧
    Generated.C19.mainPkgsBeforeSetConfigReachingTransport = [] ∧
    Generated.C19.mainLocalFuncsBeforeSetConfig = [] ∧
    Generated.C19.mainInitFuncs = [] := by decide

/-- `main` as an event list: the statements before `SetConfig` build nothing (previous theorem), so every
transport built afterwards carries the configuration (the instance of `all_transports_use_config`'s shape at
the regenerated prefix length). -/
theorem main_prefix_builds_nothing :
    ∀ e ∈ List.replicate Generated.C19.mainSetConfigIndex Ev.other, e.builds = false ∧ e.isSet = false := by
  intro e he
  rw [List.eq_of_mem_replicate he]
  exact ⟨rfl, rfl⟩

/-- the path of conditions that selects each class in `httpProxyErrorHandler` -/
def classPath : Err → String
  | .netTimeout => "/net.Error/Timeout"
  | .netOther => "/net.Error/!Timeout"
  | .eof => "/!net.Error/io.EOF"
  | .canceled => "/!net.Error/!io.EOF/context.Canceled"
  | .other => "-"

/-- The handler's decision table is the model's `errorStatus`: 504 exactly under `net.Error` ∧ `Timeout()`. -/
theorem error_handler_table_is_model :
    ∀ e, errorStatus e = ((Generated.C19.errorHandlerTable.lookup (classPath e)).getD Generated.C19.errorHandlerDefault) := by
  intro e; cases e <;> decide

theorem error_handler_table_has_no_other_rows : Generated.C19.errorHandlerTable.length = 4 := by decide

/-- It writes the status it computed, it is the `ErrorHandler` of the `ReverseProxy`, and the transport handed to
`newHTTPProxy` is the `ReverseProxy`'s `Transport`. -/
theorem error_handler_is_installed :
    Generated.C19.errorHandlerWritesStatusVar = true ∧
    Generated.C19.reverseProxyErrorHandler = "httpProxyErrorHandler" ∧
    Generated.C19.reverseProxyTransport = "$param" := by decide

/-- `ServeHTTP` selects per-route, else skip-verify, else default — the model's `selectTransport`. -/
theorem serveHTTP_selection_rule :
    Generated.C19.transportSelection =
      ["tr := p.Transport", "if t.Transport != nil", "tr = t.Transport", "else if t.TLSSkipVerify", "tr = p.InsecureTransport"] := by decide

/-- No `http.Transport` is constructed or copied (`&http.Transport{…}`, `.Clone()`) in the packages on the request
path — proxy, proxy/gzip, route, main —: the only constructor is `transport.NewTransport`. -/
theorem no_transport_is_built_or_copied_outside_NewTransport :
    Generated.C19.transportConstructionsOnRequestPath = [] := by decide

/-- In `ServeHTTP` the transport variable is only ever assigned `p.Transport`, `t.Transport`, `p.InsecureTransport`,
both reverse-proxy handlers receive that very variable, and the handler variable is only assigned the websocket
tunnel, the reverse proxy and the gzip wrapper: the model's `handlerFor`
(`all_handler_paths_use_selected_transport` is about the source). -/
theorem serveHTTP_handlers_get_the_selected_transport :
    Generated.C19.serveHTTPTransportSources = ["p.InsecureTransport", "p.Transport", "t.Transport"] ∧
    Generated.C19.serveHTTPHandlerTransportArgs = ["tr", "tr"] ∧
    Generated.C19.serveHTTPHandlerAssignments =
      ["newWSHandler", "newWSHandler", "newHTTPProxy", "newHTTPProxy", "gzip.NewGzipHandler"] := by decide

/-- `ServeHTTP` passes on the request it received: no `context.With*`, no `WithContext`, no deadline or timeout
handler in `ServeHTTP`, `newHTTPProxy` or the error handler, the request parameter is never rebound, and it is
the argument of `h.ServeHTTP` — the model's `requestDeadline = none`. -/
theorem serveHTTP_keeps_the_request_context :
    Generated.C19.serveHTTPContextDerivations = [] ∧
    Generated.C19.serveHTTPRequestRebinds = [] ∧
    Generated.C19.serveHTTPServeArgs = [Generated.C19.serveHTTPRequestParam] ∧
    requestDeadline = none := by decide

end Fabio.Props.C19Facts
