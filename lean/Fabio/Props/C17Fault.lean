import Fabio.Lemmas.C17Fault
import Fabio.Props.C17Proxy
/-!
C17 — one response among others (`Fabio.Model.C17Fault`): clients that go away in the middle of a body, other
handlers working on the shared pool while a response is being written, and the program order on the pool read off
the writer machine instead of assumed. Every theorem is for every script of the wrapped handler, every regexp,
sniffer, compressor (with the round-trip law where decoding is mentioned), every pool content, every point at which
the connection breaks, both reactions of the wrapped handler to a failed `Write`, every cut of the script into
segments and every change of the pool in between.
-/
namespace Fabio.Props.C17Fault
open Fabio.Model.C17 Fabio.Lemmas.C17 Fabio.Props.C17 Fabio.Props.C17Proxy

variable {Z : Type}

/-- **client_gone_gets_prefix.** A client whose connection takes `cap` body bytes and then fails every `Write` —
whether the wrapped handler stops at the first error or ignores it — has received: the same status line, the same
header map, and exactly the first `cap` bytes of what a patient client gets. The decision is the same, and the
writer that was taken from the pool has been put back (the pool has the same size as after the undisturbed
response): a broken connection leaks no writer and returns none twice. -/
theorem client_gone_gets_prefix (C : Cfg Z) (cap : Nat) (stop : Bool) (hdr : Hdr) (pool : List Z) (ops : List Op) :
    (engagedF C cap stop hdr pool ops).down.status = (engaged C hdr pool ops).down.status ∧
    (engagedF C cap stop hdr pool ops).down.sent = (engaged C hdr pool ops).down.sent ∧
    (engagedF C cap stop hdr pool ops).down.body = (engaged C hdr pool ops).down.body.take cap ∧
    (engagedF C cap stop hdr pool ops).dec.isGzip = (engaged C hdr pool ops).dec.isGzip ∧
    (engagedF C cap stop hdr pool ops).pool.length = (engaged C hdr pool ops).pool.length := by
  have h := runF_close C cap stop ops { dec := .undecided, hdr := hdr, down := {}, pool := pool }
  have h0 : cutS cap ({ dec := .undecided, hdr := hdr, down := {}, pool := pool } : GW Z) =
      { dec := .undecided, hdr := hdr, down := {}, pool := pool } := by
    simp [cutS, Down.cut]
  rw [h0] at h
  unfold engagedF engaged
  obtain ⟨h1, h2, h3⟩ := h
  rw [h1]
  exact ⟨rfl, rfl, rfl, h2, h3⟩

/-- a patient client (a connection that takes everything) is the special case `cap ≥ length`. -/
theorem patient_client (C : Cfg Z) (cap : Nat) (stop : Bool) (hdr : Hdr) (pool : List Z) (ops : List Op)
    (hcap : (engaged C hdr pool ops).down.body.length ≤ cap) :
    (engagedF C cap stop hdr pool ops).down = (engaged C hdr pool ops).down := by
  obtain ⟨h1, h2, h3, _, _⟩ := client_gone_gets_prefix C cap stop hdr pool ops
  rw [List.take_of_length_le hcap] at h3
  cases hf : (engagedF C cap stop hdr pool ops).down
  cases hu : (engaged C hdr pool ops).down
  simp_all

/-- **after_departed_independent.** One handler value serves a sequence of exchanges, any of them to a client that
goes away at any point (with either reaction of the wrapped handler): every response to a client that stayed
looks — compressed or not, status, header map, content — exactly as if it were the only response ever served. -/
theorem after_departed_independent (C : Cfg Z) (hrt : C.comp.RoundTrip) (pool : List Z) (xs : List ExchF) :
    (serveSeqF C pool xs).map (Option.map (Served.view C)) =
      xs.map (fun x => match x.gone with
        | none => some ((serve C x.e.head x.e.dfl x.e.req x.e.h0 [] x.e.ops).view C)
        | some _ => none) := by
  induction xs generalizing pool with
  | nil => rfl
  | cons x r ih =>
    simp only [serveSeqF, List.map_cons]
    rw [ih]
    cases hg : x.gone with
    | none => simp only [Option.map_some]; rw [serve_view_pool C hrt x.e.head x.e.dfl x.e.req x.e.h0 pool []]
    | some g => rfl

/-- the engaged branch of `serve` is `engaged`. -/
theorem serve_view_engaged (C : Cfg Z) (head dfl : Bool) (req h0 : Hdr) (pool : List Z) (ops : List Op)
    (hacc : (acceptsGzip req && !head) = true) :
    (serve C head dfl req h0 pool ops).view C = (engaged C (hadd h0 hVary hAcceptEncoding) pool ops).view C := by
  unfold serve
  simp only [hacc, if_true]
  rfl

/-- **in_flight_independent.** While a response is being written, other handlers work on the shared pool: the
script is cut into segments in any way, and between two segments the pool is changed by an arbitrary function
(writers taken out, writers put in in whatever state, writers dropped by the runtime). The client sees exactly
the response of the undisturbed script served alone — from whatever pool. (That the others never touch the
writer this response holds is `handlers_never_share_a_writer`.) -/
theorem in_flight_independent (C : Cfg Z) (hrt : C.comp.RoundTrip) (hdr : Hdr) (pool q : List Z)
    (segs : List (List Op × (List Z → List Z))) :
    (engagedP C hdr pool segs).view C = (engaged C hdr q (segOps segs)).view C := by
  obtain ⟨p₀, p₁, hp⟩ := runP_initial C segs hdr pool
  unfold engagedP
  rw [hp, close_setPool_view]
  exact engaged_view_pool C hrt hdr p₀ q (segOps segs)

/-- **served_trace.** The pool events of one response, in program order, read off the writer machine: `Get` then
`Put` when the response is compressed, nothing otherwise — for every script (any number of `WriteHeader`, `Write`,
`Flush` and header calls in any order). -/
theorem served_trace (C : Cfg Z) (hdr : Hdr) (pool : List Z) (ops : List Op) :
    servedTrace C hdr pool ops = if (engaged C hdr pool ops).dec.isGzip then [.get, .put] else [] := by
  unfold servedTrace engaged
  rw [served_trace_run, close_isGzip]

/-- **program_order_never_violated.** In a schedule in which every handler's pool events are `[]`, `[Get]` or
`[Get, Put]` the guards of the pool model never fire: the checked run (where a `Get` while holding, or a `Put`
while not holding, is an error) succeeds and is the run of `writer_exclusively_owned`. -/
theorem program_order_never_violated (evs : List PEv) (hpo : ProgramOrder evs) :
    prunChk {} evs = some (prun {} evs) := by
  apply chk_of_compatible
  intro t
  refine ⟨fun h => ?_, fun _ => hpo t⟩
  simp [heldBy] at h

theorem prefix_get_put (l : List PK) (h : l <+: [PK.get, PK.put]) : l = [] ∨ l = [.get] ∨ l = [.get, .put] := by
  obtain ⟨r, hr⟩ := h
  match l, hr with
  | [], _ => exact Or.inl rfl
  | [a], hr => simp at hr; exact Or.inr (Or.inl (by rw [hr.1]))
  | [a, b], hr => simp at hr; exact Or.inr (Or.inr (by rw [hr.1, hr.2.1]))
  | a :: b :: c :: l', hr => simp at hr

/-- **handlers_never_share_a_writer.** Any number of handlers, each serving a response (its script, its header
map, whatever it believes the pool to be — `resp t`), interleaved in any way, with the runtime dropping pooled
writers at any time: if every handler's events in the schedule are a prefix of the trace of its response (it may
still be running), then no program-order guard ever fires, no writer is held by two handlers, none is in the pool
while held, and the pool holds no writer twice. -/
theorem handlers_never_share_a_writer (C : Cfg Z) (resp : Nat → Hdr × List Z × List Op) (evs : List PEv)
    (hsched : ∀ t, eventsOf t evs <+: servedTrace C (resp t).1 (resp t).2.1 (resp t).2.2) :
    prunChk {} evs = some (prun {} evs) ∧
    (∀ t₁ t₂ z, (t₁, z) ∈ (prun {} evs).held → (t₂, z) ∈ (prun {} evs).held → t₁ = t₂) ∧
    (∀ t z, (t, z) ∈ (prun {} evs).held → z ∉ (prun {} evs).pool) ∧ (prun {} evs).pool.Nodup := by
  refine ⟨program_order_never_violated evs ?_, writer_exclusively_owned evs⟩
  intro t
  have h := hsched t
  rw [served_trace] at h
  split at h
  · exact prefix_get_put _ h
  · left; exact List.prefix_nil.mp h

/-! ### non-vacuity and the excluded schedule -/

def scriptF1 : List Op := [.set "content-type" "text/html", .w [1, 2, 3], .w [4, 5], .w [6]]

-- patient client: compressed, six bytes
example : (engaged toyCfg [] [] scriptF1).dec.isGzip = true ∧ (engaged toyCfg [] [] scriptF1).down.body = [1, 2, 3, 4, 5, 6] := by decide
-- the client leaves after four bytes: prefix, same status, writer back in the pool — stopping at the error or not
example : (engagedF toyCfg 4 true [] [] scriptF1).down.body = [1, 2, 3, 4] ∧
    (engagedF toyCfg 4 false [] [] scriptF1).down.body = [1, 2, 3, 4] ∧
    (engagedF toyCfg 4 true [] [] scriptF1).down.status = some 200 ∧
    (engagedF toyCfg 4 true [] [] scriptF1).pool.length = 1 ∧ (engagedF toyCfg 0 false [] [9] scriptF1).pool.length = 1 := by decide
-- the handler that stops has written less, the client cannot tell
example : (match (engagedF toyCfg 4 true [] [] scriptF1).dec with | .gzip z => z | _ => 0) = 2 ∧
    (match (engagedF toyCfg 4 false [] [] scriptF1).dec with | .gzip z => z | _ => 0) = 3 := by decide
-- a sequence: departed, patient
example : (serveSeqF toyCfg [] [⟨⟨false, true, reqGzip, [], scriptF1⟩, some (2, true)⟩, ⟨⟨false, true, reqGzip, [], scriptF1⟩, none⟩]).map
    (Option.map (fun s => s.obs.body)) = [none, some [1, 2, 3, 4, 5, 6]] := by decide
-- others empty the pool, then fill it, while the response is written
example : (engagedP toyCfg [] [5] [([.set "content-type" "text/html"], fun _ => []), ([.w [1]], fun p => 3 :: 4 :: p), ([.w [2]], id)]).down.body = [1, 2] ∧
    (engagedP toyCfg [] [5] [([.set "content-type" "text/html"], fun _ => []), ([.w [1]], fun p => 3 :: 4 :: p), ([.w [2]], id)]).pool.length = 3 := by decide
-- traces
example : servedTrace toyCfg [] [] scriptF1 = [.get, .put] ∧ servedTrace toyCfg [] [] [.set "content-type" "image/png", .w [1]] = [] ∧
    servedTrace toyCfg [] [] [.wh 103, .fl] = [] := by decide
-- a schedule in program order: two responses in flight, one writer recycled
example : ProgramOrder [.get 1 0, .get 2 0, .put 1, .get 3 0, .put 2] := by
  intro t
  by_cases h1 : t = 1
  · subst h1; decide
  · by_cases h2 : t = 2
    · subst h2; decide
    · by_cases h3 : t = 3
      · subst h3; decide
      · left
        have e1 : ¬ 1 = t := fun h => h1 h.symm
        have e2 : ¬ 2 = t := fun h => h2 h.symm
        have e3 : ¬ 3 = t := fun h => h3 h.symm
        simp [eventsOf, e1, e2, e3]
example : prunChk {} [.get 1 0, .get 2 0, .put 1, .get 3 0, .put 2] = some (prun {} [.get 1 0, .get 2 0, .put 1, .get 3 0, .put 2]) := by decide

/-- The excluded schedule: a handler that executes `Put` twice (the order `[Get, Put, Put]` is not a prefix of any
served trace). The checked run refuses it; in the raw semantics — the field is not cleared, `Put` hands in whatever
it holds — the pool then holds writer 0 twice and the next two handlers in flight both get it. -/
example : prunChk {} [.get 0 0, .put 0, .put 0] = none ∧
    (rrun {} [.get 0 0, .put 0, .put 0]).pool = [0, 0] ∧
    (rrun {} [.get 0 0, .put 0, .put 0, .get 1 0, .get 2 0]).field.lookup 1 = some 0 ∧
    (rrun {} [.get 0 0, .put 0, .put 0, .get 1 0, .get 2 0]).field.lookup 2 = some 0 := by decide

/-- **close_idempotent.** However often `Close` is called — by the wrapped handler, by the deferred call — the effect
is that of the first call: the compressor's last bytes go out once, the writer goes back to the pool once. -/
theorem close_idempotent (C : Cfg Z) (x : GWC Z) (n : Nat) :
    GWC.closeN C (n + 1) x = GWC.close C x := by
  induction n generalizing x with
  | zero => rfl
  | succ k ih =>
    show GWC.closeN C (k + 1) (GWC.close C x) = GWC.close C x
    rw [ih]
    obtain ⟨⟨dec, hdr, down, pool⟩, rel⟩ := x
    cases rel with
    | true => rfl
    | false => cases dec <;> rfl

example : (GWC.closeN toyCfg 3 ⟨GW.run toyCfg { dec := .undecided, hdr := [], down := {}, pool := [] } scriptF1, false⟩).s.pool.length = 1 := by decide
/-- **the_statement_through_the_proxy.** The property's sentences in one statement, for `HTTPProxy.ServeHTTP` with an
expression configured, every upstream response as the transport delivers it (any relayed 1xx responses, header lines,
chunking, flushing), every request, every pool content; `live` is the header map at the reverse proxy's
`WriteHeader`: (1) a response is compressed ONLY IF the client accepts gzip, its content type matches the configured
expression and it is not already encoded; (2) THEN it is labelled `Content-Encoding: gzip`, carries no
Content-Length, and decompresses to exactly the bytes the upstream produced; (3) IN EVERY OTHER CASE body and headers
are those of the reverse proxy on the bare writer (plus the `Vary` line); (4) the status code is the upstream's IN ALL
CASES. -/
theorem the_statement_through_the_proxy (C : Cfg Z) (hrt : C.comp.RoundTrip) (head dfl : Bool) (req h0 : Hdr)
    (pool : List Z) (u : UpResp) (hinfo : ∀ i ∈ u.info, informational i.1 = true) (hfin : informational u.code = false) :
    let r := proxyServe C true head dfl req h0 pool u
    let before := (hadd h0 hVary hAcceptEncoding).map (·.1)
    let live := liveAtStatus before u (hadd h0 hVary hAcceptEncoding)
    (r.compressed = true →
      acceptsGzip req = true ∧ C.typeOk (hget live hContentType) = true ∧ hget live hContentEncoding = "") ∧
    (r.compressed = true →
      hget r.obs.hdr hContentEncoding = encGzip ∧ hhasRaw r.obs.hdr hContentLength = false ∧
      C.comp.decode r.obs.body = some u.chunks.flatten) ∧
    (r.compressed = false → r.obs = serveBare C (flusherOffered head dfl req) h0 (relay before u)) ∧
    r.obs.status = u.code := by
  intro r before live
  have hiff := proxy_compress_iff C head dfl req h0 pool u hinfo hfin
  refine ⟨fun hc => ?_, fun hc => ?_, fun hc => ?_, ?_⟩
  · obtain ⟨h1, _, _, h4, h5⟩ := hiff.mp hc
    exact ⟨h1, h5, h4⟩
  · obtain ⟨_, h2, h3, _, h5⟩ := proxy_when_compressed C hrt head dfl req h0 pool u hinfo hfin hc
    exact ⟨h2, h3, h5⟩
  · have hc' : (serve C head dfl req h0 pool (relay before u)).compressed = false := by
      simpa [r, proxyServe] using hc
    have := otherwise_identical C head dfl req h0 pool _ hc'
    simpa [r, proxyServe] using this
  · have hs := status_preserved C head dfl req h0 pool (relay before u)
    have hb : (serveBare C (flusherOffered head dfl req) h0 (relay before u)).status = u.code := by
      unfold serveBare
      simp only
      rw [bare_obs, relay_decision C _ before u _ hinfo hfin]
    have : r.obs.status = (serve C head dfl req h0 pool (relay before u)).obs.status := by
      simp [r, proxyServe, before]
    rw [this, hs, hb]

example : (proxyServe toyCfg true false true reqGzip [] [] upHtml).obs.status = 200 :=
  (the_statement_through_the_proxy toyCfg toy_roundtrip false true reqGzip [] [] upHtml (by decide) (by decide)).2.2.2

end Fabio.Props.C17Fault
