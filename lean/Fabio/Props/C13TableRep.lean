import Fabio.Props.C13TableSpec
/-!
C13, round 4 — the driver's translation of a dumped table (`toTable`, `viewOf`: positional labels for the
targets) satisfies `Represents` for every dump whose keys are distinct, so `model_meets_table_spec` speaks
about exactly the functions `c13.http` executes (`selectRoute`, `serveTable`).
-/
namespace Fabio.Props.C13TableRep
open Fabio Fabio.Model Fabio.Model.C13Table Fabio.Props.C13Table Fabio.Props.C13TableSpec

/-! ### positions -/

theorem mem_enumFrom {α : Type} {l : List α} {i n : Nat} {x : α} :
    (n, x) ∈ enumFrom i l ↔ ∃ k, n = i + k ∧ l[k]? = some x := by
  induction l generalizing i with
  | nil => simp [enumFrom]
  | cons y ys ih =>
    simp only [enumFrom, List.mem_cons, Prod.mk.injEq, ih]
    constructor
    · rintro (⟨rfl, rfl⟩ | ⟨k, rfl, hk⟩)
      · exact ⟨0, rfl, rfl⟩
      · exact ⟨k + 1, by omega, by simpa using hk⟩
    · rintro ⟨k, rfl, hk⟩
      cases k with
      | zero => left; simpa using hk.symm
      | succ k => right; exact ⟨k, by omega, by simpa using hk⟩

theorem map_snd_enumFrom {α : Type} (l : List α) (i : Nat) : (enumFrom i l).map (·.2) = l := by
  induction l generalizing i with
  | nil => rfl
  | cons y ys ih => simp [enumFrom, ih]

/-! ### labels -/

theorem count_k_label (i j : Nat) : (label i j).count 'k' = i := by
  simp [label, List.count_append, List.count_replicate]

theorem count_r_label (i j : Nat) : (label i j).count 'r' = j := by
  simp [label, List.count_append, List.count_replicate]

theorem label_inj {i j i' j' : Nat} (h : label i j = label i' j') : i = i' ∧ j = j' := by
  have h1 := congrArg (List.count 'k') h
  have h2 := congrArg (List.count 'r') h
  rw [count_k_label, count_k_label] at h1
  rw [count_r_label, count_r_label] at h2
  exact ⟨h1, h2⟩

/-! ### association lists -/

/-- the value `lookup` finds when every pair with that key carries the same value -/
theorem lookup_unique {β : Type} {l : List (Route.Str × β)} {k : Route.Str} {v : β}
    (hmem : (k, v) ∈ l) (huniq : ∀ v', (k, v') ∈ l → v' = v) : l.lookup k = some v := by
  induction l with
  | nil => cases hmem
  | cons x xs ih =>
    obtain ⟨k', v'⟩ := x
    simp only [List.lookup]
    by_cases hk : k = k'
    · subst hk
      simp only [beq_self_eq_true]
      rw [huniq v' (by simp)]
    · have : (k == k') = false := beq_eq_false_iff_ne.2 hk
      simp only [this]
      apply ih
      · rcases List.mem_cons.1 hmem with e | h
        · exact absurd (Prod.mk.inj e).1 hk
        · exact h
      · intro v'' h''; exact huniq v'' (List.mem_cons_of_mem _ h'')

/-! ### the labelled routes -/

theorem mem_labelled {d : DTable} {lab : Route.Str} {dr : DRoute} :
    (lab, dr) ∈ labelled d ↔ ∃ i j k rs, d[i]? = some (k, rs) ∧ rs[j]? = some dr ∧ lab = label i j := by
  unfold labelled enum
  simp only [List.mem_flatMap, List.mem_map]
  constructor
  · rintro ⟨⟨i, k, rs⟩, hi, ⟨j, r⟩, hj, e⟩
    simp only [Prod.mk.injEq] at e
    obtain ⟨rfl, rfl⟩ := e
    obtain ⟨a, rfl, ha⟩ := mem_enumFrom.1 hi
    obtain ⟨b, rfl, hb⟩ := mem_enumFrom.1 hj
    exact ⟨0 + a, 0 + b, k, rs, by simpa using ha, by simpa using hb, rfl⟩
  · rintro ⟨i, j, k, rs, hi, hj, rfl⟩
    exact ⟨(i, k, rs), mem_enumFrom.2 ⟨i, by omega, hi⟩, (j, dr), mem_enumFrom.2 ⟨j, by omega, hj⟩, rfl⟩

theorem routeOf_label {d : DTable} {i j : Nat} {kv : C13.Str × List DRoute} {dr : DRoute}
    (hi : d[i]? = some kv) (hj : kv.2[j]? = some dr) (tg : Route.Target) (hs : tg.service = label i j) :
    routeOf d tg = some dr := by
  unfold routeOf
  rw [hs]
  obtain ⟨k, rs⟩ := kv
  apply lookup_unique (mem_labelled.2 ⟨i, j, k, rs, hi, hj, rfl⟩)
  intro v' hv'
  obtain ⟨i', j', k', rs', hi', hj', e⟩ := mem_labelled.1 hv'
  obtain ⟨rfl, rfl⟩ := label_inj e
  rw [hi] at hi'; cases hi'
  simp only at hj
  rw [hj] at hj'; cases hj'; rfl

/-! ### the routes of one key -/

def routesOf (i : Nat) (k : C13.Str) (rs : List DRoute) : List Route.Route :=
  (enum rs).map (fun (j, r) =>
    ({ host := chars k, path := chars r.path,
       targets := [{ service := label i j, tags := [], opts := [], url := [], fixedWeight := 0 }] } : Route.Route))

theorem toTable_eq (d : DTable) : toTable d = (enum d).map (fun (i, k, rs) => (chars k, routesOf i k rs)) := rfl

theorem routesRep_from {d : DTable} {i : Nat} {kv : C13.Str × List DRoute} (hi : d[i]? = some kv)
    (rs : List DRoute) (off : Nat) (hoff : ∀ j dr, rs[j]? = some dr → kv.2[off + j]? = some dr) :
    RoutesRep (viewOf d) rs ((enumFrom off rs).map (fun (j, r) =>
      ({ host := chars kv.1, path := chars r.path,
         targets := [{ service := label i j, tags := [], opts := [], url := [], fixedWeight := 0 }] } : Route.Route))) := by
  induction rs generalizing off with
  | nil => exact .nil
  | cons r rs ih =>
    simp only [enumFrom, List.map_cons]
    refine .cons ⟨rfl, _, rfl, ?_⟩ (ih (off + 1) ?_)
    · have h0 := hoff 0 r rfl
      unfold viewOf
      rw [routeOf_label hi (by simpa using h0) _ rfl]
    · intro j dr hj
      have := hoff (j + 1) dr (by simpa using hj)
      have e : off + 1 + j = off + (j + 1) := by omega
      rw [e]; exact this

/-! ### the table -/

theorem keys_toTable (d : DTable) : C03.keys (toTable d) = d.map (fun kv => chars kv.1) := by
  unfold C03.keys
  rw [toTable_eq, List.map_map]
  have : ((fun kv : Route.Str × List Route.Route => kv.1) ∘ fun (x : Nat × C13.Str × List DRoute) => (chars x.2.1, routesOf x.1 x.2.1 x.2.2)) =
      (fun kv : C13.Str × List DRoute => chars kv.1) ∘ (fun x : Nat × C13.Str × List DRoute => x.2) := rfl
  rw [this, ← List.map_map, enum, map_snd_enumFrom]

/-- two positions of one key are one position -/
theorem index_unique {d : DTable} (hnd : (d.map (fun kv => kv.1)).Nodup) {a b : Nat} {x y : C13.Str × List DRoute}
    (ha : d[a]? = some x) (hb : d[b]? = some y) (hk : x.1 = y.1) : a = b := by
  induction d generalizing a b with
  | nil => simp at ha
  | cons z zs ih =>
    have hnd' := List.nodup_cons.1 hnd
    cases a with
    | zero =>
      cases b with
      | zero => rfl
      | succ b =>
        exfalso
        have hx : x = z := by simpa using ha.symm
        have hy : y ∈ zs := List.mem_of_getElem? (by simpa using hb)
        have : z.1 ∈ List.map (fun kv => kv.1) zs := by
          rw [← hx, hk]; exact List.mem_map.2 ⟨y, hy, rfl⟩
        exact hnd'.1 this
    | succ a =>
      cases b with
      | zero =>
        exfalso
        have hy : y = z := by simpa using hb.symm
        have hx : x ∈ zs := List.mem_of_getElem? (by simpa using ha)
        have : z.1 ∈ List.map (fun kv => kv.1) zs := by
          rw [← hy, ← hk]; exact List.mem_map.2 ⟨x, hx, rfl⟩
        exact hnd'.1 this
      | succ b =>
        have := ih hnd'.2 (by simpa using ha) (by simpa using hb)
        omega

theorem get_toTable {d : DTable} (hnd : (d.map (fun kv => kv.1)).Nodup) {i : Nat} {kv : C13.Str × List DRoute}
    (hi : d[i]? = some kv) : (toTable d).get (chars kv.1) = routesOf i kv.1 kv.2 := by
  unfold Route.Table.get
  have hmem : (chars kv.1, routesOf i kv.1 kv.2) ∈ toTable d := by
    rw [toTable_eq]
    exact List.mem_map.2 ⟨(i, kv), mem_enumFrom.2 ⟨i, by omega, hi⟩, rfl⟩
  rw [lookup_unique hmem]
  · rfl
  · intro v' hv'
    rw [toTable_eq] at hv'
    obtain ⟨⟨i', k', rs'⟩, hm, e⟩ := List.mem_map.1 hv'
    obtain ⟨a, rfl, ha⟩ := mem_enumFrom.1 hm
    simp only [Prod.mk.injEq] at e
    have hk : k' = kv.1 := chars_inj e.1
    have hidx : 0 + a = i := index_unique hnd (by simpa using ha) hi hk
    subst hidx
    have : (k', rs') = kv := by
      have : d[0 + a]? = some (k', rs') := by simpa using ha
      rw [hi] at this; exact (Option.some.inj this).symm
    rw [← e.2, ← this]

/-- **The driver's translation of a dump represents it**, for every dump with distinct keys. -/
theorem toTable_represents (d : DTable) (hnd : (d.map (fun kv => kv.1)).Nodup) :
    Represents d (toTable d) (viewOf d) := by
  refine ⟨keys_toTable d, ?_⟩
  intro kv hkv
  obtain ⟨i, hi⟩ := List.getElem?_of_mem hkv
  rw [get_toTable hnd hi]
  exact routesRep_from hi kv.2 0 (fun j dr hj => by simpa using hj)

/-- **`model_meets_table_spec` for the functions the driver runs.** For every well-formed dump (lower-case distinct
keys, longest path first), every request `mkReq` builds with a non-empty normalised host, globs on or off: the
answer of `Lookup` on `toTable d` with the view `viewOf d` — what `selectRoute` / `serveTable` compute — is judged
`ok` by `specAnswered`. -/
theorem driver_model_meets_table_spec (d : DTable) (hwf : WellFormed d) (noglob : Bool)
    {host target xfp : C13.Str} {tls : Bool} {q : CReq} (hq : mkReq host target xfp tls = some q)
    (hne : specNorm host tls ≠ []) :
    specAnswered d noglob q host (observed (viewOf d) (Lookup (cfgOf noglob) (viewOf d) (toTable d) q)) = .ok :=
  model_meets_table_spec (toTable_represents d hwf.nodup) hwf (mkReq_reqOf hq) hne

/-! ### the hypotheses, as the test the driver runs on every dumped table -/

theorem nodup_of_nodupB {l : List C13.Str} (h : nodupB l = true) : l.Nodup := by
  induction l with
  | nil => exact List.nodup_nil
  | cons x xs ih =>
    simp only [nodupB, Bool.and_eq_true, Bool.not_eq_true'] at h
    refine List.nodup_cons.2 ⟨?_, ih h.2⟩
    intro hm
    have : xs.contains x = true := by simpa using hm
    rw [h.1] at this; cases this

theorem sorted_of_sortedB {l : List DRoute} (h : sortedB l = true) : LongestFirst l := by
  induction l with
  | nil => exact List.Pairwise.nil
  | cons r rs ih =>
    simp only [sortedB, Bool.and_eq_true, List.all_eq_true, decide_eq_true_eq] at h
    exact List.pairwise_cons.2 ⟨fun b hb => h.1 b hb, ih h.2⟩

/-- the driver's test establishes the hypothesis -/
theorem wellFormed_of_test {d : DTable} (h : wellFormedB d = true) : WellFormed d := by
  simp only [wellFormedB, Bool.and_eq_true, List.all_eq_true, beq_iff_eq] at h
  exact ⟨fun kv hkv => h.1.1 kv hkv, nodup_of_nodupB h.1.2, fun kv hkv => sorted_of_sortedB (h.2 kv hkv)⟩


/-- **What `c13.http` relies on, case by case:** the dump passes the driver's test `wellFormedB` (else the case is
reported as a broken tie, class `dump-not-wellformed`), the request is the one `mkReq` builds — then the model's answer
meets the table specification. -/
theorem checked_dump_meets_table_spec (d : DTable) (h : wellFormedB d = true) (noglob : Bool)
    {host target xfp : C13.Str} {tls : Bool} {q : CReq} (hq : mkReq host target xfp tls = some q)
    (hne : specNorm host tls ≠ []) :
    specAnswered d noglob q host (observed (viewOf d) (Lookup (cfgOf noglob) (viewOf d) (toTable d) q)) = .ok :=
  driver_model_meets_table_spec d (wellFormed_of_test h) noglob hq hne

example : wellFormedB C13TableSpec.Ex.D = true := by decide

end Fabio.Props.C13TableRep
