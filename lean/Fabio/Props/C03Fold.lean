import Fabio.Props.C03
import Fabio.Model.C03Fold
/-!
C03 — "within a host the longest matching path wins" for the prefix and iprefix matchers, for **every** case
folding: the statement needs nothing of the folding function but that it maps rune by rune and that the order
of a host's routes (`Routes.Less`) and the matcher (`iPrefixMatcher`) use the same one. `strings.ToLower` is
such a function (`unicode.ToLower` per rune), so the ASCII restriction of `longest_path_wins` (`lowerL`) is not
a restriction of the statement. The other direction is shown on a witness: order folded ASCII-only, matcher
folded with `unicode.ToLower` (an independent author's seeded change did exactly this) — the shorter path wins.
-/
set_option linter.unusedSimpArgs false
namespace Fabio.Props.C03Fold
open Fabio Fabio.Model.Route Fabio.Model.C03 Fabio.Model.C03Fold Fabio.Lemmas.C03 Fabio.Props.C03

theorem pathLtBy_eq (f : Str → Str) (a b : Str) : pathLtBy f a b = lt2 f a b := rfl

/-- no later path sorts strictly before an earlier one -/
def SortedBy (f : Str → Str) (ps : List Str) : Prop := ps.Pairwise (fun a b => pathLtBy f a b = false)

theorem insPath_eq (f : Str → Str) (x : Str) (l : List Str) :
    insPath f x l = insBy (fun a b => pathLtBy f b a) x l := by
  induction l with
  | nil => rfl
  | cons y ys ih => simp [insPath, insBy, ih]

theorem sortPaths_eq (f : Str → Str) (ps : List Str) : sortPaths f ps = sortBy (fun a b => pathLtBy f b a) ps := by
  induction ps with
  | nil => rfl
  | cons x xs ih =>
    show insPath f x (sortPaths f xs) = _
    rw [ih, insPath_eq]; rfl

/-- **sortPaths_sorted_permutation.** For every folding function the sort leaves a sorted permutation. -/
theorem sortPaths_sorted_permutation (f : Str → Str) (ps : List Str) :
    SortedBy f (sortPaths f ps) ∧ (sortPaths f ps).Perm ps := by
  rw [sortPaths_eq]
  exact ⟨sortBy_pairwise _ (fun a b h => by rw [pathLtBy_eq] at h ⊢; exact lt2_asymm h)
    (fun a b c h1 h2 => by rw [pathLtBy_eq] at h1 h2 ⊢; exact lt2_trans h2 h1) ps, sortBy_perm _ ps⟩

theorem firstMatch_some {m : Str → Str → Bool} {uri : Str} {ps : List Str} {p : Str}
    (h : firstMatch m uri ps = some p) :
    ∃ pre post, ps = pre ++ p :: post ∧ (∀ x ∈ pre, m uri x = false) ∧ m uri p = true := by
  unfold firstMatch at h
  induction ps with
  | nil => simp at h
  | cons y ys ih =>
    simp only [List.find?_cons] at h
    cases hy : m uri y with
    | true =>
      rw [hy] at h; simp at h; subst h
      exact ⟨[], ys, rfl, by simp, hy⟩
    | false =>
      rw [hy] at h
      obtain ⟨pre, post, e, hpre, hp⟩ := ih h
      refine ⟨y :: pre, post, by rw [e]; rfl, ?_, hp⟩
      intro x hx
      rcases List.mem_cons.1 hx with rfl | hx
      · exact hy
      · exact hpre x hx

/-- **first_match_is_longest_any_fold.** `g` any map on runes, the host's paths sorted by `Routes.Less` with
`g` as folding, a matcher that implies "the folded route path is a prefix of the folded request path": the
first match in table order is a longest match (length in runes; every rune map keeps it). -/
theorem first_match_is_longest_any_fold (g : Char → Char) {m : Str → Str → Bool} {uri : Str}
    (hm : ∀ p, m uri p = true → p.map g <+: uri.map g)
    {ps : List Str} (hs : SortedBy (List.map g) ps) {p : Str} (hres : firstMatch m uri ps = some p)
    {q : Str} (hq : q ∈ ps) (hmq : m uri q = true) : q.length ≤ p.length := by
  obtain ⟨pre, post, e, hpre, hmp⟩ := firstMatch_some hres
  rw [e] at hq hs
  rcases List.mem_append.1 hq with hin | hin
  · rw [hpre q hin] at hmq; cases hmq
  · rcases List.mem_cons.1 hin with rfl | hin
    · exact Nat.le_refl _
    · have hsorted : pathLtBy (List.map g) p q = false :=
        (List.pairwise_cons.1 (List.pairwise_append.1 hs).2.1).1 q hin
      apply Nat.le_of_not_lt
      intro hlt
      have hlt' : (p.map g).length < (q.map g).length := by simpa using hlt
      have h1 := strLt_of_prefixes (hm _ hmp) (hm _ hmq) hlt'
      have hne : p.map g ≠ q.map g := by
        intro e'; rw [e', strLt_irrefl] at h1; cases h1
      unfold pathLtBy at hsorted
      simp [hne, h1] at hsorted

theorem pathMatchBy_fold_prefix (g : Char → Char) (pg : Str → Str → Bool) {kind : MatcherKind} (hk : kind ≠ .glob)
    (uri p : Str) (h : pathMatchBy (List.map g) pg kind uri p = true) : p.map g <+: uri.map g := by
  cases kind with
  | glob => exact absurd rfl hk
  | pfx =>
    simp only [pathMatchBy, List.isPrefixOf_iff_prefix] at h
    obtain ⟨w, rfl⟩ := h
    exact ⟨w.map g, by simp⟩
  | iprefix =>
    simpa only [pathMatchBy, List.isPrefixOf_iff_prefix] using h

/-- **longest_path_wins_any_fold** (prefix and iprefix matchers). Whatever rune map `g` the code folds with —
`unicode.ToLower` in the tree — as long as `Routes.Less` and `iPrefixMatcher` use the same: of the paths of
one host, sorted as `NewTable` leaves them, the scan answers with a longest matching path. -/
theorem longest_path_wins_any_fold (g : Char → Char) (pg : Str → Str → Bool) (kind : MatcherKind)
    (hkind : kind ≠ .glob) (paths : List Str) (uri : Str) {p : Str}
    (hres : firstMatch (pathMatchBy (List.map g) pg kind) uri (sortPaths (List.map g) paths) = some p)
    {q : Str} (hq : q ∈ paths) (hmq : pathMatchBy (List.map g) pg kind uri q = true) : q.length ≤ p.length :=
  first_match_is_longest_any_fold g (fun p hp => pathMatchBy_fold_prefix g pg hkind uri p hp)
    (sortPaths_sorted_permutation _ paths).1 hres
    ((sortPaths_sorted_permutation (List.map g) paths).2.mem_iff.2 hq) hmq

/-- … and a candidate is never dropped: if some path of the host matches, the scan answers -/
theorem first_match_complete (m : Str → Str → Bool) (f : Str → Str) (paths : List Str) (uri : Str)
    {q : Str} (hq : q ∈ paths) (hmq : m uri q = true) : (firstMatch m uri (sortPaths f paths)).isSome = true := by
  unfold firstMatch
  rw [List.find?_isSome]
  exact ⟨q, (sortPaths_sorted_permutation f paths).2.mem_iff.2 hq, hmq⟩

/-- `lowerU` is such a map -/
theorem lowerU_eq_map : lowerU = List.map lowerRune := rfl

/-! ### non-vacuity, and the necessity of "the same folding in both places" -/

-- `unicode.ToLower` on the modelled alphabets
example : String.ofList (lowerU "/CAFÉ/Äpfel/МОСКВА/ΩΣ/İK".toList) = "/café/äpfel/москва/ωσ/ik" := by decide
-- the tree: order and matcher fold alike — the longer path is in front and answers
example : (sortPaths lowerU ["/café".toList, "/".toList, "/CAFÉ/menu".toList]).map String.ofList = ["/CAFÉ/menu", "/café", "/"] := by decide
example : (firstMatch (pathMatchBy lowerU globLib .iprefix) "/café/menu/today".toList
    (sortPaths lowerU ["/café".toList, "/".toList, "/CAFÉ/menu".toList])).map String.ofList = some "/CAFÉ/menu" := by decide
example : ∀ q ∈ ["/café".toList, "/".toList, "/CAFÉ/menu".toList],
    pathMatchBy lowerU globLib .iprefix "/café/menu/today".toList q = true → q.length ≤ "/CAFÉ/menu".toList.length :=
  fun q hq hm => longest_path_wins_any_fold lowerRune globLib .iprefix (by decide) _ _ (p := "/CAFÉ/menu".toList) (by decide) hq hm

/-- **mixed_fold_breaks_longest_path.** Order folded with the ASCII map (`lowerL`), matcher with
`unicode.ToLower`: `/café` is sorted in front of `/CAFÉ/menu` (É, U+00C9, is below é, U+00E9) and answers a
request that the longer path matches as well. -/
theorem mixed_fold_breaks_longest_path :
    ∃ paths uri p q, firstMatch (pathMatchBy lowerU globLib .iprefix) uri (sortPaths lowerL paths) = some p ∧
      q ∈ paths ∧ pathMatchBy lowerU globLib .iprefix uri q = true ∧ p.length < q.length :=
  ⟨["/café".toList, "/CAFÉ/menu".toList], "/café/menu/today".toList, "/café".toList, "/CAFÉ/menu".toList,
    by decide, by decide, by decide, by decide⟩

end Fabio.Props.C03Fold
