import Fabio.Model.C13
import Fabio.Lemmas.C13
/-!
C13 — redirect routes answer from the request alone: property theorems.

The model (`Model/C13.lean`) follows the repaired tree (D08, D17, D17b, D17c, D18, D18b, D18c, D27). The
one statement the code cannot satisfy in full generality carries its extra hypothesis explicitly (strip
applying literally to both the decoded and the raw path): the excluded input class is the recorded finding
D17d of `checks/C13.findings.json`, replayed from the corpus. Composition with C03: `Props/C13Compose.lean`.
-/
namespace Fabio.Props.C13
open Fabio Fabio.Model.C13 Fabio.Lemmas.C13

/-! ### status code -/

/-- Whatever the `redirect=` option says, the target's code is 0 or a 3xx code. -/
theorem redirect_code_3xx_only (opt : Str) :
    redirectCode opt = 0 ∨ (300 ≤ redirectCode opt ∧ redirectCode opt ≤ 399) := by
  unfold redirectCode
  split
  · exact Or.inl rfl
  · simp only []
    split
    · exact Or.inl rfl
    · split
      · exact Or.inl rfl
      · rename_i h
        simp only [Bool.or_eq_true, decide_eq_true_eq, not_or, Int.not_lt] at h
        right; omega

/-- …and a target with code 0 is not answered with a redirect: it is handed to the proxy as it is. -/
theorem code_zero_is_not_a_redirect (scheme : Str) (req : URL) (t : RTarget) (rest : List (Option RTarget))
    (h : t.code = 0) :
    lookupLoop scheme req (some t :: rest) = some (t, none) := by
  simp [lookupLoop, h]

example : redirectCode (lit "301") = 301 := by decide
example : redirectCode (lit "200") = 0 := by decide
example : redirectCode (lit "abc") = 0 := by decide
/-- D27: a value `Atoi` rejects with a range error (it returns MaxInt64 then) yields 0, not MaxInt64. -/
example : redirectCode (lit "99999999999999999999") = 0 := by decide
example : (atoi (lit "99999999999999999999")).1 = maxInt := by decide

/-! ### `$host` -/

/-- The host of the redirect URL is the template's host (without a `$path` suffix) in which the first
`$host` is replaced by the request's `Host`. -/
theorem host_substituted (t : RTarget) (req : URL) :
    (buildRedirectURL t req).host =
      if contains vHost (stage2 (stage1 t)).host then replace1 vHost req.host (stage2 (stage1 t)).host
      else (stage2 (stage1 t)).host := by
  have e3 : ∀ u, (stage3 u).host = u.host := by intro u; unfold stage3; split <;> rfl
  have e4 : ∀ u, (stage4 t req u).host = u.host := by
    intro u; unfold stage4; split
    · simp only []; split <;> rfl
    · rfl
  have e5 : ∀ u, (stage5 u).host = u.host := by intro u; unfold stage5; split <;> rfl
  simp only [buildRedirectURL, stage6, e5, e4, e3]
  split <;> simp_all

/-! ### query -/

/-- For a `$path` template (after the normalisation steps the path still holds `$path`): the request's
query is carried when the template has none, the template's own query wins otherwise. -/
theorem query_carried_when_target_has_none (t : RTarget) (req : URL)
    (hp : contains vPath (stage3 (stage2 (stage1 t))).path = true) :
    (buildRedirectURL t req).rawQuery = if t.url.rawQuery = [] then req.rawQuery else t.url.rawQuery := by
  have e2 : ∀ u, (stage2 u).rawQuery = u.rawQuery := by intro u; unfold stage2; split <;> rfl
  have e3 : ∀ u, (stage3 u).rawQuery = u.rawQuery := by intro u; unfold stage3; split <;> rfl
  have e5 : ∀ u, (stage5 u).rawQuery = u.rawQuery := by intro u; unfold stage5; split <;> rfl
  have e6 : ∀ u, (stage6 req u).rawQuery = u.rawQuery := by intro u; unfold stage6; split <;> rfl
  have q0 : (stage3 (stage2 (stage1 t))).rawQuery = t.url.rawQuery := by rw [e3, e2]; rfl
  simp only [buildRedirectURL, e6, e5]
  unfold stage4
  rw [if_pos hp]
  by_cases hq : t.url.rawQuery = []
  · by_cases hr : req.rawQuery = [] <;> simp [hq, hr, q0]
  · have : t.url.rawQuery.isEmpty = false := by cases h : t.url.rawQuery <;> simp_all
    simp [hq, this, q0]

/-- A fixed-URL redirect (no `$path`) keeps the template's own query — as coded; the request's query is
not carried there. -/
theorem fixed_template_keeps_its_query (t : RTarget) (req : URL)
    (hp : contains vPath (stage3 (stage2 (stage1 t))).path = false) :
    (buildRedirectURL t req).rawQuery = t.url.rawQuery := by
  have e2 : ∀ u, (stage2 u).rawQuery = u.rawQuery := by intro u; unfold stage2; split <;> rfl
  have e3 : ∀ u, (stage3 u).rawQuery = u.rawQuery := by intro u; unfold stage3; split <;> rfl
  have e5 : ∀ u, (stage5 u).rawQuery = u.rawQuery := by intro u; unfold stage5; split <;> rfl
  have e6 : ∀ u, (stage6 req u).rawQuery = u.rawQuery := by intro u; unfold stage6; split <;> rfl
  simp only [buildRedirectURL, e6, e5]
  unfold stage4
  rw [if_neg (by simp [hp]), e3, e2]
  rfl

example : (buildRedirectURL { url := { scheme := lit "https", host := lit "bar.com", path := lit "/$path" }, code := 301 }
    { host := lit "foo.com", path := lit "/abc/", rawQuery := lit "aaa=1" }).rawQuery = lit "aaa=1" := by decide
example : urlString (buildRedirectURL { url := { scheme := lit "http", host := lit "bar.com", path := lit "/a/b/c", rawQuery := lit "foo=bar" }, code := 301 }
    { host := lit "foo.com", path := lit "/", rawQuery := lit "aaa=1" }) = lit "http://bar.com/a/b/c?foo=bar" := by decide
example : (buildRedirectURL { url := { scheme := lit "https", host := lit "$host", path := lit "/$path" }, code := 301 }
    { host := lit "foo.com:8080", path := lit "/" }).host = lit "foo.com:8080" := by decide

/-! ### `$path`: the Location path -/


theorem stripPrefix_append (s x : Str) : stripPrefix (s ++ x) s = x := by
  simp [stripPrefix, hasPrefix, isPrefixOf_self_append]

theorem replacement_eq (t : RTarget) (req : URL) (r' p' : Str) (hpre : plain t.prepend = true)
    (hraw : escapedPath req = t.strip ++ r') (hpath : req.path = t.strip ++ p') :
    replacement t req = (t.prepend ++ p', t.prepend ++ r') := by
  have hesc : escapedPath ({ path := t.prepend } : URL) = t.prepend := escapedPath_plain _ rfl hpre
  unfold replacement
  by_cases hs : t.strip = []
  · simp only [hs, List.nil_append] at hraw hpath
    by_cases hp : t.prepend = [] <;> simp [hs, hp, hraw, hpath, hesc]
  · by_cases hp : t.prepend = [] <;> simp [hs, hp, hraw, hpath, stripPrefix_append, hesc]

/-- core: once the template is normalised to `prefix ++ "$path"` -/
theorem escapedPath_core (t : RTarget) (req : URL) (u3 : URL) (pfx r' p' : Str)
    (h3p : u3.path = pfx ++ vPath) (h3r : u3.rawPath = pfx ++ vPath) (hd : ∀ c ∈ pfx, c ≠ 36)
    (hplain : plain pfx = true) (hpre : plain t.prepend = true)
    (hraw : escapedPath req = t.strip ++ r') (hpath : req.path = t.strip ++ p')
    (hv : validEncoded r' = true) (hu : unescape r' = some p') (hr : r' ≠ [])
    (habs : hasPrefix (pfx ++ (t.prepend ++ p')) slash = true) :
    escapedPath (stage6 req (stage5 (stage4 t req u3))) = pfx ++ (t.prepend ++ r') := by
  have hc : contains vPath u3.path = true := by
    rw [h3p]; have := contains_vPath_append pfx []; simpa using this
  have e4p : (stage4 t req u3).path = pfx ++ (t.prepend ++ p') := by
    unfold stage4; rw [if_pos hc, replacement_eq t req r' p' hpre hraw hpath]
    simp only []
    have := replace1_vPath_append pfx (t.prepend ++ p') [] hd
    simp only [List.append_nil] at this
    split <;> simp [h3p, this]
  have e4r : (stage4 t req u3).rawPath = pfx ++ (t.prepend ++ r') := by
    unfold stage4; rw [if_pos hc, replacement_eq t req r' p' hpre hraw hpath]
    simp only []
    have := replace1_vPath_append pfx (t.prepend ++ r') [] hd
    simp only [List.append_nil] at this
    split <;> simp [h3r, this]
  have e5 : stage5 (stage4 t req u3) = stage4 t req u3 := by
    unfold stage5; rw [e4p, habs]; rfl
  have e5p : (stage5 (stage4 t req u3)).path = pfx ++ (t.prepend ++ p') := by rw [e5]; exact e4p
  have e5r : (stage5 (stage4 t req u3)).rawPath = pfx ++ (t.prepend ++ r') := by rw [e5]; exact e4r
  have e6p : (stage6 req (stage5 (stage4 t req u3))).path = pfx ++ (t.prepend ++ p') := by
    unfold stage6; split <;> simp [e5p]
  have e6r : (stage6 req (stage5 (stage4 t req u3))).rawPath = pfx ++ (t.prepend ++ r') := by
    unfold stage6; split <;> simp [e5r]
  have hval : validEncoded (pfx ++ (t.prepend ++ r')) = true := by
    simp [validEncoded_append, validEncoded_plain _ hplain, validEncoded_plain _ hpre, hv]
  have hun : unescape (pfx ++ (t.prepend ++ r')) = some (pfx ++ (t.prepend ++ p')) := by
    rw [unescape_plain_append _ _ hplain, unescape_plain_append _ _ hpre, hu]; rfl
  have hne' : pfx ++ (t.prepend ++ r') ≠ [] := by
    intro h; simp only [List.append_eq_nil_iff] at h; exact hr h.2.2
  unfold escapedPath
  rw [e6p, e6r]
  simp [hne', hval, hun]

/-! ### the three spellings normalise to `prefix ++ "$path"` -/

theorem norm_hostPath (t : RTarget) (h : Str) (hh : t.url.host = h ++ vPath) :
    (stage3 (stage2 (stage1 t))).path = [] ++ vPath ∧ (stage3 (stage2 (stage1 t))).rawPath = [] ++ vPath := by
  have hs : hasSuffix (stage1 t).host vPath = true := by
    simp [stage1, hh, hasSuffix]
  have e : contains vSlashPath vPath = false := by decide
  unfold stage2; rw [if_pos hs]
  unfold stage3; simp [e]

theorem stage1_rawPath_plain (t : RTarget) (hr0 : t.url.rawPath = []) (hpl : plain t.url.path = true) :
    (stage1 t).rawPath = t.url.path := by
  simp only [stage1]; exact escapedPath_plain _ hr0 hpl

theorem norm_slashPath (t : RTarget) (pfx : Str) (hh : hasSuffix t.url.host vPath = false)
    (hp : t.url.path = pfx ++ vSlashPath) (hd : ∀ c ∈ pfx, c ≠ 36)
    (hr0 : t.url.rawPath = []) (hpl : plain pfx = true) :
    (stage3 (stage2 (stage1 t))).path = pfx ++ vPath ∧ (stage3 (stage2 (stage1 t))).rawPath = pfx ++ vPath := by
  have e2 : stage2 (stage1 t) = stage1 t := by unfold stage2; simp [stage1, hh]
  have hc : contains vSlashPath (stage1 t).path = true := by
    have := contains_vSlashPath_append pfx []; simpa [stage1, hp] using this
  have hr := replace1_vSlashPath_append pfx [] hd
  simp only [List.append_nil] at hr
  have hraw : (stage1 t).rawPath = pfx ++ vSlashPath := by
    rw [stage1_rawPath_plain t hr0 (by rw [hp, plain_append, hpl]; decide), hp]
  have hpath : (stage1 t).path = pfx ++ vSlashPath := by simp [stage1, hp]
  rw [e2]; unfold stage3; rw [if_pos hc]
  simp [hraw, hpath, hr]

theorem norm_barePath (t : RTarget) (pfx : Str) (hh : hasSuffix t.url.host vPath = false)
    (hp : t.url.path = pfx ++ vPath) (hd : ∀ c ∈ pfx, c ≠ 36) (hl : pfx.getLast? ≠ some 47)
    (hr0 : t.url.rawPath = []) (hpl : plain pfx = true) :
    (stage3 (stage2 (stage1 t))).path = pfx ++ vPath ∧ (stage3 (stage2 (stage1 t))).rawPath = pfx ++ vPath := by
  have e2 : stage2 (stage1 t) = stage1 t := by unfold stage2; simp [stage1, hh]
  have hc : contains vSlashPath (stage1 t).path = false := by
    simpa [stage1, hp] using not_contains_vSlashPath pfx hd hl
  have hraw : (stage1 t).rawPath = pfx ++ vPath := by
    rw [stage1_rawPath_plain t hr0 (by rw [hp, plain_append, hpl]; decide), hp]
  have hpath : (stage1 t).path = pfx ++ vPath := by simp [stage1, hp]
  rw [e2]; unfold stage3; rw [if_neg (by simp [hc])]
  simp [hraw, hpath]

/-- **The Location path is the request's path, in the request's own encoding.**
For each of the three spellings — `host$path`, `…prefix/$path`, `…prefix$path` — of a template whose
prefix is plain (no byte that needs escaping, no `$`), with a plain `prepend`, and a request whose escaped path
(`URL.EscapedPath()`: the bytes the client wrote whenever they are a valid encoding) is `strip ++ r'` and whose
decoded path is `strip ++ p'` (`strip` empty or applying literally to both): the bytes that go into `Location` are exactly `prefix ++ prepend ++ r'` — the client's percent-encoding
(`%2F`, `%3F`, `%25`, lower-case hex …) is kept byte for byte.

The hypothesis that strip applies literally to both paths is forced: without it the statement is false on
the code (finding D17d, strip matching only one of the two paths). The plainness hypotheses on prefix and
prepend are *not* forced any more since the repairs of D17b/D17c (the code escapes the literal parts); they
remain here because lifting them needs `unescape (escape s) = some s` for arbitrary bytes, which is
covered by the correspondence (`c13.url` spec) and not proved. Before the repair of D17 the statement was
false for every `host$path` template (`https://$host$path`, `/a%2Fb` ↦ `/a/b`). -/
theorem location_path_is_request_path (t : RTarget) (req : URL) (pfx r' p' : Str)
    (spelling :
      (∃ h, t.url.host = h ++ vPath ∧ pfx = []) ∨
      (hasSuffix t.url.host vPath = false ∧ t.url.rawPath = [] ∧ t.url.path = pfx ++ vSlashPath) ∨
      (hasSuffix t.url.host vPath = false ∧ t.url.rawPath = [] ∧ t.url.path = pfx ++ vPath ∧ pfx.getLast? ≠ some 47))
    (hd : ∀ c ∈ pfx, c ≠ 36) (hplain : plain pfx = true) (hpre : plain t.prepend = true)
    (hraw : escapedPath req = t.strip ++ r') (hpath : req.path = t.strip ++ p')
    (hv : validEncoded r' = true) (hu : unescape r' = some p') (hr : r' ≠ [])
    (habs : hasPrefix (pfx ++ (t.prepend ++ p')) slash = true) :
    escapedPath (buildRedirectURL t req) = pfx ++ (t.prepend ++ r') := by
  have hn : (stage3 (stage2 (stage1 t))).path = pfx ++ vPath ∧ (stage3 (stage2 (stage1 t))).rawPath = pfx ++ vPath := by
    rcases spelling with ⟨h, hh, rfl⟩ | ⟨hh, hr0, hp⟩ | ⟨hh, hr0, hp, hl⟩
    · exact norm_hostPath t h hh
    · exact norm_slashPath t pfx hh hp hd hr0 hplain
    · exact norm_barePath t pfx hh hp hd hl hr0 hplain
  exact escapedPath_core t req _ pfx r' p' hn.1 hn.2 hd hplain hpre hraw hpath hv hu hr habs

/-- D17's witness, now repaired: `https://$host$path`, request `/a%2Fb` keeps `%2F`. -/
example : location { url := { scheme := lit "https", host := lit "$host$path" }, code := 301 }
    { host := lit "x.com", path := lit "/a/b", rawPath := lit "/a%2Fb", rawQuery := lit "q=1" }
    = lit "https://x.com/a%2Fb?q=1" := by decide
/-- all three spellings, strip and prepend, on one request -/
example : location { url := { scheme := lit "https", host := lit "bar.com", path := lit "/bbb/$path" }, strip := lit "/s", prepend := lit "/p", code := 302 }
    { host := lit "x.com", path := lit "/s/a/b c", rawPath := lit "/s/a%2Fb%20c" } = lit "https://bar.com/bbb/p/a%2Fb%20c" := by decide
example : location { url := { scheme := lit "https", host := lit "bar.com", path := lit "/bbb$path" }, code := 302 }
    { host := lit "x.com", path := lit "/a?b", rawPath := lit "/a%3fb" } = lit "https://bar.com/bbb/a%3fb" := by decide
/-- D17c, repaired: a prepend that needs escaping no longer costs the request its `%2F` -/
example : location { url := { scheme := lit "https", host := lit "bar.com", path := lit "/$path" }, prepend := lit "/a b", code := 301 }
    { host := lit "x.com", path := lit "/x/y", rawPath := lit "/x%2Fy" } = lit "https://bar.com/a%20b/x%2Fy" := by decide
/-- D17b, repaired: the template's own `%2F` stays -/
example : location { url := { scheme := lit "https", host := lit "bar.com", path := lit "/a/b/$path", rawPath := lit "/a%2Fb/$path" }, code := 301 }
    { host := lit "x.com", path := lit "/x" } = lit "https://bar.com/a%2Fb/x" := by decide
/-- D17d, recorded: strip matching only the decoded path -/
example : location { url := { scheme := lit "https", host := lit "bar.com", path := lit "/$path" }, strip := lit "/foo", code := 301 }
    { host := lit "x.com", path := lit "/foo/a/b", rawPath := lit "/%66oo/a%2Fb" } = lit "https://bar.com/a/b" := by decide
/-- D18b, repaired: `strip=/` on `host$path` — the built path is absolute, so the comparison sees the loop -/
example : selfRedirect (buildRedirectURL { url := { scheme := lit "https", host := lit "$host$path" }, strip := lit "/", code := 308 }
    { host := lit "example.com:443", path := lit "/]", rawPath := lit "/]" }) (lit "https") { host := lit "example.com:443", path := lit "/]", rawPath := lit "/]" } = true := by decide
/-- an empty resulting path is sent as `/` -/
example : location { url := { scheme := lit "https", host := lit "bar.com$path" }, strip := lit "/foo", code := 301 }
    { host := lit "x.com", path := lit "/foo" } = lit "https://bar.com/" := by decide

/-! ### self-redirect skip -/

/-- A redirect whose URL has the request's own scheme, host and path is skipped: the loop goes on to the
next matching host as if this host had no route (D18c repaired: the skipped target is dropped). -/
theorem self_redirect_skipped (scheme : Str) (req : URL) (t : RTarget) (rest : List (Option RTarget))
    (hc : t.code ≠ 0) (hs : selfRedirect (buildRedirectURL t req) scheme req = true) :
    lookupLoop scheme req (some t :: rest) = lookupLoop scheme req rest := by
  simp [lookupLoop, hc, hs]

/-- …in favour of the next matching host: hosts without a matching route are passed over, and the first
plain target found is the one the request is proxied to. -/
theorem self_redirect_next_host_wins (scheme : Str) (req : URL) (t t2 : RTarget) (n : Nat) (rest : List (Option RTarget))
    (hc : t.code ≠ 0) (hs : selfRedirect (buildRedirectURL t req) scheme req = true) (h2 : t2.code = 0) :
    lookup scheme req (some t :: (List.replicate n none ++ some t2 :: rest)) = some (t2, none) := by
  unfold lookup
  rw [self_redirect_skipped scheme req t _ hc hs]
  induction n with
  | zero => simp [lookupLoop, h2]
  | succ k ih => simp only [List.replicate_succ, List.cons_append, lookupLoop]; exact ih

/-- a redirect that does not point back at the request is answered at once -/
theorem other_redirect_answered (scheme : Str) (req : URL) (t : RTarget) (rest : List (Option RTarget))
    (hc : t.code ≠ 0) (hs : selfRedirect (buildRedirectURL t req) scheme req = false) :
    lookupLoop scheme req (some t :: rest) = some (t, some (buildRedirectURL t req)) := by
  simp [lookupLoop, hc, hs]

/-- The request's own scheme: `X-Forwarded-Proto` when present, else the connection (D18 repaired). -/
theorem request_scheme (xfp : Str) (tls : Bool) :
    reqScheme xfp tls = if xfp ≠ [] then xfp else if tls then lit "https" else lit "http" := rfl

/-- D18's witness: `route add svc example.com/ https://example.com/ opts "redirect=301"` and a fallback
route; an HTTPS request *without* `X-Forwarded-Proto` is handed to the fallback instead of being
redirected to itself. -/
example :
    let t : RTarget := { url := { scheme := lit "https", host := lit "example.com", path := lit "/" }, code := 301 }
    let up : RTarget := { url := { scheme := lit "http", host := lit "127.0.0.1:3000", path := lit "/" } }
    let req : URL := { host := lit "example.com", path := lit "/" }
    answer (reqScheme [] true) req [some t, some up] = none ∧
    lookup (reqScheme [] true) req [some t, some up] = some (up, none) ∧
    -- over plain HTTP the same route redirects
    answer (reqScheme [] false) req [some t, some up] = some (301, lit "https://example.com/") := by decide

/-! ### the answer depends on the request alone, under every interleaving -/

inductive Step where
  | lookup (i : Nat)   -- request i runs `Table.Lookup`
  | serve (i : Nat)    -- request i reaches the redirect branch of `ServeHTTP`
deriving DecidableEq, Repr

/-- The repaired code: `Lookup` builds the URL on a copy of the target that belongs to the request
(`locals`), `ServeHTTP` reads that copy; the shared target `t` is only read. -/
def runPerRequest (t : RTarget) (reqs : Nat → URL) : List Step → List (Nat × URL) → List (Nat × Str) → List (Nat × Str)
  | [], _, out => out
  | .lookup i :: s, locals, out => runPerRequest t reqs s ((i, buildRedirectURL t (reqs i)) :: locals) out
  | .serve i :: s, locals, out =>
      match locals.lookup i with
      | some u => runPerRequest t reqs s locals (out ++ [(i, hexEscapeNonASCII (urlString u))])
      | none => runPerRequest t reqs s locals out

/-- The code before the repair of D08: one cell on the shared target, written by every lookup. -/
def runSharedCell (t : RTarget) (reqs : Nat → URL) : List Step → Option URL → List (Nat × Str) → List (Nat × Str)
  | [], _, out => out
  | .lookup i :: s, _, out => runSharedCell t reqs s (some (buildRedirectURL t (reqs i))) out
  | .serve i :: s, cell, out =>
      match cell with
      | some u => runSharedCell t reqs s cell (out ++ [(i, hexEscapeNonASCII (urlString u))])
      | none => runSharedCell t reqs s cell out

theorem runPerRequest_inv (t : RTarget) (reqs : Nat → URL) (s : List Step) (locals : List (Nat × URL)) (out : List (Nat × Str))
    (hl : ∀ i u, locals.lookup i = some u → u = buildRedirectURL t (reqs i))
    (ho : ∀ p ∈ out, p.2 = location t (reqs p.1)) :
    ∀ p ∈ runPerRequest t reqs s locals out, p.2 = location t (reqs p.1) := by
  induction s generalizing locals out with
  | nil => simpa [runPerRequest] using ho
  | cons st s ih =>
    cases st with
    | lookup i =>
      simp only [runPerRequest]
      apply ih _ _ _ ho
      intro j u hj
      simp only [List.lookup_cons] at hj
      split at hj
      · rename_i heq; simp only [beq_iff_eq] at heq; cases hj; rw [heq]
      · exact hl j u hj
    | serve i =>
      simp only [runPerRequest]
      split
      · rename_i u hu
        apply ih _ _ hl
        intro p hp
        simp only [List.mem_append, List.mem_singleton] at hp
        rcases hp with hp | rfl
        · exact ho p hp
        · simp [location, hl i u hu]
      · exact ih _ _ hl ho

/-- **Under every interleaving of any number of simultaneous requests on one shared redirect target, each
request is answered with the Location computed from its own request alone.** -/
theorem redirect_depends_only_on_request (t : RTarget) (reqs : Nat → URL) (schedule : List Step) :
    ∀ p ∈ runPerRequest t reqs schedule [] [], p.2 = location t (reqs p.1) :=
  runPerRequest_inv t reqs schedule [] [] (by simp) (by simp)

/-- D08's witness on the pre-repair design: with the shared cell the schedule
lookup₀ lookup₁ serve₀ serve₁ answers request 0 with request 1's path. -/
example :
    let t : RTarget := { url := { scheme := lit "https", host := lit "x.com$path" }, code := 301 }
    let reqs : Nat → URL := fun i => if i = 0 then { host := lit "a.com", path := lit "/zero" } else { host := lit "a.com", path := lit "/one" }
    runSharedCell t reqs [.lookup 0, .lookup 1, .serve 0, .serve 1] none [] = [(0, lit "https://x.com/one"), (1, lit "https://x.com/one")] ∧
    runPerRequest t reqs [.lookup 0, .lookup 1, .serve 0, .serve 1] [] [] = [(0, lit "https://x.com/zero"), (1, lit "https://x.com/one")] := by decide

end Fabio.Props.C13
