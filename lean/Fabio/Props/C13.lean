import Fabio.Model.C13
/-!
C13 — redirect routes answer from the request alone: property theorems.
-/
namespace Fabio.Props.C13
open Fabio Fabio.Model.C13

end Fabio.Props.C13
