import Fabio.Model.C13
import Fabio.Lemmas.C13
import Fabio.Lemmas.C13Escape
/-!
C13 — redirect routes answer from the request alone: property theorems.

The model (`Model/C13.lean`) follows the repaired tree (D08, D17, D17b, D17c, D18, D18b, D18c, D27). The
one statement the code cannot satisfy in full generality carries its extra hypothesis explicitly (strip
applying literally to both the decoded and the raw path): the excluded input class is the recorded finding
D17d of `checks/C13.findings.json`, replayed from the corpus. Composition with C03: `Props/C13Compose.lean`.
-/
namespace Fabio.Props.C13
open Fabio Fabio.Model.C13 Fabio.Lemmas.C13

/-! ### status code -/

/-- Whatever the `redirect=` option says, the target's code is 0 or a 3xx code. -/
theorem redirect_code_3xx_only (opt : Str) :
    redirectCode opt = 0 ∨ (300 ≤ redirectCode opt ∧ redirectCode opt ≤ 399) := by
  unfold redirectCode
  split
  · exact Or.inl rfl
  · simp only []
    split
    · exact Or.inl rfl
    · split
      · exact Or.inl rfl
      · rename_i h
        simp only [Bool.or_eq_true, decide_eq_true_eq, not_or, Int.not_lt] at h
        right; omega

/-- …and a target with code 0 is not answered with a redirect: it is handed to the proxy as it is. -/
theorem code_zero_is_not_a_redirect (scheme : Str) (req : URL) (t : RTarget) (rest : List (Option RTarget))
    (h : t.code = 0) :
    lookupLoop scheme req (some t :: rest) = some (t, none) := by
  simp [lookupLoop, h]

/-- **"…receives the configured 3xx status"**: for every option text, what `addTarget` makes of it (`strconv.Atoi`
with its sign handling and its clamping on range errors, then the range test) is the plain decimal reading of
the text: an optional `+` and digits with a value in 300..399 is that status; anything else configures no
redirect. In particular every code 300..399 is honoured, not only the ones with a name in `net/http`. -/
theorem configured_status_is_the_code (opt : Str) : redirectCode opt = configuredCode opt := by
  match opt with
  | [] => rfl
  | c :: r =>
    by_cases c43 : c = 43
    · subst c43
      have := core_eq r
      simp only [redirectCode, configuredCode, dropPlus, atoi_plus, List.isEmpty_cons, Bool.false_eq_true, if_false] at this ⊢
      rw [this]
    · by_cases c45 : c = 45
      · subst c45
        have hc : configuredCode (45 :: r) = 0 := by
          have : isDigit 45 = false := by decide
          simp [configuredCode, dropPlus, this]
        rw [hc]
        simp only [redirectCode, List.isEmpty_cons, Bool.false_eq_true, if_false]
        rcases atoi_minus r with h | h
        · simp [h]
        · split
          · rfl
          · have : ((atoi (45 :: r)).1 < 300) := by omega
            simp [this]
      · have hb : dropPlus (c :: r) = c :: r := by
          unfold dropPlus
          split
          · rename_i heq; simp only [List.cons.injEq] at heq; exact absurd heq.1 c43
          · rfl
        have := core_eq (c :: r)
        simp only [redirectCode, configuredCode, hb, atoi_unsigned c r c43 c45, List.isEmpty_cons, Bool.false_eq_true, if_false] at this ⊢
        rw [this]

/-- every 3xx code is a configured status (the whole range, by evaluation) -/
example : (List.range 100).all (fun k => configuredCode (lit (toString (300 + k))) == ((300 + k : Nat) : Int)) = true := by decide
example : redirectCode (lit "399") = 399 ∧ redirectCode (lit "+308") = 308 ∧ redirectCode (lit "0301") = 301 ∧ redirectCode (lit "-301") = 0 ∧ redirectCode (lit "400") = 0 := by decide
example : redirectCode (lit "301") = 301 := by decide
example : redirectCode (lit "200") = 0 := by decide
example : redirectCode (lit "abc") = 0 := by decide
/-- D27: a value `Atoi` rejects with a range error (it returns MaxInt64 then) yields 0, not MaxInt64. -/
example : redirectCode (lit "99999999999999999999") = 0 := by decide
example : (atoi (lit "99999999999999999999")).1 = maxInt := by decide

/-! ### `$host` -/

/-- The host of the redirect URL is the template's host (without a `$path` suffix) in which the first
`$host` is replaced by the request's `Host`. -/
theorem host_substituted (t : RTarget) (req : URL) :
    (buildRedirectURL t req).host =
      if contains vHost (stage2 (stage1 t)).host then replace1 vHost req.host (stage2 (stage1 t)).host
      else (stage2 (stage1 t)).host := by
  have e3 : ∀ u, (stage3 u).host = u.host := by intro u; unfold stage3; split <;> rfl
  have e4 : ∀ u, (stage4 t req u).host = u.host := by
    intro u; unfold stage4; split
    · simp only []; split <;> rfl
    · rfl
  have e5 : ∀ u, (stage5 u).host = u.host := by intro u; unfold stage5; split <;> rfl
  simp only [buildRedirectURL, stage6, e5, e4, e3]
  split <;> simp_all

/-! ### query -/

/-- For a `$path` template (after the normalisation steps the path still holds `$path`): the request's
query is carried when the template has none, the template's own query wins otherwise. -/
theorem query_carried_when_target_has_none (t : RTarget) (req : URL)
    (hp : contains vPath (stage3 (stage2 (stage1 t))).path = true) :
    (buildRedirectURL t req).rawQuery = if t.url.rawQuery = [] then req.rawQuery else t.url.rawQuery := by
  have e2 : ∀ u, (stage2 u).rawQuery = u.rawQuery := by intro u; unfold stage2; split <;> rfl
  have e3 : ∀ u, (stage3 u).rawQuery = u.rawQuery := by intro u; unfold stage3; split <;> rfl
  have e5 : ∀ u, (stage5 u).rawQuery = u.rawQuery := by intro u; unfold stage5; split <;> rfl
  have e6 : ∀ u, (stage6 req u).rawQuery = u.rawQuery := by intro u; unfold stage6; split <;> rfl
  have q0 : (stage3 (stage2 (stage1 t))).rawQuery = t.url.rawQuery := by rw [e3, e2]; rfl
  simp only [buildRedirectURL, e6, e5]
  unfold stage4
  rw [if_pos hp]
  by_cases hq : t.url.rawQuery = []
  · by_cases hr : req.rawQuery = [] <;> simp [hq, hr, q0]
  · have : t.url.rawQuery.isEmpty = false := by cases h : t.url.rawQuery <;> simp_all
    simp [hq, this, q0]

/-- A fixed-URL redirect (no `$path`) keeps the template's own query — as coded; the request's query is
not carried there. -/
theorem fixed_template_keeps_its_query (t : RTarget) (req : URL)
    (hp : contains vPath (stage3 (stage2 (stage1 t))).path = false) :
    (buildRedirectURL t req).rawQuery = t.url.rawQuery := by
  have e2 : ∀ u, (stage2 u).rawQuery = u.rawQuery := by intro u; unfold stage2; split <;> rfl
  have e3 : ∀ u, (stage3 u).rawQuery = u.rawQuery := by intro u; unfold stage3; split <;> rfl
  have e5 : ∀ u, (stage5 u).rawQuery = u.rawQuery := by intro u; unfold stage5; split <;> rfl
  have e6 : ∀ u, (stage6 req u).rawQuery = u.rawQuery := by intro u; unfold stage6; split <;> rfl
  simp only [buildRedirectURL, e6, e5]
  unfold stage4
  rw [if_neg (by simp [hp]), e3, e2]
  rfl

example : (buildRedirectURL { url := { scheme := lit "https", host := lit "bar.com", path := lit "/$path" }, code := 301 }
    { host := lit "foo.com", path := lit "/abc/", rawQuery := lit "aaa=1" }).rawQuery = lit "aaa=1" := by decide
example : urlString (buildRedirectURL { url := { scheme := lit "http", host := lit "bar.com", path := lit "/a/b/c", rawQuery := lit "foo=bar" }, code := 301 }
    { host := lit "foo.com", path := lit "/", rawQuery := lit "aaa=1" }) = lit "http://bar.com/a/b/c?foo=bar" := by decide
example : (buildRedirectURL { url := { scheme := lit "https", host := lit "$host", path := lit "/$path" }, code := 301 }
    { host := lit "foo.com:8080", path := lit "/" }).host = lit "foo.com:8080" := by decide

/-! ### `$path`: the Location path -/


theorem stripPrefix_append (s x : Str) : stripPrefix (s ++ x) s = x := by
  simp [stripPrefix, hasPrefix, isPrefixOf_self_append]

/-- the escaped form of the `prepend` value that goes in front of the raw path -/
def escPrepend (t : RTarget) : Str := escapedPath ({ path := t.prepend } : URL)

theorem escPrepend_nil (t : RTarget) (h : t.prepend = []) : escPrepend t = [] := by
  simp [escPrepend, h, escapedPath, escape]

theorem replacement_eq (t : RTarget) (req : URL) (r' p' : Str)
    (hraw : escapedPath req = t.strip ++ r') (hpath : req.path = t.strip ++ p') :
    replacement t req = (t.prepend ++ p', escPrepend t ++ r') := by
  unfold replacement
  by_cases hs : t.strip = []
  · simp only [hs, List.nil_append] at hraw hpath
    by_cases hp : t.prepend = []
    · simp [hs, hp, hraw, hpath, escPrepend_nil t hp]
    · simp [hs, hp, hraw, hpath, escPrepend]
  · by_cases hp : t.prepend = []
    · simp [hs, hp, hraw, hpath, stripPrefix_append, escPrepend_nil t hp]
    · simp [hs, hp, hraw, hpath, stripPrefix_append, escPrepend]

/-- core: once the template is normalised to `prefix ++ "$path"` (decoded) / `eprefix ++ "$path"` (escaped) -/
theorem escapedPath_core (t : RTarget) (req : URL) (u3 : URL) (pfx epfx r' p' : Str)
    (h3p : u3.path = pfx ++ vPath) (h3r : u3.rawPath = epfx ++ vPath)
    (hd : ∀ c ∈ pfx, c ≠ 36) (hde : ∀ c ∈ epfx, c ≠ 36)
    (hev : validEncoded epfx = true) (heu : unescape epfx = some pfx)
    (hraw : escapedPath req = t.strip ++ r') (hpath : req.path = t.strip ++ p')
    (hv : validEncoded r' = true) (hu : unescape r' = some p')
    (habs : hasPrefix (pfx ++ (t.prepend ++ p')) slash = true) :
    escapedPath (stage6 req (stage5 (stage4 t req u3))) = epfx ++ (escPrepend t ++ r') := by
  have hc : contains vPath u3.path = true := by
    rw [h3p]; have := contains_vPath_append pfx []; simpa using this
  have e4p : (stage4 t req u3).path = pfx ++ (t.prepend ++ p') := by
    unfold stage4; rw [if_pos hc, replacement_eq t req r' p' hraw hpath]
    simp only []
    have := replace1_vPath_append pfx (t.prepend ++ p') [] hd
    simp only [List.append_nil] at this
    split <;> simp [h3p, this]
  have e4r : (stage4 t req u3).rawPath = epfx ++ (escPrepend t ++ r') := by
    unfold stage4; rw [if_pos hc, replacement_eq t req r' p' hraw hpath]
    simp only []
    have := replace1_vPath_append epfx (escPrepend t ++ r') [] hde
    simp only [List.append_nil] at this
    split <;> simp [h3r, this]
  have e5 : stage5 (stage4 t req u3) = stage4 t req u3 := by
    unfold stage5; rw [e4p, habs]; rfl
  have e5p : (stage5 (stage4 t req u3)).path = pfx ++ (t.prepend ++ p') := by rw [e5]; exact e4p
  have e5r : (stage5 (stage4 t req u3)).rawPath = epfx ++ (escPrepend t ++ r') := by rw [e5]; exact e4r
  have e6p : (stage6 req (stage5 (stage4 t req u3))).path = pfx ++ (t.prepend ++ p') := by
    unfold stage6; split <;> simp [e5p]
  have e6r : (stage6 req (stage5 (stage4 t req u3))).rawPath = epfx ++ (escPrepend t ++ r') := by
    unfold stage6; split <;> simp [e5r]
  have hpv : validEncoded (escPrepend t) = true := escapedPath_valid _
  have hpu : unescape (escPrepend t) = some t.prepend := escapedPath_decodes _
  have hval : validEncoded (epfx ++ (escPrepend t ++ r')) = true := by
    simp [validEncoded_append, hev, hpv, hv]
  have hun : unescape (epfx ++ (escPrepend t ++ r')) = some (pfx ++ (t.prepend ++ p')) := by
    rw [unescape_append _ _ _ heu, unescape_append _ _ _ hpu, hu]; rfl
  have hne' : epfx ++ (escPrepend t ++ r') ≠ [] := by
    intro h
    rw [h] at hun
    have h0 : pfx ++ (t.prepend ++ p') = [] := by
      have : unescape [] = some ([] : Str) := rfl
      rw [this] at hun; exact (Option.some.inj hun).symm
    rw [h0] at habs
    exact absurd habs (by decide)
  unfold escapedPath
  rw [e6p, e6r]
  simp [hne', hval, hun]

/-! ### the three spellings normalise to `prefix ++ "$path"` -/

theorem norm_hostPath (t : RTarget) (h : Str) (hh : t.url.host = h ++ vPath) :
    (stage3 (stage2 (stage1 t))).path = [] ++ vPath ∧ (stage3 (stage2 (stage1 t))).rawPath = [] ++ vPath := by
  have hs : hasSuffix (stage1 t).host vPath = true := by
    simp [stage1, hh, hasSuffix]
  have e : contains vSlashPath vPath = false := by decide
  unfold stage2; rw [if_pos hs]
  unfold stage3; simp [e]

theorem norm_slashPath (t : RTarget) (pfx epfx : Str) (hh : hasSuffix t.url.host vPath = false)
    (hp : t.url.path = pfx ++ vSlashPath) (he : escapedPath t.url = epfx ++ vSlashPath)
    (hd : ∀ c ∈ pfx, c ≠ 36) (hde : ∀ c ∈ epfx, c ≠ 36) :
    (stage3 (stage2 (stage1 t))).path = pfx ++ vPath ∧ (stage3 (stage2 (stage1 t))).rawPath = epfx ++ vPath := by
  have e2 : stage2 (stage1 t) = stage1 t := by unfold stage2; simp [stage1, hh]
  have hc : contains vSlashPath (stage1 t).path = true := by
    have := contains_vSlashPath_append pfx []; simpa [stage1, hp] using this
  have hr := replace1_vSlashPath_append pfx [] hd
  have hre := replace1_vSlashPath_append epfx [] hde
  simp only [List.append_nil] at hr hre
  have hraw : (stage1 t).rawPath = epfx ++ vSlashPath := by simp [stage1, he]
  have hpath : (stage1 t).path = pfx ++ vSlashPath := by simp [stage1, hp]
  rw [e2]; unfold stage3; rw [if_pos hc]
  simp [hraw, hpath, hr, hre]

theorem norm_barePath (t : RTarget) (pfx epfx : Str) (hh : hasSuffix t.url.host vPath = false)
    (hp : t.url.path = pfx ++ vPath) (he : escapedPath t.url = epfx ++ vPath)
    (hd : ∀ c ∈ pfx, c ≠ 36) (hl : pfx.getLast? ≠ some 47) :
    (stage3 (stage2 (stage1 t))).path = pfx ++ vPath ∧ (stage3 (stage2 (stage1 t))).rawPath = epfx ++ vPath := by
  have e2 : stage2 (stage1 t) = stage1 t := by unfold stage2; simp [stage1, hh]
  have hc : contains vSlashPath (stage1 t).path = false := by
    simpa [stage1, hp] using not_contains_vSlashPath pfx hd hl
  have hraw : (stage1 t).rawPath = epfx ++ vPath := by simp [stage1, he]
  have hpath : (stage1 t).path = pfx ++ vPath := by simp [stage1, hp]
  rw [e2]; unfold stage3; rw [if_neg (by simp [hc])]
  simp [hraw, hpath]

/-- **The Location path is the request's path, in the request's own encoding** — templates that carry an
encoding of their own. For each of the three spellings — `host$path`, `…prefix/$path`, `…prefix$path` — where the
template's escaped path (`URL.EscapedPath()` of the parsed template) is `eprefix ++ "/$path"` resp.
`eprefix ++ "$path"` with `eprefix` a valid encoding of the decoded `prefix`, *any* `prepend` value, and a
request whose escaped path is `strip ++ r'` and whose decoded path is `strip ++ p'`: the bytes that go into
`Location` are exactly `eprefix ++ escaped(prepend) ++ r'` — the template's and the client's percent-encoding
(`%2F`, `%3F`, `%25`, lower-case hex …) are kept byte for byte, and the literal `prepend` is escaped.

Round 3: no plainness hypothesis on prefix and prepend is left — `unescape ∘ escape = id` and
`validEncoded ∘ escape` are proved for arbitrary bytes (`Lemmas/C13Escape.lean`) — and the request may come
with or without a raw path (`hraw` speaks about `EscapedPath()`, the default encoding included).

The hypothesis that strip applies literally to both paths is forced: without it the statement is false on the
code (finding D17d). The shape `eprefix ++ "/$path"` of the *escaped* template excludes an encoded slash in
front of `$path` (finding D17f). -/
theorem location_path_is_request_path_enc (t : RTarget) (req : URL) (pfx epfx r' p' : Str)
    (spelling :
      (∃ h, t.url.host = h ++ vPath ∧ pfx = [] ∧ epfx = []) ∨
      (hasSuffix t.url.host vPath = false ∧ t.url.path = pfx ++ vSlashPath ∧ escapedPath t.url = epfx ++ vSlashPath) ∨
      (hasSuffix t.url.host vPath = false ∧ t.url.path = pfx ++ vPath ∧ escapedPath t.url = epfx ++ vPath ∧
        pfx.getLast? ≠ some 47))
    (hd : ∀ c ∈ pfx, c ≠ 36) (hde : ∀ c ∈ epfx, c ≠ 36)
    (hev : validEncoded epfx = true) (heu : unescape epfx = some pfx)
    (hs : ∀ c ∈ t.strip, c ≠ 37)
    (hraw : escapedPath req = t.strip ++ r') (hpath : req.path = t.strip ++ p')
    (habs : hasPrefix (pfx ++ (t.prepend ++ p')) slash = true) :
    escapedPath (buildRedirectURL t req) = epfx ++ (escPrepend t ++ r') := by
  have hn : (stage3 (stage2 (stage1 t))).path = pfx ++ vPath ∧ (stage3 (stage2 (stage1 t))).rawPath = epfx ++ vPath := by
    rcases spelling with ⟨h, hh, rfl, rfl⟩ | ⟨hh, hp, he⟩ | ⟨hh, hp, he, hl⟩
    · exact norm_hostPath t h hh
    · exact norm_slashPath t pfx epfx hh hp he hd hde
    · exact norm_barePath t pfx epfx hh hp he hd hl
  obtain ⟨hv, hu⟩ := rest_decodes req t.strip r' p' hs hraw hpath
  exact escapedPath_core t req _ pfx epfx r' p' hn.1 hn.2 hd hde hev heu hraw hpath hv hu habs

/-- a template without a raw-path hint (what `url.Parse` yields whenever the template is written in the
default encoding): its escaped path is `escape` of the decoded one -/
theorem escapedPath_template (t : RTarget) (pfx v : Str) (hr0 : t.url.rawPath = []) (hp : t.url.path = pfx ++ v)
    (hv : escape .path v = v) (hne : pfx ++ v ≠ [42]) :
    escapedPath t.url = escape .path pfx ++ v := by
  unfold escapedPath
  simp only [hr0, ne_eq, not_true_eq_false, decide_false, Bool.false_and, Bool.false_eq_true, if_false]
  rw [hp]
  have : (pfx ++ v == [42]) = false := by simpa using hne
  rw [this]
  simp only [Bool.false_eq_true, if_false]
  rw [escape_append, hv]

/-- **The Location path is the request's path, in the request's own encoding** — the documented templates
(`url.Parse` left no raw-path hint): for `host$path`, `…prefix/$path`, `…prefix$path` with *any* prefix bytes
(no `$`), *any* `prepend`, and a request (with or without raw path) whose escaped path is `strip ++ r'` and whose
decoded path is `strip ++ p'`, `strip` free of `%`:
`EscapedPath(redirect URL) = escape(prefix) ++ escaped(prepend) ++ r'`.
**Partial** in one point only, and that one is forced by the code: `strip` must apply literally to both the
decoded and the escaped request path (finding D17d, replayed from the corpus). -/
theorem location_path_is_request_path (t : RTarget) (req : URL) (pfx r' p' : Str)
    (spelling :
      (∃ h, t.url.host = h ++ vPath ∧ pfx = []) ∨
      (hasSuffix t.url.host vPath = false ∧ t.url.rawPath = [] ∧ t.url.path = pfx ++ vSlashPath) ∨
      (hasSuffix t.url.host vPath = false ∧ t.url.rawPath = [] ∧ t.url.path = pfx ++ vPath ∧ pfx.getLast? ≠ some 47))
    (hd : ∀ c ∈ pfx, c ≠ 36) (hs : ∀ c ∈ t.strip, c ≠ 37)
    (hraw : escapedPath req = t.strip ++ r') (hpath : req.path = t.strip ++ p')
    (habs : hasPrefix (pfx ++ (t.prepend ++ p')) slash = true) :
    escapedPath (buildRedirectURL t req) = escape .path pfx ++ (escPrepend t ++ r') := by
  have e1 : escape .path vSlashPath = vSlashPath := by decide
  have e2 : escape .path vPath = vPath := by decide
  have hne1 : pfx ++ vSlashPath ≠ [42] := by
    intro h; have := congrArg List.length h; simp [vSlashPath, vPath] at this
  have hne2 : pfx ++ vPath ≠ [42] := by
    intro h; have := congrArg List.length h; simp [vPath] at this
  refine location_path_is_request_path_enc t req pfx (escape .path pfx) r' p' ?_ hd (escape_no_dollar pfx hd)
    (validEncoded_escape pfx) (unescape_escape pfx) hs hraw hpath habs
  rcases spelling with ⟨h, hh, rfl⟩ | ⟨hh, hr0, hp⟩ | ⟨hh, hr0, hp, hl⟩
  · exact Or.inl ⟨h, hh, rfl, rfl⟩
  · exact Or.inr (Or.inl ⟨hh, hp, escapedPath_template t pfx vSlashPath hr0 hp e1 hne1⟩)
  · exact Or.inr (Or.inr ⟨hh, hp, escapedPath_template t pfx vPath hr0 hp e2 hne2, hl⟩)

/-- non-vacuity of `location_path_is_request_path`: a prefix and a prepend that both need escaping, a request
*without* raw path whose default encoding escapes a space, strip applying to both paths -/
example :
    let t : RTarget := { url := { scheme := lit "https", host := lit "bar.com", path := lit "/a b/$path" }, strip := lit "/s", prepend := lit "/p q", code := 302 }
    let req : URL := { host := lit "x.com", path := lit "/s/x y" }
    escapedPath req = t.strip ++ lit "/x%20y" ∧ req.path = t.strip ++ lit "/x y" ∧
    escapedPath (buildRedirectURL t req) = escape .path (lit "/a b") ++ (escPrepend t ++ lit "/x%20y") ∧
    escapedPath (buildRedirectURL t req) = lit "/a%20b/p%20q/x%20y" := by decide
/-- …and of the `_enc` form: the template's own `%2F` (D17b) together with the client's -/
example :
    let t : RTarget := { url := { scheme := lit "https", host := lit "bar.com", path := lit "/a/b/$path", rawPath := lit "/a%2Fb/$path" }, code := 301 }
    let req : URL := { host := lit "x.com", path := lit "/x/y", rawPath := lit "/x%2Fy" }
    escapedPath t.url = lit "/a%2Fb" ++ vSlashPath ∧ unescape (lit "/a%2Fb") = some (lit "/a/b") ∧
    escapedPath (buildRedirectURL t req) = lit "/a%2Fb/x%2Fy" := by decide

/-- D17's witness, now repaired: `https://$host$path`, request `/a%2Fb` keeps `%2F`. -/
example : location { url := { scheme := lit "https", host := lit "$host$path" }, code := 301 }
    { host := lit "x.com", path := lit "/a/b", rawPath := lit "/a%2Fb", rawQuery := lit "q=1" }
    = lit "https://x.com/a%2Fb?q=1" := by decide
/-- all three spellings, strip and prepend, on one request -/
example : location { url := { scheme := lit "https", host := lit "bar.com", path := lit "/bbb/$path" }, strip := lit "/s", prepend := lit "/p", code := 302 }
    { host := lit "x.com", path := lit "/s/a/b c", rawPath := lit "/s/a%2Fb%20c" } = lit "https://bar.com/bbb/p/a%2Fb%20c" := by decide
example : location { url := { scheme := lit "https", host := lit "bar.com", path := lit "/bbb$path" }, code := 302 }
    { host := lit "x.com", path := lit "/a?b", rawPath := lit "/a%3fb" } = lit "https://bar.com/bbb/a%3fb" := by decide
/-- D17c, repaired: a prepend that needs escaping no longer costs the request its `%2F` -/
example : location { url := { scheme := lit "https", host := lit "bar.com", path := lit "/$path" }, prepend := lit "/a b", code := 301 }
    { host := lit "x.com", path := lit "/x/y", rawPath := lit "/x%2Fy" } = lit "https://bar.com/a%20b/x%2Fy" := by decide
/-- D17b, repaired: the template's own `%2F` stays -/
example : location { url := { scheme := lit "https", host := lit "bar.com", path := lit "/a/b/$path", rawPath := lit "/a%2Fb/$path" }, code := 301 }
    { host := lit "x.com", path := lit "/x" } = lit "https://bar.com/a%2Fb/x" := by decide
/-- D17d, recorded: strip matching only the decoded path -/
example : location { url := { scheme := lit "https", host := lit "bar.com", path := lit "/$path" }, strip := lit "/foo", code := 301 }
    { host := lit "x.com", path := lit "/foo/a/b", rawPath := lit "/%66oo/a%2Fb" } = lit "https://bar.com/a/b" := by decide
/-- D18b, repaired: `strip=/` on `host$path` — the built path is absolute, so the comparison sees the loop -/
example : selfRedirect (buildRedirectURL { url := { scheme := lit "https", host := lit "$host$path" }, strip := lit "/", code := 308 }
    { host := lit "example.com:443", path := lit "/]", rawPath := lit "/]" }) (lit "https") { host := lit "example.com:443", path := lit "/]", rawPath := lit "/]" } = true := by decide
/-- an empty resulting path is sent as `/` -/
example : location { url := { scheme := lit "https", host := lit "bar.com$path" }, strip := lit "/foo", code := 301 }
    { host := lit "x.com", path := lit "/foo" } = lit "https://bar.com/" := by decide

/-! ### the whole Location -/

theorem scheme_kept (t : RTarget) (req : URL) : (buildRedirectURL t req).scheme = t.url.scheme := by
  have e2 : ∀ u, (stage2 u).scheme = u.scheme := by intro u; unfold stage2; split <;> rfl
  have e3 : ∀ u, (stage3 u).scheme = u.scheme := by intro u; unfold stage3; split <;> rfl
  have e4 : ∀ u, (stage4 t req u).scheme = u.scheme := by
    intro u; unfold stage4; split
    · simp only []; split <;> rfl
    · rfl
  have e5 : ∀ u, (stage5 u).scheme = u.scheme := by intro u; unfold stage5; split <;> rfl
  have e6 : ∀ u, (stage6 req u).scheme = u.scheme := by intro u; unfold stage6; split <;> rfl
  simp only [buildRedirectURL, e6, e5, e4, e3, e2]; rfl

/-- `URL.String()` of a URL with a scheme and a host: `scheme://host` + (a `/` if the escaped path does not start
with one) + escaped path + `?query` -/
theorem urlString_with_scheme_host (u : URL) (hs : u.scheme ≠ []) (hh : u.host ≠ []) :
    urlString u = u.scheme ++ [58] ++ ([47, 47] ++ escape .host u.host) ++
      (if escapedPath u ≠ [] && (escapedPath u).head? != some 47 then [47] else []) ++ escapedPath u ++
      (if u.rawQuery ≠ [] then 63 :: u.rawQuery else []) := by
  unfold urlString
  simp only [hs, hh, ne_eq, not_false_eq_true, decide_true, Bool.true_or, Bool.or_true, if_true, Bool.and_true]
  simp

/-- **The whole Location of a documented redirect template** — the property's first sentence as one equation.
For `scheme://host$path`, `scheme://host/prefix/$path`, `scheme://host/prefix$path` (template without a raw-path
hint, any prefix bytes, any prepend), a request with or without raw path whose escaped path is `strip ++ r'`:

`Location = scheme "://" host' [ "/" ] escape(prefix) escaped(prepend) r' [ "?" query ]`

with `host'` the template host in which `$host` is the request's `Host`, the `/` only when the rest does not
start with one (the client encoded the first slash), and `query` the template's if it has one, else the request's;
non-ASCII bytes `%xx`-escaped by `http.Redirect`. **Partial** only in the forced strip hypothesis (D17d). -/
theorem documented_redirect_location (t : RTarget) (req : URL) (pfx r' p' : Str)
    (spelling :
      (∃ h, t.url.host = h ++ vPath ∧ pfx = []) ∨
      (hasSuffix t.url.host vPath = false ∧ t.url.rawPath = [] ∧ t.url.path = pfx ++ vSlashPath) ∨
      (hasSuffix t.url.host vPath = false ∧ t.url.rawPath = [] ∧ t.url.path = pfx ++ vPath ∧ pfx.getLast? ≠ some 47))
    (hd : ∀ c ∈ pfx, c ≠ 36) (hs : ∀ c ∈ t.strip, c ≠ 37)
    (hraw : escapedPath req = t.strip ++ r') (hpath : req.path = t.strip ++ p')
    (habs : hasPrefix (pfx ++ (t.prepend ++ p')) slash = true)
    (hsch : t.url.scheme ≠ []) (hhost : (buildRedirectURL t req).host ≠ []) :
    let host' := if contains vHost (stage2 (stage1 t)).host then replace1 vHost req.host (stage2 (stage1 t)).host
                 else (stage2 (stage1 t)).host
    let P := escape .path pfx ++ (escPrepend t ++ r')
    let q := if t.url.rawQuery = [] then req.rawQuery else t.url.rawQuery
    location t req = hexEscapeNonASCII (t.url.scheme ++ [58] ++ ([47, 47] ++ escape .host host') ++
      (if P ≠ [] && P.head? != some 47 then [47] else []) ++ P ++ (if q ≠ [] then 63 :: q else [])) := by
  intro host' P q
  have hP := location_path_is_request_path t req pfx r' p' spelling hd hs hraw hpath habs
  have hH := host_substituted t req
  have hn : (stage3 (stage2 (stage1 t))).path = pfx ++ vPath := by
    have e1 : escape .path vSlashPath = vSlashPath := by decide
    have e2 : escape .path vPath = vPath := by decide
    have hne1 : pfx ++ vSlashPath ≠ [42] := by
      intro h; have := congrArg List.length h; simp [vSlashPath, vPath] at this
    have hne2 : pfx ++ vPath ≠ [42] := by
      intro h; have := congrArg List.length h; simp [vPath] at this
    rcases spelling with ⟨h, hh, rfl⟩ | ⟨hh, hr0, hp⟩ | ⟨hh, hr0, hp, hl⟩
    · exact (norm_hostPath t h hh).1
    · exact (norm_slashPath t pfx (escape .path pfx) hh hp (escapedPath_template t pfx vSlashPath hr0 hp e1 hne1) hd
        (escape_no_dollar pfx hd)).1
    · exact (norm_barePath t pfx (escape .path pfx) hh hp (escapedPath_template t pfx vPath hr0 hp e2 hne2) hd hl).1
  have hc : contains vPath (stage3 (stage2 (stage1 t))).path = true := by
    rw [hn]; have := contains_vPath_append pfx []; simpa using this
  have hQ := query_carried_when_target_has_none t req hc
  have hS := scheme_kept t req
  unfold location
  rw [urlString_with_scheme_host _ (by rw [hS]; exact hsch) hhost, hS, hP, hH, hQ]

/-- non-vacuity: `https://$host:8443/a b/$path`, strip, a prepend that needs escaping, a request without raw path
and with a query -/
example :
    let t : RTarget := { url := { scheme := lit "https", host := lit "$host:8443", path := lit "/a b/$path" }, strip := lit "/s", prepend := lit "/p q", code := 302 }
    let req : URL := { host := lit "x.com", path := lit "/s/x y", rawQuery := lit "k=v" }
    location t req = lit "https://x.com:8443/a%20b/p%20q/x%20y?k=v" := by decide

/-! ### self-redirect skip -/

/-- A redirect whose URL has the request's own scheme, host and path is skipped: the loop goes on to the
next matching host as if this host had no route (D18c repaired: the skipped target is dropped). -/
theorem self_redirect_skipped (scheme : Str) (req : URL) (t : RTarget) (rest : List (Option RTarget))
    (hc : t.code ≠ 0) (hs : selfRedirect (buildRedirectURL t req) scheme req = true) :
    lookupLoop scheme req (some t :: rest) = lookupLoop scheme req rest := by
  simp [lookupLoop, hc, hs]

/-- …in favour of the next matching host: hosts without a matching route are passed over, and the first
plain target found is the one the request is proxied to. -/
theorem self_redirect_next_host_wins (scheme : Str) (req : URL) (t t2 : RTarget) (n : Nat) (rest : List (Option RTarget))
    (hc : t.code ≠ 0) (hs : selfRedirect (buildRedirectURL t req) scheme req = true) (h2 : t2.code = 0) :
    lookup scheme req (some t :: (List.replicate n none ++ some t2 :: rest)) = some (t2, none) := by
  unfold lookup
  rw [self_redirect_skipped scheme req t _ hc hs]
  induction n with
  | zero => simp [lookupLoop, h2]
  | succ k ih => simp only [List.replicate_succ, List.cons_append, lookupLoop]; exact ih

/-- a redirect that does not point back at the request is answered at once -/
theorem other_redirect_answered (scheme : Str) (req : URL) (t : RTarget) (rest : List (Option RTarget))
    (hc : t.code ≠ 0) (hs : selfRedirect (buildRedirectURL t req) scheme req = false) :
    lookupLoop scheme req (some t :: rest) = some (t, some (buildRedirectURL t req)) := by
  simp [lookupLoop, hc, hs]

/-- The request's own scheme: `X-Forwarded-Proto` when present, else the connection (D18 repaired). -/
theorem request_scheme (xfp : Str) (tls : Bool) :
    reqScheme xfp tls = if xfp ≠ [] then xfp else if tls then lit "https" else lit "http" := rfl

/-- D18's witness: `route add svc example.com/ https://example.com/ opts "redirect=301"` and a fallback
route; an HTTPS request *without* `X-Forwarded-Proto` is handed to the fallback instead of being
redirected to itself. -/
example :
    let t : RTarget := { url := { scheme := lit "https", host := lit "example.com", path := lit "/" }, code := 301 }
    let up : RTarget := { url := { scheme := lit "http", host := lit "127.0.0.1:3000", path := lit "/" } }
    let req : URL := { host := lit "example.com", path := lit "/" }
    answer (reqScheme [] true) req [some t, some up] = none ∧
    lookup (reqScheme [] true) req [some t, some up] = some (up, none) ∧
    -- over plain HTTP the same route redirects
    answer (reqScheme [] false) req [some t, some up] = some (301, lit "https://example.com/") := by decide

/-! ### the answer depends on the request alone, under every interleaving -/

inductive Step where
  | lookup (i : Nat)   -- request i runs `Table.Lookup`
  | serve (i : Nat)    -- request i reaches the redirect branch of `ServeHTTP`
deriving DecidableEq, Repr

/-- The repaired code: `Lookup` builds the URL on a copy of the target that belongs to the request
(`locals`), `ServeHTTP` reads that copy; the shared target `t` is only read. -/
def runPerRequest (t : RTarget) (reqs : Nat → URL) : List Step → List (Nat × URL) → List (Nat × Str) → List (Nat × Str)
  | [], _, out => out
  | .lookup i :: s, locals, out => runPerRequest t reqs s ((i, buildRedirectURL t (reqs i)) :: locals) out
  | .serve i :: s, locals, out =>
      match locals.lookup i with
      | some u => runPerRequest t reqs s locals (out ++ [(i, hexEscapeNonASCII (urlString u))])
      | none => runPerRequest t reqs s locals out

/-- The code before the repair of D08: one cell on the shared target, written by every lookup. -/
def runSharedCell (t : RTarget) (reqs : Nat → URL) : List Step → Option URL → List (Nat × Str) → List (Nat × Str)
  | [], _, out => out
  | .lookup i :: s, _, out => runSharedCell t reqs s (some (buildRedirectURL t (reqs i))) out
  | .serve i :: s, cell, out =>
      match cell with
      | some u => runSharedCell t reqs s cell (out ++ [(i, hexEscapeNonASCII (urlString u))])
      | none => runSharedCell t reqs s cell out

theorem runPerRequest_inv (t : RTarget) (reqs : Nat → URL) (s : List Step) (locals : List (Nat × URL)) (out : List (Nat × Str))
    (hl : ∀ i u, locals.lookup i = some u → u = buildRedirectURL t (reqs i))
    (ho : ∀ p ∈ out, p.2 = location t (reqs p.1)) :
    ∀ p ∈ runPerRequest t reqs s locals out, p.2 = location t (reqs p.1) := by
  induction s generalizing locals out with
  | nil => simpa [runPerRequest] using ho
  | cons st s ih =>
    cases st with
    | lookup i =>
      simp only [runPerRequest]
      apply ih _ _ _ ho
      intro j u hj
      simp only [List.lookup_cons] at hj
      split at hj
      · rename_i heq; simp only [beq_iff_eq] at heq; cases hj; rw [heq]
      · exact hl j u hj
    | serve i =>
      simp only [runPerRequest]
      split
      · rename_i u hu
        apply ih _ _ hl
        intro p hp
        simp only [List.mem_append, List.mem_singleton] at hp
        rcases hp with hp | rfl
        · exact ho p hp
        · simp [location, hl i u hu]
      · exact ih _ _ hl ho

/-- **Under every interleaving of any number of simultaneous requests on one shared redirect target, each
request is answered with the Location computed from its own request alone.** -/
theorem redirect_depends_only_on_request (t : RTarget) (reqs : Nat → URL) (schedule : List Step) :
    ∀ p ∈ runPerRequest t reqs schedule [] [], p.2 = location t (reqs p.1) :=
  runPerRequest_inv t reqs schedule [] [] (by simp) (by simp)

/-- D08's witness on the pre-repair design: with the shared cell the schedule
lookup₀ lookup₁ serve₀ serve₁ answers request 0 with request 1's path. -/
example :
    let t : RTarget := { url := { scheme := lit "https", host := lit "x.com$path" }, code := 301 }
    let reqs : Nat → URL := fun i => if i = 0 then { host := lit "a.com", path := lit "/zero" } else { host := lit "a.com", path := lit "/one" }
    runSharedCell t reqs [.lookup 0, .lookup 1, .serve 0, .serve 1] none [] = [(0, lit "https://x.com/one"), (1, lit "https://x.com/one")] ∧
    runPerRequest t reqs [.lookup 0, .lookup 1, .serve 0, .serve 1] [] [] = [(0, lit "https://x.com/zero"), (1, lit "https://x.com/one")] := by decide

end Fabio.Props.C13
