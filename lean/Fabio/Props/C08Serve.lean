import Fabio.Model.C08Serve
import Fabio.Props.C08
/-!
C08 — the sentences of the property for **what the upstream receives from `HTTPProxy.ServeHTTP`**, for every
request and every forwarding handler (raw websocket tunnel, `httputil.ReverseProxy` with either flush interval),
not only for `addHeaders` in isolation.

The point that needs proof: the tunnel sends the header map as `addHeaders` left it, the reverse proxy appends
the peer to X-Forwarded-For itself.  `ServeHTTP` picks the tunnel by looking at `Upgrade` *after* `addHeaders`
ran, `addHeaders` decides whether to append by looking at `Upgrade` after its first two statements.
`handler_choice_agrees_with_addHeaders` shows that the two decisions are the same function of the client's
request — provided no configured header is itself called `Upgrade` (forced: `tls_header_named_upgrade_breaks_xff`
is the witness, replayed on the real proxy from `corpus/c08.proxy.jsonl`).
-/
namespace Fabio.Props.C08Serve
open Fabio Fabio.Model.C08 Fabio.Props.C08

/-- The request as `addHeaders` receives it: the request-id header has been set. -/
def withRequestID (cfg : Cfg) (uuid : Str) (r : Req) : Req :=
  { r with headers := if cfg.requestID.isEmpty then r.headers else set cfg.requestID uuid r.headers }

theorem withRequestID_other {cfg : Cfg} {k : Str} (hq : RequestIDKeyFree cfg k) (uuid : Str) (r : Req) :
    entries k (withRequestID cfg uuid r).headers = entries k r.headers := by
  unfold withRequestID
  simp only
  split
  · rfl
  · rename_i hne
    rcases hq with hq | hq
    · simp [hq] at hne
    · exact entries_put_ne (fun e => hq e.symm) _ _

/-- Unfolding of `serveHTTP` on a routed, non-redirected request with a parsable peer address. -/
theorem serveHTTP_forward (cfg : Cfg) (uuid : Str) (t : Route) (r : Req) (ip port : Str)
    (hred : (t.redirectCode != 0 && t.hasRedirectURL) = false)
    (hsplit : splitHostPort r.remoteAddr = some (ip, port)) :
    serveHTTP cfg uuid (some t) r =
      .forward (chooseHandler (addHeadersIP cfg t.strip (withRequestID cfg uuid r) ip))
        (overrideHost t.hostOpt t.targetHost r.host)
        (handlerSends (chooseHandler (addHeadersIP cfg t.strip (withRequestID cfg uuid r) ip)) ip
          (addHeadersIP cfg t.strip (withRequestID cfg uuid r) ip))
        (addResponseHeaders cfg r.tls.isSome []) := by
  simp only [serveHTTP, hred, hsplit, withRequestID]
  rfl

/-- `serveHTTP` forwards exactly what `serve` (the model the D12 theorems are stated about) produces. -/
theorem serveHTTP_serve (cfg : Cfg) (uuid : Str) (t : Route) (r : Req) (ip port : Str)
    (hred : (t.redirectCode != 0 && t.hasRedirectURL) = false)
    (hsplit : splitHostPort r.remoteAddr = some (ip, port)) :
    ∃ u, serve cfg uuid t.hostOpt t.targetHost t.strip r = some u ∧
      serveHTTP cfg uuid (some t) r =
        .forward (chooseHandler u.headers) u.host (handlerSends (chooseHandler u.headers) ip u.headers) u.resp := by
  refine ⟨_, by simp only [serve, addHeaders, hsplit]; rfl, ?_⟩
  rw [serveHTTP_forward cfg uuid t r ip port hred hsplit]
  rfl

/-! ### the exits: nothing is forwarded unless `addHeaders` ran and succeeded -/

theorem no_route_no_forward (cfg : Cfg) (uuid : Str) (r : Req) : serveHTTP cfg uuid none r = .noRoute := rfl

theorem redirect_no_forward (cfg : Cfg) (uuid : Str) (t : Route) (r : Req)
    (hc : t.redirectCode ≠ 0) (hu : t.hasRedirectURL = true) :
    serveHTTP cfg uuid (some t) r = .redirect t.redirectCode := by
  have : (t.redirectCode != 0 && t.hasRedirectURL) = true := by simp [hc, hu]
  simp [serveHTTP, this]

/-- An unparsable `RemoteAddr` ends in the 500 exit on every route that is not a redirect: no handler is
chosen, the upstream is not contacted. -/
theorem bad_peer_no_forward (cfg : Cfg) (uuid : Str) (t : Route) (r : Req)
    (hred : (t.redirectCode != 0 && t.hasRedirectURL) = false) (h : splitHostPort r.remoteAddr = none) :
    serveHTTP cfg uuid (some t) r = .badPeer := by
  simp [serveHTTP, hred, h]

/-- Conversely: whatever is forwarded went through `addHeaders` with the peer address split off `RemoteAddr`. -/
theorem forward_went_through_addHeaders (cfg : Cfg) (uuid : Str) (route : Option Route) (r : Req)
    (k : HandlerKind) (host : Str) (sent resp : Headers)
    (h : serveHTTP cfg uuid route r = .forward k host sent resp) :
    ∃ t ip port, route = some t ∧ splitHostPort r.remoteAddr = some (ip, port) ∧
      sent = handlerSends k ip (addHeadersIP cfg t.strip (withRequestID cfg uuid r) ip) ∧
      k = chooseHandler (addHeadersIP cfg t.strip (withRequestID cfg uuid r) ip) := by
  cases route with
  | none => simp [serveHTTP] at h
  | some t =>
    by_cases hred : (t.redirectCode != 0 && t.hasRedirectURL) = true
    · simp [serveHTTP, hred] at h
    · have hred' : (t.redirectCode != 0 && t.hasRedirectURL) = false := by simpa using hred
      cases hs : splitHostPort r.remoteAddr with
      | none => simp [serveHTTP, hred', hs] at h
      | some p =>
        obtain ⟨ip, port⟩ := p
        rw [serveHTTP_forward cfg uuid t r ip port hred' hs] at h
        injection h with h1 h2 h3 h4
        exact ⟨t, ip, port, rfl, rfl, by rw [← h3, ← h1], h1.symm⟩

/-! ### the handler choice -/

/-- `addHeaders` leaves the `Upgrade` header alone (no configured header is called `Upgrade`). -/
theorem addHeaders_upgrade_untouched (cfg : Cfg) (strip : Str) (r : Req) (ip : Str)
    (hc : ClientIPKeyFree cfg upgrade) (ht : TLSKeyFree cfg upgrade) :
    entries upgrade (addHeadersIP cfg strip r ip) = entries upgrade r.headers := by
  rw [addHeadersIP_entries (by decide)]
  unfold addHeadersCore
  rw [stepTLS_other ht, stepForward_other (by decide) (by decide) (by decide) (by decide) (by decide),
    stepWS_other (by decide), stepRealIp_other (by decide), stepClientIP_other hc]

/-- **The tunnel is chosen exactly for the requests on which `addHeaders` took its websocket branch**: both
are `isWebsocket` of the request `addHeaders` was handed. -/
theorem handler_choice_agrees_with_addHeaders (cfg : Cfg) (strip : Str) (r : Req) (ip : Str)
    (hc : ClientIPKeyFree cfg upgrade) (ht : TLSKeyFree cfg upgrade) :
    (chooseHandler (addHeadersIP cfg strip r ip) = .tunnel) ↔ isWebsocket r.headers = true := by
  have e : isWebsocket (addHeadersIP cfg strip r ip) = isWebsocket r.headers := by
    unfold isWebsocket; rw [get1_congr (addHeaders_upgrade_untouched cfg strip r ip hc ht)]
  unfold chooseHandler
  rw [e]
  cases isWebsocket r.headers
  · simp only [Bool.false_eq_true, if_false, iff_false]
    split <;> simp
  · simp

/-- When the request is not a websocket upgrade `addHeaders` passes X-Forwarded-For on as it came. -/
theorem addHeaders_xff_untouched_when_not_ws (cfg : Cfg) (strip : Str) (r : Req) (ip : Str)
    (hws : isWebsocket r.headers = false)
    (hcu : ClientIPKeyFree cfg upgrade) (hcx : ClientIPKeyFree cfg xForwardedFor) (ht : TLSKeyFree cfg xForwardedFor) :
    entries xForwardedFor (addHeadersIP cfg strip r ip) = entries xForwardedFor r.headers := by
  have e2u : entries upgrade (stepRealIp ip (stepClientIP cfg ip r.headers)) = entries upgrade r.headers := by
    rw [stepRealIp_other (by decide), stepClientIP_other hcu]
  have hws2 : isWebsocket (stepRealIp ip (stepClientIP cfg ip r.headers)) = false := by
    unfold isWebsocket at hws ⊢; rw [get1_congr e2u]; exact hws
  rw [addHeadersIP_entries (by decide)]
  unfold addHeadersCore
  rw [stepTLS_other ht, stepForward_other (by decide) (by decide) (by decide) (by decide) (by decide)]
  unfold stepWS
  rw [hws2]
  simp only [Bool.false_eq_true, if_false]
  rw [stepRealIp_other (by decide), stepClientIP_other hcx]

/-! ### the sentences, for what the upstream receives -/

/-- **The upstream always learns the real peer address: it is the last element of X-Forwarded-For** — for
every routed request with a parsable peer address, websocket upgrade or not, whatever handler forwards it and
whatever X-Forwarded-For, Upgrade (any casing, list, repeated lines) and Connection headers the client sent.
Hypotheses: no configured header name is `Upgrade` or `X-Forwarded-For` (forced, see the witness below; as
client-IP header `X-Forwarded-For` is exempt by the code and allowed here); the X-Forwarded-For slice is not an
explicit nil (unreachable from the wire: "omit" convention of `net/http/httputil`); the peer address has the
shape of an address (no comma, no leading blank). `httputil.ReverseProxy` is the stated assumption
`Model.C08.reverseProxy`. -/
theorem upstream_xff_last_is_peer (cfg : Cfg) (uuid : Str) (t : Route) (r : Req) (ip port : Str)
    (hred : (t.redirectCode != 0 && t.hasRedirectURL) = false)
    (hsplit : splitHostPort r.remoteAddr = some (ip, port))
    (hcu : ClientIPKeyFree cfg upgrade) (htu : TLSKeyFree cfg upgrade)
    (hcx : ClientIPKeyFree cfg xForwardedFor) (htx : TLSKeyFree cfg xForwardedFor) (hqx : RequestIDKeyFree cfg xForwardedFor)
    (hnil : vals xForwardedFor r.headers ≠ some [])
    (hc : ',' ∉ ip) (hs : ip.head? ≠ some ' ') :
    ∃ k host sent resp v, serveHTTP cfg uuid (some t) r = .forward k host sent resp ∧
      entries xForwardedFor sent = [(xForwardedFor, [v])] ∧ lastElem v = ip := by
  rw [serveHTTP_forward cfg uuid t r ip port hred hsplit]
  have hnil' : vals xForwardedFor (withRequestID cfg uuid r).headers ≠ some [] := by
    rw [vals_congr (withRequestID_other hqx uuid r)]; exact hnil
  cases hws : isWebsocket (withRequestID cfg uuid r).headers with
  | true =>
    have hk := (handler_choice_agrees_with_addHeaders cfg t.strip (withRequestID cfg uuid r) ip hcu htu).2 hws
    obtain ⟨v, hv, hl⟩ := xff_last_is_peer cfg t.strip (withRequestID cfg uuid r) ip hws hcu hcx htx hnil' hc hs
    exact ⟨_, _, _, _, v, rfl, by rw [hk]; exact hv, hl⟩
  | false =>
    have hk : chooseHandler (addHeadersIP cfg t.strip (withRequestID cfg uuid r) ip) ≠ .tunnel := by
      intro e
      have := (handler_choice_agrees_with_addHeaders cfg t.strip (withRequestID cfg uuid r) ip hcu htu).1 e
      rw [hws] at this; cases this
    have hsend : handlerSends (chooseHandler (addHeadersIP cfg t.strip (withRequestID cfg uuid r) ip)) ip
        (addHeadersIP cfg t.strip (withRequestID cfg uuid r) ip)
        = reverseProxy ip (addHeadersIP cfg t.strip (withRequestID cfg uuid r) ip) := by
      cases hck : chooseHandler (addHeadersIP cfg t.strip (withRequestID cfg uuid r) ip) with
      | tunnel => exact absurd hck hk
      | sse => rfl
      | proxy => rfl
    have hnil2 : vals xForwardedFor (removeHopByHop (addHeadersIP cfg t.strip (withRequestID cfg uuid r) ip)) ≠ some [] := by
      rw [vals_congr (xff_chain_survives_connection_tokens cfg t.strip (withRequestID cfg uuid r) ip),
        vals_congr (addHeaders_xff_untouched_when_not_ws cfg t.strip (withRequestID cfg uuid r) ip hws hcu hcx htx)]
      exact hnil'
    obtain ⟨v, hv, hl⟩ := xff_last_is_peer_after_reverseProxy ip _ hnil2 hc hs
    exact ⟨_, _, _, _, v, rfl, by rw [hsend]; exact hv, hl⟩

/-- **Every other header of this property reaches the upstream exactly as `addHeaders` left it**, through
every handler and for every `Connection` header the client sent. This carries each sentence proved about
`addHeaders` / `serve` (`Props/C08.lean`) over to what the upstream receives. -/
theorem upstream_managed_as_addHeaders (kind : HandlerKind) (cfg : Cfg) (strip : Str) (r : Req) (ip : Str) (k : Str)
    (hk : k ∈ managedKeys cfg) (hx : k ≠ xForwardedFor) (hf : k ∉ fixedHopByHop) :
    entries k (handlerSends kind ip (addHeadersIP cfg strip r ip)) = entries k (addHeadersIP cfg strip r ip) := by
  cases kind with
  | tunnel => rfl
  | sse => exact managed_headers_survive_connection_tokens cfg strip r ip k hk hx hf
  | proxy => exact managed_headers_survive_connection_tokens cfg strip r ip k hk hx hf

theorem mem_managedKeys_cfg {cfg : Cfg} {n : Str} (hne : n ≠ [])
    (hm : n = cfg.clientIPHeader ∨ n = cfg.tlsHeader ∨ n = cfg.requestID) : canonicalKey n ∈ managedKeys cfg := by
  have he : n.isEmpty = false := by
    cases h : n with
    | nil => exact absurd h hne
    | cons _ _ => rfl
  unfold managedKeys
  apply List.mem_append_right
  apply List.mem_map.mpr
  refine ⟨n, ?_, rfl⟩
  rw [List.mem_filter]
  refine ⟨?_, by simp [he]⟩
  rcases hm with h | h | h <;> simp [h]

/-- **The configured client-IP header the upstream receives is the peer address, once, whatever the client
sent** (forged copies in any casing, a `Connection` header naming it, a websocket upgrade or not). -/
theorem upstream_clientip_is_peer (cfg : Cfg) (uuid : Str) (t : Route) (r : Req) (ip port : Str)
    (hred : (t.redirectCode != 0 && t.hasRedirectURL) = false)
    (hsplit : splitHostPort r.remoteAddr = some (ip, port))
    (hne : cfg.clientIPHeader ≠ []) (hx : cfg.clientIPHeader ≠ xForwardedFor) (hr : cfg.clientIPHeader ≠ xRealIp)
    (hk : canonicalKey cfg.clientIPHeader ∉
      [xRealIp, xForwardedFor, xForwardedProto, xForwardedPort, xForwardedHost, xForwardedPrefix, forwarded, connection])
    (ht : TLSKeyFree cfg (canonicalKey cfg.clientIPHeader)) (hf : canonicalKey cfg.clientIPHeader ∉ fixedHopByHop) :
    ∃ k host sent resp, serveHTTP cfg uuid (some t) r = .forward k host sent resp ∧
      entries (canonicalKey cfg.clientIPHeader) sent = [(canonicalKey cfg.clientIPHeader, [ip])] := by
  rw [serveHTTP_forward cfg uuid t r ip port hred hsplit]
  refine ⟨_, _, _, _, rfl, ?_⟩
  have hxf : canonicalKey cfg.clientIPHeader ≠ xForwardedFor := by
    intro e; apply hk; rw [e]; simp
  rw [upstream_managed_as_addHeaders _ cfg t.strip _ ip _ (mem_managedKeys_cfg hne (Or.inl rfl)) hxf hf]
  exact clientip_overwritten cfg t.strip (withRequestID cfg uuid r) ip hne hx hr hk ht

/-- **The configured TLS header reaches the upstream with the configured value exactly when the client
connection used TLS, whatever the client sent**, through every handler. -/
theorem upstream_tls_header_iff_tls (cfg : Cfg) (uuid : Str) (t : Route) (r : Req) (ip port : Str)
    (hred : (t.redirectCode != 0 && t.hasRedirectURL) = false)
    (hsplit : splitHostPort r.remoteAddr = some (ip, port))
    (hne : cfg.tlsHeader ≠ []) (hcn : canonicalKey cfg.tlsHeader ≠ connection)
    (hx : canonicalKey cfg.tlsHeader ≠ xForwardedFor) (hf : canonicalKey cfg.tlsHeader ∉ fixedHopByHop) :
    ∃ k host sent resp, serveHTTP cfg uuid (some t) r = .forward k host sent resp ∧
      (r.tls.isSome = true → entries (canonicalKey cfg.tlsHeader) sent = [(canonicalKey cfg.tlsHeader, [cfg.tlsHeaderValue])]) ∧
      (r.tls.isSome = false → entries (canonicalKey cfg.tlsHeader) sent = []) := by
  rw [serveHTTP_forward cfg uuid t r ip port hred hsplit]
  refine ⟨_, _, _, _, rfl, ?_⟩
  rw [upstream_managed_as_addHeaders _ cfg t.strip _ ip _ (mem_managedKeys_cfg hne (Or.inr (Or.inl rfl))) hx hf]
  exact tls_header_iff_tls cfg t.strip (withRequestID cfg uuid r) ip hne hcn

/-- **X-Real-Ip at the upstream**: the peer unless the client sent a non-empty one, through every handler. -/
theorem upstream_xrealip (cfg : Cfg) (uuid : Str) (t : Route) (r : Req) (ip port : Str)
    (hred : (t.redirectCode != 0 && t.hasRedirectURL) = false)
    (hsplit : splitHostPort r.remoteAddr = some (ip, port))
    (hc : ClientIPKeyFree cfg xRealIp) (ht : TLSKeyFree cfg xRealIp) (hq : RequestIDKeyFree cfg xRealIp) :
    ∃ k host sent resp, serveHTTP cfg uuid (some t) r = .forward k host sent resp ∧
      (get1 xRealIp r.headers = [] → entries xRealIp sent = [(xRealIp, [ip])]) ∧
      (get1 xRealIp r.headers ≠ [] → entries xRealIp sent = entries xRealIp r.headers) := by
  rw [serveHTTP_forward cfg uuid t r ip port hred hsplit]
  refine ⟨_, _, _, _, rfl, ?_⟩
  rw [upstream_managed_as_addHeaders _ cfg t.strip _ ip xRealIp (by simp [managedKeys]) (by decide) (by decide)]
  have e := withRequestID_other hq uuid r
  have := xrealip_unless_sent cfg t.strip (withRequestID cfg uuid r) ip hc ht
  rw [get1_congr e, e] at this
  exact this

/-- Bridge to the theorems stated about `serve` (`Props/C08.lean`: X-Forwarded-Host / -Port under every `host=`
option, request id, …): what the upstream receives under a managed name other than X-Forwarded-For is what
`serve` computed, and its Host is `serve`'s Host. -/
theorem upstream_as_serve (cfg : Cfg) (uuid : Str) (t : Route) (r : Req) (ip port : Str) (k : Str)
    (hred : (t.redirectCode != 0 && t.hasRedirectURL) = false)
    (hsplit : splitHostPort r.remoteAddr = some (ip, port))
    (hk : k ∈ managedKeys cfg) (hx : k ≠ xForwardedFor) (hf : k ∉ fixedHopByHop) :
    ∃ u kind sent, serve cfg uuid t.hostOpt t.targetHost t.strip r = some u ∧
      serveHTTP cfg uuid (some t) r = .forward kind u.host sent u.resp ∧
      entries k sent = entries k u.headers := by
  refine ⟨_, _, _, by simp only [serve, addHeaders, hsplit]; rfl, serveHTTP_forward cfg uuid t r ip port hred hsplit, ?_⟩
  exact upstream_managed_as_addHeaders _ cfg t.strip (withRequestID cfg uuid r) ip k hk hx hf

/-- **X-Forwarded-Host and X-Forwarded-Port at the upstream describe the host the client asked for, even when
the route rewrites Host** (D12), through every handler: the upstream's Host is the overridden one. -/
theorem upstream_xfhost_xfport (cfg : Cfg) (uuid : Str) (t : Route) (r : Req) (ip port : Str)
    (hred : (t.redirectCode != 0 && t.hasRedirectURL) = false)
    (hsplit : splitHostPort r.remoteAddr = some (ip, port))
    (hxh : get1 xForwardedHost r.headers = []) (hxp : get1 xForwardedPort r.headers = []) (hh : r.host ≠ [])
    (hqh : RequestIDKeyFree cfg xForwardedHost) (hch : ClientIPKeyFree cfg xForwardedHost) (hth : TLSKeyFree cfg xForwardedHost)
    (hqp : RequestIDKeyFree cfg xForwardedPort) (hcp : ClientIPKeyFree cfg xForwardedPort) (htp : TLSKeyFree cfg xForwardedPort) :
    ∃ kind sent resp, serveHTTP cfg uuid (some t) r =
        .forward kind (overrideHost t.hostOpt t.targetHost r.host) sent resp ∧
      entries xForwardedHost sent = [(xForwardedHost, [r.host])] ∧
      entries xForwardedPort sent = [(xForwardedPort, [localPort r.host r.tls.isSome])] := by
  obtain ⟨u1, k1, s1, hs1, hf1, he1⟩ := upstream_as_serve cfg uuid t r ip port xForwardedHost hred hsplit
    (by simp [managedKeys]) (by decide) (by decide)
  obtain ⟨u2, k2, s2, hs2, hf2, he2⟩ := upstream_as_serve cfg uuid t r ip port xForwardedPort hred hsplit
    (by simp [managedKeys]) (by decide) (by decide)
  obtain ⟨u3, hs3, hv3, hh3⟩ := xfhost_is_client_host cfg uuid t.hostOpt t.targetHost t.strip r ip port hsplit hxh hh hqh hch hth
  obtain ⟨u4, hs4, hv4, _⟩ := xfport_from_client_host cfg uuid t.hostOpt t.targetHost t.strip r ip port hsplit hxp hqp hcp htp
  have e13 : u1 = u3 := Option.some.inj (hs1.symm.trans hs3)
  have e24 : u2 = u4 := Option.some.inj (hs2.symm.trans hs4)
  have e12 : u1 = u2 := Option.some.inj (hs1.symm.trans hs2)
  have hsame : Served.forward k1 u1.host s1 u1.resp = Served.forward k2 u2.host s2 u2.resp := hf1.symm.trans hf2
  injection hsame with _ _ hs12 _
  refine ⟨k1, s1, u1.resp, ?_, ?_, ?_⟩
  · rw [hf1, e13, hh3]
  · rw [he1, e13]; exact hv3
  · rw [hs12, he2, e24]; exact hv4

/-- **Strict-Transport-Security reaches the client only on TLS connections**: on a plain connection no exit
and no handler of `ServeHTTP` sends it. -/
theorem client_sts_only_on_tls (cfg : Cfg) (uuid : Str) (route : Option Route) (r : Req) (htls : r.tls = none) :
    clientSTS (serveHTTP cfg uuid route r) = [] := by
  cases route with
  | none => rfl
  | some t =>
    unfold serveHTTP
    simp only
    split
    · rfl
    · split
      · rfl
      · simp only [clientSTS, htls, addResponseHeaders, Option.isSome_none, Bool.false_and]
        split <;> simp [entries]

/-- … and on TLS with a positive max-age every response fabio writes itself carries it once. -/
theorem client_sts_on_tls (cfg : Cfg) (uuid : Str) (t : Route) (r : Req) (ip port : Str)
    (hred : (t.redirectCode != 0 && t.hasRedirectURL) = false)
    (hsplit : splitHostPort r.remoteAddr = some (ip, port))
    (htls : r.tls.isSome = true) (hage : cfg.stsMaxAge > 0) (hws : isWebsocket (withRequestID cfg uuid r).headers = false)
    (hcu : ClientIPKeyFree cfg upgrade) (htu : TLSKeyFree cfg upgrade) :
    clientSTS (serveHTTP cfg uuid (some t) r) = [stsValue cfg] := by
  rw [serveHTTP_forward cfg uuid t r ip port hred hsplit]
  have hk : chooseHandler (addHeadersIP cfg t.strip (withRequestID cfg uuid r) ip) ≠ .tunnel := by
    intro e
    have := (handler_choice_agrees_with_addHeaders cfg t.strip (withRequestID cfg uuid r) ip hcu htu).1 e
    rw [hws] at this; cases this
  have hw : responseWrittenByFabio (chooseHandler (addHeadersIP cfg t.strip (withRequestID cfg uuid r) ip)) = true := by
    cases hck : chooseHandler (addHeadersIP cfg t.strip (withRequestID cfg uuid r) ip) with
    | tunnel => exact absurd hck hk
    | sse => rfl
    | proxy => rfl
  simp only [clientSTS, hw, if_true, addResponseHeaders, htls, hage, Bool.true_and, decide_true, entries_put_self]
  rfl

/-! ### the forced hypothesis: a configured header called `Upgrade` -/

/-- Full statement (not provable): `upstream_xff_last_is_peer` without `TLSKeyFree cfg upgrade`.
Witness of its negation: `proxy.header.tls = Upgrade`, `proxy.header.tls.value = websocket`. On a TLS
connection `addHeaders` does not take its websocket branch (the client sent no Upgrade header), then writes
`Upgrade: websocket` as the TLS header, and `ServeHTTP` picks the tunnel: the upstream gets no
X-Forwarded-For at all. (Replayed on the real proxy: `corpus/c08.proxy.jsonl`, class `config-collision`.) -/
def exUpgradeCfg : Cfg := { tlsHeader := "Upgrade".toList, tlsHeaderValue := "websocket".toList }
def exUpgradeReq : Req :=
  { headers := [], host := "foo.com".toList, remoteAddr := "1.2.3.4:5".toList, tls := some ⟨0x0303, 0xc02f⟩,
    proto := "HTTP/1.1".toList }

theorem tls_header_named_upgrade_breaks_xff :
    splitHostPort exUpgradeReq.remoteAddr = some ("1.2.3.4".toList, "5".toList) ∧
    (match serveHTTP exUpgradeCfg [] (some {}) exUpgradeReq with
     | .forward k _ sent _ => some (k, entries xForwardedFor sent)
     | _ => none) = some (.tunnel, []) := by decide

/-! ### non-vacuity -/

def exRoute : Route := { hostOpt := "up.example".toList, targetHost := "10.0.0.1:9000".toList }

/-- `Upgrade: h2c, websocket` on one line and `Upgrade: h2c` + `Upgrade: websocket` on two: not the tunnel
(neither site treats Upgrade as a list), X-Forwarded-For still ends with the peer — through the reverse proxy. -/
def exListReq : Req :=
  { headers := ofWire [("upgrade".toList, some "h2c, websocket".toList), ("x-forwarded-for".toList, some "6.6.6.6".toList),
                       ("Connection".toList, some "Upgrade, X-Forwarded-For".toList)],
    host := "client.example:8080".toList, remoteAddr := "1.2.3.4:5555".toList, tls := none, proto := "HTTP/1.1".toList }

def sentUnder (o : Served) (k : Str) : Option (List Str) :=
  match o with
  | .forward _ _ sent _ => vals k sent
  | _ => none
def kindOf (o : Served) : Option HandlerKind :=
  match o with
  | .forward k _ _ _ => some k
  | _ => none
def hostOf (o : Served) : Str :=
  match o with
  | .forward _ h _ _ => h
  | _ => []

example : kindOf (serveHTTP exCfg "id".toList (some exRoute) exListReq) = some .proxy := by decide
example : hostOf (serveHTTP exCfg "id".toList (some exRoute) exListReq) = "up.example".toList := by decide
example : sentUnder (serveHTTP exCfg "id".toList (some exRoute) exListReq) xForwardedFor = some ["6.6.6.6, 1.2.3.4".toList] := by decide
example : sentUnder (serveHTTP exCfg "id".toList (some exRoute) exListReq) "X-Client-Ip".toList = some ["1.2.3.4".toList] := by decide

-- a mixed-case websocket upgrade on TLS: the tunnel, X-Forwarded-For written by addHeaders, no HSTS relayed
example : kindOf (serveHTTP exCfg "id".toList (some exRoute) (exReq (some ⟨0x0303, 0xc02f⟩))) = some .tunnel := by decide
example : sentUnder (serveHTTP exCfg "id".toList (some exRoute) (exReq (some ⟨0x0303, 0xc02f⟩))) xForwardedFor
    = some ["9.9.9.9, 1.2.3.4".toList] := by decide
example : sentUnder (serveHTTP exCfg "id".toList (some exRoute) (exReq (some ⟨0x0303, 0xc02f⟩))) "X-Tls".toList
    = some ["on".toList] := by decide
example : clientSTS (serveHTTP exCfg "id".toList (some exRoute) (exReq (some ⟨0x0303, 0xc02f⟩))) = [] := by decide
example : clientSTS (serveHTTP exCfg "id".toList (some exRoute) { exListReq with tls := some ⟨0x0303, 0xc02f⟩ })
    = ["max-age=31536000; includeSubdomains".toList] := by decide
-- server-sent events take the other reverse-proxy handler
example : chooseHandler (ofWire [("accept".toList, some "text/event-stream".toList)]) = .sse := by decide
-- the hypotheses of `upstream_xff_last_is_peer` hold for this configuration and request
example : ClientIPKeyFree exCfg upgrade ∧ TLSKeyFree exCfg upgrade ∧
    ClientIPKeyFree exCfg xForwardedFor ∧ TLSKeyFree exCfg xForwardedFor ∧ RequestIDKeyFree exCfg xForwardedFor :=
  ⟨Or.inr (by decide), Or.inr (by decide), Or.inr (by decide), Or.inr (by decide), Or.inr (by decide)⟩
example : vals xForwardedFor exListReq.headers ≠ some [] := by decide
-- D12 end to end: host=up.example, the upstream is told the client's host and port
example : sentUnder (serveHTTP exCfg "id".toList (some exRoute) exListReq) xForwardedHost = some ["client.example:8080".toList] := by decide
example : sentUnder (serveHTTP exCfg "id".toList (some exRoute) exListReq) xForwardedPort = some ["8080".toList] := by decide
-- exits
example : (match serveHTTP exCfg [] (some { exRoute with redirectCode := 301, hasRedirectURL := true }) exListReq with
    | .redirect c => c | _ => 0) = 301 := by decide
example : (match serveHTTP exCfg [] (some exRoute) { exListReq with remoteAddr := "1.2.3.4".toList } with
    | .badPeer => true | _ => false) = true := by decide

/-! ### informational responses of the upstream do not cost the client its Strict-Transport-Security -/

theorem addResponseHeaders_nil (cfg : Cfg) (tls : Bool) :
    addResponseHeaders cfg tls [] = [] ∨ addResponseHeaders cfg tls [] = [(stsName, [stsValue cfg])] := by
  unfold addResponseHeaders
  split
  · right; rfl
  · left; rfl

/-- **Whatever number of 1xx responses the upstream sends first, the final response carries what `ServeHTTP`
added** (repair `3162882`): `client_sts_only_on_tls` / `client_sts_on_tls` hold for the final response. -/
theorem client_sts_survives_informational (cfg : Cfg) (uuid : Str) (route : Option Route) (r : Req) (n : Nat) :
    clientSTSAfter n (serveHTTP cfg uuid route r) = clientSTS (serveHTTP cfg uuid route r) := by
  cases route with
  | none => rfl
  | some t =>
    unfold serveHTTP
    simp only
    split
    · rfl
    · split
      · rfl
      · simp only [clientSTSAfter, clientSTS, finalResponseHeaders, afterInformational, restoreHeaders]
        rcases addResponseHeaders_nil cfg r.tls.isSome with h | h <;> rw [h] <;> cases n <;> simp [entries, vals]

/-- Witness about the code before the repair (the map as `httputil.ReverseProxy` leaves it, nothing put back):
one 103 response and the client of a TLS listener reads no Strict-Transport-Security. -/
theorem informational_response_dropped_sts :
    (entries stsName (afterInformational 1 (addResponseHeaders exCfg true []))).flatMap (·.2) = [] ∧
    (entries stsName (afterInformational 0 (addResponseHeaders exCfg true []))).flatMap (·.2) = [stsValue exCfg] := by
  decide

example : clientSTSAfter 2 (serveHTTP exCfg "id".toList (some exRoute) { exListReq with tls := some ⟨0x0303, 0xc02f⟩ })
    = ["max-age=31536000; includeSubdomains".toList] := by decide

end Fabio.Props.C08Serve
