import Fabio.Generated.C18
import Fabio.Props.C18
/-!
Obligations over the facts regenerated from `/repo` on every run: the shapes of the code from which the
per-type contracts of `Fabio.Model.C18` were read. `…Events` lists are the calls / channel receives / go
statements of a function body in source order.
-/
namespace Fabio.Props.C18Facts
open Fabio Fabio.Model.C18 Fabio.Generated.C18

def idx (a : String) : List String → Option Nat
  | [] => none
  | x :: xs => if x == a then some 0 else (idx a xs).map (· + 1)

/-- both occur, and the first occurrence of `a` precedes the first occurrence of `b` -/
def before (a b : String) (l : List String) : Bool :=
  match idx a l, idx b l with
  | some i, some j => decide (i < j)
  | _, _ => false

/-- `proxy.Shutdown` installs a fresh empty registry (under the lock, before it starts any goroutine). -/
theorem shutdown_installs_empty_registry :
    shutdownInstallsEmptyRegistry = true ∧ before "mu.Lock" "mu.Unlock" shutdownEvents = true ∧
    before "mu.Unlock" "go" shutdownEvents = true := by decide

/-- One `context.WithTimeout(…, timeout)` per server — `timeout` being the function's parameter — and that
context is what the server's `Shutdown` receives. -/
theorem shutdown_deadline_per_server :
    shutdownOneTimeoutCtxPerServer = true ∧ shutdownTimeoutArg = shutdownParam ∧ shutdownParam ≠ "" ∧
    shutdownPassesCtxToServer = true ∧ before "context.WithTimeout" "srv.Shutdown" shutdownEvents = true := by decide

/-- The fan-out is joined by a WaitGroup: Add before go, Done inside, Wait after. -/
theorem shutdown_waits_for_all :
    before "wg.Add" "go" shutdownEvents = true ∧ shutdownEvents.contains "wg.Done" = true ∧
    before "srv.Shutdown" "wg.Wait" shutdownEvents = true ∧ shutdownEvents.getLast? = some "wg.Wait" := by decide

/-- Every `ListenAndServe*` registers its server through `serve()` before serving. -/
theorem every_listener_registers :
    serveRegisters = true ∧ listenAndServeNotThroughServe = [] ∧ before "mu.Unlock" "srv.Serve" serveEvents = true := by decide

/-- `tcp.Server.Shutdown`: close the listeners, wait for the context, close the connections — and nothing else:
the event list of the body is pinned exactly, so there is no further call, channel receive or `Wait` that
could block after the deadline (the model's tcp contract returns *at* the deadline whatever the handlers are
doing, e.g. a handler still inside `net.DialTimeout`). The two helpers only lock, close and unlock. -/
theorem tcp_shutdown_order :
    before "s.closeListeners" "<-ctx.Done()" tcpShutdownEvents = true ∧
    before "<-ctx.Done()" "s.closeConns" tcpShutdownEvents = true ∧
    tcpCloseListenersEvents.contains "l.Close" = true ∧ tcpCloseConnsEvents.contains "c.Close" = true := by decide

theorem tcp_shutdown_nothing_blocks_after_deadline :
    tcpShutdownEvents = ["s.closeListeners", "<-ctx.Done()", "ctx.Done", "s.closeConns"] ∧
    tcpCloseListenersEvents = ["s.mu.Lock", "l.Close", "s.mu.Unlock"] ∧
    tcpCloseConnsEvents = ["s.mu.Lock", "c.Close", "s.mu.Unlock"] := by decide

/-- `gRPCServer.Shutdown` looks at its context (as shipped it did not: D22) and still stops gracefully first,
with a hard `Stop` for the deadline. -/
theorem grpc_shutdown_uses_ctx :
    grpcShutdownUsesCtx = true ∧ grpcShutdownEvents.contains "s.server.GracefulStop" = true ∧
    grpcShutdownEvents.contains "s.server.Stop" = true ∧
    grpcShutdownEvents.contains ("<-" ++ grpcShutdownParam ++ ".Done()") = true := by decide

/-- `InetAfTCPProxyServer.Shutdown`: outer listener first, children get the caller's context. -/
theorem inetaf_shutdown_order :
    before "tps.Proxy.Close" "sl.s.Shutdown" inetafShutdownEvents = true ∧ inetafChildrenGetCtx = true := by decide

/-- main.go's exit handler: mark shutting down → deregister → grace sleep → `proxy.Shutdown(ShutdownWait)`. -/
theorem exit_handler_order :
    before "atomic.StoreInt32" "registry.Default.DeregisterAll" exitHandlerEvents = true ∧
    before "registry.Default.DeregisterAll" "time.Sleep" exitHandlerEvents = true ∧
    before "time.Sleep" "proxy.Shutdown" exitHandlerEvents = true ∧
    exitHandlerSleepArg = "cfg.Proxy.DeregisterGracePeriod" ∧ exitHandlerShutdownArg = "cfg.Proxy.ShutdownWait" := by decide

/-- Walks the flattened body of the refresh loop: every "listen" must be preceded by a "test" of `shuttingDown`
with no "sleep" in between (a sleep forgets the test: the flag may have been set meanwhile). -/
def guardedAux : Bool → List String → Bool
  | _, [] => true
  | tested, e :: es =>
    if e == "sleep" then guardedAux false es
    else if e == "test" then guardedAux true es
    else if e == "listen" then tested && guardedAux tested es
    else guardedAux tested es

/-- the loop body twice: the second copy is the next iteration (back edge) -/
def guarded (l : List String) : Bool := guardedAux false (l ++ l)

/-- The tcp-dynamic refresher, which starts listeners, stops doing so once shutdown has begun (D30): it looks at
`shuttingDown`, and it does so after it wakes up — on every path through the loop body there is no sleep
between the test and a listen. -/
theorem refresher_stops_on_shutdown :
    refresherStartsListeners = true ∧ refresherLooksAtShuttingDown = true ∧
    refresherLoopEvents.contains "sleep" = true ∧ refresherLoopEvents.contains "listen" = true ∧
    guarded refresherLoopEvents = true := by decide

-- the walker rejects the two orders that lose the flag, and accepts a test right before each listen
example : guarded ["test", "sleep", "listen"] = false := by decide
example : guarded ["sleep", "listen", "test"] = false := by decide
example : guarded ["sleep", "test", "listen", "listen"] = true := by decide
example : guarded ["sleep", "test", "listen", "test", "listen"] = true := by decide

/-- What may be called while the registry lock `mu` is held: the non-blocking `srv.Close()`, map bookkeeping
(`make`, `len`, `delete`), the listener's address, a log line. Anything else — a `Shutdown(ctx)`, a `Wait`, a
channel receive (`<-…`), a `go`, `time.Sleep` — is not in the list and breaks the obligation. -/
def bookkeeping : List String :=
  ["srv.Close", "log.Printf", "delete", "make", "len", "ln.Addr().String", "ln.Addr"]

def onlyBookkeeping (l : List String) : Bool := l.all (fun e => bookkeeping.contains e)

/-- **Tie of the lock assumption** (`Model.C18.lockAcquired`, hypothesis `hlock` of
`shutdown_bounded_from_call`): in every function of proxy/serve.go that takes `mu` — `CloseProxy`, `Close`,
`Shutdown`, `serve` — only bookkeeping happens between `mu.Lock()` and `mu.Unlock()`. -/
theorem registry_lock_only_bookkeeping :
    onlyBookkeeping underLockCloseProxy = true ∧ onlyBookkeeping underLockClose = true ∧
    onlyBookkeeping underLockShutdown = true ∧ onlyBookkeeping underLockServe = true := by decide

example : onlyBookkeeping ["context.WithTimeout", "context.Background", "srv.Shutdown", "cancel", "log.Printf", "delete"] = false := by decide
example : onlyBookkeeping ["srv.Close", "<-done"] = false := by decide

/-- `exit.Listen`: the signal registration is made before the handler runs and stays in force while it runs —
nothing of os/signal is called besides `Notify` (no `signal.Stop`/`Reset`/`Ignore`), so a second SIGTERM/SIGINT
during the drain is swallowed instead of killing the process with the default action. -/
theorem exit_listen_keeps_signals_caught :
    exitListenEvents = ["signal.Notify", "<-sigchan", "<-quit", "handler"] := by decide

/-- The bounded-from-the-call theorem at the contract and the lock discipline read from this tree. -/
theorem shutdown_bounded_from_call_on_this_tree (called wait : Nat) (srvs : List Server) :
    tle (shutdownCalled (if grpcShutdownUsesCtx then .stopsAtDeadline else .ignoresDeadline) called
          (if onlyBookkeeping (underLockCloseProxy ++ underLockClose ++ underLockShutdown ++ underLockServe) then called else called + 1)
          wait srvs) (some (called + wait)) = true := by
  have h1 : grpcShutdownUsesCtx = true := by decide
  have h2 : onlyBookkeeping (underLockCloseProxy ++ underLockClose ++ underLockShutdown ++ underLockServe) = true := by decide
  simp only [h1, h2, if_true]
  exact (Props.C18.shutdown_bounded_from_call Props.C18.repaired_contract_bounded called called wait (Nat.le_refl _) srvs).1

/-- The contract the current tree's `gRPCServer.Shutdown` follows, as far as the AST tells. -/
def codeContract : GrpcContract := if grpcShutdownUsesCtx then .stopsAtDeadline else .ignoresDeadline

/-- The bounded-shutdown theorem instantiated at the contract read from the current tree. -/
theorem shutdown_bounded_on_this_tree (t0 wait : Nat) (srvs : List Server) :
    tle (shutdownReturn codeContract t0 wait srvs) (some (t0 + wait)) = true := by
  have h : codeContract = .stopsAtDeadline := by decide
  rw [h]
  exact Props.C18.shutdown_bounded Props.C18.repaired_contract_bounded t0 wait srvs

end Fabio.Props.C18Facts
